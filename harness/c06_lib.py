"""
Shared pieces of the C06 / C13 harnesses (owned by the C06/C13 builder):

  * wire serialisation of pyiga.vform expression DAGs / variables / forms (twin of
    lean/Pyiga/Model/VFormIO.lean)
  * a type-directed random generator of variational forms over the documented vform grammar
  * the model-free oracle: a small exact evaluator over fractions.Fraction of
      - the *meaning* of a not-yet-finalized form (physical derivatives, measures and normals are
        computed from their defining equations with a random polynomial geometry map), and
      - the finalized program (variables evaluated in the emitted order from a store)
    Builtin functions other than abs are interpreted as fixed polynomial stand-ins (every pass
    treats them as opaque symbols, so value preservation must hold for any interpretation).
"""
import itertools
from fractions import Fraction as Fr

import numpy as np

from .common import frac, plist

OPS = '+-*/'
# literals merely *close* to the values fold_constants treats specially (0, 1, -1), the exact ones, and ordinary ones
NEAR_SPECIAL = [1e-9, -1e-9, 8.854e-12, -8.854e-12, 1e-20, -1e-20, 1 + 1e-6, 1 - 1e-6, -1 + 1e-6, -1 - 1e-6,
                1 + 1e-12, 1 - 1e-12, -1 + 1e-12, -1 - 1e-12, 5e-324, -5e-324, 1e-15, 1 + 2.0 ** -52]
SPECIALS = NEAR_SPECIAL + [0.0, 1.0, -1.0, 2.0, 0.5, -3.0]
# for random pools: no denormals (products of constants would underflow in float, which the exact model/oracle do not mimic)
NEAR_RANDOM = [c for c in NEAR_SPECIAL if abs(c) > 1e-300]
FOLD_POSITIONS = ['x+c', 'c+x', 'x-c', 'c-x', 'c*x', 'x*c', 'x/c', 'c/x', 'c*u*v', 'c**2*x', '(x*c)*(c+x)']


def fold_position(V, pos, c, x):
    """the expression with literal c in the given position next to the non-constant scalar x"""
    C = V.as_expr(c)
    if pos == 'x+c': return x + C
    if pos == 'c+x': return C + x
    if pos == 'x-c': return x - C
    if pos == 'c-x': return C - x
    if pos == 'c*x': return C * x
    if pos == 'x*c': return x * C
    if pos == 'x/c': return x / C
    if pos == 'c/x': return C / x
    if pos == 'c*u*v': return C
    if pos == 'c**2*x': return (C ** 2) * x if abs(c) > 1e-150 or c == 0 else (C ** 1) * x
    return (x * C) * (C + x)
FUNCS = ('abs', 'sqrt', 'exp', 'log', 'sin', 'cos', 'tan')


# ----------------------------------------------------------------------------- serialisation
def _onat(x):
    return '_' if x is None else str(int(x))


def ser_bf(bf):
    return '%s %s %s %d' % (bf.name, _onat(bf.numcomp), _onat(bf.component), int(bf.space))


def ser(e, memo=None):
    """expression tree (DAG expanded) in the wire format"""
    from pyiga import vform as V
    if memo is None:
        memo = {}
    k = id(e)
    if k in memo:
        return memo[k][1]
    t = type(e)
    ch = e.children
    if t is V.ConstExpr:
        s = 'C ' + frac(e.value)
    elif t is V.LiteralVectorExpr:
        s = ' '.join(['LV', str(len(ch))] + [ser(c, memo) for c in ch])
    elif t is V.LiteralMatrixExpr:
        s = ' '.join(['LM', str(e.shape[0]), str(e.shape[1])] + [ser(c, memo) for c in ch])
    elif t is V.VarRefExpr:
        s = 'V %s %s %s %d' % (e.var.name, plist(int(i) for i in e.I), plist(int(d) for d in e.D), 1 if e.parametric else 0)
    elif t is V.NegExpr:
        s = 'N ' + ser(ch[0], memo)
    elif t is V.BuiltinFuncExpr:
        s = 'F %s %s' % (e.funcname, ser(ch[0], memo))
    elif t is V.ScalarOperExpr:
        s = 'S %s %s %s' % (e.oper, ser(ch[0], memo), ser(ch[1], memo))
    elif t is V.TensorOperExpr:
        s = 'T %s %s %s' % (e.oper, ser(ch[0], memo), ser(ch[1], memo))
    elif t is V.VectorCrossExpr:
        s = 'X %s %s' % (ser(ch[0], memo), ser(ch[1], memo))
    elif t is V.OuterProdExpr:
        s = 'O %s %s' % (ser(ch[0], memo), ser(ch[1], memo))
    elif t is V.PartialDerivExpr:
        s = 'P %s %s %d' % (ser_bf(e.basisfun), plist(int(d) for d in e.D), 1 if e.physical else 0)
    elif t is V.MatVecExpr:
        s = 'MV %s %s' % (ser(ch[0], memo), ser(ch[1], memo))
    elif t is V.MatMatExpr:
        s = 'MM %s %s' % (ser(ch[0], memo), ser(ch[1], memo))
    elif t is V.GaussWeightExpr:
        s = 'G %d' % e.axis
    elif t is V.VolumeMeasureExpr:
        s = 'DX'
    elif t is V.SurfaceMeasureExpr:
        s = 'DS'
    else:
        raise TypeError('unknown expression class %s' % t.__name__)
    memo[k] = (e, s)     # keep e alive so that id() stays unique
    return s


def ser_input(f):
    return '%s %s %d %d' % (f.name, plist(int(s) for s in f.shape), 1 if f.physical else 0, 1 if f.updatable else 0)


def ser_param(p):
    return '%s %s' % (p.name, plist(int(s) for s in p.shape))


def ser_var(v, memo=None):
    from pyiga import vform as V
    head = '%s %s %d %s' % (v.name, plist(int(s) for s in v.shape), 1 if v.symmetric else 0, _onat(v.deriv))
    if v.expr is not None:
        return head + ' E ' + ser(v.expr, memo)
    if isinstance(v.src, V.InputField):
        return head + ' I ' + ser_input(v.src)
    if isinstance(v.src, V.Parameter):
        return head + ' R ' + ser_param(v.src)
    raise TypeError('variable %s without expr and with unknown src' % v.name)


def ser_form(vf):
    memo = {}
    return ' '.join([
        str(vf.dim), str(vf.geo_dim), '1' if vf.is_boundary else '0', str(vf.arity), str(int(vf.vec) if vf.vec else 0),
        '1' if vf.spacetime else '0',
        plist(vf.basis_funs or (), ser_bf), plist(vf.inputs, ser_input),
        plist(vf.vars.values(), lambda v: ser_var(v, memo)), plist(vf.exprs, lambda e: ser(e, memo))])


def reachable_vars(vf):
    """expression-defined variables reachable from the kernel expressions, in first-visit order"""
    from pyiga import vform as V
    seen = {}
    for e in vf.all_exprs(type=V.VarRefExpr):
        if e.var.name not in seen:
            seen[e.var.name] = e.var
    return list(seen.values())


def snapshot(vf):
    """(list of (name, serialised expr) for reachable expression variables sorted by name, list of serialised kernel exprs)"""
    memo = {}
    vs = sorted(((v.name, ser(v.expr, memo)) for v in reachable_vars(vf) if v.expr is not None))
    return vs, [ser(e, memo) for e in vf.exprs]


def tree_nodes_postorder(e, out):
    for c in e.children:
        tree_nodes_postorder(c, out)
    out.append(e)


# ----------------------------------------------------------------------------- polynomials
class Poly:
    """multivariate polynomial with Fraction coefficients: {exponent tuple: coeff}"""
    def __init__(self, terms, n):
        self.t = {k: v for k, v in terms.items() if v != 0}
        self.n = n

    @staticmethod
    def random(rng, n, deg, only=None):
        t = {}
        for ex in itertools.product(range(deg + 1), repeat=n):
            if sum(ex) <= deg and (only is None or all(ex[i] == 0 for i in range(n) if i not in only)):
                t[ex] = Fr(int(rng.integers(-3, 4)), int(rng.integers(1, 4)))
        return Poly(t, n)

    def diff(self, k):
        t = {}
        for ex, c in self.t.items():
            if ex[k] > 0:
                e2 = ex[:k] + (ex[k] - 1,) + ex[k + 1:]
                t[e2] = t.get(e2, 0) + c * ex[k]
        return Poly(t, self.n)

    def diffD(self, D):
        p = self
        for k, d in enumerate(D):
            for _ in range(d):
                p = p.diff(k)
        return p

    def __call__(self, pt):
        s = Fr(0)
        for ex, c in self.t.items():
            m = c
            for x, a in zip(pt, ex):
                m *= x ** a
            s += m
        return s


def solve(A, b):
    """exact Gaussian elimination; A list of rows (square), b vector"""
    n = len(A)
    M = [list(r) + [bb] for r, bb in zip(A, b)]
    for c in range(n):
        p = next((r for r in range(c, n) if M[r][c] != 0), None)
        if p is None:
            raise ZeroDivisionError('singular')
        M[c], M[p] = M[p], M[c]
        for r in range(n):
            if r != c and M[r][c] != 0:
                f = M[r][c] / M[c][c]
                M[r] = [a - f * bq for a, bq in zip(M[r], M[c])]
    return [M[i][n] / M[i][i] for i in range(n)]


def det_exact(A):
    n = len(A)
    if n == 0:
        return Fr(1)
    s = Fr(0)
    for perm in itertools.permutations(range(n)):
        sign = 1
        for i in range(n):
            for j in range(i + 1, n):
                if perm[i] > perm[j]:
                    sign = -sign
        p = Fr(sign)
        for i in range(n):
            p *= A[i][perm[i]]
        s += p
    return s


def inv_exact(A):
    n = len(A)
    cols = [solve(A, [Fr(1) if i == j else Fr(0) for i in range(n)]) for j in range(n)]
    return [[cols[j][i] for j in range(n)] for i in range(n)]


def sym_seq(n, i, j):
    if i > j:
        i, j = j, i
    return sum(n - k for k in range(i)) + (j - i)


def fn_standin(name, x):
    if name == 'abs':
        return abs(x)
    k = FUNCS.index(name) if name in FUNCS else 11
    return x * x * Fr(1, 3) + Fr(k + 2, 5) * x + Fr(2 * k + 1, 7)


class Unsupported(Exception):
    """the expression has no meaning in the oracle (e.g. 3rd order physical derivative)"""


class World:
    """random evaluation point, geometry, fields, basis functions and parameters for one form"""
    def __init__(self, vf, rng):
        from pyiga import vform as V
        self.vf = vf
        d, gd = vf.dim, vf.geo_dim
        self.d, self.gd = d, gd
        for _ in range(50):
            self.pt = [Fr(int(rng.integers(-2, 3)), int(rng.integers(1, 4))) for _ in range(d)]
            if vf.spacetime:
                sp = set(range(d - 1))
                self.geo = [Poly.random(rng, d, 2, only=sp) for _ in range(gd - 1)] + [Poly({tuple(1 if i == d - 1 else 0 for i in range(d)): Fr(1)}, d)]
            else:
                self.geo = [Poly.random(rng, d, 2) for _ in range(gd)]
            self.J = [[self.geo[i].diff(j)(self.pt) for j in range(d)] for i in range(gd)]
            if d == gd:
                if det_exact(self.J) != 0:
                    break
            else:
                # surface: need nonzero normal
                if any(det_exact([r for k, r in enumerate(self.J) if k != m]) != 0 for m in range(gd)):
                    break
        self.x = [g(self.pt) for g in self.geo]
        self.gw = [Fr(int(rng.integers(1, 5)), int(rng.integers(1, 4))) for _ in range(d)]
        self.bf = {}
        for bf in (vf.basis_funs or ()):
            self.bf[bf.name] = Poly.random(rng, d, 3)
        self.fields = {}       # input name -> array of Poly (flattened by index tuple)
        for inp in vf.inputs:
            if inp.name == 'geo':
                self.fields['geo'] = {(i,): self.geo[i] for i in range(gd)}
            else:
                nvar = gd if inp.physical else d
                self.fields[inp.name] = {I: Poly.random(rng, nvar, 3) for I in itertools.product(*[range(s) for s in inp.shape])}
        self.params = {}
        self.rng = rng
        for p in vf.params:
            self.param_values(p)
        self._JinvT = None

    def param_values(self, p):
        """random values of a parameter (created on first use: finalize() may declare new ones)"""
        if p.name not in self.params:
            rng = self.rng
            vals = {I: Fr(int(rng.integers(-3, 4)), int(rng.integers(1, 3))) for I in itertools.product(*[range(s) for s in p.shape])}
            if p.name == 'Jac_to_boundary':
                # the value generated assemblers use: drop one axis
                m, n = p.shape
                ax = int(rng.integers(0, m))
                rows = [k for k in range(m) if k != ax]
                vals = {(i, j): Fr(1 if rows[j] == i else 0) for i in range(m) for j in range(n)}
            if all(v == 0 for v in vals.values()):
                vals[next(iter(vals))] = Fr(1)
            self.params[p.name] = vals
        return self.params[p.name]

    # ---- derivatives of a scalar function given as polynomial in parametric coordinates
    def para(self, p, D):
        return p.diffD(D)(self.pt)

    def phys(self, p, D):
        """physical derivative D of the function p(xi) from the defining chain-rule equations"""
        d = self.d
        order = sum(D)
        if order == 0:
            return p(self.pt)
        if self.d != self.gd:
            raise Unsupported('physical derivative on a surface')
        if self.vf.spacetime:
            Dx = tuple(D[:-1]) + (0,)
            w = p.diffD((0,) * (d - 1) + (D[-1],))
            if sum(Dx) == 0:
                return w(self.pt)
            if sum(Dx) != 1:
                raise Unsupported('higher order space derivative in space-time')
            k = Dx.index(1)
            Jx = [[self.J[i][j] for j in range(d - 1)] for i in range(d - 1)]
            gp = [w.diff(j)(self.pt) for j in range(d - 1)]
            g = solve([[Jx[i][j] for i in range(d - 1)] for j in range(d - 1)], gp)   # Jx^T g = gp
            return g[k]
        JT = [[self.J[i][j] for i in range(d)] for j in range(d)]
        gp = [p.diff(j)(self.pt) for j in range(d)]
        g = solve(JT, gp)
        idx = [k for k, n in enumerate(D) for _ in range(n)]
        if order == 1:
            return g[idx[0]]
        if order == 2:
            Hp = [[p.diff(a).diff(b)(self.pt) for b in range(d)] for a in range(d)]
            for k in range(d):
                for a in range(d):
                    for b in range(d):
                        Hp[a][b] -= g[k] * self.geo[k].diff(a).diff(b)(self.pt)
            # H_para' = J^T H_phys J  ->  H_phys = J^-T H' J^-1
            Ji = inv_exact(self.J)
            i, j = idx
            return sum(Ji[a][i] * Hp[a][b] * Ji[b][j] for a in range(d) for b in range(d))
        raise Unsupported('physical derivative of order %d' % order)

    def field_deriv(self, inp, I, D, parametric):
        p = self.fields[inp.name][tuple(I)]
        if inp.physical:
            if sum(D) == 0:
                return p(self.x)
            if parametric:
                raise Unsupported('parametric derivative of physical field')
            return p.diffD(D)(self.x)
        else:
            return self.para(p, D) if (parametric or sum(D) == 0) else self.phys(p, D)

    # ---- evaluation of an expression: returns Fraction (scalar) / list / list of lists
    def ev(self, e, store=None, memo=None):
        from pyiga import vform as V
        if memo is None:
            memo = {}
        k = id(e)
        if k in memo:
            return memo[k][1]
        r = self._ev(e, store, memo)
        memo[k] = (e, r)
        return r

    def entry(self, e, I, store, memo):
        v = self.ev(e, store, memo)
        for i in I:
            v = v[i]
        return v

    def _ev(self, e, store, memo):
        from pyiga import vform as V
        t = type(e)
        ev = lambda c: self.ev(c, store, memo)
        if t is V.ConstExpr:
            return Fr(e.value)
        if t is V.LiteralVectorExpr:
            return [ev(c) for c in e.children]
        if t is V.LiteralMatrixExpr:
            m, n = e.shape
            return [[ev(e.children[i * n + j]) for j in range(n)] for i in range(m)]
        if t is V.NegExpr:
            return -ev(e.x)
        if t is V.BuiltinFuncExpr:
            return fn_standin(e.funcname, ev(e.x))
        if t is V.ScalarOperExpr or t is V.TensorOperExpr:
            a, b = ev(e.x), ev(e.y)
            return self._binop(e.oper, a, b)
        if t is V.VectorCrossExpr:
            a, b = ev(e.x), ev(e.y)
            return [a[1] * b[2] - a[2] * b[1], a[2] * b[0] - a[0] * b[2], a[0] * b[1] - a[1] * b[0]]
        if t is V.OuterProdExpr:
            a, b = ev(e.x), ev(e.y)
            return [[x * y for y in b] for x in a]
        if t is V.MatVecExpr:
            A, x = ev(e.x), ev(e.y)
            return [sum((A[i][j] * x[j] for j in range(len(x))), Fr(0)) for i in range(len(A))]
        if t is V.MatMatExpr:
            A, B = ev(e.x), ev(e.y)
            return [[sum((A[i][k] * B[k][j] for k in range(len(B))), Fr(0)) for j in range(len(B[0]))] for i in range(len(A))]
        if t is V.GaussWeightExpr:
            return self.gw[e.axis]
        if t is V.VolumeMeasureExpr:
            if self.d != self.gd or self.vf.is_boundary:
                raise Unsupported('dx in a surface form')
            w = Fr(1)
            for g in self.gw:
                w *= g
            return w * abs(det_exact(self.J))
        if t is V.SurfaceMeasureExpr:
            un = self.unscaled_normal()
            w = Fr(1)
            for g in self.gw:
                w *= g
            return w * fn_standin('sqrt', sum((c * c for c in un), Fr(0)))
        if t is V.PartialDerivExpr:
            if e.basisfun.component is not None:
                raise Unsupported('component basis function outside add()')
            p = self.bf[e.basisfun.name]
            return self.phys(p, e.D) if e.physical else self.para(p, e.D)
        if t is V.VarRefExpr:
            var = e.var
            if var.expr is not None:
                if sum(e.D) != 0:
                    raise Unsupported('derivative of expression variable')
                if store is not None:
                    v = store[var.name]          # KeyError = used before definition
                else:
                    v = self.ev(var.expr, store, memo)
                for i in e.I:
                    v = v[i]
                return v
            if isinstance(var.src, V.Parameter):
                return self.param_values(var.src)[tuple(int(i) for i in e.I)]
            if isinstance(var.src, V.InputField):
                inp = var.src
                I = tuple(int(i) for i in e.I)
                if var.deriv in (0, None):
                    return self.field_deriv(inp, I, tuple(e.D), bool(e.parametric))
                if sum(e.D) != 0:
                    raise Unsupported('derivative of derivative array')
                nI = len(inp.shape)
                base, rest = I[:nI], I[nI:]
                nv = self.d          # arrays of derivatives always have dim entries
                if var.deriv == 1:
                    D = tuple(1 if k == rest[0] else 0 for k in range(nv))
                elif var.deriv == 2:
                    pairs = [(a, b) for a in range(nv) for b in range(a, nv)]
                    a, b = [pq for pq in pairs if sym_seq(nv, *pq) == rest[0]][0]
                    D = [0] * nv
                    D[a] += 1; D[b] += 1
                    D = tuple(D)
                else:
                    raise Unsupported('deriv %r' % var.deriv)
                # derivative arrays are taken in the field's own coordinates
                return self.field_deriv(inp, base, D, parametric=not inp.physical)
            raise Unsupported('variable source')
        raise Unsupported('class ' + t.__name__)

    def _binop(self, op, a, b):
        if isinstance(a, list):
            return [self._binop(op, x, y) for x, y in zip(a, b)]
        if op == '+': return a + b
        if op == '-': return a - b
        if op == '*': return a * b
        if op == '/':
            return a / b
        raise Unsupported('operator ' + op)

    def BJ(self):
        vf = self.vf
        if vf.is_boundary:
            from pyiga import vform as V
            Jtb = self.param_values(V.Parameter('Jac_to_boundary', (self.d, self.d - 1)))
            d = self.d
            return [[sum(self.J[i][k] * Jtb[(k, j)] for k in range(d)) for j in range(d - 1)] for i in range(self.gd)]
        return self.J

    def unscaled_normal(self):
        B = self.BJ()
        if len(B) == 2 and len(B[0]) == 1:
            return [-B[1][0], B[0][0]]
        if len(B) == 3 and len(B[0]) == 2:
            x = [B[i][0] for i in range(3)]; y = [B[i][1] for i in range(3)]
            return [x[1] * y[2] - x[2] * y[1], x[2] * y[0] - x[0] * y[2], x[0] * y[1] - x[1] * y[0]]
        raise Unsupported('normal for Jacobian shape')

    # ---- the finalized program
    def run_program(self, vf):
        """evaluate variables in linear_deps order from a store, then the kernel expressions.
        Mirrors the generated code: precomp vars first (in order), then kernel_deps (in order)."""
        from pyiga import vform as V
        store = {}
        memo = {}
        for phase, vs in (('precomp', vf.precomp), ('kernel', vf.kernel_deps)):
            for var in vs:
                if isinstance(var, V.BasisFun) or var.expr is None or var.name in store:
                    continue
                if phase == 'precomp' and var.scope == V.Scope.BASISFUN:
                    raise KeyError('basis-function variable %s in precompute' % var.name)
                store[var.name] = self.ev(var.expr, store, memo)
        return [self.ev(e, store, memo) for e in vf.exprs]


def flat(v):
    if isinstance(v, list):
        out = []
        for x in v:
            out += flat(x)
        return out
    return [v]


# ----------------------------------------------------------------------------- generator
class FormGen:
    """type-directed random form over the vform grammar; deterministic in `seed`"""
    def __init__(self, seed, small=False):
        self.seed = int(seed)
        self.small = small

    def build(self):
        """returns (vf, description dict); raises on generator-invalid combinations"""
        from pyiga import vform as V
        rng = np.random.default_rng(self.seed)
        self.rng = rng
        r = lambda n: int(rng.integers(0, n))
        dim = [1, 2, 2, 2, 3, 3][r(6)]
        kind = ['vol', 'vol', 'vol', 'vol', 'bnd', 'surf', 'st'][r(7)]
        if kind == 'surf' and dim == 3:
            kind = 'vol'
        if kind == 'bnd' and dim == 1:
            kind = 'vol'
        if kind == 'st' and dim == 1:
            kind = 'vol'
        arity = 1 + r(2)
        geo_dim = dim + 1 if kind == 'surf' else dim
        vf = V.VForm(dim, geo_dim=geo_dim, boundary=(kind == 'bnd'), arity=arity, spacetime=(kind == 'st'))
        self.vf, self.dim, self.kind = vf, dim, kind
        vecmode = r(5) == 0
        comps = (None, None)
        if vecmode:
            nc = [dim, 2, 3][r(3)]
            comps = (nc, nc) if r(3) else ((nc, None) if arity == 2 and False else (nc, nc))
        spaces = (0, r(2)) if r(4) == 0 else (0, 0)
        bfs = vf.basisfuns(components=comps[:2], spaces=spaces)
        self.bfs = (bfs,) if arity == 1 else tuple(bfs)
        self.vec = vecmode
        # inputs and parameters
        self.sc_in, self.vec_in, self.mat_in = [], [], []
        gd = geo_dim
        for name in ['f', 'g'][: r(3)]:
            self.sc_in.append((vf.input(name, physical=bool(r(2)) and kind != 'surf', updatable=bool(r(3) == 0)), name))
        if r(2):
            self.vec_in.append((vf.input('w', shape=(dim,), physical=bool(r(3) == 0) and kind != 'surf'), 'w'))
        if r(3) == 0:
            self.mat_in.append((vf.input('K', shape=(dim, dim), physical=False), 'K'))
        self.sc_par, self.vec_par, self.mat_par = [], [], []
        if r(2):
            self.sc_par.append(vf.parameter('c'))
        if r(3) == 0:
            self.vec_par.append(vf.parameter('a', shape=(dim,)))
        if r(3) == 0:
            self.mat_par.append(vf.parameter('M', shape=(dim, dim)))
        self.physical_ok = (kind != 'surf')
        depth = 2 if self.small else 3
        nterms = 1 + r(2)
        total = None
        for _ in range(nterms):
            term = self.integrand(depth)
            total = term if total is None else (total + term if r(2) else total - term)
        meas = V.ds if kind in ('surf', 'bnd') else V.dx
        if r(6) == 0 and kind == 'vol':
            e = total * vf.GaussWeight       # raw Gauss weights instead of a measure
        else:
            e = total * meas
        vf.add(e)
        if r(5) == 0:
            vf.add(self.integrand(2) * meas)
        return vf, {'seed': self.seed, 'dim': dim, 'kind': kind, 'arity': arity, 'vec': bool(vecmode)}

    # --- pieces
    def r(self, n):
        return int(self.rng.integers(0, n))

    def const(self):
        if self.r(6) == 0:
            return NEAR_RANDOM[self.r(len(NEAR_RANDOM))]
        return [0.0, 1.0, -1.0, 2.0, 0.5, 3.0, -2.0, 0.25, 4.0, -0.5][self.r(10)]

    def dparam(self):
        """parametric flag for a derivative"""
        if not self.physical_ok:
            return True
        return self.r(4) == 0

    def bf_scalar(self, which=None):
        """a scalar built from one basis function (value or derivative, or a vector component)"""
        from pyiga import vform as V
        b = self.bfs[self.r(len(self.bfs)) if which is None else which]
        if not b.is_scalar():
            c = self.r(6)
            if c == 0:
                return V.div(b, parametric=self.dparam()) if len(b) == self.dim else b[self.r(len(b))]
            if c == 1:
                return V.grad(b, parametric=self.dparam())[self.r(len(b)), self.r(len(self.vf.spacedims))]
            return b[self.r(len(b))]
        c = self.r(8)
        nsd = len(self.vf.spacedims)
        if c <= 2:
            return b
        if c <= 4:
            return V.Dx(b, self.r(nsd), parametric=self.dparam())
        if c == 5:
            return V.grad(b, parametric=self.dparam())[self.r(nsd)]
        if c == 6 and self.kind != 'st':
            return V.hess(b, parametric=self.dparam())[self.r(self.dim), self.r(self.dim)]
        if c == 7 and self.kind == 'st':
            return b.dt(1 + self.r(2))
        return b

    def field_scalar(self, depth):
        from pyiga import vform as V
        vf = self.vf
        cands = []
        for (f, name) in self.sc_in:
            cands.append(lambda f=f: f)
            inp = [i for i in vf.inputs if i.name == name][0]
            if self.kind != 'st':
                if inp.physical:
                    cands.append(lambda f=f: V.Dx(f, self.r(self.dim)))                      # physical deriv of physical field
                    cands.append(lambda f=f: V.hess(f)[self.r(self.dim), self.r(self.dim)])
                else:
                    cands.append(lambda f=f: V.Dx(f, self.r(self.dim), parametric=self.dparam()))
                    cands.append(lambda f=f: V.hess(f, parametric=self.dparam())[self.r(self.dim), self.r(self.dim)])
        for (w, name) in self.vec_in:
            cands.append(lambda w=w: w[self.r(self.dim)])
            inp = [i for i in vf.inputs if i.name == name][0]
            if self.kind != 'st':
                if inp.physical:
                    cands.append(lambda w=w: V.div(w))
                else:
                    cands.append(lambda w=w: V.div(w, parametric=self.dparam()))
                    cands.append(lambda w=w: V.grad(w, parametric=True)[self.r(self.dim), self.r(self.dim)])
        for (K, name) in self.mat_in:
            cands.append(lambda K=K: K[self.r(self.dim), self.r(self.dim)])
            cands.append(lambda K=K: V.tr(K))
            cands.append(lambda K=K: V.det(K))
        for c in self.sc_par:
            cands.append(lambda c=c: c)
        for a in self.vec_par:
            cands.append(lambda a=a: a[self.r(self.dim)])
        for M in self.mat_par:
            cands.append(lambda M=M: M[self.r(self.dim), self.r(self.dim)])
            cands.append(lambda M=M: V.det(M))
        cands.append(lambda: vf.Geo[self.r(vf.geo_dim)])
        cands.append(lambda: V.as_expr(self.const()))
        if self.kind in ('surf', 'bnd') and self.r(3) == 0:
            cands.append(lambda: vf.normal[self.r(vf.geo_dim)])
        if self.kind == 'vol' and self.r(4) == 0:
            cands.append(lambda: vf.JacInv[self.r(self.dim), self.r(self.dim)])
            cands.append(lambda: V.det(vf.Jac))
        return cands[self.r(len(cands))]()

    def vector(self, depth):
        """a dim-vector not involving basis functions"""
        from pyiga import vform as V
        vf = self.vf
        c = self.r(7)
        if c == 0 and self.vec_in:
            return self.vec_in[0][0]
        if c == 1 and self.vec_par:
            return self.vec_par[0]
        if c == 2 and self.mat_in and depth > 0:
            return V.dot(self.mat_in[0][0], self.vector(depth - 1))
        if c == 3 and self.mat_par and depth > 0:
            return V.dot(self.mat_par[0].T if self.r(2) else self.mat_par[0], self.vector(depth - 1))
        if c == 4 and self.dim == 3 and depth > 0:
            return V.cross(self.vector(depth - 1), self.vector(depth - 1))
        if c == 5 and depth > 0:
            return self.scalar(depth - 1) * self.vector(depth - 1)
        if c == 6 and depth > 0:
            return self.vector(depth - 1) + self.vector(depth - 1)
        return V.as_vector([self.scalar(0) for _ in range(self.dim)])

    def matrix(self, depth):
        from pyiga import vform as V
        c = self.r(6)
        if c == 0 and self.mat_in:
            return self.mat_in[0][0]
        if c == 1 and self.mat_par:
            return self.mat_par[0]
        if c == 2 and depth > 0:
            return V.outer(self.vector(depth - 1), self.vector(depth - 1))
        if c == 3 and depth > 0 and self.dim <= 2:
            return V.inv(self.matrix(depth - 1))
        if c == 4 and depth > 0:
            return V.dot(self.matrix(depth - 1), self.matrix(depth - 1).T)
        if c == 5 and depth > 0:
            return self.matrix(depth - 1) - self.scalar(0) * self.matrix(depth - 1)
        return V.as_matrix([[self.scalar(0) for _ in range(self.dim)] for _ in range(self.dim)])

    def scalar(self, depth):
        """scalar coefficient expression without basis functions"""
        from pyiga import vform as V
        if depth <= 0:
            return self.field_scalar(0)
        c = self.r(14)
        if c <= 2:
            return self.field_scalar(depth)
        if c == 3:
            return self.scalar(depth - 1) + self.scalar(depth - 1)
        if c == 4:
            return self.scalar(depth - 1) - self.scalar(depth - 1)
        if c == 5:
            return self.scalar(depth - 1) * self.scalar(depth - 1)
        if c == 6:
            den = self.scalar(depth - 1)
            return self.scalar(depth - 1) / (den * den + 1)
        if c == 7:
            return self.scalar(depth - 1) ** [2, 3, -1, 0, 1, -2][self.r(6)] if self.r(2) else self.scalar(depth - 1) * self.const()
        if c == 8:
            f = [abs, V.sqrt, V.exp, V.log, V.sin, V.cos, V.tan][self.r(7)]
            return f(self.scalar(depth - 1))
        if c == 9:
            return V.inner(self.vector(depth - 1), self.vector(depth - 1))
        if c == 10:
            m = self.matrix(depth - 1)
            return V.tr(m) if self.r(2) else V.det(m)
        if c == 11:
            return -self.scalar(depth - 1)
        if c == 12:
            return V.norm(self.vector(depth - 1))
        return V.inner(self.matrix(depth - 1), self.matrix(depth - 1))

    def integrand(self, depth):
        from pyiga import vform as V
        vf = self.vf
        ar = vf.arity
        c = self.r(8)
        if self.vec:
            u = self.bfs[0]
            v = self.bfs[-1]
            if c <= 1 and len(u) == len(v):
                core = V.inner(u, v)
            elif c == 2 and len(u) == self.dim and len(v) == self.dim and self.kind != 'st':
                p = self.dparam()
                core = V.div(u, parametric=p) * V.div(v, parametric=p)
            elif c == 3 and len(u) == len(v) and self.kind != 'st':
                p = self.dparam()
                core = V.inner(V.grad(u, parametric=p), V.grad(v, parametric=p))
            elif c == 4 and self.dim == 3 and len(u) == 3 and len(v) == 3 and self.physical_ok and self.kind != 'st':
                core = V.inner(V.curl(u), V.curl(v)) if ar == 2 else V.inner(V.curl(u), self.vector(1))
            elif c == 5 and len(u) == self.dim:
                core = V.inner(u, self.vector(1)) * (self.bf_scalar(ar - 1) if ar == 2 else 1.0)
            else:
                core = self.bf_scalar(0) * (self.bf_scalar(1) if ar == 2 else 1.0)
            return self.scalar(depth - 1) * core if self.r(2) else core
        if c <= 2:
            core = self.bf_scalar(0)
            if ar == 2:
                core = core * self.bf_scalar(1)
        elif c == 3 and self.kind != 'st':
            p = self.dparam()
            core = V.inner(V.grad(self.bfs[0], parametric=p), V.grad(self.bfs[-1], parametric=p)) if ar == 2 else \
                V.inner(V.grad(self.bfs[0], parametric=p), self.vector(1))
        elif c == 4 and self.kind != 'st':
            p = self.dparam()
            g = V.grad(self.bfs[0], parametric=p)
            core = V.inner(V.dot(self.matrix(1), g), V.grad(self.bfs[-1], parametric=p)) if ar == 2 else V.inner(g, self.vector(1))
        elif c == 5 and self.kind == 'st':
            u = self.bfs[0]; v = self.bfs[-1]
            core = (V.inner(V.grad(u), V.grad(v)) + u.dt() * v) if ar == 2 else u.dt() + V.inner(V.grad(u), V.grad(u))
        elif c == 6:
            core = (self.bf_scalar(0) + self.const() * self.bf_scalar(0))
            if ar == 2:
                core = core * (self.bf_scalar(1) - self.bf_scalar(1) * self.scalar(1))
        else:
            core = self.bf_scalar(0) * (self.bf_scalar(1) if ar == 2 else self.const())
        k = self.r(3)
        if k == 0:
            return core
        if k == 1:
            return self.scalar(depth - 1) * core
        return core * self.scalar(depth - 1) + self.const() * core


def special_form(k):
    """deterministic corpus part (seed = -1-k): every literal of SPECIALS in every position fold_constants inspects"""
    from pyiga import vform as V
    c = SPECIALS[k % len(SPECIALS)]
    pos = FOLD_POSITIONS[(k // len(SPECIALS)) % len(FOLD_POSITIONS)]
    dim = 1 + (k % 2)
    vf = V.VForm(dim)
    u, v = vf.basisfuns()
    f = vf.input('f')
    vf.add(fold_position(V, pos, c, f) * u * v * V.dx)
    return vf, {'seed': -1 - k, 'dim': dim, 'kind': 'vol', 'arity': 2, 'vec': False, 'literal': repr(c), 'position': pos}


N_SPECIAL_FORMS = len(SPECIALS) * len(FOLD_POSITIONS)


def build_form(seed, small=False):
    """-> (vf, desc) or (None, error kind)"""
    try:
        if seed < 0:
            return special_form(-1 - seed)
        return FormGen(seed, small).build()
    except AssertionError:
        return None, 'AssertionError'
    except Exception as ex:
        return None, type(ex).__name__


def err_kind(ex):
    if isinstance(ex, AssertionError):
        return 'err-assertion'
    return 'err-' + type(ex).__name__
