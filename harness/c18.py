"""
C18 — low-rank tensor formats are faithful to the full tensor they represent (DESIGN.md §6/C18).

tie:      hand-written Lean model Pyiga.Model.Tensor (driver drv_c18) vs pyiga.tensor / pyiga.lowrank
          on the same generated operation sequences / index expressions / matrices; exact diff of the
          canonical outputs (format kind, ranks, shape, every entry of asarray(), error kinds).
theorems: Pyiga.Props.C18.*
oracle:   (model-free, run on EVERY step, not only on disagreement) numpy on the expanded arrays,
          i.e. the property itself: asarray(op(T...)) == op_numpy(asarray(T)...).
numeric:  SVD/QR/ALS based clauses (HOSVD, compress, ACA on float data, grou/gta histories) are
          parameters of the model; they are checked numerically here and labelled as such.
"""
import itertools
import os

import numpy as np

from .common import plist, frac

THEOREMS = ['Pyiga.Props.C18.' + t for t in (
    'faithful_neg', 'faithful_add', 'faithful_sub', 'join_tucker_bases_spec', 'faithful_can_to_tucker',
    'from_tensor_order1_raises', 'asarray_idem', 'faithful_tsum', 'step_faithful', 'faithful_seq_partial', 'aca_cross',
    'truncTrace_shape', 'truncation_budget_partial',
    'squeeze_negative_axis_asCoded_wrong', 'pad_empty_axis_asCoded_raises',
    'faithful_nway_leaf', 'faithful_pad_leaf', 'operator_add', 'operator_neg', 'operator_sub', 'operator_T',
    'generator_getitem', 'faithful_tucker_to_can',
    'gta_extend_orthonormal', 'gta_extend_skip_rule', 'gta_extend_rank_le_size', 'gta_extend_noskip_not_orthonormal',
    'gta_extend_absolute_appends_noise',
    'slice_semantics', 'slice_terms_between', 'normalize_indices_spec', 'faithful_getitem_leaf', 'faithful_squeeze_leaf',
    'truncation_disjoint', 'truncation_budget', 'faithful_truncate', 'faithful_nway', 'faithful_pad', 'faithful_getitem',
    'aca_exact_rank1_partial')]
MODULES = ['Pyiga.Model.Tensor', 'Pyiga.Proofs.TensorBasic', 'Pyiga.Proofs.TensorArith', 'Pyiga.Proofs.TensorOps',
           'Pyiga.Proofs.TensorAdd', 'Pyiga.Proofs.TensorAddSpec', 'Pyiga.Proofs.TensorNway', 'Pyiga.Proofs.TensorPad', 'Pyiga.Proofs.TensorOperator', 'Pyiga.Proofs.TensorGen',
           'Pyiga.Proofs.TensorT2C', 'Pyiga.Proofs.TensorGreedy', 'Pyiga.Proofs.TensorNorm', 'Pyiga.Proofs.TensorSqueeze',
           'Pyiga.Proofs.TensorGetitem', 'Pyiga.Proofs.TensorGetitemT', 'Pyiga.Proofs.TensorTrunc', 'Pyiga.Proofs.TensorTruncate',
           'Pyiga.Proofs.TensorNwayAll', 'Pyiga.Proofs.TensorGetitemAll', 'Pyiga.Props.C18']

SL = 'N'


# ----------------------------------------------------------------------------------------- wire format
def f_mat(M):
    M = np.asarray(M)
    if M.ndim == 1:
        M = M[:, None]
    return '%d %d %s' % (M.shape[0], M.shape[1], plist(M.ravel().tolist(), frac))


def f_full(A):
    A = np.asarray(A, dtype=float)
    return '%s %s' % (plist(A.shape), plist(A.ravel().tolist(), frac))


def f_ten(T):
    from pyiga import tensor
    if isinstance(T, np.ndarray):
        return 'F ' + f_full(T)
    if isinstance(T, tensor.CanonicalTensor):
        return 'C %d %s' % (len(T.Xs), ' '.join(f_mat(X) for X in T.Xs))
    if isinstance(T, tensor.TuckerTensor):
        return 'T %d %s %s' % (len(T.Us), ' '.join(f_mat(U) for U in T.Us), f_full(T.X))
    if isinstance(T, tensor.TensorSum):
        return 'S %d %s' % (len(T.Xs), ' '.join(f_ten(X) for X in T.Xs))
    if isinstance(T, tensor.TensorProd):
        return 'P %d %s' % (len(T.Xs), ' '.join(f_ten(X) for X in T.Xs))
    raise TypeError(type(T))


def f_idx1(ix):
    if isinstance(ix, slice):
        o = lambda v: SL if v is None else str(int(v))
        return 's %s %s %s' % (o(ix.start), o(ix.stop), o(ix.step))
    if isinstance(ix, (list, tuple)):
        return 'l ' + plist([int(v) for v in ix])
    return 'i %d' % int(ix)


def f_idx(I):
    return '%d %s' % (len(I), ' '.join(f_idx1(ix) for ix in I)) if len(I) else '0'


def kind_of(T):
    from pyiga import tensor
    if isinstance(T, np.ndarray):
        return 'F'
    if isinstance(T, tensor.CanonicalTensor):
        return 'C%d' % T.R
    if isinstance(T, tensor.TuckerTensor):
        return 'T' + ','.join(str(int(r)) for r in T.R)
    if isinstance(T, tensor.TensorSum):
        return 'S%d' % len(T.Xs)
    if isinstance(T, tensor.TensorProd):
        return 'P%d' % len(T.Xs)
    return '?' + type(T).__name__


def show_ten(T):
    from pyiga import tensor
    return '%s %s' % (kind_of(T), f_full(tensor.asarray(T)))


def err_token(ex):
    if isinstance(ex, AssertionError):
        return 'err-AssertionError'
    for k in (IndexError, TypeError, ValueError, AttributeError):      # np.AxisError is both Value- and IndexError
        if isinstance(ex, k):
            return 'err-' + k.__name__
    return 'err-' + type(ex).__name__


def is_tensor_obj(R):
    from pyiga import tensor
    return isinstance(R, (np.ndarray, tensor.CanonicalTensor, tensor.TuckerTensor, tensor.TensorSum, tensor.TensorProd)) \
        and not (isinstance(R, np.ndarray) and R.ndim == 0)


# ----------------------------------------------------------------------------------------- generators
def rint(rng, shape, lo=-2, hi=2):
    return rng.integers(lo, hi + 1, size=shape).astype(float)


def rand_shape(rng, d, mx):
    return tuple(int(rng.choice([1, 1, 2, 2, 3, 3, 4][: 3 + mx])) if rng.integers(0, 4) else 1 for _ in range(d))


def rand_can(rng, shape, R=None):
    from pyiga import tensor
    R = int(rng.integers(0, 4)) if R is None else R
    return tensor.CanonicalTensor([rint(rng, (n, R)) for n in shape])


def rand_tucker(rng, shape):
    from pyiga import tensor
    Rs = tuple(int(rng.integers(0 if rng.integers(0, 6) == 0 else 1, 3)) for _ in shape)
    return tensor.TuckerTensor([rint(rng, (n, r)) for n, r in zip(shape, Rs)], rint(rng, Rs))


def rescale(rng, T, mode):
    """power-of-two rescaling (exact in float and in the rational model).  mode ('u', K): the whole tensor is scaled by
    2^K (entries down to ~1e-12 / up to ~1e12); mode ('m', J): mixed magnitudes inside one core / one factor / one
    array: every entry (Canonical: every term) is scaled by 1 or 2^-J."""
    from pyiga import tensor

    def fac(shape):
        if mode[0] == 'u':
            return np.full(shape, 2.0 ** mode[1])
        return np.where(rng.integers(0, 2, size=shape) == 0, 1.0, 2.0 ** -mode[1])
    if isinstance(T, np.ndarray):
        return T * fac(T.shape)
    if isinstance(T, tensor.CanonicalTensor):
        return tensor.CanonicalTensor([T.Xs[0] * fac((1, T.R))] + [X.copy() for X in T.Xs[1:]])
    if isinstance(T, tensor.TuckerTensor):
        return tensor.TuckerTensor([U.copy() for U in T.Us], T.X * fac(T.X.shape))
    if isinstance(T, tensor.TensorSum):
        return tensor.TensorSum(*[rescale(rng, X, mode) for X in T.Xs])
    raise TypeError(type(T))


def rand_tensor(rng, shape, depth=0, allow_prod=True):
    from pyiga import tensor
    k = int(rng.integers(0, 10 if depth == 0 else 6))
    if not allow_prod and k >= 8:
        k = 7
    if k <= 2:
        return rand_can(rng, shape)
    if k <= 5:
        return rand_tucker(rng, shape)
    if k == 6:
        return rint(rng, shape)
    if k == 7 or len(shape) < 2:
        return tensor.TensorSum(*[rand_tensor(rng, shape, depth + 1, allow_prod) for _ in range(int(rng.integers(1, 4)))])
    cut = int(rng.integers(1, len(shape)))
    return tensor.TensorProd(rand_tensor(rng, shape[:cut], depth + 1), rand_tensor(rng, shape[cut:], depth + 1))


def contains_full(T):
    from pyiga import tensor
    if isinstance(T, np.ndarray):
        return True
    if isinstance(T, (tensor.TensorSum, tensor.TensorProd)):
        return any(contains_full(X) for X in T.Xs)
    return False


def has_order1_can(T):
    """mixed Canonical->Tucker conversion of an order-1 tensor is the known finding `tucker-from-order1`"""
    from pyiga import tensor
    return isinstance(T, tensor.CanonicalTensor) and T.ndim == 1


def rand_index1(rng, n, allow_list=True, allow_int=True, bad=0.03):
    k = int(rng.integers(0, 10))
    if k <= 2 and allow_int:
        if rng.random() < bad or n == 0:
            return int(rng.choice([n, -n - 1, n + 2]))
        return int(rng.integers(-n, n))
    if k <= 7 or not allow_list:
        def b():
            return None if rng.integers(0, 3) == 0 else int(rng.integers(-n - 2, n + 3))
        st = None if rng.integers(0, 2) == 0 else int(rng.choice([-3, -2, -1, 1, 2, 3]))
        if rng.random() < bad:
            st = 0
        return slice(b(), b(), st)
    m = int(rng.integers(0, 4))
    if n == 0:
        return [] if rng.random() > bad else [0]
    l = [int(rng.integers(-n, n)) for _ in range(m)]
    if rng.random() < bad:
        l.append(int(rng.choice([n, -n - 1])))
    return l


def rand_index(rng, shape, allow_list=True, allow_int=True):
    d = len(shape)
    L = d if rng.integers(0, 3) else int(rng.integers(0, d + 1))
    if rng.random() < 0.03:
        L = d + 1
    I = [rand_index1(rng, shape[k] if k < d else 1, allow_list, allow_int) for k in range(L)]
    return tuple(I)


# ----------------------------------------------------------------------------------------- numpy oracle
def ix_select(A, I):
    """per-axis (orthogonal) selection with numpy's own int/slice/list semantics; ints are squeezed"""
    d = A.ndim
    if len(I) > d:
        raise IndexError('too many')
    I = tuple(I) + (slice(None),) * (d - len(I))
    idx, sq = [], []
    for k, ix in enumerate(I):
        if isinstance(ix, slice):
            idx.append(np.arange(A.shape[k])[ix])
        elif isinstance(ix, list):
            idx.append(np.arange(A.shape[k])[np.array(ix, dtype=int)])
        else:
            idx.append(np.arange(A.shape[k])[[ix]])
            sq.append(k)
    B = A[np.ix_(*idx)] if d else A
    return np.squeeze(B, axis=tuple(sq)) if sq else B


def dense_nway(ops, A):
    for k, B in enumerate(ops):
        if B is not None:
            A = np.moveaxis(np.tensordot(np.asarray(B), A, axes=(1, k)), 0, k)
    return A


def dense_tucker(Us, X):
    return dense_nway(list(Us), X)


class Skip(Exception):
    pass


# ----------------------------------------------------------------------------------------- sequences
def gen_sequence(ctx, rng, order, nsteps, scale=None):
    """returns (request line, expected answer line, per-step meta, oracle failures).
    scale = None | ('u', K) | ('m', J): see `rescale`; scaled sequences contain no TensorProd (products of mixed
    magnitudes would need more than 53 bits, and the diff is exact)."""
    from pyiga import tensor
    mx = {1: 4, 2: 4, 3: 3, 4: 2}[order]
    shape = rand_shape(rng, order, mx)
    env = []      # list of [obj, dense]
    n0 = int(rng.integers(2, 4))
    for _ in range(n0):
        T = rand_tensor(rng, shape, allow_prod=scale is None)
        if scale is not None:
            T = rescale(rng, T, scale)
        env.append([T, tensor.asarray(T).copy()])
    init = '%d %s' % (len(env), ' '.join(f_ten(T) for T, _ in env))
    ops, outs, metas, fails = [], [], [], []

    def pick(pred=lambda T: True):
        c = [i for i, (T, _) in enumerate(env) if pred(T)]
        if not c:
            raise Skip()
        return int(rng.choice(c))

    OPS = ['neg', 'add', 'add', 'sub', 'sub', 'get', 'get', 'get', 'squeeze', 'nway', 'pad', 'c2t', 't2c', 'trunc',
           'tsum', 'tprod', 'zeros', 'asarr']
    if scale is not None:
        OPS = [o for o in OPS if o != 'tprod'] + ['t2c', 'c2t', 't2c']
    tries = 0
    while len(ops) < nsteps and tries < 60:
        tries += 1
        op = str(rng.choice(OPS))
        try:
            valid = True      # oracle defined: the operation is meaningful on the full tensors
            if op == 'neg':
                a = pick(); T, A = env[a]
                req = 'neg %d' % a; call = lambda: -T; want = lambda: -A
            elif op in ('add', 'sub'):
                a = pick(); T, A = env[a]
                same = [i for i, (U, B) in enumerate(env) if B.shape == A.shape]
                b = int(rng.choice(same)) if rng.random() < 0.93 else pick()
                U, B = env[b]
                if isinstance(T, np.ndarray) and (not isinstance(U, np.ndarray) or A.shape != B.shape):
                    raise Skip()          # ndarray.__add__ (numpy broadcasting) is not pyiga code
                valid = (A.shape == B.shape) and not (
                    isinstance(T, (tensor.CanonicalTensor, tensor.TuckerTensor)) and isinstance(U, (tensor.TensorSum, tensor.TensorProd)))
                req = '%s %d %d' % (op, a, b)
                call = (lambda: T + U) if op == 'add' else (lambda: T - U)
                want = (lambda: A + B) if op == 'add' else (lambda: A - B)
            elif op == 'get':
                a = pick(); T, A = env[a]
                cf = contains_full(T)
                I = rand_index(rng, A.shape, allow_list=True, allow_int=True)
                if cf:
                    nl = sum(isinstance(i, list) for i in I); ni = sum(isinstance(i, (int, np.integer)) for i in I)
                    if nl > 1 or (nl == 1 and ni > 0):
                        raise Skip()
                    nbad = 0
                    for k, ix in enumerate(I[:A.ndim]):
                        try:
                            np.arange(A.shape[k])[ix]
                        except Exception:
                            nbad += 1
                    if nbad > 1:
                        raise Skip()      # numpy's precedence among several malformed components is not pyiga code
                if rng.integers(0, 6) == 0 and len(I) == 1:
                    Ipy = I[0]          # non-tuple form T[i]
                else:
                    Ipy = I
                req = 'get %d %s' % (a, f_idx(I))
                call = lambda: T[Ipy]
                want = lambda: ix_select(A, I)
                try:
                    want()
                except Exception:
                    valid = False
            elif op == 'squeeze':
                a = pick(lambda T: not isinstance(T, np.ndarray)); T, A = env[a]
                d = A.ndim
                ones = [k for k in range(d) if A.shape[k] == 1]
                r = rng.random()
                if r < 0.4:
                    ax = None
                elif r < 0.85 and ones:
                    m = int(rng.integers(1, len(ones) + 1))
                    ax = tuple(int(x) - (d if rng.integers(0, 3) == 0 else 0) for x in rng.permutation(ones)[:m])
                    if len(ax) == 1 and rng.integers(0, 2):
                        ax = ax[0]
                elif r < 0.95:
                    ax = int(rng.integers(-d, d))
                else:
                    ax = int(rng.choice([d, d + 1, -d - 1]))
                axl = None if ax is None else ([ax] if np.isscalar(ax) else list(ax))
                req = 'squeeze %d %s' % (a, 'N' if axl is None else plist(axl))
                call = lambda: T.squeeze(axis=ax)
                want = lambda: np.squeeze(A, axis=None if ax is None else tuple(axl))
                valid = isinstance(T, (tensor.CanonicalTensor, tensor.TuckerTensor))
                try:
                    want()
                except Exception:
                    valid = False
            elif op == 'nway':
                a = pick(); T, A = env[a]
                d = A.ndim
                L = d if rng.integers(0, 3) else int(rng.integers(0, d + 1))
                if rng.random() < 0.03 and not contains_full(T):
                    L = d + 1
                Bs = []
                for k in range(L):
                    if rng.integers(0, 3) == 0:
                        Bs.append(None)
                    else:
                        nk = A.shape[k] if k < d else 1
                        if rng.random() < 0.03:
                            nk += 1
                        Bs.append(rint(rng, (int(rng.integers(1, 4)), nk), -1, 1))
                req = 'nway %d %d %s' % (a, L, ' '.join('N' if B is None else 'M ' + f_mat(B) for B in Bs))
                call = lambda: tensor.apply_tprod(Bs, T)
                want = lambda: dense_nway(Bs, A)
                valid = L <= d and all(B is None or B.shape[1] == A.shape[k] for k, B in enumerate(Bs))
            elif op == 'pad':
                a = pick(); T, A = env[a]
                d = A.ndim
                pw = [None if rng.integers(0, 3) == 0 else (int(rng.integers(0, 3)), int(rng.integers(0, 3))) for _ in range(d)]
                if rng.random() < 0.03:
                    pw = pw[:-1]
                req = 'pad %d %d %s' % (a, len(pw), ' '.join('N' if p is None else '%d %d' % p for p in pw))
                call = lambda: tensor.pad(T, pw)
                want = lambda: np.pad(A, [(0, 0) if p is None else p for p in pw])
                valid = len(pw) == d
            elif op == 'c2t':
                a = pick(); T, A = env[a]
                req = 'c2t %d' % a
                call = lambda: tensor.TuckerTensor.from_tensor(T); want = lambda: A
            elif op == 't2c':
                a = pick(lambda T: isinstance(T, tensor.TuckerTensor) or rng.random() < 0.05); T, A = env[a]
                req = 't2c %d' % a
                call = lambda: tensor.CanonicalTensor.from_tensor(T); want = lambda: A
                valid = isinstance(T, tensor.TuckerTensor)
            elif op == 'trunc':
                a = pick(lambda T: isinstance(T, tensor.TuckerTensor) or rng.random() < 0.03); T, A = env[a]
                if isinstance(T, tensor.TuckerTensor):
                    k = tuple(int(rng.integers(0, r + 2)) for r in T.R)
                    if rng.random() < 0.03:
                        k = k[:-1]
                    if rng.integers(0, 5) == 0 and len(set(k)) == 1 and len(k) == T.ndim:
                        kpy = k[0]
                    else:
                        kpy = k
                    valid = len(k) == T.ndim
                    want = lambda: dense_tucker([U[:, :ki] for U, ki in zip(T.Us, k)], T.X[tuple(slice(None, ki) for ki in k)])
                else:
                    k = tuple(1 for _ in A.shape); kpy = k; valid = False; want = lambda: A
                req = 'trunc %d %s' % (a, plist(k))
                call = lambda: T.truncate(kpy)
            elif op == 'tsum':
                a = pick(); T, A = env[a]
                same = [i for i, (U, B) in enumerate(env) if B.shape == A.shape]
                m = int(rng.integers(1, 4))
                refs = [a] + [int(rng.choice(same)) if rng.random() < 0.95 else pick() for _ in range(m - 1)]
                req = 'tsum %s' % plist(refs)
                call = lambda: tensor.TensorSum(*[env[r][0] for r in refs])
                valid = all(env[r][1].shape == A.shape for r in refs)
                want = lambda: sum(env[r][1] for r in refs[1:]) + A
            elif op == 'tprod':
                m = int(rng.integers(1, 3))
                refs = [pick() for _ in range(m)]
                if sum(env[r][1].ndim for r in refs) > 4 or np.prod([env[r][1].size for r in refs]) > 300:
                    raise Skip()
                req = 'tprod %s' % plist(refs)
                call = lambda: tensor.TensorProd(*[env[r][0] for r in refs])
                want = lambda: tensor.array_outer(*[env[r][1] for r in refs])
            elif op == 'zeros':
                which = str(rng.choice(['czeros', 'cones', 'tzeros', 'tones']))
                req = '%s %s' % (which, plist(shape))
                cls = tensor.CanonicalTensor if which[0] == 'c' else tensor.TuckerTensor
                call = (lambda: cls.zeros(shape)) if which.endswith('zeros') else (lambda: cls.ones(shape))
                want = (lambda: np.zeros(shape)) if which.endswith('zeros') else (lambda: np.ones(shape))
            elif op == 'asarr':
                a = pick(); T, A = env[a]
                req = 'asarr %d' % a
                call = lambda: np.array(tensor.asarray(T)); want = lambda: A
            else:
                raise Skip()
        except Skip:
            continue
        # run the implementation
        try:
            R = call()
            if is_tensor_obj(R):
                out = show_ten(R)
            else:
                out = 's ' + frac(float(R))
            err = None
        except Exception as ex:
            R = None; out = err_token(ex); err = ex
        # oracle = the property itself
        fail = None
        if valid:
            W = np.asarray(want(), dtype=float)
            if err is not None:
                fail = '%s raised %s(%s) although the operation is defined on the full tensors' % (op, type(err).__name__, str(err)[:80])
            else:
                G = np.asarray(tensor.asarray(R) if is_tensor_obj(R) else R, dtype=float)
                if G.shape != W.shape or not np.array_equal(G, W):
                    fail = 'asarray(%s(...)) differs from the numpy result on the expanded arrays: got shape %s, want %s' % (op, G.shape, W.shape)
        ops.append(req); outs.append(out)
        metas.append({'op': op, 'valid': valid, 'req': req})
        ctx.count('op=' + op); ctx.count('result=' + (out.split(' ')[0][:1] if err is None else out))
        if fail:
            key = op
            if op == 'pad' and contains_full(T) and err is not None:
                key = 'pad-empty-axis'      # repaired finding (5dd70f0): sparse mode product along an empty axis of an ndarray
            fails.append((len(ops) - 1, key, fail))
            break
        if err is None and is_tensor_obj(R):
            if np.asarray(tensor.asarray(R)).size > 400 or (hasattr(R, 'R') and np.prod(np.atleast_1d(R.R)) > 200):
                break      # keep the exact model cheap
            env.append([R, np.asarray(want(), dtype=float) if valid else np.array(tensor.asarray(R))])
    line = 'seq %s %d %s' % (init, len(ops), ' '.join(ops))
    return line, ' ; '.join(outs), metas, fails, shape



# ----------------------------------------------------------------------------------------- compiled kernels (subprocess)
_KERNEL_PROBE = r"""
import sys, json
import numpy as np
seed = int(sys.argv[1]); quick = sys.argv[2] == 'quick'
from pyiga import lowrank, tensor
rng = np.random.default_rng(seed + 4000)
def say(kind, **kw):
    print(json.dumps(dict(kind=kind, **kw)), flush=True)
def shapes2(k):
    out = [(1, 5), (5, 1), (1, 1), (2, 7), (7, 2), (3, 8), (8, 3), (4, 40), (40, 4), (6, 6), (5, 7), (7, 5)]
    for _ in range(k):
        out.append((int(rng.integers(1, 12)), int(rng.integers(1, 12))))
    # wide shapes first: a kernel that mixes up the two extents is detected there before a tall shape can overrun memory
    return sorted(out, key=lambda s: (s[0] > s[1], s[0] * s[1]))
nfail = 0
# 1. rank_1_update(X, alpha, u, v) == X + alpha * outer(u, v)  (small integers / dyadic alpha: exact)
for (m, n) in shapes2(40 if quick else 400):
    X0 = rng.integers(-4, 5, size=(m, n)).astype(float); u = rng.integers(-3, 4, size=m).astype(float)
    v = rng.integers(-3, 4, size=n).astype(float); alpha = float(rng.choice([0.5, -2.0, 1.0, 0.25]))
    case = dict(function='rank_1_update', shape=[m, n], X=X0.tolist(), alpha=alpha, u=u.tolist(), v=v.tolist())
    say('start', case=case)
    X = X0.copy(); lowrank.rank_1_update(X, alpha, u, v)
    want = X0 + (alpha * u)[:, None] * v[None, :]
    if not np.array_equal(X, want):
        say('fail', case=case, what='rank_1_update on a %dx%d matrix differs from X + alpha*outer(u,v): max deviation %g' % (m, n, float(abs(X - want).max())))
        sys.exit(0)
# 2. aca3d_update(X, alpha, u, V): X[i,j,k] += alpha*u[i]*V[j,k]
sh3 = [(1, 2, 3), (3, 2, 1), (2, 5, 3), (3, 1, 4), (4, 3, 1), (1, 1, 6), (5, 2, 2), (2, 2, 5)] + \
      [tuple(int(rng.integers(1, 7)) for _ in range(3)) for _ in range(30 if quick else 300)]
for shp in sorted(sh3, key=lambda s: s[0] * s[1] * s[2]):
    X0 = rng.integers(-4, 5, size=shp).astype(float); u = rng.integers(-3, 4, size=shp[0]).astype(float)
    V = rng.integers(-3, 4, size=shp[1:]).astype(float); alpha = float(rng.choice([0.5, -2.0, 1.0]))
    case = dict(function='aca3d_update', shape=list(shp), X=X0.tolist(), alpha=alpha, u=u.tolist(), V=V.tolist())
    say('start', case=case)
    X = X0.copy(); lowrank.aca3d_update(X, alpha, u, V)
    want = X0 + (alpha * u)[:, None, None] * V[None, :, :]
    if not np.array_equal(X, want):
        say('fail', case=case, what='aca3d_update on shape %s differs from X + alpha*u (x) V' % (shp,))
        sys.exit(0)
# 3. aca / aca_lr on exactly rank-r rectangular matrices (skipcount=200: early stops by unlucky restarts negligible)
for (m, n) in shapes2(60 if quick else 600):
    r = int(rng.integers(1, min(m, n) + 1))
    if rng.integers(0, 2):
        A = (rng.integers(-2, 3, size=(m, r)) @ rng.integers(-2, 3, size=(r, n))).astype(float)
    else:
        A = rng.standard_normal((m, r)) @ rng.standard_normal((r, n))
    if not A.any():
        continue
    sd = int(rng.integers(0, 2 ** 31)); tol = 1e-12 * float(abs(A).max())
    case = dict(function='aca', shape=[m, n], rank=r, A=A.tolist(), tol=tol, maxiter=min(m, n) + 2, skipcount=200, seed=sd)
    say('start', case=case)
    np.random.seed(sd)
    X = lowrank.aca(A, tol=tol, maxiter=min(m, n) + 2, skipcount=200, tolcount=3, verbose=0)
    nA = float(np.linalg.norm(A))
    if X.shape != A.shape or not float(np.linalg.norm(X - A)) <= 1e-8 * nA:
        say('fail', case=case, what='aca of an exactly rank-%d %dx%d matrix: relative error %.3g' % (r, m, n, float(np.linalg.norm(X - A)) / nA))
        sys.exit(0)
    np.random.seed(sd)
    cr = lowrank.aca_lr(A, tol=tol, maxiter=min(m, n) + 2, verbose=0)
    Xl = sum(np.outer(c, rr) for (c, rr) in cr) if cr else np.zeros_like(A)
    if float(np.linalg.norm(Xl - A)) > 1e-8 * nA:
        say('note', what='aca_lr (fixed skipcount=3) stopped early on a %dx%d rank-%d matrix' % (m, n, r))
say('done')
"""


def kernel_probe(ctx):
    """compiled kernels rank_1_update / aca3d_update and the matrix ACA on RECTANGULAR shapes (m != n both ways, 1 x n,
    n x 1) against their dense definitions, run in a subprocess: the kernels run with boundscheck off, so a defect may
    crash the interpreter; a crash is reported as a violation with the last started input.  Returns True iff clean
    (only then are the in-process streams that call these kernels run)."""
    import json
    import subprocess
    from .common import PY
    try:
        p = subprocess.run([PY, '-c', _KERNEL_PROBE, str(ctx.seed), ctx.tier], stdout=subprocess.PIPE, stderr=subprocess.PIPE,
                           text=True, timeout=600)
        rc, out, err = p.returncode, p.stdout, p.stderr
    except subprocess.TimeoutExpired as ex:
        rc, out, err = 'timeout', (ex.stdout or b'').decode() if isinstance(ex.stdout, bytes) else (ex.stdout or ''), ''
    last, fails, done, n = None, [], False, 0
    for line in out.split('\n'):
        if not line.startswith('{'):
            continue
        try:
            d = json.loads(line)
        except Exception:
            continue
        if d['kind'] == 'start':
            last = d['case']; n += 1
            ctx.case(('kernel', d['case']['function'], tuple(d['case']['shape']), n), nontrivial=len(set(d['case']['shape'])) > 1)
            ctx.count('kernel probe: ' + d['case']['function'])
        elif d['kind'] == 'fail':
            fails.append(d)
        elif d['kind'] == 'note':
            ctx.count('kernel probe note: aca_lr stopped early (statistic)')
        elif d['kind'] == 'done':
            done = True
    ctx.extra['kernel_probe_cases'] = n
    for d in fails:
        ctx.violation('lowrank-kernel:' + d['case']['function'], d['what'], d['case'], True)
    if not done and not fails:
        what = ('the interpreter %s while running %s on shape %s (compiled kernel with boundscheck off)'
                % ('timed out' if rc == 'timeout' else 'died with exit status %s' % rc,
                   last['function'] if last else '?', last['shape'] if last else '?'))
        ctx.violation('lowrank-kernel:crash', what, {'last_started_case': last, 'exit': rc, 'stderr': err[-1500:]}, last is not None)
    ok = done and not fails
    ctx.obligation('kernel probe (subprocess): rank_1_update / aca3d_update / aca on %d rectangular cases == dense definition' % n,
                   ok, '' if ok else 'see violations')
    return ok

# ----------------------------------------------------------------------------------------- main
def run(ctx):
    ctx.build_repo()
    from pyiga import tensor, lowrank
    ctx.require_lean(['Pyiga.Props.C18', 'drv_c18'])
    ctx.audit(['Pyiga.Props.C18'], THEOREMS, MODULES)
    if ctx.tier == 'thorough':
        ctx.leanchecker(MODULES)
    quick = ctx.tier == 'quick'
    rng = ctx.rng
    import time as _time
    _t_own = _time.time()
    kernels_ok = kernel_probe(ctx)
    ctx.kernels_ok = kernels_ok
    np.random.seed(ctx.seed)
    ctx.trusted += [
        'numpy tensordot/pad/hstack/fancy indexing, Python range/slice semantics (CPython PySlice_AdjustIndices): modelled by their documented behaviour',
        'IEEE arithmetic: all correspondence data are small integers / dyadic rationals, so float results are exact and are diffed exactly',
        'modelled, not verified: SVD/QR/eigh/ALS based quality (hosvd, orthogonalize, compress, als, grou, gta) - checked numerically only',
    ]
    ctx.rule = ('operation sequences (<=8 steps: neg add sub getitem squeeze apply_tprod pad from_tensor truncate TensorSum TensorProd zeros/ones asarray) '
                'on tensors of order 1-4 in all five formats with integer factors, incl. rank 0, singleton axes, mixed formats, malformed operands; '
                'exhaustive 1-axis index expressions for n<=4 (ints -n-1..n, slices start/stop/step in None,-5..5), random multi-axis tuples with lists; '
                'TensorGenerator getitem/asarray/matrix_at; find_truncation_rank on integer cores; greedy stream: gta/grou/gta_ls on ~100 small tensors whose mode sizes or multilinear ranks are below the number of greedy steps (time limit per case), rank decisions of gta replayed through the Lean skip rule; aca/aca_lr with replayed restart stream on dyadic-exact '
                'rank-r matrices; CanonicalOperator algebra sequences; non-trivial = sequence step whose operand has order>=2 and rank>=1; distinct by request line')
    req, exp, meta = [], [], []

    def add(r, e, m):
        if callable(e):
            try:
                e = e()
            except Exception as ex:
                e = err_token(ex); ctx.count(e)
        req.append(r); exp.append(e); meta.append(m)

    # ---- A. operation sequences
    nseq = 1300 if quick else 12000
    nsteps_total = 0
    for s in range(nseq):
        order = int(rng.choice([1, 2, 2, 2, 3, 3, 3, 4]))
        line, out, metas, fails, shape = gen_sequence(ctx, rng, order, 8)
        add(line, out, ('seq', metas))
        nsteps_total += len(metas)
        ctx.count('order=%d' % order)
        for m in metas:
            ctx.case(line + m['req'], nontrivial=(order >= 2))
        for (k, op, fail) in fails:
            ctx.violation(op if op == 'pad-empty-axis' else 'ten-oracle:' + op, fail, {'request': line[:3000], 'step': k, 'implementation': out[:3000], 'oracle': fail}, True)
        if s < 3:
            ctx.sample({'seq': line[:300], 'answer': out[:300]})
    # ---- A2. the same sequences at extreme but valid scales (power-of-two scalings keep float and model exact):
    #          whole tensors at 2^+-30 / 2^+-40 (entries ~1e-12 ... 1e12) and mixed magnitudes (1 and 2^-32) inside one core
    for s in range(450 if quick else 4000):
        order = int(rng.choice([1, 2, 2, 3, 3, 4]))
        scale = [('u', -40), ('u', -30), ('u', 30), ('u', 40), ('m', 32), ('m', 32), ('m', 24)][int(rng.integers(0, 7))]
        line, out, metas, fails, shape = gen_sequence(ctx, rng, order, 8, scale=scale)
        add(line, out, ('seq', metas))
        nsteps_total += len(metas)
        ctx.count('scaled sequences %s%d' % scale)
        for m in metas:
            ctx.case(line + m['req'], nontrivial=(order >= 2))
        for (k, op, fail) in fails:
            ctx.violation(op if op == 'pad-empty-axis' else 'ten-oracle:' + op, fail,
                          {'request': line[:3000], 'step': k, 'implementation': out[:3000], 'oracle': fail, 'scale': list(scale)}, True)
    ctx.extra['sequence_steps'] = nsteps_total

    # ---- B. _normalize_indices: exhaustive 1-axis, random multi-axis
    def norm_call(I, shape):
        Ir, shp, singl = tensor._normalize_indices(tuple(I), shape)
        return '%s | %s | %s' % (plist([plist([int(v) for v in r]) for r in Ir]), plist(shp), plist(singl))
    vals = [None] + list(range(-5, 6))
    nmax = 4
    for n in range(0, nmax + 1):
        for i in range(-n - 2, n + 2):
            add('norm %s %s' % (plist((n,)), f_idx((i,))), lambda: norm_call((i,), (n,)), ('norm', (n,), (i,)))
        combos = itertools.product(vals, vals, vals)
        for (a, b, c) in combos:
            if quick and n in (0, 1) and (a is not None and abs(a) > 3 or b is not None and abs(b) > 3):
                continue
            I = (slice(a, b, c),)
            add('norm %s %s' % (plist((n,)), f_idx(I)), lambda: norm_call(I, (n,)), ('norm', (n,), I))
            ctx.case(('norm', n, a, b, c), nontrivial=(n >= 2))
            # numpy's own semantics as the model-free oracle
            if c != 0:
                got = list(range(n)[I[0]])
                want = np.arange(n)[I[0]].tolist()
                if got != want:
                    ctx.violation('norm-oracle', 'range(n)[slice] differs from numpy slicing', {'n': n, 'slice': [a, b, c]}, True)
        for l in itertools.chain.from_iterable(itertools.product(range(-n - 1, n + 1), repeat=m) for m in range(0, 3)):
            I = (list(l),)
            add('norm %s %s' % (plist((n,)), f_idx(I)), lambda: norm_call(I, (n,)), ('norm', (n,), I))
    for _ in range(600 if quick else 6000):
        d = int(rng.integers(1, 5))
        shape = tuple(int(rng.integers(0, 5)) for _ in range(d))
        I = rand_index(rng, shape)
        add('norm %s %s' % (plist(shape), f_idx(I)), lambda: norm_call(I, shape), ('norm', shape, I))
        ctx.count('norm-multi')

    # ---- C. TensorGenerator
    for _ in range(500 if quick else 5000):
        d = int(rng.integers(1, 4))
        shape = tuple(int(rng.integers(1, 5)) for _ in range(d))
        X = rint(rng, shape, -9, 9)
        G = lowrank.TensorGenerator.from_array(X)
        I = rand_index(rng, shape)
        def f():
            return 'F ' + f_full(G[I])
        add('gen %s %s' % (f_full(X), f_idx(I)), f, ('gen', X, I))
        ctx.case(('gen', shape, str(I)), nontrivial=d >= 2)
        # oracle: the entries of the wrapped array
        try:
            W = ix_select(X, I)
        except Exception:
            W = None
        if W is not None:
            try:
                Gv = np.asarray(G[I], dtype=float)
                if Gv.shape != W.shape or not np.array_equal(Gv, W):
                    ctx.violation('gen-oracle', 'TensorGenerator.from_array(X)[I] differs from X[I]', {'X': X.tolist(), 'I': str(I)}, True)
            except Exception as ex:
                ctx.violation('gen-oracle', 'TensorGenerator.from_array(X)[I] raised %s' % type(ex).__name__, {'X': X.tolist(), 'I': str(I)}, True)
        if rng.integers(0, 5) == 0:
            add('genarr %s' % f_full(X), lambda: 'F ' + f_full(G.asarray()), ('genarr', X))
            if not np.array_equal(G.asarray(), X):
                ctx.violation('gen-oracle', 'TensorGenerator.from_array(X).asarray() differs from X', {'X': X.tolist()}, True)
        if d == 3 and rng.integers(0, 2) == 0:
            I0 = [int(rng.integers(0, n)) for n in shape]
            a0, a1 = [int(v) for v in rng.permutation(3)[:2]]
            J = rand_index(rng, (shape[a0], shape[a1]))
            def f():
                return 'F ' + f_full(G.matrix_at(list(I0), (a0, a1))[J])
            add('genmat %s %s %d %d %s' % (f_full(X), plist(I0), a0, a1, f_idx(J)), f, ('genmat',))
            ctx.count('genmat')

    # ---- D. find_truncation_rank (squared norms; tol^2 = c + 2^-14 is never hit by the partial sums, which are multiples of 2^-12)
    for _ in range(300 if quick else 3000):
        d = int(rng.integers(1, 4))
        shape = tuple(int(rng.integers(1, 4)) for _ in range(d))
        X = rint(rng, shape, -3, 3)
        if rng.integers(0, 2):
            # decaying core as produced by an HOSVD
            for ax in range(d):
                sl = [None] * d; sl[ax] = slice(None)
                X = X * (2.0 ** -np.arange(shape[ax]))[tuple(sl)]
        tolsq = float(rng.choice([0.5, 1.5, 2.5, 4.5, 8.5, 16.5, 40.5, 0.03125, 0.25, 1000.5])) + 2.0 ** -14   # off the 2^-12 grid of partial sums
        def f():
            return plist(tensor.find_truncation_rank(X, np.sqrt(tolsq)))
        # the implementation squares a rounded sqrt: tolsq is perturbed by <= 2 ulp; partial sums are multiples of 2^-12
        add('ftr %s %s' % (f_full(X), frac(tolsq)), f, ('ftr', X, tolsq))
        ctx.case(('ftr', X.tobytes(), tolsq), nontrivial=d >= 2)
        try:
            r = tensor.find_truncation_rank(X, np.sqrt(tolsq))
            kept = X[tuple(slice(None, k) for k in r)]
            if (X ** 2).sum() - (kept ** 2).sum() > tolsq:
                ctx.violation('ftr-oracle', 'find_truncation_rank removed more than tol^2', {'X': X.tolist(), 'tolsq': tolsq, 'rank': list(r)}, True)
        except Exception as ex:
            ctx.violation('ftr-oracle', 'find_truncation_rank raised %s' % type(ex).__name__, {'X': X.tolist(), 'tolsq': tolsq}, True)

    # ---- F. CanonicalOperator algebra
    import scipy.sparse as sp
    def rand_cop(shapeout, shapein, R):
        return tensor.CanonicalOperator([tuple(sp.csr_matrix(rint(rng, (m, n), -2, 2)) for m, n in zip(shapeout, shapein)) for _ in range(R)])
    def f_cop(A):
        return '%d %s' % (len(A.terms), ' '.join('%d %s' % (len(t), ' '.join(f_mat(np.asarray(M.todense()) if sp.issparse(M) else M) for M in t)) for t in A.terms))
    def show_cop(A):
        M = A.asmatrix()
        M = np.asarray(M.todense())
        return 'O%d %s %s M %d %d %s' % (A.R, plist(A.shape[0]), plist(A.shape[1]), M.shape[0], M.shape[1], plist(M.ravel().tolist(), frac))
    def dense_op(A):
        return np.asarray(A.asmatrix().todense())
    for _ in range(160 if quick else 1600):
        d = int(rng.integers(1, 4))
        sz = [int(rng.integers(1, 4 if d < 3 else 3)) for _ in range(d)]
        sq = rng.integers(0, 2) == 0
        so = sz if sq else [int(rng.integers(1, 3)) for _ in range(d)]
        env = [rand_cop(so, sz, int(rng.integers(1, 3))), rand_cop(so, sz, int(rng.integers(1, 3))), rand_cop(sz, so, 1)]
        init = '%d %s' % (len(env), ' '.join(f_cop(A) for A in env))
        dens = [dense_op(A) for A in env]
        ops, outs = [], []
        for _ in range(5):
            op = str(rng.choice(['T', 'add', 'sub', 'neg', 'mul', 'kron', 'slice', 'apply', 'apply']))
            a = int(rng.integers(0, len(env))); b = int(rng.integers(0, len(env)))
            A, B = env[a], env[b]
            want = None
            if op == 'T':
                r = 'T %d' % a; call = lambda: A.T; want = lambda: dens[a].T
            elif op in ('add', 'sub'):
                r = '%s %d %d' % (op, a, b); call = (lambda: A + B) if op == 'add' else (lambda: A - B)
                if A.shape == B.shape:
                    want = (lambda: dens[a] + dens[b]) if op == 'add' else (lambda: dens[a] - dens[b])
            elif op == 'neg':
                r = 'neg %d' % a; call = lambda: -A; want = lambda: -dens[a]
            elif op == 'mul':
                r = 'mul %d %d' % (a, b); call = lambda: A * B
                if A.shape[1] == B.shape[0]:
                    want = lambda: dens[a].dot(dens[b])
            elif op == 'kron':
                if A.ndim + B.ndim > 4 or dens[a].size * dens[b].size > 4000:
                    continue
                r = 'kron %d %d' % (a, b); call = lambda: A.kron(B); want = lambda: np.kron(dens[a], dens[b])
            elif op == 'slice':
                lim = [(int(rng.integers(0, 2)), int(rng.integers(1, 4))) for _ in range(A.ndim)]
                r = 'slice %d %s' % (a, plist(lim, lambda p: '%d %d' % p)); call = lambda: A.slice(lim)
            else:
                shp = A.shape[1]
                if rng.random() < 0.05:
                    shp = tuple(n + 1 for n in shp)
                X = rand_tensor(rng, tuple(shp), depth=1)
                r = 'apply %d %s' % (a, f_ten(X)); call = lambda: A.apply(X)
                if tuple(shp) == tuple(A.shape[1]) and not (isinstance(X, tensor.CanonicalTensor) and X.ndim == 1 and False):
                    want = lambda: dens[a].dot(tensor.asarray(X).ravel()).reshape(A.shape[0])
            try:
                R = call()
                if isinstance(R, tensor.CanonicalOperator):
                    out = show_cop(R)
                else:
                    out = show_ten(R)
                err = None
            except Exception as ex:
                R = None; out = err_token(ex); err = ex
            ops.append(r); outs.append(out); ctx.count('cop=' + op)
            if want is not None:
                if err is not None:
                    ctx.violation('cop-oracle:' + op, 'CanonicalOperator.%s raised %s' % (op, type(err).__name__), {'request': init[:2000], 'op': r[:500]}, True)
                    break
                G = dense_op(R) if isinstance(R, tensor.CanonicalOperator) else np.asarray(tensor.asarray(R))
                W = np.asarray(want())
                if G.shape != W.shape or not np.array_equal(G, W):
                    ctx.violation('cop-oracle:' + op, 'CanonicalOperator.%s does not commute with asmatrix()' % op, {'request': init[:2000], 'op': r[:500]}, True)
                    break
            if err is None and isinstance(R, tensor.CanonicalOperator):
                if dense_op(R).size > 3000 or R.R > 12:
                    break
                env.append(R); dens.append(dense_op(R))
        add('cop %s %d %s' % (init, len(ops), ' '.join(ops)), ' ; '.join(outs), ('cop',))
        ctx.case(('cop', init, tuple(ops)), nontrivial=d >= 2)

    # ---- G. helpers on full tensors
    for _ in range(200 if quick else 2000):
        d = int(rng.integers(1, 5))
        shape = tuple(int(rng.integers(1, 4)) for _ in range(d))
        X = rint(rng, shape, -4, 4)
        k = int(rng.integers(0, d))
        def f():
            M = tensor.matricize(X, k)
            return 'M %d %d %s' % (M.shape[0], M.shape[1], plist(M.ravel().tolist(), frac))
        add('matricize %s %d' % (f_full(X), k), f, ('matricize',))
        B = rint(rng, (int(rng.integers(1, 4)), shape[k]), -2, 2)
        add('modek %s %d %s' % (f_mat(B), k, f_full(X)), lambda: 'F ' + f_full(tensor.modek_tprod(B, k, X)), ('modek',))
        if not np.array_equal(tensor.modek_tprod(B, k, X), dense_nway([None] * k + [B], X)):
            ctx.violation('modek-oracle', 'modek_tprod differs from the mode product', {'X': X.tolist(), 'k': k, 'B': B.tolist()}, True)
        if not np.array_equal(tensor.matricize(tensor.modek_tprod(B, k, X), k), B.dot(tensor.matricize(X, k))):
            ctx.violation('modek-oracle', 'matricize(modek_tprod(B,k,X),k) != B . matricize(X,k)', {'X': X.tolist(), 'k': k, 'B': B.tolist()}, True)
        vs = [rint(rng, (int(rng.integers(1, 4)),), -3, 3) for _ in range(int(rng.integers(1, 4)))]
        add('aouter %d %s' % (len(vs), ' '.join(f_full(v) for v in vs)), lambda: 'F ' + f_full(tensor.outer(*vs)), ('outer',))
        ctx.count('helpers', 3)

    # ---- E. ACA with replayed restart stream; exactness filter: all pivots are +-2^k
    cands = []
    for _ in range(700 if quick else 7000):
        m, n = int(rng.integers(2, 7)), int(rng.integers(2, 7))
        r = int(rng.integers(0, min(m, n) + 1))
        A = np.zeros((m, n))
        for _k in range(r):
            A += np.outer(rng.choice([-2., -1., 0., 1., 1., 2.], size=m), rng.choice([-2., -1., 0., 1., 1., 2.], size=n))
        stream = [int(v) for v in rng.integers(0, 1000, size=40)]
        maxiter = int(rng.choice([1, 2, 3, 100]))
        lr = bool(rng.integers(0, 3) == 0)
        sk, tc = (3, 3) if lr else (int(rng.integers(1, 4)), int(rng.integers(1, 4)))
        tol = float(rng.choice([1e-10, 0.75, 1.5]))
        if lr:
            line = 'acalr %s %s %d %s' % (f_mat(A), frac(tol), maxiter, plist(stream))
        else:
            line = 'aca %s %s %s %d %d %d %s' % (f_mat(A), f_mat(np.zeros((m, n))), frac(tol), maxiter, sk, tc, plist(stream))
        cands.append((line, A, stream, maxiter, sk, tc, tol, lr))
    pre = ctx.model('drv_c18', [c[0] for c in cands])

    def pow2(tokq):
        from fractions import Fraction
        q = abs(Fraction(tokq))
        if q == 0:
            return False
        a, b = q.numerator, q.denominator
        return (a & (a - 1)) == 0 and (b & (b - 1)) == 0

    import io, contextlib
    nacc = 0
    for (line, A, stream, maxiter, sk, tc, tol, lr), ans in zip(cands if kernels_ok else [], pre):
        parts = ans.split(' | ')
        if len(parts) != 3:
            add(line, 'model-answer-malformed', ('aca',)); continue
        pv = parts[1].split(' ')[1:]
        if not all(pow2(t) for t in pv):
            ctx.count('aca rejected (pivot not a power of two: float run inexact)')
            continue
        nacc += 1
        it = iter(stream)
        old = np.random.randint
        buf = io.StringIO()
        try:
            np.random.randint = lambda nn, *a, **k: next(it) % nn
            with contextlib.redirect_stdout(buf):
                if lr:
                    cr = lowrank.aca_lr(A, tol=tol, maxiter=maxiter, verbose=2)
                    X = sum(np.outer(c, r_) for (c, r_) in cr) if cr else np.zeros_like(A)
                else:
                    X = lowrank.aca(A, tol=tol, maxiter=maxiter, skipcount=sk, tolcount=tc, verbose=2)
            err = None
        except Exception as ex:
            err = ex
        finally:
            np.random.randint = old
        if err is not None:
            add(line, err_token(err), ('aca', A)); continue
        log = []
        for l in buf.getvalue().split('\n'):
            if l.startswith('skipping'):
                log.append((int(l.split()[1]), None, 0))
            elif '\t' in l:
                t = l.split('\t')
                log.append((int(t[0]), int(t[1]), 1))
        # the implementation prints the pivot column only for cross steps ('-' for skipped rows on both sides)
        ilog = plist(log, lambda t: '%d,%s,%d' % (t[0], t[1] if t[2] == 1 else '-', t[2]))
        Xs = 'M %d %d %s' % (X.shape[0], X.shape[1], plist(X.ravel().tolist(), frac))
        if lr:
            Xs = '%d %s' % (len(cr), Xs)
        add(line, '%s | %s | %s' % (ilog, parts[1], Xs), ('aca', A))
        mlog = parts[0].split(' ')[1:]
        ctx.case(('aca', A.tobytes(), tuple(stream[:3]), maxiter, sk, tc, tol, lr), nontrivial=len(mlog) >= 2)
        ctx.count('aca accepted' + (' (aca_lr)' if lr else ''))
        # oracle: cross property on the implementation's result — every pivot row/column of A is reproduced exactly
        for (i, j, kd) in log:
            if kd == 1 and (not np.array_equal(X[i, :], A[i, :]) or not np.array_equal(X[:, j], A[:, j])):
                ctx.violation('aca-oracle', 'after a cross step at (%d,%d) row/column of the ACA error is not zero' % (i, j),
                              {'A': A.tolist(), 'stream': stream, 'maxiter': maxiter, 'skip': sk, 'tolc': tc, 'tol': tol, 'lr': lr}, True)
                break
    ctx.extra['aca_candidates'] = len(cands); ctx.extra['aca_accepted'] = nacc

    # ---- run the model and diff
    got = ctx.model('drv_c18', req)
    ndis = 0
    for r, e, g, m in zip(req, exp, got, meta):
        if e != g:
            ndis += 1
            if ndis > 15:
                continue
            kind = m[0]
            detail = {'request': r[:4000], 'implementation': e[:4000], 'model': g[:4000], 'stream': 'ten (drv_c18)'}
            if kind == 'seq':
                es, gs = e.split(' ; '), g.split(' ; ')
                k = next((i for i, (x, y) in enumerate(zip(es, gs)) if x != y), min(len(es), len(gs)))
                detail['first_differing_step'] = k
                if k < len(m[1]):
                    detail['op'] = m[1][k]['req'][:500]; kind = 'seq:' + m[1][k]['op']
            # the numpy oracle has been evaluated on every step already; a model/implementation disagreement without an
            # oracle failure means no failing input of the property was found
            ctx.violation('ten-corr:' + kind, 'model and implementation disagree on `%s`' % kind, detail, False)
    ctx.obligation('correspondence stream ten: %d requests (%d sequence steps), model == implementation' % (len(req), nsteps_total),
                   ndis == 0, '%d disagreements' % ndis)
    ctx.extra['requests'] = len(req)

    known_probes(ctx)
    numeric_checks(ctx)
    greedy_checks(ctx)
    if kernels_ok:
        aca3d_checks(ctx)
    else:
        ctx.count('in-process aca / aca_3d streams skipped: the kernel probe failed (memory safety)')
    ctx.extra['own_compute_s (after build/audit; excludes waiting for the shared lake lock)'] = round(_time.time() - _t_own, 1)
    ctx.assumptions += [
        'index lists are per-axis (orthogonal) selections as _normalize_indices defines them; with >=2 lists numpy pairs them instead (documented difference, not reported)',
        'ndarray operands inside TensorSum/TensorProd are indexed without int+list mixtures (numpy advanced-indexing axis reordering not modelled)',
        'find_truncation_rank is modelled on squared norms (err**2 of a rounded sqrt differs by <=2ulp; tolerances are chosen off the grid of partial sums)',
    ]


def known_probes(ctx):
    _known_probes(ctx)
    from pyiga import tensor
    try:
        R = tensor.pad(np.zeros((0, 2)), [(0, 1), (1, 0)])
        if np.asarray(R).shape != (1, 3) or np.any(np.asarray(R) != 0):
            ctx.violation('pad-empty-axis', 'tensor.pad of an ndarray with an empty axis gives a wrong tensor', {'shape': [0, 2]}, True)
    except Exception as ex:
        ctx.violation('pad-empty-axis', 'tensor.pad(np.zeros((0,2)), [(0,1),(1,0)]) raises %s' % type(ex).__name__, {'shape': [0, 2]}, True)


def _known_probes(ctx):
    """dedicated replays of the recorded (now repaired) findings (see /verif/fixes, known_findings.d/C18.json):
    they pass silently and report a VIOLATION under the old key if a defect returns"""
    from pyiga import tensor
    # 1. CanonicalTensor.squeeze with a negative axis
    T = tensor.CanonicalTensor((np.arange(1, 7.).reshape(3, 2), np.array([[2., 3.]])))
    try:
        S = T.squeeze(axis=-1)
        W = np.squeeze(T.asarray(), axis=-1)
        G = np.asarray(tensor.asarray(S))
        if G.shape != W.shape or not np.array_equal(G, W):
            ctx.violation('squeeze-negative-axis', 'CanonicalTensor.squeeze(axis=-1) returns shape %s values %s; numpy.squeeze of the full tensor gives shape %s values %s'
                          % (G.shape, G.ravel().tolist(), W.shape, W.tolist()),
                          {'Xs': [X.tolist() for X in T.Xs], 'axis': -1}, True)
    except Exception as ex:
        ctx.violation('squeeze-negative-axis', 'CanonicalTensor.squeeze(axis=-1) raised %s' % type(ex).__name__, {'axis': -1}, True)
    try:
        S = tensor.TuckerTensor.from_tensor(T).squeeze(axis=-1)
        W = np.squeeze(T.asarray(), axis=-1)
        G = np.asarray(tensor.asarray(S))
        if G.shape != W.shape or not np.array_equal(G, W):
            ctx.violation('squeeze-negative-axis', 'TuckerTensor.squeeze(axis=-1) wrong', {'axis': -1}, True)
    except Exception as ex:
        ctx.violation('squeeze-negative-axis', 'TuckerTensor.squeeze(axis=-1) raised %s although numpy.squeeze accepts negative axes' % type(ex).__name__,
                      {'Xs': [X.tolist() for X in T.Xs], 'axis': -1}, True)
    # 2. order-1 Canonical -> Tucker
    C1 = tensor.CanonicalTensor((np.array([[1., 2.], [3., 4.], [5., 6.]]),))
    for what, call in (('TuckerTensor.from_tensor(order-1 CanonicalTensor)', lambda: tensor.TuckerTensor.from_tensor(C1)),
                       ('order-1 CanonicalTensor + TuckerTensor', lambda: C1 + tensor.TuckerTensor((np.ones((3, 1)),), np.ones(1))),
                       ('TuckerTensor.zeros((3,))', lambda: tensor.TuckerTensor.zeros((3,)))):
        try:
            R = call()
            W = C1.asarray() if 'from' in what else (C1.asarray() + 1 if '+' in what else np.zeros(3))
            if not np.array_equal(np.asarray(tensor.asarray(R)), W):
                ctx.violation('tucker-from-order1', what + ' gives a wrong tensor', {'what': what}, True)
        except Exception as ex:
            ctx.violation('tucker-from-order1', '%s raises %s (%s)' % (what, type(ex).__name__, str(ex)[:80]), {'what': what}, True)


def numeric_checks(ctx):
    """SVD/QR/ALS based clauses: numerical evidence only (labelled so in docs/C18.md and the manifest)"""
    from pyiga import tensor, lowrank
    rng = np.random.default_rng(ctx.seed + 1000)
    quick = ctx.tier == 'quick'
    eps = np.finfo(float).eps
    n_ok = 0
    for _ in range(40 if quick else 400):
        d = int(rng.integers(2, 4))
        shape = tuple(int(rng.integers(2, 6)) for _ in range(d))
        X = rng.standard_normal(shape)
        nX = np.linalg.norm(X.ravel())
        H = tensor.hosvd(X)
        c = 100 * eps * X.size
        for U in H.Us:
            if np.linalg.norm(U.T.dot(U) - np.eye(U.shape[1])) > c:
                ctx.violation('num-hosvd', 'HOSVD factor not orthonormal', {'X': X.tolist()}, True)
        if np.linalg.norm((H.asarray() - X).ravel()) > c * nX:
            ctx.violation('num-hosvd', 'HOSVD does not reproduce X', {'X': X.tolist()}, True)
        # low-rank + noise -> compress within tol
        Rk = tuple(int(rng.integers(1, 3)) for _ in shape)
        T = tensor.TuckerTensor([rng.standard_normal((n, r)) for n, r in zip(shape, Rk)], rng.standard_normal(Rk))
        T2 = T + tensor.TuckerTensor.from_tensor(tensor.CanonicalTensor([rng.standard_normal((n, 1)) for n in shape]))
        nT = np.linalg.norm(T2.asarray().ravel())
        for tol in 10.0 ** rng.integers(-10, 1, size=3):
            Cc = T2.compress(tol=float(tol), rtol=0.0)
            e = np.linalg.norm((Cc.asarray() - T2.asarray()).ravel())
            if e > tol + 1000 * eps * max(nT, 1.0) * T2.asarray().size:
                ctx.violation('num-compress', 'compress(tol=%g) error %g exceeds the tolerance' % (tol, e), {'tol': float(tol)}, True)
            Cr = T2.compress(tol=0.0, rtol=float(tol))
            e = np.linalg.norm((Cr.asarray() - T2.asarray()).ravel())
            if e > tol * nT * (1 + 1e-8) + 1000 * eps * max(nT, 1.0) * T2.asarray().size:
                ctx.violation('num-compress', 'compress(rtol=%g) error %g exceeds rtol*norm' % (tol, e), {'rtol': float(tol)}, True)
        if abs(T2.norm() - nT) > 1e-10 * max(nT, 1):
            ctx.violation('num-norm', 'TuckerTensor.norm differs from the Frobenius norm of the full tensor', {}, True)
        Cn = tensor.CanonicalTensor([rng.standard_normal((n, 2)) for n in shape])
        if abs(Cn.norm() - np.linalg.norm(Cn.asarray().ravel())) > 1e-10 * max(1, Cn.norm()):
            ctx.violation('num-norm', 'CanonicalTensor.norm differs from the Frobenius norm of the full tensor', {}, True)
        # ACA on an exactly rank-r float matrix
        m, n = int(rng.integers(4, 12)), int(rng.integers(4, 12))
        r = int(rng.integers(1, 4))
        A = rng.standard_normal((m, r)).dot(rng.standard_normal((r, n)))
        np.random.seed(int(rng.integers(0, 2 ** 31)))
        Xa = lowrank.aca(A, tol=1e-12, maxiter=50, verbose=0) if getattr(ctx, 'kernels_ok', True) else A
        if np.linalg.norm(Xa - A) > 1e-8 * np.linalg.norm(A):
            ctx.count('num-aca: rank-r matrix not reproduced to 1e-8 (pivot growth; statistic only)')
        n_ok += 1
    for _ in range(6 if quick else 40):
        shape = tuple(int(rng.integers(2, 5)) for _ in range(3))
        B = tensor.CanonicalTensor([rng.standard_normal((n, 2)) for n in shape]).asarray()
        np.random.seed(int(rng.integers(0, 2 ** 31)))
        tol = 1e-8
        Xg, errs = tensor.gta(B, R=4, tol=tol, rtol=0.0, return_errors=True)
        nB = np.linalg.norm(B.ravel())
        if any(errs[i + 1] > errs[i] + 1e-9 * nB for i in range(len(errs) - 1)):
            ctx.violation('num-gta', 'gta error history increases', {'errors': [float(e) for e in errs]}, True)
        if not (len(errs) == 4 or errs[-1] < tol):
            ctx.violation('num-gta', 'gta stopped above the tolerance before the rank limit', {'errors': [float(e) for e in errs]}, True)
        if abs(np.linalg.norm((B - Xg.asarray()).ravel()) - errs[-1]) > 1e-9 * nB:
            ctx.violation('num-gta', 'gta reported error differs from the true error', {}, True)
        n_ok += 1
    ctx.extra['numeric_cases (evidence only, not proof)'] = n_ok


# ----------------------------------------------------------------------------------------- greedy algorithms
class _Timeout(Exception):
    pass


def _with_time_limit(seconds, fn):
    """run fn() with a wall-clock limit (main thread); returns ('ok', value) | ('timeout', None) | ('exc', exception)"""
    import signal
    import warnings

    def _alarm(signum, frame):
        raise _Timeout()
    old = signal.signal(signal.SIGALRM, _alarm)
    signal.setitimer(signal.ITIMER_REAL, seconds)
    try:
        with warnings.catch_warnings():
            warnings.simplefilter('ignore')
            return 'ok', fn()
    except _Timeout:
        return 'timeout', None
    except Exception as ex:
        return 'exc', ex
    finally:
        signal.setitimer(signal.ITIMER_REAL, 0)
        signal.signal(signal.SIGALRM, old)


def _mlrank_tensor(rng, shape, ranks):
    Us = [np.linalg.qr(rng.standard_normal((n, r)))[0] for (n, r) in zip(shape, ranks)]
    return dense_tucker(Us, rng.standard_normal(ranks))


def _orth_defect(Us):
    return max(float(np.linalg.norm(U.T.dot(U) - np.eye(U.shape[1]))) for U in Us)


def _replay_gta_bases(rec):
    """the basis-extension loop of `gta` / `gta_ls` as coded since 2f34e7d (skip iff ny <= 1e-10*||v|| or the basis is
    complete), replayed in the same float operations on the recorded als1 / als1_ls outputs.
    Returns (per-step (ny, nv) pairs, final ranks)"""
    U = [u[:, None] / np.linalg.norm(u) for u in rec[0]]
    steps = []
    for vs in rec[1:]:
        nys = []
        for j in range(len(U)):
            y = vs[j] - U[j].dot(U[j].T.dot(vs[j]))
            ny = np.linalg.norm(y); nv = np.linalg.norm(vs[j])
            nys.append((float(ny), float(nv)))
            if ny <= 1e-10 * nv or U[j].shape[1] >= U[j].shape[0]:
                continue
            U[j] = np.column_stack((U[j], y / ny))
        steps.append(nys)
    return steps, [u.shape[1] for u in U]


def _rank_request(shape, steps):
    return 'gtaranks R %s %s %s' % (frac(1e-10), plist(shape), plist(steps, lambda nys: plist(nys, lambda p: '%s %s' % (frac(p[0]), frac(p[1])))))


def greedy_checks(ctx):
    """gta / grou / gta_ls on small tensors whose mode sizes or multilinear ranks are below the requested number of
    greedy steps (incl. singleton axes): numerical evidence with a per-case time limit.  SVD/QR/ALS quality is a
    parameter; what is checked is the contract of the greedy drivers: finite, non-increasing error history (up to
    1e-8 relative + 1e-12*||A||), orthonormal bases (||U^T U - I|| <= 1e-6: a single Gram-Schmidt pass loses
    eps*||v||/||y||, so this only trips when a numerically zero direction was normalised and appended), stop below the
    tolerance or at the rank limit, reported error == true error against the dense expansion."""
    from pyiga import tensor
    import scipy.sparse as sp
    from functools import reduce
    rng = np.random.default_rng(ctx.seed + 2000)
    quick = ctx.tier == 'quick'
    LIMIT = 10.0
    ntimeouts = 0
    fixed = [((5, 6, 7), (3, 3, 3), 3), ((2, 6, 7), (2, 4, 4), 5), ((6, 2, 7), (4, 2, 4), 5), ((6, 7, 3), (5, 5, 3), 6),
             ((5, 6, 7), (1, 3, 3), 4), ((4, 1, 5), (3, 1, 3), 4), ((3, 4, 2, 5), (3, 3, 2, 3), 4), ((1, 5), (1, 3), 3),
             ((3, 3), (2, 2), 5)]
    cases = [(sh, rk, R, 0) for (sh, rk, R) in fixed]
    for _ in range(60 if quick else 600):
        d = int(rng.integers(2, 4))
        shape = tuple(int(rng.integers(1, 7)) for _ in range(d))
        ranks = tuple(int(rng.integers(1, n + 1)) for n in shape)
        cases.append((shape, ranks, int(rng.integers(2, 7)), int(rng.integers(-3, 1))))
    # the same family at large magnitude: repaired finding `gta-skip-threshold-absolute` (2f34e7d)
    for _ in range(25 if quick else 250):
        d = int(rng.integers(2, 4))
        shape = tuple(int(rng.integers(1, 7)) for _ in range(d))
        ranks = tuple(int(rng.integers(1, n + 1)) for n in shape)
        cases.append((shape, ranks, int(rng.integers(2, 7)), int(rng.integers(3, 5))))
    ngta = 0
    greq, gexp, gmeta = [], [], []
    for ci, (shape, ranks, R, sc) in enumerate(cases):
        A = _mlrank_tensor(rng, shape, ranks) * 10.0 ** sc
        nA = float(np.linalg.norm(A.ravel()))
        seed = int(rng.integers(0, 2 ** 31))
        tol = float(10.0 ** rng.integers(-10, -1)) * nA
        exhausted = any(min(n, r) < R for n, r in zip(shape, ranks))
        replay = {'function': 'gta', 'A': A.tolist(), 'shape': list(shape), 'mlrank': list(ranks), 'R': R, 'tol': tol, 'rtol': 0.0,
                  'np.random.seed': seed, 'scale': '1e%d' % sc}
        np.random.seed(seed)
        rec = []
        orig_als1 = tensor.als1

        def rec_als1(*a, **k):
            r = orig_als1(*a, **k)
            rec.append([np.array(x, dtype=float) for x in r])
            return r
        tensor.als1 = rec_als1
        try:
            st, val = _with_time_limit(LIMIT, lambda: tensor.gta(A, R, tol=tol, rtol=0.0, return_errors=True))
        finally:
            tensor.als1 = orig_als1
        ctx.case(('gta', shape, ranks, R, sc, ci), nontrivial=exhausted)
        ctx.count('gta exhausted-mode cases' if exhausted else 'gta generic cases')
        ngta += 1
        steps, sim_ranks = _replay_gta_bases(rec) if rec else ([], [1] * len(shape))
        # `gta-skip-threshold-absolute` is the key of the repaired finding (2f34e7d): large-magnitude family
        key = 'gta-skip-threshold-absolute' if sc >= 3 else 'greedy:gta'
        if st == 'timeout':
            ctx.violation(key, 'gta did not terminate within %g s' % LIMIT, replay, True)
            ntimeouts += 1
            if ntimeouts >= 3:
                ctx.count('gta stream stopped after 3 timeouts'); break
            continue
        if st == 'exc':
            ctx.violation(key, 'gta raised %s: %s' % (type(val).__name__, str(val)[:100]), replay, True); continue
        T, errs = val
        errs = [float(e) for e in errs]
        act_ranks = [int(U.shape[1]) for U in T.Us]
        problems = []
        if all(np.isfinite(n) for nys in steps for p in nys for n in p):
            greq.append(_rank_request(shape, steps))
            gexp.append(plist(act_ranks)); gmeta.append(replay)
        if act_ranks != sim_ranks:
            problems.append('ranks %s differ from the skip rule `ny <= 1e-10*||v|| or complete basis` replayed on the same als1 outputs (%s): the basis '
                            'extension does not follow the modelled control logic' % (act_ranks, sim_ranks))
        if not all(np.isfinite(errs)):
            problems.append('non-finite error history')
        for i in range(len(errs) - 1):
            if not errs[i + 1] <= errs[i] * (1 + 1e-8) + 1e-12 * nA:
                problems.append('error increases at step %d: %.3e -> %.3e' % (i + 1, errs[i], errs[i + 1])); break
        od = _orth_defect(T.Us)
        if not od <= 1e-6:
            problems.append('bases not orthonormal: ||U^T U - I|| = %.2e (ranks %s, mode sizes %s)' % (od, act_ranks, list(shape)))
        D = dense_tucker(T.Us, T.X)
        if not np.allclose(np.asarray(T.asarray()), D, rtol=0, atol=1e-12 * max(nA, 1e-300)):
            problems.append('asarray() of the result differs from the dense expansion of (Us, X)')
        te = float(np.linalg.norm((A - D).ravel()))
        if not abs(te - errs[-1]) <= 1e-9 * nA:
            problems.append('reported final error %.3e but the true error is %.3e' % (errs[-1], te))
        if len(errs) > R or not (len(errs) == R or errs[-1] < tol):
            problems.append('stopped after %d steps (R=%d) with error %.3e, tol %.3e' % (len(errs), R, errs[-1], tol))
        if problems:
            replay['errors'] = errs
            ctx.violation(key, 'gta on a %s tensor of multilinear rank %s with R=%d: %s' % ('x'.join(map(str, shape)), ranks, R, '; '.join(problems)),
                          replay, True)
    # grou: canonical rank below R
    for _ in range(12 if quick else 120):
        d = int(rng.integers(2, 4))
        shape = tuple(int(rng.integers(1, 5)) for _ in range(d))
        r = int(rng.integers(1, 3)); R = int(rng.integers(1, 5))
        B = tensor.CanonicalTensor([rng.standard_normal((n, r)) for n in shape]).asarray()
        nB = float(np.linalg.norm(B.ravel()))
        tol = 1e-9 * nB
        seed = int(rng.integers(0, 2 ** 31))
        replay = {'function': 'grou', 'B': B.tolist(), 'R': R, 'tol': tol, 'np.random.seed': seed}
        np.random.seed(seed)
        st, val = _with_time_limit(LIMIT, lambda: tensor.grou(B, R, tol=tol, return_errors=True))
        ctx.case(('grou', shape, r, R), nontrivial=r < R); ctx.count('grou cases')
        if st != 'ok':
            ctx.violation('greedy:grou', 'grou %s' % ('did not terminate within %g s' % LIMIT if st == 'timeout' else 'raised ' + type(val).__name__), replay, True); continue
        X, errs = val
        errs = [float(e) for e in errs]
        problems = []
        if not all(np.isfinite(errs)):
            problems.append('non-finite error history')
        if any(errs[i + 1] > errs[i] * (1 + 1e-8) + 1e-12 * nB for i in range(len(errs) - 1)):
            problems.append('error history increases: %s' % errs)
        if len(errs) > R or not (len(errs) == R or errs[-1] < tol):
            problems.append('stopped after %d steps (R=%d) above the tolerance' % (len(errs), R))
        if abs(float(np.linalg.norm((B - X.asarray()).ravel())) - errs[-1]) > 1e-9 * nB:
            problems.append('reported error differs from the true error')
        if problems:
            ctx.violation('greedy:grou', 'grou: ' + '; '.join(problems), replay, True)
    # gta_ls: orthonormal bases, finite result, exact solve when every basis is complete
    for _ in range(14 if quick else 140):
        d = int(rng.integers(2, 4))
        shape = tuple(int(rng.integers(1, 5)) for _ in range(d))
        R = int(rng.integers(1, 6))

        def spd(n):
            M = rng.standard_normal((n, n))
            return sp.csr_matrix(M.dot(M.T) + n * np.eye(n))
        Aop = [tuple(spd(n) for n in shape) for _ in range(2)]
        F = rng.standard_normal(shape)
        exhausted = any(n < R for n in shape)
        key = 'gta_ls-no-skip' if exhausted else 'greedy:gta_ls'
        seed = int(rng.integers(0, 2 ** 31))
        replay = {'function': 'gta_ls', 'A': [[m.toarray().tolist() for m in t] for t in Aop], 'F': F.tolist(), 'R': R, 'np.random.seed': seed}
        np.random.seed(seed)
        rec = []
        orig_ls = tensor.als1_ls

        def rec_ls(*a, **k):
            r = orig_ls(*a, **k)
            rec.append([np.array(x, dtype=float) for x in r])
            return r
        tensor.als1_ls = rec_ls
        try:
            st, val = _with_time_limit(LIMIT, lambda: tensor.gta_ls(Aop, tensor.TuckerTensor.from_tensor(F), R, tol=1e-10))
        finally:
            tensor.als1_ls = orig_ls
        ctx.case(('gta_ls', shape, R), nontrivial=exhausted); ctx.count('gta_ls exhausted-mode cases' if exhausted else 'gta_ls generic cases')
        if st != 'ok':
            ctx.violation(key, 'gta_ls on shape %s with R=%d %s' % (shape, R, 'did not terminate within %g s' % LIMIT if st == 'timeout'
                          else 'raised %s: %s' % (type(val).__name__, str(val)[:80])), replay, True); continue
        UX = val
        problems = []
        steps, sim_ranks = _replay_gta_bases(rec) if rec else ([], [1] * len(shape))
        act_ranks = [int(U.shape[1]) for U in UX.Us]
        if all(np.isfinite(n) for nys in steps for p in nys for n in p):
            greq.append(_rank_request(shape, steps)); gexp.append(plist(act_ranks)); gmeta.append(replay)
        if act_ranks != sim_ranks:
            problems.append('ranks %s differ from the replayed skip rule (%s)' % (act_ranks, sim_ranks))
        sol = np.asarray(UX.asarray())
        if not np.all(np.isfinite(sol)):
            problems.append('non-finite solution')
        od = _orth_defect(UX.Us)
        if not od <= 1e-6:
            problems.append('bases not orthonormal: ||U^T U - I|| = %.2e (ranks %s, mode sizes %s)' % (od, [U.shape[1] for U in UX.Us], list(shape)))
        if not problems and all(U.shape[1] == U.shape[0] for U in UX.Us):
            K = sum(reduce(np.kron, [m.toarray() for m in t]) for t in Aop)
            res = float(np.linalg.norm(K.dot(sol.ravel()) - F.ravel())) / float(np.linalg.norm(F.ravel()))
            if res > 1e-8:
                problems.append('complete bases but residual %.2e' % res)
        if problems:
            ctx.violation(key, 'gta_ls on shape %s with R=%d: %s' % (shape, R, '; '.join(problems)), replay, True)
    # the skip rule of the basis extension: Lean model (gtaExtend) replayed on the recorded norms vs the ranks gta returned
    got = ctx.model('drv_c18', greq)
    nd = 0
    for r, e, g, m in zip(greq, gexp, got, gmeta):
        if e != g:
            nd += 1
            ctx.violation('ten-corr:gtaranks', 'ranks returned by gta/gta_ls (%s) differ from the modelled skip rule (%s)' % (e, g),
                          {'request': r[:3000], 'implementation': e, 'model': g, 'case': m}, True)
    ctx.obligation('correspondence stream greedy: %d gta / gta_ls runs, ranks == gtaExtend skip rule replayed on the recorded norms' % len(greq),
                   nd == 0, '%d disagreements' % nd)
    ctx.extra['greedy_cases (numerical evidence, time limit %gs per case)' % LIMIT] = ngta


# ----------------------------------------------------------------------------------------- aca_3d
def aca3d_checks(ctx):
    """lowrank.aca_3d on exactly-rank-r 3-tensors (integer and float factors, every ordering of the mode sizes 1..5,
    lr=False/True).  Oracle: the dense expansion reproduces the input to 1e-8*||A|| when r <= maxiter.  The random
    restarts make early termination possible by design; `skipcount=200` makes that event negligible (the default
    parameters are only counted as a statistic).  Exceptions on valid input and non-termination are violations."""
    import traceback
    from pyiga import tensor, lowrank
    rng = np.random.default_rng(ctx.seed + 3000)
    quick = ctx.tier == 'quick'
    fixed = [((3, 2, 4), 1, False), ((3, 2, 4), 2, True), ((2, 3, 5), 2, True), ((3, 1, 2), 1, False), ((3, 3, 3), 2, False),
             ((3, 4, 2), 2, True), ((5, 1, 1), 1, True), ((1, 1, 4), 1, False)]
    cases = list(fixed)
    for _ in range(160 if quick else 1600):
        cases.append((tuple(int(rng.integers(1, 6)) for _ in range(3)), int(rng.integers(1, 4)), bool(rng.integers(0, 2))))
    n = 0
    for ci, (shape, r, lr) in enumerate(cases):
        integer = bool(ci % 2 == 0)
        A = np.zeros(shape)
        for _ in range(r):
            fs = [rng.choice([-2., -1., 1., 2.], size=m) if integer else rng.standard_normal(m) for m in shape]
            A += np.einsum('i,j,k->ijk', *fs)
        if not A.any():
            continue
        nA = float(np.linalg.norm(A.ravel()))
        seed = int(rng.integers(0, 2 ** 31))
        replay = {'function': 'aca_3d', 'A': A.tolist(), 'shape': list(shape), 'rank<=': r, 'lr': lr, 'tol': 1e-10, 'maxiter': 30,
                  'skipcount': 200, 'np.random.seed': seed}
        np.random.seed(seed)
        tb = ['']

        def call():
            try:
                return lowrank.aca_3d(A, tol=1e-10, maxiter=30, skipcount=200, tolcount=3, verbose=0, lr=lr)
            except Exception:
                tb[0] = traceback.format_exc()
                raise
        st, val = _with_time_limit(10.0, call)
        ctx.case(('aca3d', shape, r, lr, ci), nontrivial=(r >= 2 and min(shape) >= 2))
        ctx.count('aca_3d shape[2]>shape[1]' if shape[2] > shape[1] else 'aca_3d shape[2]<=shape[1]')
        n += 1
        if st == 'timeout':
            ctx.violation('aca3d', 'aca_3d did not terminate within 10 s', replay, True); continue
        if st == 'exc':
            key = 'aca3d-index' if (isinstance(val, IndexError) and 'E_mat[I[1:]]' in tb[0]) else 'aca3d'
            ctx.violation(key, 'aca_3d(lr=%s) on an exactly rank-%d tensor of shape %s raises %s: %s' % (lr, r, shape, type(val).__name__, str(val)[:80]),
                          replay, True)
            continue
        D = np.asarray(tensor.asarray(val), dtype=float)
        e = float(np.linalg.norm((D - A).ravel())) if D.shape == A.shape else float('inf')
        if not e <= 1e-8 * nA:
            ctx.violation('aca3d', 'aca_3d(lr=%s) does not reproduce an exactly rank-%d tensor of shape %s: error %.2e * ||A||' % (lr, r, shape, e / nA),
                          replay, True)
        # default parameters: early termination by unlucky restarts is possible by design -> statistic only
        np.random.seed(seed)
        st2, val2 = _with_time_limit(10.0, lambda: lowrank.aca_3d(A, tol=1e-10, maxiter=30, verbose=0, lr=lr))
        if st2 == 'ok':
            D2 = np.asarray(tensor.asarray(val2), dtype=float)
            if not float(np.linalg.norm((D2 - A).ravel())) <= 1e-8 * nA:
                ctx.count('aca_3d default skipcount=3: stopped early on an exact rank-r tensor (statistic)')
    # malformed: not a 3-tensor
    for B in (np.ones((2, 2)), np.ones((2, 2, 2, 2))):
        st, val = _with_time_limit(10.0, lambda: lowrank.aca_3d(B, verbose=0))
        if not (st == 'exc' and isinstance(val, AssertionError)):
            ctx.violation('aca3d', 'aca_3d on a %d-dimensional array: expected AssertionError, got %s' % (B.ndim, st if st != 'exc' else type(val).__name__),
                          {'shape': list(B.shape)}, False)
    ctx.extra['aca3d_cases'] = n
