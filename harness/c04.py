"""
C04 — hierarchical spline spaces stay well-formed under every refinement history (DESIGN.md §6/C04).

tie: hand-written Lean model (Pyiga.Model.Hier, driver drv_c04) vs pyiga.hierarchical.HSpace on the
     same refinement histories: after the constructor and after *every* refine the full state
     (active/deactivated cells and functions per level) and all queries (flat listings, raveled
     indices, global/new/trunc/func_supp/cell_supp indices, indices_to_smooth, incidence matrix,
     TP mesh tables, 1-D function children/parents, compute_supports) are diffed exactly,
     segment by segment.  Marks are passed as set/frozenset/list/tuple (with duplicates, shuffled,
     missing keys vs explicit empty entries) and through refine_region.
theorems: Pyiga.Props.C04.*  (list filled in by the proof author)
search (model-free): the property evaluated from geometry only (cell_extents / function_support /
     knot meshes): tiling (volumes as Fractions, point-in-cell counts at the finest centres, the
     children relation), the selection rule literally for every TP function of every level,
     canonical order, the incidence matrix by open-box intersection, admissibility for default
     marking, and on small cases exact rank / THB partition of unity / hb<->thb inverses.
"""
import hashlib
import itertools
import os
from fractions import Fraction

import numpy as np

from .common import plist, LEAN, InfraError

# filled in by the proof author
LEAN_TARGETS = ['Pyiga.Props.C04', 'drv_c04']
THEOREMS = ['Pyiga.Props.C04.' + t for t in (
    'reachable_wf', 'refine_wf', 'tiling', 'selection_rule', 'supp_is_box', 'canonical_order',
    'ravel_strictly_increasing', 'refined_cells_were_active', 'admissible', 'incidence',
    'active_cover_up', 'active_cover_down', 'children_of_deactivated', 'thb_partition_of_unity',
    'truncation_algebra', 'state_determined_by_deactivated', 'linear_independence',
    'aliased_marks_break_selection_rule', 'example_history', 'kvEx_good')] + [
    'Pyiga.Hier.tp_laws', 'Pyiga.Hier.tp_init_ok', 'Pyiga.Hier.tp_lawsAdm', 'Pyiga.Hier.refineLevels_inv',
    'Pyiga.Hier.refineLevels_J', 'Pyiga.Hier.refineCore_eq', 'Pyiga.Hier.incidence_eq']
MODULES = ['Pyiga.Model.Hier'] + ['Pyiga.Proofs.Hier' + m for m in (
    'Sets', 'Laws', 'Inv', 'Refine', 'TP', 'Order', 'Trunc', 'PU', 'TwoScale', 'AdmLaws', 'Adm', 'TPAdm',
    'Cover', 'Inc', 'Indep')] + ['Pyiga.Props.C04']

SEGMENTS = ['ret', 'state', 'flatc', 'flatf', 'numdofs', 'aidx', 'didx', 'glob', 'new', 'trunc', 'fsupp', 'csupp',
            'smooth', 'inc', 'mesh', 'fch', 'fpa', 'sup', 'vsup']
CHUNK = 300


# ----------------------------------------------------------------------------- wire format

def sidx(t):
    return ','.join(str(int(a)) for a in t)


def sidxs(l):
    return plist(l, sidx)


def sLL(l):
    return plist(l, sidxs)


def sLLL(l):
    return plist(l, sLL)


def snats(l):
    return plist(l, lambda a: str(int(a)))


def sNN(l):
    return plist(l, snats)


def fmt_ret(ret):
    """dict level -> container of cells, as per-level sorted duplicate-free lists, trailing empties stripped"""
    lv = [k for k, c in ret.items() if len(c)]
    top = max(lv) + 1 if lv else 0
    return sLL([sorted(set(tuple(int(a) for a in c) for c in ret.get(l, ()))) for l in range(top)])


def _static_key(hs):
    h = hashlib.md5()
    for lv in range(hs.numlevels):
        for kv in hs.mesh(lv).kvs:
            h.update(b'k%d:' % kv.p)
            h.update(np.ascontiguousarray(kv.kv).tobytes())
        for a in hs.mesh(lv).meshsupp + hs.mesh(lv).suppfunc:
            h.update(np.ascontiguousarray(a).tobytes())
    for Ps in hs.hmesh.P:
        for P in Ps:
            h.update(b'P%d,%d:' % P.shape)
            h.update(np.ascontiguousarray(P.indptr).tobytes())
            h.update(np.ascontiguousarray(P.indices).tobytes())
            h.update(np.ascontiguousarray(P.data != 0).tobytes())
    return h.digest()


def fmt_static(hs, cache):
    """segments mesh / fch / fpa: functions of the (immutable) level meshes and 1-D prolongators only;
    cached by a digest of exactly these data"""
    key = _static_key(hs)
    if key in cache:
        return cache[key]
    L = hs.numlevels
    hm = hs.hmesh
    dim = hs.dim
    out = []

    def seg(name, th):
        try:
            out.append(name + '=' + th())
        except Exception as ex:
            out.append(name + '=err-' + type(ex).__name__)

    def mesh1(lv, d):
        m = hs.mesh(lv)
        kv = m.kvs[d]
        return '%d %d %s %s' % (int(kv.numspans), int(kv.numdofs),
                                plist(m.meshsupp[d], lambda r: '%d,%d' % (int(r[0]), int(r[1]))),
                                plist(m.suppfunc[d], lambda r: '%d,%d' % (int(r[0]), int(r[1]))))
    seg('mesh', lambda: plist(range(L), lambda lv: plist(range(dim), lambda d: mesh1(lv, d))))
    seg('fch', lambda: plist(range(L - 1), lambda lv: plist(range(dim), lambda d: plist(
        range(int(hs.mesh(lv).numdofs[d])), lambda j: snats(list(hm._function_children_1d(lv, d, j)))))))
    seg('fpa', lambda: plist(range(L - 1), lambda lv: plist(range(dim), lambda d: plist(
        range(int(hs.mesh(lv + 1).numdofs[d])), lambda i: snats(list(hm._function_parents_1d(lv + 1, d, i)))))))
    cache[key] = out
    return out


def fmt_inc(M):
    M = M.tocsr().copy()
    M.sum_duplicates()
    rows = []
    for i in range(M.shape[0]):
        cols = []
        for j, v in zip(M.indices[M.indptr[i]:M.indptr[i + 1]].tolist(), M.data[M.indptr[i]:M.indptr[i + 1]].tolist()):
            if v != int(v) or v < 0:
                raise ArithmeticError('incidence entry %r' % (v,))
            cols += [int(j)] * int(v)
        rows.append(sorted(cols))
    return sNN(rows)


def fmt_step(hs, ret, cache, body_cache=None):
    """the canonical line of one step, computed from the real pyiga object; every query is guarded so that a
    raising query shows up as `<segment>=err-<Type>` (a mutated /repo must not crash the harness).
    body_cache (exhaustive stream, one per configuration): the segments after `ret` are a function of the
    state, so histories that reach the same state share them."""
    if body_cache is not None:
        key = state_key(hs)
        if key not in body_cache:
            body_cache[key] = fmt_body(hs, cache)
        return 'ret=' + ret + ' | ' + body_cache[key]
    return 'ret=' + ret + ' | ' + fmt_body(hs, cache)


def fmt_vsup(hs):
    """answer of a `vsup` request: the five `cell_*` properties (compute_virtual_supports), per family a list over
    virtual levels of per-level sorted cell lists"""
    L = hs.numlevels
    try:
        fams = [hs.cell_global, hs.cell_new, hs.cell_trunc, hs.cell_func_supp, hs.cell_cell_supp]
        return 'vsup=' + plist(fams, lambda t: plist(t, lambda d: sLL([sorted(d.get(l, ())) for l in range(L)])))
    except Exception as ex:
        return 'vsup=err-' + type(ex).__name__


def fmt_body(hs, cache):
    L = hs.numlevels
    hm = hs.hmesh
    out = []

    def seg(name, th):
        try:
            out.append(name + '=' + th())
        except Exception as ex:
            out.append(name + '=err-' + type(ex).__name__)

    seg('state', lambda: plist(range(L), lambda l: ' '.join(
        sidxs(sorted(x)) for x in (hm.active[l], hm.deactivated[l], hs.actfun[l], hs.deactfun[l]))))
    seg('flatc', lambda: plist(hs.active_cells(flat=True), lambda p: '%d:%s' % (int(p[0]), sidx(p[1]))))
    seg('flatf', lambda: plist(hs.active_functions(flat=True), lambda p: '%d:%s' % (int(p[0]), sidx(p[1]))))
    seg('numdofs', lambda: str(int(hs.numdofs)))
    seg('aidx', lambda: sNN(hs.active_indices()))
    seg('didx', lambda: sNN(hs.deactivated_indices()))
    ix = {}
    for name, meth in (('glob', 'global_indices'), ('new', 'new_indices'), ('trunc', 'trunc_indices'),
                       ('fsupp', 'func_supp_indices'), ('csupp', 'cell_supp_indices')):
        def th(name=name, meth=meth):
            ix[name] = getattr(hs, meth)()
            return sLLL(ix[name])
        seg(name, th)

    def smooth1(strategy):
        try:
            r = hs.indices_to_smooth(strategy)
            return plist(r, snats)
        except Exception:
            # which level raises?  (the model reports `E` per level)
            chosen = [hs.ravel_indices(idx) for idx in getattr(hs, strategy + '_indices')()]
            res = []
            for lv in range(hs.numlevels):
                try:
                    res.append(snats(hs.raveled_to_virtual_canonical_indices(lv, chosen[lv])))
                except Exception:
                    res.append('E')
            return plist(res)
    seg('smooth', lambda: plist(['new', 'trunc', 'func_supp', 'cell_supp'], smooth1))
    seg('inc', lambda: fmt_inc(hs.incidence_matrix()))
    out.extend(fmt_static(hs, cache))

    def sup1(name):
        d = hs.compute_supports(ix[name][-1])
        return sLL([sorted(d.get(l, ())) for l in range(L)])
    seg('sup', lambda: plist(['glob', 'trunc', 'fsupp', 'csupp'], sup1))
    return ' | '.join(out)


# ----------------------------------------------------------------------------- configurations and operations

def make_kv(spec):
    """spec = (p, interior multiplicities, breakpoints) or (p, 'uniform', n)"""
    from pyiga import bspline
    p = spec[0]
    if spec[1] == 'uniform':
        return bspline.make_knots(p, 0.0, 1.0, spec[2])
    mult, brk = spec[1], [float(b) for b in spec[2]]
    kv = np.concatenate(([brk[0]] * (p + 1), np.repeat(brk[1:-1], mult), [brk[-1]] * (p + 1)))
    return bspline.KnotVector(np.asarray(kv, dtype=float), p)


def make_space(cfg):
    from pyiga import hierarchical
    kvs = tuple(make_kv(s) for s in cfg['kvs'])
    return hierarchical.HSpace(kvs, truncate=cfg['truncate'], disparity=(np.inf if cfg['disp'] is None else int(cfg['disp'])))


def cfg_header(cfg):
    kvs = [make_kv(s) for s in cfg['kvs']]
    parts = ['hist', str(len(kvs))]
    for kv in kvs:
        parts.append('%d %s' % (kv.p, snats(np.unique(kv.kv, return_counts=True)[1])))
    parts.append(str(0 if cfg['disp'] is None else int(cfg['disp'])))
    return ' '.join(parts)


def cfg_replay(cfg):
    return {'kvs': [{'p': int(kv.p), 'knots': [float(x) for x in kv.kv]} for kv in (make_kv(s) for s in cfg['kvs'])],
            'disparity': 'inf' if cfg['disp'] is None else int(cfg['disp']), 'truncate': bool(cfg['truncate'])}


CONTAINERS = ['set', 'list', 'tuple', 'list-dup', 'tuple-dup', 'frozenset']


def make_pred(spec):
    """predicates for refine_region; called with the cell centre in *reversed* axis order (x, y, ...)"""
    kind = spec[0]
    if kind == 'in':
        pts = spec[1]
        return lambda *a: tuple(a) in pts
    if kind == 'lt':
        return lambda *a: a[spec[1] % len(a)] < spec[2]
    if kind == 'ge':
        return lambda *a: a[spec[1] % len(a)] >= spec[2]
    if kind == 'ball':
        return lambda *a: sum((x - c) ** 2 for x, c in zip(a, spec[1])) < spec[2] ** 2
    if kind == 'all':
        return lambda *a: True
    return lambda *a: False


def centre_args(hs, lv, c):
    return tuple(0.5 * (lo + hi) for (lo, hi) in reversed(hs.cell_extents(lv, c)))


def op_request(op):
    return '%d %s' % (1 if op['trunc'] else 0,
                      plist(op['levels'], lambda cells: plist(cells, lambda c: ' '.join(str(int(a)) for a in c))))


def op_replay(op):
    r = {'call': op['kind'], 'truncate': bool(op['trunc']), 'marks_by_level': [[list(c) for c in cells] for cells in op['levels']]}
    if op['kind'] == 'refine':
        r['dict_keys_in_order'] = list(op['keys'])
        r['containers'] = {str(k): op['cont'][k] for k in op['keys']}
    else:
        r['level'] = op['lv']
        r['predicate'] = repr(op['pred'])[:300]
    return r


def build_marked(op):
    d = {}
    for lv in op['keys']:
        cells = op['levels'][lv] if lv < len(op['levels']) else []
        c = op['cont'][lv]
        if c == 'set':
            d[lv] = set(cells)
        elif c == 'frozenset':
            d[lv] = frozenset(cells)
        elif c.startswith('list'):
            d[lv] = list(cells)
        else:
            d[lv] = tuple(cells)
    return d


def apply_op(hs, op):
    """run one operation on the real object; returns the dict returned by refine"""
    if op['kind'] == 'region':
        return hs.refine_region(op['lv'], make_pred(op['pred']))
    return hs.refine(build_marked(op), truncate=True) if op['trunc'] else hs.refine(build_marked(op))


def mk_refine_op(rng, by_level, trunc, extra_empty=True):
    """by_level: dict lv -> list of distinct cells (may be empty lists).  Chooses containers, duplicates,
    order, key order, missing keys vs explicit empties."""
    top = max(by_level) + 1 if by_level else 0
    levels, cont, keys = [], {}, []
    for lv in range(top):
        cells = [tuple(int(a) for a in c) for c in by_level.get(lv, [])]
        c = CONTAINERS[int(rng.integers(0, len(CONTAINERS)))]
        if cells:
            if c in ('set', 'frozenset'):
                cells = sorted(cells)
            else:
                cells = [cells[i] for i in rng.permutation(len(cells))]
                if c.endswith('-dup'):
                    k = int(rng.integers(1, 3))
                    for _ in range(k):
                        cells.insert(int(rng.integers(0, len(cells) + 1)), cells[int(rng.integers(0, len(cells)))])
            keys.append(lv)
        else:
            if rng.integers(0, 2) == 0:
                keys.append(lv)        # explicit empty entry
        cont[lv] = c
        levels.append(cells)
    if extra_empty and rng.integers(0, 10) == 0:
        lv = top + int(rng.integers(0, 2))
        while len(levels) <= lv:
            cont[len(levels)] = CONTAINERS[int(rng.integers(0, len(CONTAINERS)))]
            levels.append([])
        keys.append(lv)
    keys = [keys[i] for i in rng.permutation(len(keys))] if keys else []
    return {'kind': 'refine', 'trunc': bool(trunc), 'levels': levels, 'cont': cont, 'keys': keys}


def mk_region_op(hs, lv, pred):
    """the request carries exactly the active cells of level lv whose centre satisfies the predicate
    (computed here from cell_extents, independently of refine_region)"""
    f = make_pred(pred)
    act = sorted(hs.active_cells(lv)) if lv < hs.numlevels else []
    cells = [tuple(int(a) for a in c) for c in act if f(*centre_args(hs, lv, c))]
    return {'kind': 'region', 'trunc': False, 'lv': int(lv), 'pred': pred, 'levels': [[] for _ in range(lv)] + [cells]}


def op_container_tag(op):
    if op['kind'] == 'region':
        return 'refine_region'
    return '+'.join(sorted(set(op['cont'][k] for k in op['keys'] if k < len(op['levels']) and op['levels'][k]))) or 'empty'


def run_op(hs, op, cache, body_cache=None):
    """apply `op` to a copy; returns (new space, step string).  On an exception the step is the error token and
    the (unmodified) original is returned."""
    try:
        h2 = hs.copy()
        ret = apply_op(h2, op)
        return h2, fmt_step(h2, fmt_ret(ret), cache, body_cache)
    except Exception as ex:
        return hs, 'err-' + type(ex).__name__


# ----------------------------------------------------------------------------- model-free oracle

def oracle_space(hs, adm_d=None, numeric=False):
    """The property itself on the implementation, from geometry only.  Returns None or '<clause>: description'."""
    try:
        return _oracle_space(hs, adm_d, numeric)
    except Exception as ex:
        return 'raised: %s: %s' % (type(ex).__name__, str(ex)[:200])


def _axis_tables(hs, lv):
    """per axis: 1-D cell extents and 1-D function supports on level lv, read through cell_extents / function_support"""
    m = hs.mesh(lv)
    dim = hs.dim
    cel, fun = [], []
    for d in range(dim):
        ce = []
        for k in range(int(m.kvs[d].numspans)):
            c = tuple(k if a == d else 0 for a in range(dim))
            ce.append(hs.cell_extents(lv, c)[d])
        fe = []
        for j in range(int(m.kvs[d].numdofs)):
            f = tuple(j if a == d else 0 for a in range(dim))
            fe.append(hs.function_support(lv, f)[d])
        cel.append(ce)
        fun.append(fe)
    return cel, fun


def _oracle_space(hs, adm_d, numeric):
    L = hs.numlevels
    dim = hs.dim
    act = [set(hs.active_cells(l)) for l in range(L)]
    deact = [set(hs.deactivated_cells(l)) for l in range(L)]
    actfun = [set(hs.actfun[l]) for l in range(L)]
    deactfun = [set(hs.deactfun[l]) for l in range(L)]
    tabs = [_axis_tables(hs, l) for l in range(L)]

    # ---- tiling
    for l in range(L):
        if act[l] & deact[l]:
            return 'tiling: active and deactivated cells overlap on level %d: %s' % (l, sorted(act[l] & deact[l])[:4])
    all0 = set(itertools.product(*(range(len(ce)) for ce in tabs[0][0])))
    if act[0] | deact[0] != all0:
        return 'tiling: active[0] | deactivated[0] is not the set of all level-0 cells'
    for l in range(L - 1):
        ch = set()
        for c in deact[l]:
            ch.update(itertools.product(*(range(2 * ci, 2 * ci + 2) for ci in c)))
        if act[l + 1] | deact[l + 1] != ch:
            return 'tiling: active|deactivated on level %d is not the set of children of deactivated[%d] (symmetric difference %s)' % (
                l + 1, l, sorted((act[l + 1] | deact[l + 1]) ^ ch)[:6])
    if deact[L - 1]:
        return 'tiling: deactivated cells on the finest level %d have no children level' % (L - 1)
    dom = Fraction(1)
    for kv in hs.knotvectors(0):
        dom *= Fraction(float(kv.kv[-1])) - Fraction(float(kv.kv[0]))
    vol = Fraction(0)
    boxes = []      # (level, cell, extents)
    for l in range(L):
        for c in sorted(act[l]):
            ext = hs.cell_extents(l, c)
            v = Fraction(1)
            for (lo, hi) in ext:
                v *= Fraction(float(hi)) - Fraction(float(lo))
            vol += v
            boxes.append((l, c, ext))
    if vol != dom:
        return 'tiling: the volumes of the active cells sum to %s, the domain has volume %s' % (vol, dom)
    ctr = [np.array([0.5 * (lo + hi) for (lo, hi) in tabs[L - 1][0][d]]) for d in range(dim)]
    cnt = np.zeros(tuple(len(c) for c in ctr), dtype=np.int64)
    for (l, c, ext) in boxes:
        masks = [((ext[d][0] <= ctr[d]) & (ctr[d] < ext[d][1])).astype(np.int64) for d in range(dim)]
        blk = masks[0]
        for m in masks[1:]:
            blk = np.multiply.outer(blk, m)
        cnt += blk
    if not np.all(cnt == 1):
        bad = np.argwhere(cnt != 1)[0]
        return 'tiling: the centre of finest-level cell %s lies in %d active cells' % (tuple(int(b) for b in bad), int(cnt[tuple(bad)]))

    # ---- selection rule, literally
    for l in range(L):
        cel, fun = tabs[l]
        S1 = []
        for d in range(dim):
            S1.append([[k for k, (clo, chi) in enumerate(cel[d]) if flo <= clo and chi <= fhi] for (flo, fhi) in fun[d]])
        omega = act[l] | deact[l]
        allf = hs.mesh(l).functions()
        if not (actfun[l] <= set(allf) and deactfun[l] <= set(allf)):
            return 'selection: actfun/deactfun of level %d contain indices that are not functions of the level mesh' % l
        for f in allf:
            S = list(itertools.product(*(S1[d][f[d]] for d in range(dim))))
            if not S:
                return 'selection: function %s of level %d has empty support' % (f, l)
            in_om = all(c in omega for c in S)
            in_de = all(c in deact[l] for c in S)
            if (f in actfun[l]) != (in_om and not in_de):
                return 'selection: function %s of level %d is %sactive but supp<=Omega^l is %s and supp<=Omega^(l+1) is %s' % (
                    f, l, '' if f in actfun[l] else 'not ', in_om, in_de)
            if (f in deactfun[l]) != in_de:
                return 'selection: function %s of level %d is %sdeactivated but supp<=Omega^(l+1) is %s' % (
                    f, l, '' if f in deactfun[l] else 'not ', in_de)

    # ---- canonical order
    ff = hs.active_functions(flat=True)
    ff_k = [(int(l), tuple(int(a) for a in f)) for (l, f) in ff]
    if ff_k != sorted(set(ff_k)) or len(ff_k) != hs.numdofs or set(ff_k) != set((l, f) for l in range(L) for f in actfun[l]):
        return 'canonical: active_functions(flat=True) is not the duplicate-free (level, multi-index)-sorted list of the numdofs active functions'
    fc = hs.active_cells(flat=True)
    fc_k = [(int(l), tuple(int(a) for a in c)) for (l, c) in fc]
    if fc_k != sorted(set(fc_k)) or len(fc_k) != hs.total_active_cells or set(fc_k) != set((l, c) for l in range(L) for c in act[l]):
        return 'canonical: active_cells(flat=True) is not the duplicate-free sorted list of the total_active_cells active cells'
    ai = hs.active_indices()
    for l in range(L):
        a = [int(x) for x in ai[l]]
        if any(a[i] >= a[i + 1] for i in range(len(a) - 1)) or len(a) != len(actfun[l]):
            return 'canonical: active_indices()[%d] is not strictly increasing of length |actfun|' % l
        nd = [int(n) for n in hs.mesh(l).numdofs]
        if a != sorted(int(np.ravel_multi_index(f, nd)) for f in actfun[l]):
            return 'canonical: active_indices()[%d] are not the raveled active multi-indices' % l

    # ---- incidence by open-box intersection
    nf, nc = len(ff_k), len(fc_k)
    flo = np.array([[s[0] for s in hs.function_support(l, f)] for (l, f) in ff_k], dtype=float).reshape(nf, dim)
    fhi = np.array([[s[1] for s in hs.function_support(l, f)] for (l, f) in ff_k], dtype=float).reshape(nf, dim)
    clo = np.array([[s[0] for s in hs.cell_extents(l, c)] for (l, c) in fc_k], dtype=float).reshape(nc, dim)
    chi = np.array([[s[1] for s in hs.cell_extents(l, c)] for (l, c) in fc_k], dtype=float).reshape(nc, dim)
    meet = np.all(np.maximum(flo[:, None, :], clo[None, :, :]) < np.minimum(fhi[:, None, :], chi[None, :, :]), axis=2)
    Z = hs.incidence_matrix()
    if Z.shape != (nf, nc):
        return 'incidence: shape %s, expected (numdofs, total_active_cells) = %s' % (Z.shape, (nf, nc))
    Zd = np.asarray(Z.todense())
    if not np.array_equal(Zd, meet.astype(Zd.dtype)):
        i, j = [int(t) for t in np.argwhere(Zd != meet.astype(Zd.dtype))[0]]
        return 'incidence: entry (%d,%d) is %s but function %s and cell %s %s' % (
            i, j, Zd[i, j], ff_k[i], fc_k[j], 'meet' if meet[i, j] else 'do not meet')

    # ---- admissibility (default marking only)
    if adm_d is not None:
        lf = np.array([l for (l, _) in ff_k])
        lc = np.array([l for (l, _) in fc_k])
        bad = meet & (lc[None, :] > lf[:, None] + adm_d)
        if bad.any():
            i, j = [int(t) for t in np.argwhere(bad)[0]]
            return 'admissible: active function %s is non-zero on active cell %s, disparity %d' % (ff_k[i], fc_k[j], adm_d)

    if numeric:
        return _oracle_numeric(hs)
    return None


def is_small(hs):
    return hs.numdofs <= 40 and int(hs.mesh(hs.numlevels - 1).numbf) <= 200


def rank_fractions(A):
    """exact rank of a matrix of Fractions (Gaussian elimination, rows as sparse dicts)"""
    rows = [{j: x for j, x in enumerate(r) if x != 0} for r in A]
    rank = 0
    ncols = len(A[0]) if A else 0
    for col in range(ncols):
        piv = None
        for i in range(rank, len(rows)):
            if col in rows[i]:
                piv = i
                break
        if piv is None:
            continue
        rows[rank], rows[piv] = rows[piv], rows[rank]
        pr = rows[rank]
        pv = pr[col]
        for i in range(rank + 1, len(rows)):
            r = rows[i]
            if col in r:
                fac = r[col] / pv
                for j, x in pr.items():
                    v = r.get(j, 0) - fac * x
                    if v == 0:
                        r.pop(j, None)
                    else:
                        r[j] = v
        rank += 1
    return rank


_REF_P = {}          # fresh dense 1-D prolongations keyed by the knot data (reference side only, never mutated)
_QUERY_ORDER = [0]   # alternates between THB-first and HB-first query order


def _ref_prolongation_1d(kv0, kv1):
    from pyiga import bspline
    key = (int(kv0.p), np.ascontiguousarray(kv0.kv).tobytes(), np.ascontiguousarray(kv1.kv).tobytes())
    if key not in _REF_P:
        _REF_P[key] = bspline.prolongation(bspline.KnotVector(np.array(kv0.kv, dtype=float), int(kv0.p)),
                                           bspline.KnotVector(np.array(kv1.kv, dtype=float), int(kv1.p))).toarray()
    return _REF_P[key]


def ref_represent_fine(hs, truncate):
    """stateless dense reference of `represent_fine(truncate=...)` for the *current* state of `hs`: computed from
    the knot vectors and the active/deactivated index sets only (fresh prolongations, fresh Kronecker products)"""
    L = hs.numlevels
    lv = L - 1

    def rav(fs, k):
        fs = sorted(fs)
        if not fs:
            return np.zeros(0, dtype=int)
        return np.ravel_multi_index(np.array(fs, dtype=int).T, tuple(int(n) for n in hs.mesh(k).numdofs))
    idx = [rav(hs.actfun[k], k) for k in range(L)]
    idx[lv] = np.concatenate((idx[lv], rav(hs.deactfun[lv], lv))).astype(int)
    M = np.eye(int(hs.mesh(lv).numbf))
    blocks = [None] * L
    blocks[lv] = M[:, idx[lv]]
    for k in reversed(range(lv)):
        Pk = np.ones((1, 1))
        for kv0, kv1 in zip(hs.mesh(k).kvs, hs.mesh(k + 1).kvs):
            Pk = np.kron(Pk, _ref_prolongation_1d(kv0, kv1))
        Pk = Pk.copy()
        if truncate:
            Pk[idx[k + 1], :] = 0
        M = M @ Pk
        blocks[k] = M[:, idx[k]]
    return np.hstack(blocks)


def _dense(X):
    return X.toarray() if hasattr(X, 'toarray') else np.asarray(X)


def _ref_colloc(knots, p, x):
    """dense B[i,j] = N_{j,p}(x_i) by the Cox-de Boor recursion (right end point included); own implementation"""
    knots = np.asarray(knots, dtype=float)
    x = np.asarray(x, dtype=float)
    m = len(knots) - 1
    B = np.zeros((len(x), m))
    for j in range(m):
        if knots[j] < knots[j + 1]:
            B[:, j] = (knots[j] <= x) & (x < knots[j + 1])
    last = max(j for j in range(m) if knots[j] < knots[j + 1])
    B[x == knots[-1], last] = 1.0
    for q in range(1, p + 1):
        Bn = np.zeros((len(x), m - q))
        for j in range(m - q):
            d1 = knots[j + q] - knots[j]
            d2 = knots[j + q + 1] - knots[j + 1]
            if d1 > 0:
                Bn[:, j] += (x - knots[j]) / d1 * B[:, j]
            if d2 > 0:
                Bn[:, j] += (knots[j + q + 1] - x) / d2 * B[:, j + 1]
        B = Bn
    return B


_EVAL_ROT = [0]
_COEFF_KINDS = ['int-ones', 'int-pattern', 'float32', 'float64', 'int32-pattern']


def _test_coeffs(kind, n):
    pat = (np.arange(n) * 3) % 7 - 2
    if kind == 'int-ones':
        return np.ones(n, dtype=int)
    if kind == 'int-pattern':
        return pat.astype(int)
    if kind == 'int32-pattern':
        return pat.astype(np.int32)
    if kind == 'float32':
        return (pat / 4.0).astype(np.float32)          # exactly representable
    return pat / 4.0 + 0.125


def _oracle_eval(hs, refA, refT):
    """hierarchical spline functions evaluated by the library (grid_eval, HSplineFunc) for coefficient vectors of
    integer / float32 / float64 dtype, HB and THB interpretation, against the stateless reference: fine-level
    tensor-product coefficients `ref_represent_fine @ coeffs` evaluated with an own Cox-de Boor collocation"""
    from pyiga import hierarchical
    lv = hs.numlevels - 1
    grid, C = [], np.ones((1, 1))
    for kv in hs.mesh(lv).kvs:
        mesh = np.asarray(kv.mesh, dtype=float)
        pts = np.unique(np.concatenate(((mesh[:-1] + mesh[1:]) / 2, mesh[::max(1, len(mesh) // 4)], mesh[-1:])))
        if len(pts) > 9:
            pts = pts[np.linspace(0, len(pts) - 1, 9).astype(int)]
        grid.append(pts)
        C = np.kron(C, _ref_colloc(kv.kv, int(kv.p), pts))
    n = hs.numdofs
    shape = tuple(len(g) for g in grid)
    for _ in range(2):
        _EVAL_ROT[0] += 1
        kind = _COEFF_KINDS[_EVAL_ROT[0] % len(_COEFF_KINDS)]
        u = _test_coeffs(kind, n)
        scale = max(1.0, float(np.abs(u).max()))
        tol = (1e-5 if kind == 'float32' else 1e-9) * scale
        for tr, ref in ((True, refT), (False, refA)):
            want = (C @ (ref @ u.astype(float))).reshape(shape)
            via = 'grid_eval' if (_EVAL_ROT[0] + int(tr)) % 2 else 'HSplineFunc.grid_eval'
            if via == 'grid_eval':
                got = np.asarray(hs.grid_eval(u, grid, truncate=tr), dtype=float)
            else:
                got = np.asarray(hierarchical.HSplineFunc(hs, u, truncate=tr).grid_eval(grid), dtype=float)
            if got.shape != want.shape or not np.all(np.isfinite(got)) or np.abs(got - want).max() > tol:
                dev = np.abs(got - want).max() if got.shape == want.shape else float('nan')
                return 'eval: %s of a hierarchical spline with %s coefficients (dtype %s), truncate=%s, deviates from the reference values by %g' % (
                    via, kind, u.dtype, tr, dev)
            if kind == 'int-ones' and tr and np.abs(want - 1).max() < 1e-9 and np.abs(got - 1).max() > 1e-9:
                return 'eval: the THB functions with integer coefficients 1 do not sum to one (max deviation %g)' % np.abs(got - 1).max()
    return None


def _oracle_numeric(hs, order=None):
    """numeric clauses on the object `hs` itself (it keeps whatever internal caches earlier queries left behind).
    The THB and HB queries are issued in alternating order (THB first / HB first) and every answer is compared
    with the stateless dense reference of the current space."""
    if order is None:
        _QUERY_ORDER[0] ^= 1
        order = 'thb-first' if _QUERY_ORDER[0] else 'hb-first'
    n = hs.numdofs
    if order == 'thb-first':
        Rt = _dense(hs.represent_fine(truncate=True))
        T = _dense(hs.thb_to_hb())
        H = _dense(hs.hb_to_thb())
        A = _dense(hs.represent_fine(truncate=False))
    else:
        A = _dense(hs.represent_fine(truncate=False))
        H = _dense(hs.hb_to_thb())
        T = _dense(hs.thb_to_hb())
        Rt = _dense(hs.represent_fine(truncate=True))
    if Rt.shape != A.shape:
        return 'thb: represent_fine(truncate=True) has shape %s' % (Rt.shape,)
    refA = ref_represent_fine(hs, False)
    refT = ref_represent_fine(hs, True)
    if refA.shape != A.shape or np.abs(A - refA).max() > 1e-9:
        return 'represent: represent_fine(truncate=False) (queries in order %s on a long-lived object) is not the HB representation of the current space (max deviation %g)' % (
            order, np.abs(A - refA).max() if refA.shape == A.shape else float('nan'))
    if np.abs(Rt - refT).max() > 1e-9:
        return 'represent: represent_fine(truncate=True) (queries in order %s) is not the THB representation of the current space (max deviation %g)' % (order, np.abs(Rt - refT).max())
    bad = _oracle_eval(hs, refA, refT)
    if bad is not None:
        return bad
    # the default `truncate=None` must follow the attribute of the space
    D = _dense(hs.represent_fine())
    if np.abs(D - (refT if hs.truncate else refA)).max() > 1e-9:
        return 'represent: represent_fine() does not follow HSpace.truncate=%s' % hs.truncate
    Aq = [[Fraction(float(x)).limit_denominator(2 ** 20) if x != 0 else Fraction(0) for x in row] for row in A]
    rk = rank_fractions(Aq)
    if rk != n:
        return 'independence: the %d active functions have rank %d in the finest tensor-product basis' % (n, rk)
    if Rt.min() < -1e-12:
        return 'thb: represent_fine(truncate=True) has a negative entry %g' % Rt.min()
    rs = Rt.sum(axis=1)
    if np.abs(rs - 1).max() > 1e-10:
        return 'thb: the truncated basis does not sum to one (row sum %r at fine function %d)' % (float(rs[np.abs(rs - 1).argmax()]), int(np.abs(rs - 1).argmax()))
    if np.abs(H @ T - np.eye(n)).max() > 1e-10 or np.abs(T @ H - np.eye(n)).max() > 1e-10:
        return 'thb: hb_to_thb() @ thb_to_hb() is not the identity'
    if np.abs(A @ T - Rt).max() > 1e-10:
        return 'thb: represent_fine(truncate=False) @ thb_to_hb() differs from represent_fine(truncate=True) by %g' % np.abs(A @ T - Rt).max()
    # the transforms against the stateless reference: thb_to_hb expresses the THB functions in the HB basis
    Tref = np.linalg.lstsq(refA, refT, rcond=None)[0]
    if np.abs(T - Tref).max() > 1e-8:
        return 'thb: thb_to_hb() (queries in order %s) is not the basis change of the current space (max deviation %g)' % (order, np.abs(T - Tref).max())
    # hypotheses of the matrix-level Lean theorems (truncation_algebra, thb_partition_of_unity),
    # checked on the real matrices: block shape of I - truncate_one_level(k); unit row sums and
    # non-negativity of the 1-D prolongations
    nt = np.cumsum(hs.numactive)
    for k in range(hs.numlevels - 1):
        Ak = np.eye(n) - hs.truncate_one_level(k).toarray()
        Bk = hs.truncate_one_level(k, inverse=True).toarray() - np.eye(n)
        if np.abs(Ak - Bk).max() > 1e-12:
            return 'thb-shape: truncate_one_level(%d) and its inverse flavour are not I -/+ the same matrix' % k
        rows, cols = np.nonzero(np.abs(Ak) > 0)
        if len(rows) and (rows.min() < nt[k] or cols.max() >= nt[k]):
            return 'thb-shape: I - truncate_one_level(%d) has a non-zero outside rows >= nt[k], columns < nt[k]' % k
        for P in hs.hmesh.P[k]:
            Pd = P.toarray()
            if Pd.min() < -1e-12 or np.abs(Pd.sum(axis=1) - 1).max() > 1e-10:
                return 'prolongation: a 1-D prolongation of level %d has a negative entry or a row sum != 1' % k
    return None


# ----------------------------------------------------------------------------- generators

def exhaustive_configs(ctx):
    rng = ctx.rng
    base = []
    for n in (2, 3, 4):
        for p in (1, 2, 3):
            base.append(([(p, 'uniform', n)], 'u1d'))
    base.append(([(2, [2, 2], [0.0, 1.0, 2.0, 3.0])], 'm1d'))
    base.append(([(2, [1, 2, 1], [0.0, 1.0, 2.0, 3.0, 4.0])], 'm1d'))
    base.append(([(3, [2, 1], [0.0, 0.5, 0.75, 1.0])], 'm1d'))
    for p in (1, 2):
        base.append(([(p, 'uniform', 2), (p, 'uniform', 2)], 'u2d'))
    out = []
    for kvs, kind in base:
        for disp in (1, 2, None):
            if disp is None:
                truncs = [False]
            elif ctx.tier == 'thorough':
                truncs = [False, True]
            else:
                truncs = [bool(rng.integers(0, 4) == 0)]
            for tr in truncs:
                out.append({'kvs': kvs, 'disp': disp, 'truncate': bool(rng.integers(0, 2)), 'kind': kind, 'optrunc': tr})
    return out


def subsets_of_active(hs, rng, full_max, nsample):
    cells = [(l, c) for l in range(hs.numlevels) for c in sorted(hs.active_cells(l))]
    n = len(cells)
    if n <= full_max:
        return [[cells[i] for i in range(n) if (bits >> i) & 1] for bits in range(1, 1 << n)]
    lv_act = [l for l in range(hs.numlevels) if hs.active_cells(l)]
    out = [[x for x in cells if x[0] == lv_act[-1]],                                # all cells of the finest level
           [next(x for x in cells if x[0] == l) for l in lv_act],                   # first cell of each level
           list(cells),                                                             # everything
           [cells[0]], [cells[-1]],
           [[x for x in cells if x[0] == l][-1] for l in lv_act]]                   # last cell of each level
    seen, uniq = set(), []
    for s in out:
        if frozenset(s) not in seen:
            seen.add(frozenset(s))
            uniq.append(s)
    out = uniq
    tries = 0
    while len(out) < nsample and tries < 20 * nsample:
        tries += 1
        k = int(min(n, 1 + rng.geometric(0.45))) if rng.integers(0, 5) else int(rng.integers(1, n + 1))
        s = [cells[i] for i in sorted(rng.permutation(n)[:k].tolist())]
        if frozenset(s) not in seen:
            seen.add(frozenset(s))
            out.append(s)
    return out


def group_by_level(sub):
    d = {}
    for (l, c) in sub:
        d.setdefault(l, []).append(c)
    return d


def gen_random_cfg(rng, tier):
    r = rng.random()
    disp = [1, 2, 3, None][int(rng.integers(0, 4))]
    if r < 0.45:
        dim, nmax, pmax, ncalls, kcells = 1, 6, 4, int(rng.integers(3, 7)), 3
        ns = [int(rng.integers(2, nmax + 1))]
    elif r < 0.85:
        dim, pmax, ncalls, kcells = 2, 3, int(rng.integers(3, 6)), 3
        ns = [int(rng.integers(2, 4)) for _ in range(2)]
    else:
        dim, pmax, ncalls, kcells = 3, 2, int(rng.integers(1, 4)), 2
        ns = [2, 2, 2]
    kvs = []
    for n in ns:
        p = int(rng.integers(1, pmax + 1))
        mode = int(rng.integers(0, 3))
        if mode == 0:
            kvs.append((p, 'uniform', n))
        else:
            mult = [int(rng.integers(1, p + 1)) for _ in range(n - 1)] if mode == 2 else [1] * (n - 1)
            steps = rng.integers(1, 4, size=n) if rng.integers(0, 2) else np.ones(n, dtype=int)
            brk = np.concatenate(([0], np.cumsum(steps))).astype(float)
            if rng.integers(0, 2):
                brk = brk / brk[-1]
            kvs.append((p, mult, [float(b) for b in brk]))
    if dim >= 2 and rng.integers(0, 3) == 0:
        # nearly equal (same degree, same number of knots) but different axes on a tiny domain; the power of two
        # keeps the arithmetic exact
        p = int(rng.integers(1, pmax + 1))
        n = int(rng.integers(2, 4))
        sc = 2.0 ** -int(rng.integers(28, 34))
        kvs = []
        for _d in range(dim):
            steps = rng.integers(1, 4, size=n)
            brk = np.concatenate(([0], np.cumsum(steps))).astype(float)
            brk = brk / brk[-1] * 4.0
            kvs.append((p, [1] * (n - 1), [float(b * sc) for b in brk]))
    return {'kvs': kvs, 'disp': disp, 'truncate': bool(rng.integers(0, 2)), 'kind': 'r%dd' % dim,
            'ncalls': ncalls, 'kcells': kcells, 'dim': dim}


def gen_random_op(hs, rng, cfg):
    L = hs.numlevels
    lv_act = [l for l in range(L) if hs.active_cells(l)]
    r = rng.random()
    if r < 0.18:
        lv = int(rng.integers(0, L))
        k = int(rng.integers(0, 6))
        ext0 = [(float(kv.kv[0]), float(kv.kv[-1])) for kv in reversed(hs.knotvectors(0))]
        ax = int(rng.integers(0, len(ext0)))
        lo, hi = ext0[ax]
        if k == 0:
            pred = ('all',)
        elif k == 1:
            pred = ('none',) if rng.integers(0, 3) == 0 else ('lt', ax, lo + (hi - lo) * float(rng.random()))
        elif k == 2:
            pred = ('lt', ax, lo + (hi - lo) * float(rng.random()))
        elif k == 3:
            pred = ('ge', ax, lo + (hi - lo) * float(rng.random()))
        else:
            c = tuple(a + (b - a) * float(rng.random()) for (a, b) in ext0)
            pred = ('ball', c, float(0.1 + 0.4 * rng.random()) * max(b - a for (a, b) in ext0))
        return mk_region_op(hs, lv, pred)
    trunc = bool(rng.integers(0, 3) == 0)
    if r < 0.22:
        # nothing marked: {} / explicit empties only
        by = {} if rng.integers(0, 2) else {int(rng.integers(0, L + 1)): []}
        return mk_refine_op(rng, by, trunc, extra_empty=False)
    nl = 1 if rng.integers(0, 2) else min(len(lv_act), int(rng.integers(1, 4)))
    lvs = [lv_act[i] for i in sorted(rng.permutation(len(lv_act))[:nl].tolist())]
    by = {}
    for l in lvs:
        cells = sorted(hs.active_cells(l))
        if cfg['dim'] < 3 and rng.integers(0, 8) == 0:
            k = len(cells)
        else:
            k = int(rng.integers(1, cfg['kcells'] + 1))
        by[l] = [cells[i] for i in rng.permutation(len(cells))[:k].tolist()]
    return mk_refine_op(rng, by, trunc)


# ----------------------------------------------------------------------------- the check

class Stream:
    """collects (request, expected steps, meta); ships chunks to the driver and diffs segment by segment"""

    def __init__(self, ctx):
        self.ctx = ctx
        self.req, self.exp, self.meta = [], [], []
        self.nreq = 0
        self.nsteps = 0
        self.ndis = 0
        self.reported = 0

    def add(self, cfg, r, ops, steps):
        self.req.append(r)
        self.exp.append(list(steps))
        self.meta.append((cfg, list(ops)))
        self.nsteps += len(steps)
        if len(self.req) >= CHUNK:
            self.flush()

    def flush(self):
        if not self.req:
            return
        got = self.ctx.model('drv_c04', self.req)
        for r, e, g, m in zip(self.req, self.exp, got, self.meta):
            self.nreq += 1
            d = diff_history(e, g)
            if d is not None:
                self.ndis += 1
                if self.reported < 12:
                    self.reported += 1
                    report_disagreement(self.ctx, r, m, d)
        self.req, self.exp, self.meta = [], [], []


def diff_history(exp_steps, got_line):
    """None or (step index, segment name, implementation text, model text)"""
    gs = got_line.split(' ;; ')
    if len(gs) != len(exp_steps):
        return (min(len(gs), len(exp_steps)), 'steps', '%d steps' % len(exp_steps), ('%d steps: ' % len(gs)) + got_line[:300])
    for k, (e, g) in enumerate(zip(exp_steps, gs)):
        if e == g:
            continue
        es, gsg = e.split(' | '), g.split(' | ')
        if len(es) != len(gsg):
            return (k, 'raise', e[:400], g[:400])
        for a, b in zip(es, gsg):
            if a != b:
                name = a.split('=', 1)[0] if '=' in a else 'raise'
                if name not in SEGMENTS:
                    name = 'raise'
                return (k, name, a[:1500], b[:1500])
    return None


def replay_history(cfg, ops):
    """re-run the history on the real code; yields (step, space, admissibility disparity or None)"""
    hs = make_space(cfg)
    adm = cfg['disp']
    yield 0, hs, adm
    for k, op in enumerate(ops):
        h2 = hs.copy()
        try:
            apply_op(h2, op)
            hs = h2
            if op['trunc']:
                adm = None
        except Exception:
            pass
        yield k + 1, hs, adm


def oracle_history(cfg, ops, upto=None):
    try:
        for k, hs, adm in replay_history(cfg, ops):
            if upto is not None and k > upto:
                break
            d = oracle_space(hs, adm, numeric=is_small(hs))
            if d is not None:
                return 'after step %d: %s' % (k, d)
    except Exception as ex:
        return 'replay raised %s: %s' % (type(ex).__name__, str(ex)[:200])
    return None


def report_disagreement(ctx, request, meta, d):
    cfg, ops = meta
    k, name, impl, model = d
    found = oracle_history(cfg, ops)
    ctx.violation('hier-corr:' + name,
                  'model and implementation disagree on segment `%s` after step %d of a refinement history%s' % (
                      name, k, (': ' + found) if found else ''),
                  {'request': request[:3000], 'step': k, 'segment': name, 'implementation': impl, 'model': model,
                   'oracle': found, 'space': cfg_replay(cfg), 'history': [op_replay(o) for o in ops],
                   'stream': 'hier (drv_c04)', 'theorems': THEOREMS}, found is not None)


def state_key(hs):
    hm = hs.hmesh
    return tuple((frozenset(hm.active[l]), frozenset(hm.deactivated[l]), frozenset(hs.actfun[l]), frozenset(hs.deactfun[l]))
                 for l in range(hs.numlevels))


def nontrivial(hs):
    return hs.numlevels >= 2 and any(len(d) for d in hs.deactfun)


def run(ctx):
    ctx.build_repo()
    from pyiga import hierarchical, bspline  # noqa: F401
    targets = [t for t in LEAN_TARGETS
               if not t.startswith('Pyiga.') or os.path.exists(os.path.join(LEAN, t.replace('.', '/') + '.lean'))]
    ctx.require_lean(targets)
    if THEOREMS:
        ctx.audit(['Pyiga.Props.C04'], THEOREMS, MODULES)
    if ctx.tier == 'thorough':
        ctx.leanchecker(MODULES)
    rng = ctx.rng
    quick = ctx.tier == 'quick'
    ctx.trusted += ['model of numpy/scipy primitives used by hierarchical.py by their documented behaviour (np.unique, '
                    'np.ravel_multi_index, CSC column slices of bspline.prolongation, sparse products in incidence_matrix)',
                    'the 1-D knot vector is modelled by (degree, multiplicities of the distinct knots); the sparsity pattern of '
                    'bspline.prolongation is tied by the fch/fpa segments, its values are not modelled']
    ctx.assumptions += ['marked cells are currently active cells of their level (hypothesis of the property)',
                        'mark containers are set/frozenset/list/tuple (any order, duplicates allowed); generators/arrays are not exercised',
                        'bdspecs=None (no Dirichlet specification)',
                        'a refine that raises leaves the space unchanged (the harness restores a copy taken before the call)']
    ctx.rule = ('exhaustive: 1-D uniform meshes with 2-4 cells, p 1-3, three 1-D knot vectors with interior multiplicity 2, 2-D 2x2 p 1-2; '
                'disparity 1/2/inf; all sequences of <=2 (quick) / <=3 (thorough) refine calls where every call marks a non-empty subset of '
                'all currently active cells (all subsets when there are <=6 active cells (2nd call quick: <=3; thorough 2nd/3rd call: <=4/<=2), otherwise a sample of 10/4 (thorough 16/8/2) incl. all-finest / first-of-each-level / all); '
                'random: 1-D (2-6 cells, p 1-4, interior multiplicities 1..p, non-uniform breakpoints), 2-D (2-3 cells per axis, p 1-3), '
                '3-D (2x2x2, p 1-2), disparity 1/2/3/inf, 1-6 calls mixing refine (truncate on/off, 1-3 levels per call), refine_region predicates and '
                'empty marks; containers set/frozenset/list/tuple with duplicates, shuffled, missing vs explicit-empty keys. '
                'deep chains: disparity 2/3, 1-D p 1-2 (one with a double knot) and 2-D 2x2 p 1, 2d+1..2d+3 successive calls marking 1-2 cells of the deepest level (+ sometimes one of the level below); '
                'long-lived: one HSpace object refined in place 2-3 times (1-D p 1-3, 2-D, disparity inf/1/2, truncate on/off) with represent_fine / thb_to_hb / hb_to_thb queried after every step in alternating THB-first / HB-first order and compared with a stateless dense reference; '
                'evaluation: grid_eval / HSplineFunc.grid_eval with int / int32 / float32 / float64 coefficient vectors, HB and THB, against reference values (stateless representation x own Cox-de Boor); 2-D/3-D spaces whose axes are different knot vectors of equal degree and length on domains of size 2^-30 (long-lived and random streams); '
                'One request per history (every prefix state is reported by the driver), plus a `vsup` request (the five cell_* properties of the final space) for every random and every 6th exhaustive history. non-trivial = final space has >=2 levels and a deactivated function; '
                'distinct by request line')
    cache = {}
    stream = Stream(ctx)
    norc = [0]
    nvs = [0]
    orc_seen = {}

    def oracle_once(cfg, ops, hs, adm, ckey):
        """direct model-free cross-check of one space (deduplicated by state within a configuration)"""
        key = (ckey, state_key(hs), adm)
        if key in orc_seen:
            return
        orc_seen[key] = True
        norc[0] += 1
        d = oracle_space(hs, adm, numeric=(is_small(hs) and (isinstance(ckey, tuple) or norc[0] % 4 == 0)))
        if d is not None:
            clause = d.split(':', 1)[0]
            ctx.violation('hier-oracle:' + clause, 'the property fails on the implementation: ' + d,
                          {'oracle': d, 'space': cfg_replay(cfg), 'history': [op_replay(o) for o in ops],
                           'request': ' '.join([cfg_header(cfg), str(len(ops))] + [op_request(o) for o in ops])}, True)

    def finish_history(cfg, header, ops, steps, hs, stream_name):
        request = ' '.join([header, str(len(ops))] + [op_request(o) for o in ops])
        stream.add(cfg, request, ops, steps)
        # compute_virtual_supports (cell_global / cell_new / cell_trunc / cell_func_supp / cell_cell_supp) of the
        # final space: every random history and every 6th exhaustive one (each property deep-copies the space per level)
        nvs[0] += 1
        if stream_name != 'exhaustive' or nvs[0] % 6 == 0:
            stream.add(cfg, 'vsup' + request[4:], ops, [fmt_vsup(hs)])
            ctx.count('vsup requests')
        ctx.case(request, nontrivial(hs))
        ctx.count('stream=' + stream_name)
        ctx.count('dim=%d' % hs.dim)
        ctx.count('p=' + ','.join(str(kv.p) for kv in hs.knotvectors(0)))
        ctx.count('disparity=%s' % ('inf' if cfg['disp'] is None else cfg['disp']))
        ctx.count('calls=%d' % len(ops))
        ctx.count('levels=%d' % hs.numlevels)
        for o, s in zip(ops, steps[1:]):
            ctx.count('container=' + op_container_tag(o))
            if s.startswith('err-'):
                ctx.count(s)
            if o['trunc']:
                ctx.count('refine(truncate=True)')
        if len(ctx.samples) < 5 and len(ops) >= 2 and hs.numlevels >= 3:
            ctx.sample({'request': request[:400],
                        'calls': [op_container_tag(o) for o in ops]})

    def harness_exception(cfg, ex):
        # the implementation raised in a helper the generators rely on (copy, cell_extents, active_cells, ...)
        import traceback
        ctx.count('exception outside refine')
        ctx.violation('hier-corr:raise', 'the implementation raised %s outside of refine while a history was generated' % type(ex).__name__,
                      {'space': cfg_replay(cfg), 'exception': '%s: %s' % (type(ex).__name__, str(ex)[:300]),
                       'traceback': traceback.format_exc()[-1500:]}, False)

    # ---- exhaustive stream
    # per call depth: (enumerate all non-empty subsets up to this many active cells, sample size otherwise)
    plan = [(6, 10), (3, 4)] if quick else [(6, 16), (4, 8), (2, 2)]
    depth = len(plan)
    for ci, cfg in enumerate(exhaustive_configs(ctx)):
        header = cfg_header(cfg)
        body_cache = {}

        def rec(hs, ops, steps, adm, cfg=cfg, header=header, body_cache=body_cache, ci=ci):
            oracle_once(cfg, ops, hs, adm, ci)
            if len(ops) == depth:
                finish_history(cfg, header, ops, steps, hs, 'exhaustive')
                return
            for sub in subsets_of_active(hs, rng, *plan[len(ops)]):
                by = group_by_level(sub)
                if len(by) == 1 and not cfg['optrunc'] and rng.integers(0, 5) == 0:
                    lv = next(iter(by))
                    pts = frozenset(centre_args(hs, lv, c) for c in by[lv])
                    op = mk_region_op(hs, lv, ('in', pts))
                else:
                    op = mk_refine_op(rng, by, cfg['optrunc'])
                h2, step = run_op(hs, op, cache, body_cache)
                rec(h2, ops + [op], steps + [step], None if (op['trunc'] and not step.startswith('err-')) else adm)
        try:
            hs0 = make_space(cfg)
            rec(hs0, [], [fmt_step(hs0, '-', cache, body_cache)], cfg['disp'])
        except InfraError:
            raise
        except Exception as ex:
            harness_exception(cfg, ex)
    stream.flush()
    nexh = stream.nreq

    # ---- deep chains: finite disparity d in {2,3}, 2d+2..2d+3 successive calls each marking one or two cells of the
    # deepest level (sometimes also one of the level below), so that _mark_recursive has to recurse over >= 2
    # disparity steps in every run; every intermediate state goes through the diff and the admissibility oracle
    deep_cfgs = []
    for d in (2, 3):
        deep_cfgs += [([(1, 'uniform', 4 if d == 2 else 2)], d), ([(2, 'uniform', 3 if d == 2 else 2)], d),
                      ([(2, [2], [0.0, 1.0, 2.0])], d)]
    deep_cfgs.append(([(1, 'uniform', 2), (1, 'uniform', 2)], 2))
    nchain = 5 if quick else 40
    for di, (kvs, d) in enumerate(deep_cfgs):
        for rep in range(nchain if len(kvs) == 1 else max(2, nchain // 2)):
            cfg = {'kvs': kvs, 'disp': d, 'truncate': bool(rng.integers(0, 2)), 'kind': 'deep%dd' % len(kvs), 'optrunc': False}
            try:
                header = cfg_header(cfg)
                hs = make_space(cfg)
                steps = [fmt_step(hs, '-', cache)]
                ops = []
                ncalls = 2 * d + 2 + (int(rng.integers(0, 2)) if (d == 2 and len(kvs) == 1) else 0)
                if len(kvs) == 2:
                    ncalls = 2 * d + 1
                for _k in range(ncalls):
                    top = max(l for l in range(hs.numlevels) if hs.active_cells(l))
                    cells = sorted(hs.active_cells(top))
                    k = 1 + int(rng.integers(0, 2))
                    by = {top: [cells[i] for i in rng.permutation(len(cells))[:k]]}
                    if top >= 1 and hs.active_cells(top - 1) and rng.integers(0, 5) < 2:
                        below = sorted(hs.active_cells(top - 1))
                        by[top - 1] = [below[int(rng.integers(0, len(below)))]]
                    op = mk_refine_op(rng, by, False, extra_empty=False)
                    hs, step = run_op(hs, op, cache)
                    ops.append(op)
                    steps.append(step)
                    oracle_once(cfg, list(ops), hs, d, ('d', di, rep, _k))
                finish_history(cfg, header, ops, steps, hs, 'deep')
            except InfraError:
                raise
            except Exception as ex:
                harness_exception(cfg, ex)
    stream.flush()

    # ---- long-lived objects: ONE HSpace refined in place over several calls (no copies: whatever the object caches
    # survives the refinements); after the constructor and every refine the THB and HB matrix queries are issued in
    # alternating order (THB first / HB first) and compared with the stateless reference of the current space; the
    # state and index queries go through the driver diff as in the other streams
    ll_base = [([(p, 'uniform', n)], None) for p in (1, 2, 3) for n in (2, 3, 4)]
    ll_base += [([(2, [2], [0.0, 1.0, 2.0])], 2), ([(1, 'uniform', 2), (1, 'uniform', 2)], None),
                ([(2, 'uniform', 2), (1, 'uniform', 2)], 1), ([(2, 'uniform', 4)], 1), ([(1, 'uniform', 3)], 2)]
    # >= 2-D spaces whose axes carry different knot vectors of the same degree and length on a tiny parameter domain
    # (power-of-two scalings keep every float operation exact): uniform x graded, graded x graded', also 3-D
    tiny = 2.0 ** -30
    ll_base += [([(1, [1, 1], [0.0, tiny, 2 * tiny, 3 * tiny]), (1, [1, 1], [0.0, tiny, 2.5 * tiny, 3 * tiny])], None),
                ([(2, [1], [0.0, 1.5 * tiny, 2 * tiny]), (2, [1], [0.0, 0.5 * tiny, 2 * tiny])], None),
                ([(2, [1], [0.0, tiny, 2 * tiny]), (2, [1], [0.0, 0.25 * tiny, 2 * tiny])], 1),
                ([(1, [1], [0.0, tiny, 4 * tiny]), (1, [1], [0.0, 2 * tiny, 4 * tiny]), (1, [1], [0.0, 3 * tiny, 4 * tiny])], None),
                ([(2, [2], [0.0, 1.0, 4.0]), (2, [2], [0.0, 3.0, 4.0])], None)]
    nrep = 2 if quick else 12
    for li, (kvs, disp) in enumerate(ll_base):
        for rep in range(nrep):
            for tr in (False, True):
                cfg = {'kvs': kvs, 'disp': disp, 'truncate': tr, 'kind': 'long%dd' % len(kvs), 'optrunc': False}
                try:
                    header = cfg_header(cfg)
                    hs = make_space(cfg)                      # the one long-lived object
                    first = 'thb-first' if (rep + li + int(tr)) % 2 == 0 else 'hb-first'
                    other = {'thb-first': 'hb-first', 'hb-first': 'thb-first'}
                    steps = [fmt_step(hs, '-', cache)]
                    ops = []
                    order = first
                    bad = None
                    for _k in range(3 if len(kvs) == 1 else 2):
                        if _k > 0 or rep % 2 == 0:            # (sometimes the first matrix query comes only after a refine)
                            bad = _oracle_numeric(hs, order) if int(hs.mesh(hs.numlevels - 1).numbf) <= 300 else None
                            ctx.count('long-lived queries ' + order)
                            order = other[order] if rng.integers(0, 3) else order
                        if bad is not None:
                            break
                        cells = [(l, c) for l in range(hs.numlevels) for c in sorted(hs.active_cells(l))]
                        k = 1 + int(rng.integers(0, min(3, len(cells))))
                        by = group_by_level([cells[i] for i in rng.permutation(len(cells))[:k]])
                        op = mk_refine_op(rng, by, False, extra_empty=False)
                        try:
                            ret = apply_op(hs, op)            # in place
                            steps.append(fmt_step(hs, fmt_ret(ret), cache))
                        except Exception as ex:
                            steps.append('err-' + type(ex).__name__)
                            ops.append(op)
                            break
                        ops.append(op)
                    if bad is None and not steps[-1].startswith('err-') and int(hs.mesh(hs.numlevels - 1).numbf) <= 300:
                        bad = _oracle_numeric(hs, order)
                        ctx.count('long-lived queries ' + order)
                    if bad is None and not steps[-1].startswith('err-'):
                        bad = oracle_space(hs, cfg['disp'], numeric=False)
                    if bad is not None:
                        clause = bad.split(':', 1)[0]
                        ctx.violation('hier-oracle:' + clause, 'the property fails on the implementation (one long-lived HSpace, matrix queries interleaved with refine): ' + bad,
                                      {'oracle': bad, 'space': cfg_replay(cfg), 'history': [op_replay(o) for o in ops],
                                       'first_query_order': first,
                                       'request': ' '.join([header, str(len(ops))] + [op_request(o) for o in ops])}, True)
                    if not steps[-1].startswith('err-') or len(steps) > 1:
                        finish_history(cfg, header, ops, steps, hs, 'long-lived')
                except InfraError:
                    raise
                except Exception as ex:
                    harness_exception(cfg, ex)
    stream.flush()

    # ---- random stream
    nrand = 150 if quick else 2000
    for _ in range(nrand):
        cfg = gen_random_cfg(rng, ctx.tier)
        try:
            header = cfg_header(cfg)
            hs = make_space(cfg)
            steps = [fmt_step(hs, '-', cache)]
            ops = []
            adm = cfg['disp']
            for _k in range(cfg['ncalls']):
                if cfg['dim'] == 3 and hs.total_active_cells > 400:
                    break
                op = gen_random_op(hs, rng, cfg)
                hs, step = run_op(hs, op, cache)
                ops.append(op)
                steps.append(step)
                if op['trunc'] and not step.startswith('err-'):
                    adm = None
            oracle_once(cfg, ops, hs, adm, ('r', _))
            finish_history(cfg, header, ops, steps, hs, 'random')
        except InfraError:
            raise
        except Exception as ex:
            harness_exception(cfg, ex)
    stream.flush()

    ctx.obligation('correspondence stream hier: %d histories / %d steps, model == implementation' % (stream.nreq, stream.nsteps),
                   stream.ndis == 0, '%d disagreements' % stream.ndis)
    ctx.extra['requests'] = stream.nreq
    ctx.extra['steps'] = stream.nsteps
    ctx.extra['exhaustive_histories'] = nexh
    ctx.extra['oracle_cross_checks'] = norc[0]

    # ---- known finding hook: cell_* properties (compute_virtual_supports) on a 2-level space
    check_cell_virtual_supports(ctx)
    check_aliased_marks(ctx)


def check_cell_virtual_supports(ctx):
    cfg = {'kvs': [(2, 'uniform', 4)], 'disp': None, 'truncate': False}
    marks = {0: [(0,), (1,)]}
    try:
        hs = make_space(cfg)
        hs.refine({0: list(marks[0])})
    except Exception as ex:
        ctx.violation('cell-virtual-supports-setup', 'could not build the 2-level space: %s' % type(ex).__name__,
                      {'space': cfg_replay(cfg), 'marks': {'0': [[0], [1]]}}, False)
        return
    replay = {'space': cfg_replay(cfg), 'marks': {'0': [[0], [1]]}}
    for prop in ('cell_new', 'cell_trunc', 'cell_func_supp', 'cell_cell_supp', 'cell_global'):
        try:
            getattr(hs, prop)
        except Exception as ex:
            ctx.violation('cell-virtual-supports', 'HSpace.cell_new/cell_trunc/cell_func_supp/cell_cell_supp/cell_global raise IndexError for numlevels>=2',
                          dict(replay, property=prop, exception='%s: %s' % (type(ex).__name__, str(ex)[:200])), True)
            ctx.count('cell_* property raises')
            return
    try:
        cg = hs.cell_global
        gi = hs.global_indices()
        for lv in range(hs.numlevels):
            want = hs.get_virtual_space(lv).compute_supports(gi[lv][:lv + 1])
            if dict(cg[lv]) != dict(want):
                ctx.violation('cell-virtual-supports', 'HSpace.cell_global[%d] differs from the supports computed on the virtual space' % lv,
                              dict(replay, property='cell_global', level=lv, got=repr(cg[lv])[:500], want=repr(want)[:500]), True)
                return
    except Exception as ex:
        ctx.violation('cell-virtual-supports', 'HSpace.cell_global comparison raised %s' % type(ex).__name__,
                      dict(replay, property='cell_global', exception='%s: %s' % (type(ex).__name__, str(ex)[:200])), True)


def check_aliased_marks(ctx):
    """marks given as the space's own live sets (the objects returned by `active_cells(lv)` / `hmesh.active[lv]`):
    a documented container type holding currently active cells.  Each history is run on the real code with the live
    objects, checked by the model-free oracle and diffed against the model run on the *values* the sets had when
    refine was called.  Everything found here is reported under the single key `refine-aliased-marks`."""
    cfgs = [{'kvs': [(p, 'uniform', n)], 'disp': d, 'truncate': False} for (p, n) in ((1, 2), (2, 4), (3, 3)) for d in (None, 1, 2)]
    cfgs.append({'kvs': [(2, [2], [0.0, 1.0, 2.0])], 'disp': None, 'truncate': True})
    cfgs.append({'kvs': [(1, 'uniform', 2), (2, 'uniform', 2)], 'disp': None, 'truncate': False})
    cfgs.append({'kvs': [(1, 'uniform', 2), (1, 'uniform', 2)], 'disp': 1, 'truncate': False})
    # histories: which levels are marked (by their live active set) in each call; 'h' = live set of hmesh.active
    plans = [[(0,)], [(0,), (1,)], [(0,), (0, 1)], [('h0',), (1,)]]
    reqs, exps, metas = [], [], []
    cache = {}
    first_oracle = None
    for cfg in cfgs:
        for plan in plans:
            try:
                hs = make_space(cfg)
                steps = [fmt_step(hs, '-', cache)]
                opreq, replay = [], []
                for call in plan:
                    marked, levels = {}, []
                    for e in call:
                        lv = int(str(e).lstrip('h'))
                        if lv >= hs.numlevels or not hs.active_cells(lv):
                            continue
                        live = hs.hmesh.active[lv] if str(e).startswith('h') else hs.active_cells(lv)
                        marked[lv] = live
                        while len(levels) <= lv:
                            levels.append([])
                        levels[lv] = sorted(live)      # the value at call time
                    if not marked:
                        continue
                    opreq.append(op_request({'trunc': False, 'levels': levels}))
                    replay.append({'call': 'refine', 'marks': {str(lv): 'the live set hs.active_cells(%d) == %s' % (lv, levels[lv]) for lv in marked}})
                    try:
                        ret = hs.refine(marked)
                        steps.append(fmt_step(hs, fmt_ret(ret), cache))
                    except Exception as ex:
                        steps.append('err-' + type(ex).__name__)
                        break
                    ctx.count('aliased-marks calls')
                    if first_oracle is None:
                        d = oracle_space(hs, cfg['disp'], numeric=is_small(hs))
                        if d is not None:
                            first_oracle = (d, cfg_replay(cfg), list(replay))
                reqs.append(' '.join([cfg_header(cfg), str(len(opreq))] + opreq))
                exps.append(steps)
                metas.append((cfg_replay(cfg), replay))
            except InfraError:
                raise
            except Exception as ex:
                ctx.violation('refine-aliased-marks', 'aliased-marks probe raised %s' % type(ex).__name__,
                              {'space': cfg_replay(cfg), 'exception': str(ex)[:300]}, False)
                return
    if first_oracle is not None:
        d, space, replay = first_oracle
        ctx.violation('refine-aliased-marks',
                      'marks given as the live set returned by active_cells(lv) are refined wrongly: ' + d,
                      {'oracle': d, 'space': space, 'history': replay,
                       'python': 'hs.refine({lv: hs.active_cells(lv)})'}, True)
    got = ctx.model('drv_c04', reqs)
    ndis = 0
    for r, e, g, m in zip(reqs, exps, got, metas):
        dd = diff_history(e, g)
        if dd is not None:
            ndis += 1
            if ndis == 1 and first_oracle is None:
                ctx.violation('refine-aliased-marks',
                              'with marks aliasing the space\'s own active sets model and implementation disagree on segment `%s` after step %d' % (dd[1], dd[0]),
                              {'request': r[:2000], 'segment': dd[1], 'step': dd[0], 'implementation': dd[2], 'model': dd[3],
                               'space': m[0], 'history': m[1]}, False)
    ctx.extra['aliased_mark_histories'] = len(reqs)
    ctx.obligation('marks aliasing the live active sets: %d histories, model == implementation' % len(reqs), ndis == 0 or first_oracle is not None,
                   '%d disagreements%s' % (ndis, ' (open known finding refine-aliased-marks)' if first_oracle is not None else ''))
