"""Per-property manifest text (consumed by tools_gen_manifest.py)."""
CHECKS = {
 'C15': {
  'text': 'Lean theorems for every level count and every pattern: to_seq/from_seq mutually inverse; the ml_nonzero_nd odometer, the nested 2d/3d loops and the dispatch all equal the layout specification; that specification is the lexicographic product of the level patterns and its positions are exactly the Kronecker support (digits of (I,J) are stored entries on every level); lower_tri is the J<=I subsequence. The model is tied to /repo by an exact, order-sensitive diff of ~26k requests per run (structures up to 6-7 levels, rectangular blocks, shuffled stored order).',
  'note': 'hand-written model + correspondence; rows/columns, matvec, asmatrix, transpose, reorder, reindex_*, compute_sparsity_ij are tied by correspondence and a numpy.kron oracle but have no Lean theorem yet; 32-bit index overflow not modelled',
  'technique': 'Lean 4 proof (induction over level lists; mixed-radix odometer refinement) + differential correspondence with the Cython/Python implementation',
 },
}
NOT_CLAIMED = {}
