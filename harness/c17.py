"""
C17 — interpolation and L2 projection are projections onto the spline space (DESIGN.md §6/C17).

tie: Lean model (Pyiga.Model.Approx on top of LinAlg.applyTprod, driver drv_c17; exact Rat) vs
     pyiga.approx / bspline on the same spaces, nodes and data.  Implementation doubles are compared
     with the exact rational model value within a bound derived from the condition of the collocation /
     mass solve; Greville points and collocation entries within a few ulp.
theorems: Pyiga.Props.C17.*
search (model-free): reproduce-and-compare (|Pi(sum c N) - c|), orthogonality of the residual against
     every basis function by quadrature, values at the nodes.
"""
import os
import warnings
from fractions import Fraction

import numpy as np

from .common import plist, frac

THEOREMS = [
    'Pyiga.Props.C17.interp_reproduces', 'Pyiga.Props.C17.interp_matches_data',
    'Pyiga.Props.C17.greville_in_domain', 'Pyiga.Props.C17.greville_in_support', 'Pyiga.Props.C17.greville_clip_id',
    'Pyiga.Props.C17.l2_projection_orthogonal', 'Pyiga.Props.C17.l2_projection_reproduces',
]
MODULES = ['Pyiga.Model.Index', 'Pyiga.Model.LinAlg', 'Pyiga.Model.Approx', 'Pyiga.Proofs.Index',
           'Pyiga.Proofs.LinAlg', 'Pyiga.Proofs.Tprod', 'Pyiga.Proofs.Operators', 'Pyiga.Proofs.Approx', 'Pyiga.Props.C17']
EPS = 2.0 ** -53


def fmt_tensor(a):
    a = np.asarray(a, dtype=float)
    return plist(a.shape) + ' ' + plist(a.ravel().tolist(), frac)


def fmt_axis(kv, nodes):
    return '%d %s %s' % (kv.p, plist(kv.kv.tolist(), frac), plist(np.asarray(nodes).tolist(), frac))


def parse_tensor(s):
    t = s.split()
    nd = int(t[0]); shape = tuple(int(v) for v in t[1:1 + nd])
    vals = [Fraction(v) for v in t[2 + nd:]]
    return shape, vals


def rand_kv(rng, bspline, pmax=6, maxspans=4):
    p = int(rng.choice([0, 1, 1, 2, 2, 3, 3, 4, 5, 6][: (pmax + 1) * 2 - 1 if pmax < 5 else 10]))
    p = min(p, pmax)
    n = int(rng.integers(1, maxspans + 1))
    brk = np.cumsum(np.concatenate(([float(rng.integers(-2, 3))], rng.integers(1, 5, size=n) / 4.0)))
    mult = [int(rng.integers(1, p + 1)) if p >= 1 else 1 for _ in range(n - 1)]
    kv = np.concatenate(([brk[0]] * (p + 1), np.repeat(brk[1:-1], mult), [brk[-1]] * (p + 1)))
    return bspline.KnotVector(kv, p)


def dense_collocation(knots, p, x):
    """dense matrix B[k, j] = N_{j,p}(x[k]) by the Cox-de Boor recursion (float64; independent of pyiga's evaluation code;
    right-continuous, closed at the right end of the domain); the points may come in any order"""
    knots = np.asarray(knots, dtype=float); x = np.asarray(x, dtype=float).ravel()
    m = len(knots) - 1
    N = np.zeros((len(x), m))
    last = max(i for i in range(m) if knots[i] < knots[i + 1])
    for i in range(m):
        if knots[i] < knots[i + 1]:
            N[:, i] = (knots[i] <= x) & (x < knots[i + 1])
    N[x >= knots[-1], :] = 0.0
    N[x >= knots[-1], last] = 1.0
    for q in range(1, p + 1):
        Nn = np.zeros((len(x), m - q))
        for i in range(m - q):
            d1 = knots[i + q] - knots[i]; d2 = knots[i + q + 1] - knots[i + 1]
            if d1 > 0:
                Nn[:, i] += (x - knots[i]) / d1 * N[:, i]
            if d2 > 0:
                Nn[:, i] += (knots[i + q + 1] - x) / d2 * N[:, i + 1]
        N = Nn
    return N


def dense_eval(kvs, coef, nodes):
    """values of sum_I coef[I] N_I on the tensor grid `nodes` (any order per axis), using dense_collocation only"""
    vals = np.asarray(coef, dtype=float)
    for k, (kv, n) in enumerate(zip(kvs, nodes)):
        vals = np.moveaxis(np.tensordot(dense_collocation(kv.kv, kv.p, n), vals, axes=([1], [k])), 0, k)
    return vals


def reorder_nodes(rng, g):
    """a non-increasing arrangement of the node array g"""
    g = np.array(g, dtype=float)
    if len(g) < 2:
        return g, 'sorted'
    how = str(rng.choice(['swap', 'endlast', 'reversed', 'perm']))
    if how == 'swap':
        j = int(rng.integers(0, len(g) - 1)); g[[j, j + 1]] = g[[j + 1, j]]
    elif how == 'endlast':
        g = np.concatenate((g[1:-1], g[[0, -1]])) if len(g) > 2 else g[::-1].copy()
    elif how == 'reversed':
        g = g[::-1].copy()
    else:
        g = g[rng.permutation(len(g))]
    return g, how


def cond_inf(C):
    try:
        return float(np.linalg.cond(C, np.inf))
    except Exception:
        return np.inf


def run(ctx):
    warnings.simplefilter('ignore')
    os.environ['XDG_CACHE_HOME'] = ctx.xdg_cache()
    ctx.build_repo()
    from pyiga import bspline, approx, geometry, assemble, utils, hierarchical
    from pyiga.quadrature import make_iterated_quadrature
    ctx.require_lean(['Pyiga.Props.C17', 'drv_c17'])
    ctx.audit(['Pyiga.Props.C17'], THEOREMS, MODULES)
    if ctx.tier == 'thorough':
        ctx.leanchecker(MODULES)
    ctx.level = 'proof (partial)'
    ctx.trusted += [
        'solver parameter: make_solver (splu / cho_factor) and spsolve — contract B*solve(x)=x; model instance = exact Gauss-Jordan over Rat',
        'Gauss-Legendre nodes/weights (make_iterated_quadrature) are inputs of the model (exact rationals of the doubles)',
        'modelled, not verified: scipy.sparse.linalg.cg (geometry-weighted projection) — reproduce/orthogonality checked numerically against a bound from ||M^-1||',
        'HSpace projection (assemble with mass_vf / L2functional_vf) is exercised by the oracle only (reproduce + orthogonality), not by the Lean model',
        'rounding: implementation doubles vs exact rationals within c*N*eps*cond(collocation or mass Kronecker factors)*max|coeff|',
    ]
    ctx.rule = ('spaces: dims 1-3, degrees 0-6, 1-4 spans per axis, dyadic breakpoints, interior multiplicities 1..p, built from independent knot vectors, '
                'from the same KnotVector object in every direction and from equal copies; node grids perturbed independently per direction; data = functions of the space '
                '(random dyadic coefficients) with scalar, (2,) and (2,2) values, given as BSplineFunc, as callable, as value array; default Greville '
                'nodes, shifted (still unisolvent, decided exactly by the model) and repeated nodes (singular: expected error kind); affine and quarter-annulus '
                'geometries with physical data; polynomial data outside/inside the space for orthogonality; HB/THB spaces with 1-2 refinements. '
                'non-trivial = dimension >= 2 or degree >= 2; distinct by (knot vectors, nodes, data)')
    rng = ctx.rng
    quick = ctx.tier == 'quick'
    req, chk, meta = [], [], []     # chk: callable(model_answer) -> None | description

    def add(r, c, m):
        req.append(r); chk.append(c); meta.append(m)

    def close(impl, tol, what):
        impl = np.asarray(impl, dtype=float)
        def c(ans):
            if ans.startswith(('err', 'bad', 'singular')):
                return '%s: model answered %s' % (what, ans)
            shape, vals = parse_tensor(ans)
            if shape != impl.shape:
                return '%s: shape %s vs model %s' % (what, impl.shape, shape)
            err = np.array([abs(float(Fraction(a) - b)) for a, b in zip(impl.ravel().tolist(), vals)])
            t = np.broadcast_to(tol, impl.shape).ravel()
            if not np.all(err <= t):
                i = int(np.argmax(err - t))
                return '%s: entry %d differs by %g > bound %g' % (what, i, err[i], t[i])
            return None
        return c

    # ------------------------------------------------------------ Greville points and collocation
    ng = 300 if quick else 3000
    for _ in range(ng):
        kv = rand_kv(rng, bspline, maxspans=5)
        ctx.case(('grev', kv.p, kv.kv.tobytes()), nontrivial=kv.p >= 2); ctx.count('stream=greville'); ctx.count('degree=%d' % kv.p)
        try:
            g = kv.greville()
        except Exception as ex:
            ctx.violation('greville-raise', 'KnotVector.greville raised %s' % type(ex).__name__, {'kv': kv.kv.tolist(), 'p': kv.p}, True)
            continue
        scale = max(1.0, float(np.abs(kv.kv).max()))
        # property (model-free): in the domain, in the support of their function, as many as dofs
        if len(g) != kv.numdofs or np.any(g < kv.kv[0]) or np.any(g > kv.kv[-1]) or \
                np.any(g < kv.kv[:kv.numdofs] - 4 * EPS * scale) or np.any(g > kv.kv[kv.p + 1:] + 4 * EPS * scale):
            ctx.violation('greville-domain', 'Greville points outside the domain / the support of their basis function',
                          {'kv': kv.kv.tolist(), 'p': kv.p, 'greville': np.asarray(g).tolist()}, True)
        def c(ans, g=g, kv=kv, scale=scale):
            vals = [Fraction(v) for v in ans.split()[1:]]
            if len(vals) != len(g):
                return 'greville: %d points vs model %d' % (len(g), len(vals))
            err = max(abs(float(Fraction(float(a)) - b)) for a, b in zip(g, vals)) if len(vals) else 0.0
            return None if err <= 4 * (kv.p + 2) * EPS * scale else 'greville: differs from the exact running average by %g' % err
        add('grev %d %s' % (kv.p, plist(kv.kv.tolist(), frac)), c, {'op': 'greville', 'kv': kv.kv.tolist(), 'p': kv.p})
        nodes = g if rng.integers(0, 2) else np.sort(rng.integers(0, 17, size=int(rng.integers(1, 6))) / 16.0 * (kv.kv[-1] - kv.kv[0]) + kv.kv[0])
        if rng.integers(0, 2):
            nodes, _how = reorder_nodes(rng, nodes)          # collocation at nodes in non-increasing order
            ctx.count('collocation node order=' + _how)
        try:
            C = bspline.collocation(kv, nodes).toarray()
        except Exception as ex:
            ctx.violation('collocation-raise', 'bspline.collocation raised %s' % type(ex).__name__, {'kv': kv.kv.tolist(), 'p': kv.p, 'nodes': np.asarray(nodes).tolist()}, True)
            continue
        if np.abs(C.sum(1) - 1).max() > 16 * (kv.p + 1) * EPS or C.min() < 0:
            ctx.violation('collocation-pu', 'collocation rows are not a non-negative partition of unity', {'kv': kv.kv.tolist(), 'p': kv.p, 'nodes': np.asarray(nodes).tolist()}, True)
        def c(ans, C=C, kv=kv):
            t = ans.split()
            if (int(t[0]), int(t[1])) != C.shape:
                return 'collocation shape %s vs model %s %s' % (C.shape, t[0], t[1])
            vals = [Fraction(v) for v in t[3:]]
            err = max(abs(float(Fraction(float(a)) - b)) for a, b in zip(C.ravel().tolist(), vals))
            return None if err <= 16 * (kv.p + 1) ** 2 * EPS else 'collocation entries differ from exact Cox-de Boor values by %g' % err
        add('colloc ' + fmt_axis(kv, nodes), c, {'op': 'collocation', 'kv': kv.kv.tolist(), 'p': kv.p, 'nodes': np.asarray(nodes).tolist()})
        ctx.count('stream=collocation')

    # ------------------------------------------------------------ interpolation
    ni = 260 if quick else 2500
    for it in range(ni):
        dim = int(rng.choice([1, 1, 2, 2, 3]))
        pmax = 6 if dim == 1 else 4 if dim == 2 else 2
        # how the tuple of knot vectors is built: independent objects, the SAME object in every direction (the `d*(kv,)`
        # idiom), or equal copies (distinct objects with equal knots)
        space = str(rng.choice(['distinct', 'distinct', 'same', 'same', 'copy'])) if dim >= 2 else 'distinct'
        if space == 'distinct':
            kvs = tuple(rand_kv(rng, bspline, pmax=pmax, maxspans=4 if dim < 3 else 2) for _ in range(dim))
        else:
            kv0 = rand_kv(rng, bspline, pmax=pmax, maxspans=4 if dim < 3 else 2)
            kvs = dim * (kv0,) if space == 'same' else (kv0,) + tuple(bspline.KnotVector(kv0.kv.copy(), kv0.p) for _ in range(dim - 1))
        ctx.count('interp space=' + space)
        nd = tuple(kv.numdofs for kv in kvs)
        trail = [(), (), (2,), (2, 2)][int(rng.integers(0, 4))]
        coef = rng.integers(-8, 9, size=nd + trail) / 8.0
        mode = str(rng.choice(['func', 'array', 'callable', 'shifted', 'repeated', 'physical', 'bsp1d', 'pernodes', 'pernodes', 'pernodes', 'unsorted', 'unsorted', 'unsorted']))
        if mode == 'bsp1d' and (dim != 1 or trail):
            mode = 'func'
        if mode == 'physical' and (dim != 2 or trail):
            mode = 'array'
        if mode == 'callable' and trail:
            mode = 'func'
        nodes = [kv.greville() for kv in kvs]
        if mode in ('shifted', 'repeated'):
            k = int(rng.integers(0, dim))
            g = np.array(nodes[k], dtype=float)
            if mode == 'shifted' and len(g) >= 2:
                j = int(rng.integers(0, len(g) - 1))
                g[j] = g[j] + (g[j + 1] - g[j]) * float(rng.integers(1, 4)) / 4.0
            elif len(g) >= 2:
                j = int(rng.integers(0, len(g) - 1))
                g[j + 1] = g[j]
            else:
                mode = 'array'
            nodes[k] = g
        sub = 'array'
        if mode == 'pernodes':
            # custom node grid, perturbed independently in every direction (so the node sets differ between directions even
            # when the knot vectors are the same object); ordering is kept, unisolvence is decided below / by the model
            for k in range(dim):
                g = np.array(nodes[k], dtype=float)
                for j in range(len(g) - 1):
                    if rng.integers(0, 2):
                        g[j] = g[j] + (nodes[k][j + 1] - nodes[k][j]) * float(rng.integers(1, 4)) / 4.0
                nodes[k] = g
            sub = str(rng.choice(['array', 'func', 'callable'])) if not trail else str(rng.choice(['array', 'func']))
            ctx.count('interp pernodes data=' + sub)
        if mode == 'unsorted':
            # node arrays that are NOT increasing (neighbours swapped, end points last, reversed, permuted), optionally perturbed first;
            # the data are evaluated by dense_collocation, not by the library
            hows = []
            for k in range(dim):
                g = np.array(nodes[k], dtype=float)
                if rng.integers(0, 2):
                    for j in range(len(g) - 1):
                        if rng.integers(0, 2):
                            g[j] = g[j] + (nodes[k][j + 1] - nodes[k][j]) * float(rng.integers(1, 4)) / 4.0
                if k == 0 or rng.integers(0, 2):
                    g, how = reorder_nodes(rng, g)
                else:
                    how = 'sorted'
                nodes[k] = g; hows.append(how)
            sub = str(rng.choice(['array', 'array', 'func', 'callable'])) if not trail else str(rng.choice(['array', 'array', 'func']))
            ctx.count('interp unsorted data=' + sub)
            for h in hows:
                ctx.count('interp node order=' + h)
        f = bspline.BSplineFunc(kvs, coef)
        key = (mode, space, tuple((kv.p, kv.kv.tobytes()) for kv in kvs), tuple(np.asarray(n).tobytes() for n in nodes), coef.tobytes())
        ctx.case(key, nontrivial=dim >= 2 or max(kv.p for kv in kvs) >= 2)
        ctx.count('stream=interp'); ctx.count('interp mode=' + mode); ctx.count('dim=%d' % dim); ctx.count('data shape=%s' % (trail,))
        Cs = [dense_collocation(kv.kv, kv.p, n) for kv, n in zip(kvs, nodes)] if mode == 'unsorted' else \
            [bspline.collocation(kv, n).toarray() for kv, n in zip(kvs, nodes)]
        kappa = float(np.prod([cond_inf(C) for C in Cs]))
        N = int(np.prod(nd))
        vals_ind = dense_eval(kvs, coef, nodes) if mode == 'unsorted' else None
        replay = {'mode': mode + ('/' + sub if mode in ('pernodes', 'unsorted') else ''), 'space': space, 'kvs': [(kv.p, kv.kv.tolist()) for kv in kvs], 'nodes': [np.asarray(n).tolist() for n in nodes], 'coeffs': coef.tolist()}
        try:
            if mode == 'func':
                x = approx.interpolate(kvs, f)
            elif mode == 'callable':
                if dim == 1:
                    fun = lambda X: f.grid_eval((np.ravel(X),))
                elif dim == 2:   # arguments arrive in XY order as sparse meshgrid arrays (Y varies along axis 0)
                    fun = lambda X, Y: f.grid_eval((np.ravel(Y), np.ravel(X)))
                else:
                    fun = lambda X, Y, Z: f.grid_eval((np.ravel(Z), np.ravel(Y), np.ravel(X)))
                x = approx.interpolate(kvs, fun)
            elif mode == 'bsp1d':
                x = bspline.interpolate(kvs[0], lambda X: f.grid_eval((X,)))
            elif mode == 'physical':
                # affine geometry G(xi) = a*xi + b; data given in physical coordinates is f o G^-1
                a = np.array([2.0, 0.5]); b = np.array([1.0, -3.0])
                ext = [(kv.kv[0], kv.kv[-1]) for kv in kvs]
                geo = geometry.identity(ext).scale(a).translate(b)     # geometry components are in xy order
                e0 = [kv.kv[0] for kv in kvs]
                def fphys(X, Y, f=f, kvs=kvs):
                    # X = a0*x + b0 with x the *last* parameter, Y = a1*y + b1 with y the first
                    xs = np.clip((X - b[0]) / a[0], kvs[1].kv[0], kvs[1].kv[-1]); ys = np.clip((Y - b[1]) / a[1], kvs[0].kv[0], kvs[0].kv[-1])
                    out = np.empty(X.shape)
                    for idx in np.ndindex(X.shape):
                        out[idx] = f.grid_eval((np.array([ys[idx]]), np.array([xs[idx]])))[0, 0]
                    return out
                x = approx.interpolate(kvs, fphys, geo=geo)
            elif mode == 'unsorted' and sub == 'array':
                x = approx.interpolate(kvs, vals_ind, nodes=nodes)
            elif mode == 'unsorted' and sub == 'callable':
                def fun(*X):          # coordinates arrive in x, y, z order (x = last direction) as sparse meshgrid arrays
                    return dense_eval(kvs, coef, [np.ravel(a) for a in reversed(X)])
                x = approx.interpolate(kvs, fun, nodes=nodes)
            elif mode in ('pernodes', 'unsorted') and sub == 'func':
                x = approx.interpolate(kvs, f, nodes=nodes)
            elif mode == 'pernodes' and sub == 'callable':
                if dim == 1:
                    fun = lambda X: f.grid_eval((np.ravel(X),))
                elif dim == 2:
                    fun = lambda X, Y: f.grid_eval((np.ravel(Y), np.ravel(X)))
                else:
                    fun = lambda X, Y, Z: f.grid_eval((np.ravel(Z), np.ravel(Y), np.ravel(X)))
                x = approx.interpolate(kvs, fun, nodes=nodes)
            else:
                vals = f.grid_eval(nodes)
                x = approx.interpolate(kvs, vals, nodes=nodes)
            x = np.asarray(x)
            tok = None
        except Exception as ex:
            x = None
            tok = 'singular' if isinstance(ex, RuntimeError) and 'singular' in str(ex).lower() else 'err-' + type(ex).__name__
            ctx.count('interp ' + tok)
        vals = f.grid_eval(nodes)
        # model: exact grid values, exact interpolation of the implementation's grid values
        tolv = 32 * sum(kv.p + 1 for kv in kvs) * EPS * max(1.0, float(np.abs(coef).max()))
        add('evalg %s %s' % (plist(zip(kvs, nodes), lambda t: fmt_axis(*t)), fmt_tensor(coef)), close(vals, tolv, 'values on the node grid'),
            {'op': 'evalgrid', **replay})
        if mode == 'unsorted':
            vals = vals_ind           # interpolation data for the model and the node-matching oracle: not the library's evaluation
        rline = 'interp %s %s' % (plist(zip(kvs, nodes), lambda t: fmt_axis(*t)), fmt_tensor(vals))
        if mode in ('repeated', 'shifted', 'pernodes', 'unsorted') and any(np.linalg.matrix_rank(C) < C.shape[0] for C in Cs):
            ctx.count('interp non-unisolvent grids')
            def c(ans, tok=tok, x=x):
                if ans != 'singular':
                    return 'model finds the repeated-node grid unisolvent (%s)' % ans[:40]
                return None
            add(rline, c, {'op': 'interp-singular', **replay})
            # outside the property's quantifier (unisolvent grids): SuperLU reports an exactly singular factor when it meets a zero
            # pivot; after rounding it may instead return a meaningless array.  Recorded, not judged.
            ctx.count('non-unisolvent grid: implementation ' + ('raised the singular-matrix error' if tok == 'singular' else 'returned %s' % (tok or 'an array')))
            continue
        if x is None:
            ctx.violation('interp-raise', 'interpolate raised %s on a unisolvent grid' % tok, replay, True)
            continue
        tol = 64.0 * N * EPS * kappa * max(1.0, float(np.abs(coef).max()))
        add(rline, close(x, tol, 'interpolation coefficients'), {'op': 'interp', **replay})
        # oracle (model-free): reproduces the coefficients, and the interpolant matches the data at the nodes
        if x.shape != coef.shape or not np.all(np.abs(x - coef) <= tol):
            ctx.violation('interp-reproduce', 'interpolate does not reproduce a function of the space (max error %g, bound %g)' % (
                np.abs(x - coef).max() if x.shape == coef.shape else np.inf, tol), replay, True)
        elif np.abs((dense_eval(kvs, x, nodes) if mode == 'unsorted' else bspline.BSplineFunc(kvs, x).grid_eval(nodes)) - vals).max() > tol:
            ctx.violation('interp-nodes', 'interpolant does not match the data at the nodes', replay, True)

    # ------------------------------------------------------------ data-shape handling: tuple-valued data with mixed component dtypes
    nt = 90 if quick else 900
    for it in range(nt):
        dim = int(rng.choice([1, 2, 2]))
        kvs = tuple(rand_kv(rng, bspline, pmax=3, maxspans=3) for _ in range(dim))
        kvs = tuple(kv if kv.p >= 1 else bspline.KnotVector(np.array([kv.kv[0], kv.kv[0], kv.kv[-1], kv.kv[-1]]), 1) for kv in kvs)
        r = min(kv.p for kv in kvs)
        ncomp = int(rng.integers(2, 5))
        kinds = [str(rng.choice(['int', 'intarr', 'float', 'float32', 'poly'])) for _ in range(ncomp)]
        if rng.integers(0, 2):
            kinds[0] = str(rng.choice(['int', 'intarr']))          # integer-typed first component
        vec2 = bool(rng.integers(0, 4) == 0)                      # components themselves (2,)-valued -> matrix-valued data
        comps = []
        for kd in kinds:
            if kd == 'int':
                c = int(rng.integers(-3, 4)); comps.append(('int', c))
            elif kd == 'intarr':
                c = int(rng.integers(-3, 4)); comps.append(('intarr', c))
            else:
                cf = rng.integers(-4, 5, size=(r + 1,) * dim) / 4.0
                comps.append((kd, cf))

        def comp_eval(cd, *X, as64=False):
            """one component on the (sparse or full) coordinate arrays X (given in x,y order)"""
            kd, c = cd
            shape = np.broadcast(*X).shape
            if kd == 'int':
                v = c
            elif kd == 'intarr':
                v = np.full(shape, c, dtype=np.int64)
            else:
                if dim == 1:
                    v = sum(c[i] * X[0] ** i for i in range(r + 1))
                else:          # X = (x, y): x is the LAST parameter direction
                    v = sum(c[i, j] * X[0] ** i * X[1] ** j for i in range(r + 1) for j in range(r + 1))
                if kd == 'float32':
                    v = np.asarray(v).astype(np.float32)
            if vec2:
                full = np.broadcast_to(np.asarray(v), shape)
                v = np.stack([full, 2 * full], axis=-1)
                if kd in ('int', 'intarr'):
                    v = v.astype(np.int64)
            if as64:
                v = np.asarray(v, dtype=np.float64)
            return v

        ftuple = lambda *X: tuple(comp_eval(cd, *X) for cd in comps)
        flist = lambda *X: [comp_eval(cd, *X) for cd in comps]
        fcomp = [lambda *X, cd=cd: comp_eval(cd, *X, as64=True) for cd in comps]
        nodes = [kv.greville() for kv in kvs]
        nd = tuple(kv.numdofs for kv in kvs)
        N = int(np.prod(nd))
        replay = {'mode': 'tuple-data', 'kvs': [(kv.p, kv.kv.tolist()) for kv in kvs], 'component_kinds': kinds, 'components_2vectors': vec2,
                  'components': [(kd, c if isinstance(c, int) else c.tolist()) for kd, c in comps]}
        ctx.case(('tuple', tuple((kv.p, kv.kv.tobytes()) for kv in kvs), tuple(kinds), vec2, repr(replay['components'])), nontrivial=dim >= 2)
        ctx.count('stream=tuple-data'); ctx.count('tuple first component=' + kinds[0])
        for kd in kinds:
            ctx.count('tuple component kind=' + kd)
        try:
            Cs = [bspline.collocation(kv, n).toarray() for kv, n in zip(kvs, nodes)]
            kappa = float(np.prod([cond_inf(C) for C in Cs]))
            # reference values on the node grid: the components evaluated one by one in float64
            ref_vals = np.stack([np.asarray(utils.grid_eval(fc, nodes), dtype=np.float64) for fc in fcomp], axis=-1)
            scale = max(1.0, float(np.abs(ref_vals).max()))
            # (1) utils.grid_eval of the tuple-valued callable = the stacked components, exactly
            gv = np.asarray(utils.grid_eval(ftuple, nodes))
            if gv.shape != ref_vals.shape or not np.array_equal(gv.astype(np.float64), ref_vals):
                ctx.violation('tuple-data:grid_eval', 'utils.grid_eval of tuple-valued data (component dtypes %s) differs from the components evaluated separately: max diff %g' % (
                    kinds, np.abs(gv.astype(np.float64) - ref_vals).max() if gv.shape == ref_vals.shape else np.inf), replay, True)
            # (2) interpolate: callable tuple, precomputed array, component-wise scalar calls, exact model
            tol = 64.0 * N * EPS * kappa * scale
            xt = np.asarray(approx.interpolate(kvs, ftuple))
            xa = np.asarray(approx.interpolate(kvs, gv, nodes=nodes))
            xref = np.stack([np.asarray(approx.interpolate(kvs, fc)) for fc in fcomp], axis=-1)
            for nm, xx in (('callable', xt), ('precomputed array', xa)):
                if xx.shape != xref.shape or np.abs(xx - xref).max() > 2 * tol:
                    ctx.violation('tuple-data:interpolate', 'interpolate of tuple-valued data (%s, component dtypes %s) differs from the component-wise scalar calls: max diff %g > %g' % (
                        nm, kinds, np.abs(xx - xref).max() if xx.shape == xref.shape else np.inf, 2 * tol), replay, True)
                    break
            add('interp %s %s' % (plist(zip(kvs, nodes), lambda t: fmt_axis(*t)), fmt_tensor(ref_vals)),
                close(xt, tol, 'interpolation coefficients of tuple-valued data'), {'op': 'interp-tuple', **replay})
            # (3) project_L2 (parameter domain) and inner_products
            Ms = [assemble.mass(kv).toarray() for kv in kvs]
            tolm = 256.0 * N * EPS * float(np.prod([cond_inf(M) for M in Ms])) * scale
            pt = np.asarray(approx.project_L2(kvs, ftuple))
            pref = np.stack([np.asarray(approx.project_L2(kvs, fc)) for fc in fcomp], axis=-1)
            if pt.shape != pref.shape or np.abs(pt - pref).max() > 2 * tolm:
                ctx.violation('tuple-data:project_L2', 'project_L2 of tuple-valued data (component dtypes %s) differs from the component-wise scalar calls: max diff %g > %g' % (
                    kinds, np.abs(pt - pref).max() if pt.shape == pref.shape else np.inf, 2 * tolm), replay, True)
            # (4) physical coordinates through an affine geometry: interpolate(geo=) and inner_products(f_physical=True)
            if dim == 2:
                aff = geometry.unit_square().scale((2.0, 0.5)).translate((1.0, -3.0))
                kvu = tuple(bspline.make_knots(max(1, kv.p), 0.0, 1.0, 2) for kv in kvs)
                gt = np.asarray(approx.interpolate(kvu, ftuple, geo=aff))
                gref = np.stack([np.asarray(approx.interpolate(kvu, fc, geo=aff)) for fc in fcomp], axis=-1)
                ku = float(np.prod([cond_inf(bspline.collocation(kv, kv.greville()).toarray()) for kv in kvu]))
                sg = max(1.0, float(np.abs(gref).max()))
                it_ = np.asarray(assemble.inner_products(kvu, ftuple, f_physical=True, geo=aff))
                iref = np.stack([np.asarray(assemble.inner_products(kvu, fc, f_physical=True, geo=aff)) for fc in fcomp], axis=-1)
                if gt.shape != gref.shape or np.abs(gt - gref).max() > 128.0 * gt.size * EPS * ku * sg:
                    ctx.violation('tuple-data:physical', 'interpolate(geo=affine) of tuple-valued physical data (component dtypes %s) differs from the component-wise calls: max diff %g' % (
                        kinds, np.abs(gt - gref).max() if gt.shape == gref.shape else np.inf), replay, True)
                elif it_.shape != iref.shape or np.abs(it_ - iref).max() > 1024.0 * EPS * max(1.0, float(np.abs(iref).max())) * it_.size:
                    ctx.violation('tuple-data:physical', 'inner_products(f_physical=True) of tuple-valued data (component dtypes %s) differs from the component-wise calls: max diff %g' % (
                        kinds, np.abs(it_ - iref).max() if it_.shape == iref.shape else np.inf), replay, True)
        except Exception as ex:
            ctx.violation('tuple-data:raise', 'tuple-valued data (component dtypes %s) raised %s: %s' % (kinds, type(ex).__name__, str(ex)[:150]), replay, True)
            continue
        # lists of components are NOT a data form of the library (only a tuple is interpreted as vector-valued; a list is handed to
        # np.asanyarray and read as one array with the component axis first).  Outside the property: recorded, not judged.
        try:
            xl = np.asarray(approx.interpolate(kvs, flist))
            ctx.count('list-valued data (unsupported form): returned an array' + (' equal to the tuple result' if xl.shape == xref.shape and np.abs(xl - xref).max() <= 2 * tol else ' with another meaning'))
        except Exception as ex:
            ctx.count('list-valued data (unsupported form): raised ' + type(ex).__name__)

    # ------------------------------------------------------------ L2 projection (parameter domain; Kronecker mass inverse)
    nl = 160 if quick else 1500
    for it in range(nl):
        dim = int(rng.choice([1, 1, 2, 2, 3]))
        pmax = 5 if dim == 1 else 3 if dim == 2 else 2
        kvs = tuple(rand_kv(rng, bspline, pmax=pmax, maxspans=3 if dim < 3 else 2) for _ in range(dim))
        nd = tuple(kv.numdofs for kv in kvs)
        trail = [(), (), (2,), (2, 2)][int(rng.integers(0, 4))]
        coef = rng.integers(-8, 9, size=nd + trail) / 8.0
        f = bspline.BSplineFunc(kvs, coef)
        mode = str(rng.choice(['func', 'bsp1d'])) if dim == 1 and not trail else 'func'
        ctx.case(('l2', mode, tuple((kv.p, kv.kv.tobytes()) for kv in kvs), coef.tobytes()), nontrivial=dim >= 2 or max(kv.p for kv in kvs) >= 2)
        ctx.count('stream=l2'); ctx.count('dim=%d' % dim); ctx.count('data shape=%s' % (trail,))
        replay = {'mode': 'l2-' + mode, 'kvs': [(kv.p, kv.kv.tolist()) for kv in kvs], 'coeffs': coef.tolist()}
        try:
            x = np.asarray(approx.project_L2(kvs if dim > 1 else kvs[0], f) if mode == 'func' else
                           bspline.project_L2(kvs[0], lambda X: f.grid_eval((X,))))
        except Exception as ex:
            one = isinstance(ex, AssertionError) and 'Diagonal must be a vector' in str(ex)
            ctx.violation('l2-single-quadrature-point' if one else 'l2-raise', 'project_L2 raised %s%s' % (
                type(ex).__name__, ' (an axis with one Gauss point in total: DiagonalOperator of a single weight)' if one else ''),
                dict(replay, error=str(ex)[:200]), True)
            continue
        Ms = [assemble.mass(kv).toarray() for kv in kvs]
        kappa = float(np.prod([cond_inf(M) for M in Ms]))
        N = int(np.prod(nd))
        tol = 256.0 * N * EPS * kappa * max(1.0, float(np.abs(coef).max()))
        if x.shape != coef.shape or not np.all(np.abs(x - coef) <= tol):
            ctx.violation('l2-reproduce', 'project_L2 does not reproduce a function of the space (max error %g, bound %g)' % (
                np.abs(x - coef).max() if x.shape == coef.shape else np.inf, tol), replay, True)
        if mode == 'func':
            nqp = max(kv.p for kv in kvs) + 1
            qs = [make_iterated_quadrature(kv.mesh, nqp) for kv in kvs]
            fv = f.grid_eval([q[0] for q in qs])
            add('l2 %s %s %s' % (plist(zip(kvs, [q[0] for q in qs]), lambda t: fmt_axis(*t)),
                                 plist([q[1] for q in qs], lambda w: plist(w.tolist(), frac)), fmt_tensor(fv)),
                close(x, tol, 'L2 projection coefficients'), {'op': 'l2', **replay})

    # ------------------------------------------------------------ orthogonality, geometry (CG), hierarchical: oracle only
    no = 24 if quick else 200
    for it in range(no):
        dim = int(rng.choice([1, 2]))
        kvs = tuple(rand_kv(rng, bspline, pmax=3, maxspans=3) for _ in range(dim))
        pmin = min(kv.p for kv in kvs)
        r = pmin + 1          # polynomial degree per variable: the (p+1)-point rule integrates f*N exactly
        cf = rng.integers(-3, 4, size=(r + 1,) * dim).astype(float)
        if dim == 1:
            fun = lambda x: sum(cf[i] * x ** i for i in range(r + 1))
        else:
            fun = lambda x, y: sum(cf[i, j] * x ** i * y ** j for i in range(r + 1) for j in range(r + 1))
        ctx.case(('orth', tuple((kv.p, kv.kv.tobytes()) for kv in kvs), cf.tobytes())); ctx.count('stream=orthogonality')
        replay = {'mode': 'orthogonality', 'kvs': [(kv.p, kv.kv.tolist()) for kv in kvs], 'poly': cf.tolist()}
        try:
            x = np.asarray(approx.project_L2(kvs, fun))
            bhi = assemble.inner_products(tuple(bspline.KnotVector(kv.kv, kv.p) for kv in kvs), fun)
            # high-order reference load vector: refine the quadrature by using degree-raised copies for the rule only
            nq = max(kv.p for kv in kvs) + r + 2
            qs = [make_iterated_quadrature(kv.mesh, nq) for kv in kvs]
            Cq = [bspline.collocation(kv, q[0]).toarray() for kv, q in zip(kvs, qs)]
            fq = utils.grid_eval(fun, [q[0] for q in qs])
            W = [C.T * q[1] for C, q in zip(Cq, qs)]
            bref = W[0] @ fq if dim == 1 else W[0] @ fq @ W[1].T
            M = [ (C.T * q[1]) @ C for C, q in zip(Cq, qs)]
            Mx = M[0] @ x if dim == 1 else M[0] @ x @ M[1].T
            scale = max(1.0, float(np.abs(bref).max()), float(np.abs(x).max()))
            kap = float(np.prod([cond_inf(m) for m in M]))
            if np.abs(bref - Mx).max() > 1024 * x.size * EPS * kap * scale:
                ctx.violation('l2-orthogonality', 'residual of project_L2 is not orthogonal to the space: max |(f - Pf, N_J)| = %g' % np.abs(bref - Mx).max(), replay, True)
        except Exception as ex:
            one = isinstance(ex, AssertionError) and 'Diagonal must be a vector' in str(ex)
            ctx.violation('l2-single-quadrature-point' if one else 'l2-raise', 'project_L2 raised %s' % type(ex).__name__, dict(replay, error=str(ex)[:200]), True)
    ngeo = 12 if quick else 100
    for it in range(ngeo):
        kvs = tuple(rand_kv(rng, bspline, pmax=3, maxspans=3) for _ in range(2))
        kvs = tuple(bspline.KnotVector((kv.kv - kv.kv[0]) / (kv.kv[-1] - kv.kv[0]), kv.p) if kv.p >= 1 else bspline.make_knots(1, 0.0, 1.0, 2) for kv in kvs)
        coef = rng.integers(-8, 9, size=tuple(kv.numdofs for kv in kvs)) / 8.0
        f = bspline.BSplineFunc(kvs, coef)
        which = str(rng.choice(['annulus', 'affine']))
        geo = geometry.quarter_annulus() if which == 'annulus' else geometry.unit_square().scale((2.0, 0.5)).translate((1.0, -3.0))
        ctx.case(('l2geo', which, tuple((kv.p, kv.kv.tobytes()) for kv in kvs), coef.tobytes())); ctx.count('stream=l2-geometry(cg)')
        replay = {'mode': 'l2-geo-' + which, 'kvs': [(kv.p, kv.kv.tolist()) for kv in kvs], 'coeffs': coef.tolist()}
        try:
            x = np.asarray(approx.project_L2(kvs, f, geo=geo))
            M = assemble.mass(kvs, geo=geo).toarray()
            b = assemble.inner_products(kvs, f, geo=geo).ravel()
            # the projection is invariant under scaling of the geometry, so the bound must be purely relative:
            # |x - c| <= |M^-1| |r|, |r| <= rtol |b| <= rtol |M| |c|  =>  |x - c| <= cond2(M) * rtol * |c|  (+ rounding of the assembled system)
            tol = float(np.linalg.cond(M)) * (10 * 1e-12 + 1024 * x.size * EPS) * max(float(np.linalg.norm(coef)), 2.0 ** -1000)
            if x.shape != coef.shape or np.abs(x - coef).max() > tol:
                ctx.violation('l2-geo-reproduce', 'geometry-weighted project_L2 (CG, maxiter=100) does not reproduce a function of the space: error %g > bound %g' % (
                    np.abs(x - coef).max() if x.shape == coef.shape else np.inf, tol), replay, True)
        except Exception as ex:
            ctx.violation('l2-raise', 'project_L2 with geometry raised %s' % type(ex).__name__, dict(replay, error=str(ex)[:200]), True)
        # data given in physical coordinates (f_physical=True) must be treated like its pull-back
        aff = geometry.unit_square().scale((2.0, 0.5)).translate((1.0, -3.0))     # x = 2*xi_x + 1, y = xi_y/2 - 3
        r = min(kv.p for kv in kvs)
        cf = rng.integers(-3, 4, size=(r + 1, r + 1)).astype(float)
        fphys = lambda x, y, cf=cf, r=r: sum(cf[i, j] * x ** i * y ** j for i in range(r + 1) for j in range(r + 1))
        pull = lambda xp, yp, fphys=fphys: fphys(2.0 * xp + 1.0, 0.5 * yp - 3.0)
        ctx.case(('l2phys', tuple((kv.p, kv.kv.tobytes()) for kv in kvs), cf.tobytes())); ctx.count('stream=l2-f_physical')
        replay = {'mode': 'l2-f_physical', 'kvs': [(kv.p, kv.kv.tolist()) for kv in kvs], 'poly_xy': cf.tolist(),
                  'geo': 'unit_square().scale((2,0.5)).translate((1,-3))'}
        try:
            xa = np.asarray(approx.project_L2(kvs, fphys, f_physical=True, geo=aff))
            xb = np.asarray(approx.project_L2(kvs, pull, geo=aff))
            cref = np.asarray(approx.interpolate(kvs, pull))       # the pull-back is a polynomial of the space
            M = assemble.mass(kvs, geo=aff).toarray()
            b = assemble.inner_products(kvs, pull, geo=aff).ravel()
            kap = float(np.prod([cond_inf(bspline.collocation(kv, kv.greville()).toarray()) for kv in kvs]))
            sc = max(1.0, float(np.abs(cref).max()))
            tol = float(np.linalg.cond(M)) * (10 * 1e-12 + 1024 * xa.size * EPS) * max(float(np.linalg.norm(cref)), 1.0) \
                + 64.0 * xa.size * EPS * kap * sc
            if xa.shape != cref.shape or np.abs(xa - cref).max() > tol or np.abs(xa - xb).max() > 2 * tol:
                ctx.violation('l2-physical', 'project_L2(f_physical=True, geo) differs from the projection of the pull-back: |phys - ref| = %g, |phys - pullback| = %g, bound %g' % (
                    np.abs(xa - cref).max() if xa.shape == cref.shape else np.inf, np.abs(xa - xb).max() if xa.shape == xb.shape else np.inf, tol), replay, True)
        except Exception as ex:
            ctx.violation('l2-raise', 'project_L2(f_physical=True) raised %s' % type(ex).__name__, dict(replay, error=str(ex)[:200]), True)
    # ------------------------------------------------------------ call histories: unrelated assembling calls in between must not change results
    nhist = 20 if quick else 150
    for it in range(nhist):
        dim = int(rng.choice([1, 1, 2]))
        kvs = tuple(rand_kv(rng, bspline, pmax=3, maxspans=3) for _ in range(dim))
        nd = tuple(kv.numdofs for kv in kvs)
        coef = rng.integers(-8, 9, size=nd) / 8.0
        f = bspline.BSplineFunc(kvs, coef)
        wc = [float(rng.integers(1, 4)), float(rng.integers(1, 4))]
        w = lambda x, wc=wc: wc[0] + wc[1] * (x - x.min() if hasattr(x, 'min') else x) ** 2        # a positive weight function
        ctx.case(('history', tuple((kv.p, kv.kv.tobytes()) for kv in kvs), coef.tobytes(), tuple(wc))); ctx.count('stream=call-history')
        replay = {'mode': 'call-history', 'kvs': [(kv.p, kv.kv.tolist()) for kv in kvs], 'coeffs': coef.tolist(), 'weight': 'x -> %g + %g*(x - min x)^2' % tuple(wc)}
        try:
            arg = kvs if dim > 1 else kvs[0]
            x0 = np.asarray(approx.project_L2(arg, f))
            i0 = np.asarray(approx.interpolate(arg, f))
            b0 = np.asarray(assemble.inner_products(kvs, f))
            m0 = [assemble.mass(kv).toarray() for kv in kvs]
            # unrelated calls on the same meshes: weighted mass / stiffness matrices, other quadrature orders
            for kv in kvs:
                assemble.bsp_mass_1d(kv, weightfunc=w)
                if kv.p >= 1:
                    assemble.bsp_stiffness_1d(kv, weightfunc=w)
                assemble.bsp_mixed_deriv_biform_1d(kv, 0, 0, nqp=kv.p + 1, weightfunc=w)
                bspline.load_vector(kv, lambda X: 1.0 + X)
            x1 = np.asarray(approx.project_L2(arg, f))
            i1 = np.asarray(approx.interpolate(arg, f))
            b1 = np.asarray(assemble.inner_products(kvs, f))
            m1 = [assemble.mass(kv).toarray() for kv in kvs]
            Ms = [assemble.mass(kv).toarray() for kv in kvs]
            tol = 256.0 * coef.size * EPS * float(np.prod([cond_inf(M) for M in m0])) * max(1.0, float(np.abs(coef).max()))
            what = None
            if not (np.array_equal(x0, x1) and np.array_equal(i0, i1) and np.array_equal(b0, b1) and all(np.array_equal(a, b) for a, b in zip(m0, m1))):
                what = 'results change after unrelated weighted assembling calls on the same mesh: |dx| = %g (project_L2), |db| = %g (inner_products), |dM| = %g (mass)' % (
                    np.abs(x0 - x1).max(), np.abs(b0 - b1).max(), max(np.abs(a - b).max() for a, b in zip(m0, m1)))
            elif x1.shape != coef.shape or np.abs(x1 - coef).max() > tol:
                what = 'project_L2 after the intermediate calls does not reproduce the space element: error %g > %g' % (np.abs(x1 - coef).max(), tol)
            if what:
                ctx.violation('history:assembling', what, replay, True)
        except Exception as ex:
            ctx.violation('history:assembling', 'call history raised %s: %s' % (type(ex).__name__, str(ex)[:150]), replay, True)
    # ------------------------------------------------------------ geometry scales over many decades (powers of two: scaling is exact)
    nsc = 24 if quick else 200
    for it in range(nsc):
        kvs = tuple(bspline.make_knots(int(rng.integers(1, 4)), 0.0, 1.0, int(rng.integers(1, 4))) for _ in range(2))
        nd = tuple(kv.numdofs for kv in kvs)
        coef = rng.integers(-8, 9, size=nd) / 8.0
        fel = bspline.BSplineFunc(kvs, coef)
        which = str(rng.choice(['affine', 'bilinear', 'nurbs']))
        if which == 'affine':
            base = geometry.unit_square().scale((float(rng.integers(1, 4)), float(rng.integers(1, 4)) / 2.0)).translate((float(rng.integers(-2, 3)), float(rng.integers(-2, 3))))
        elif which == 'bilinear':
            kl = bspline.make_knots(1, 0.0, 1.0, 1)
            corners = np.array([[[0.0, 0.0], [1.0, 0.0]], [[0.0, 1.0], [1.0, 1.0]]]) + rng.integers(-2, 3, size=(2, 2, 2)) / 8.0
            base = bspline.BSplineFunc((kl, kl), corners)
        else:
            base = geometry.quarter_annulus()
        iso = bool(rng.integers(0, 2))
        e0 = int(rng.integers(-30, 21)); e1 = e0 if iso else int(rng.integers(-30, 21))
        sx, sy = 2.0 ** e0, 2.0 ** e1
        geo = base.scale((sx, sy))
        cg_ = rng.integers(-3, 4, size=(3, 3)).astype(float)
        g = lambda x, y, cg_=cg_: sum(cg_[i, j] * x ** i * y ** j for i in range(3) for j in range(3))     # data in the unscaled physical coordinates
        gs = lambda x, y, g=g, sx=sx, sy=sy: g(x / sx, y / sy)                                           # the same data in the scaled coordinates
        replay = {'mode': 'geometry-scale', 'geometry': which, 'scale_exponents_xy': [e0, e1], 'kvs': [(kv.p, kv.kv.tolist()) for kv in kvs],
                  'coeffs': coef.tolist(), 'poly': cg_.tolist()}
        ctx.case(('geoscale', which, e0, e1, tuple((kv.p, kv.kv.tobytes()) for kv in kvs), coef.tobytes(), cg_.tobytes()))
        ctx.count('stream=geometry-scale'); ctx.count('geometry-scale kind=' + which); ctx.count('geometry-scale ' + ('isotropic' if iso else 'anisotropic'))
        ctx.count('geometry-scale decade=%d' % int(np.floor((e0 + e1) / 2 * np.log10(2.0))))
        try:
            N = int(np.prod(nd))
            M0 = assemble.mass(kvs, geo=base).toarray()
            condM = float(np.linalg.cond(M0))
            rel = condM * (10 * 1e-12 + 1024 * N * EPS)
            # (a) an element of the space in parameter coordinates is reproduced at every scale
            xa = np.asarray(approx.project_L2(kvs, fel, geo=geo))
            if xa.shape != coef.shape or not np.abs(xa - coef).max() <= rel * max(float(np.linalg.norm(coef)), 1.0):
                key = 'l2-geo-small-scale' if np.all(xa == 0) and np.any(coef != 0) else 'l2-geo-scale'
                ctx.violation(key, 'project_L2(kvs, f, geo) with the %s geometry scaled by (2^%d, 2^%d) does not reproduce an element of the space: error %g, bound %g%s' % (
                    which, e0, e1, np.abs(xa - coef).max() if xa.shape == coef.shape else np.inf, rel * max(float(np.linalg.norm(coef)), 1.0),
                    ' (the result is identically zero)' if key == 'l2-geo-small-scale' else ''), replay, True)
            # (b) physical data: everything is invariant (or scales by sx*sy) under the exact power-of-two scaling
            ref_i = np.asarray(approx.interpolate(kvs, g, geo=base)); got_i = np.asarray(approx.interpolate(kvs, gs, geo=geo))
            kap = float(np.prod([cond_inf(dense_collocation(kv.kv, kv.p, kv.greville())) for kv in kvs]))
            ti = 256.0 * N * EPS * kap * max(1.0, float(np.abs(ref_i).max()))
            if got_i.shape != ref_i.shape or not np.abs(got_i - ref_i).max() <= ti:
                ctx.violation('interp-geo-scale', 'interpolate(kvs, f_phys, geo) changes under an exact rescaling (2^%d, 2^%d) of the %s geometry and the data: diff %g > %g' % (
                    e0, e1, which, np.abs(got_i - ref_i).max() if got_i.shape == ref_i.shape else np.inf, ti), replay, True)
            ref_b = np.asarray(assemble.inner_products(kvs, g, f_physical=True, geo=base)); got_b = np.asarray(assemble.inner_products(kvs, gs, f_physical=True, geo=geo))
            tb = 4096.0 * N * EPS * max(float(np.abs(ref_b).max()), 2.0 ** -1000)
            if got_b.shape != ref_b.shape or not np.abs(got_b / (sx * sy) - ref_b).max() <= tb:
                ctx.violation('inner-products-geo-scale', 'inner_products(f_physical=True) does not scale with |det| under the rescaling (2^%d, 2^%d) of the %s geometry: relative diff %g' % (
                    e0, e1, which, np.abs(got_b / (sx * sy) - ref_b).max() / max(float(np.abs(ref_b).max()), 2.0 ** -1000) if got_b.shape == ref_b.shape else np.inf), replay, True)
            ref_p = np.asarray(approx.project_L2(kvs, g, f_physical=True, geo=base)); got_p = np.asarray(approx.project_L2(kvs, gs, f_physical=True, geo=geo))
            tp = 2 * rel * max(float(np.linalg.norm(ref_p)), 1.0)
            if got_p.shape != ref_p.shape or not np.abs(got_p - ref_p).max() <= tp:
                key = 'l2-geo-small-scale' if np.all(got_p == 0) and np.any(ref_p != 0) else 'l2-geo-scale'
                ctx.violation(key, 'project_L2(f_physical=True) changes under an exact rescaling (2^%d, 2^%d) of the %s geometry and the data: diff %g > %g' % (
                    e0, e1, which, np.abs(got_p - ref_p).max() if got_p.shape == ref_p.shape else np.inf, tp), replay, True)
        except Exception as ex:
            ctx.violation('geo-scale-raise', 'geometry scaled by (2^%d, 2^%d) raised %s: %s' % (e0, e1, type(ex).__name__, str(ex)[:150]), replay, True)
    # ------------------------------------------------------------ 3-D project_L2 under full affine maps (coupled Jacobian)
    n3 = 8 if quick else 60
    for it in range(n3):
        kvs = tuple(bspline.make_knots(int(rng.integers(1, 3)), 0.0, 1.0, int(rng.integers(1, 3))) for _ in range(3))
        while True:
            Amat = rng.choice([-3, -2, -1, 1, 2, 3], size=(3, 3)).astype(float) / 2.0      # dense: every entry non-zero
            if abs(np.linalg.det(Amat)) >= 0.5:
                break
        bvec = rng.integers(-4, 5, size=3) / 2.0
        geo = geometry.unit_cube().apply_matrix(Amat).translate(tuple(bvec))
        # the map, read off the geometry itself at the corners: G(xi) = G0 + xi0*d0 + xi1*d1 + xi2*d2 (xi0 = first direction)
        V = geo.grid_eval(([0.0, 1.0],) * 3)
        G0, d0, d1, d2 = V[0, 0, 0], V[1, 0, 0] - V[0, 0, 0], V[0, 1, 0] - V[0, 0, 0], V[0, 0, 1] - V[0, 0, 0]
        nd = tuple(kv.numdofs for kv in kvs)
        coef = rng.integers(-8, 9, size=nd) / 8.0
        f = bspline.BSplineFunc(kvs, coef)
        r = min(kv.p for kv in kvs)
        mons = [(i, j, k) for i in range(r + 1) for j in range(r + 1 - i) for k in range(r + 1 - i - j)]      # total degree <= r
        cf = {m: float(rng.integers(-3, 4)) for m in mons}
        fphys = lambda x, y, z, cf=cf: sum(c * x ** m[0] * y ** m[1] * z ** m[2] for m, c in cf.items())
        def pull(X, Y, Z, fphys=fphys, G0=G0, d0=d0, d1=d1, d2=d2):      # callable in parameter coordinates, x = LAST direction
            P = [G0[c] + Z * d0[c] + Y * d1[c] + X * d2[c] for c in range(3)]
            return fphys(*P)
        replay = {'mode': 'l2-3d-affine', 'kvs': [(kv.p, kv.kv.tolist()) for kv in kvs], 'matrix': Amat.tolist(), 'offset': bvec.tolist(),
                  'coeffs': coef.tolist(), 'poly_xyz': {str(m): c for m, c in cf.items()}}
        ctx.case(('l2-3d', tuple((kv.p, kv.kv.tobytes()) for kv in kvs), Amat.tobytes(), coef.tobytes())); ctx.count('stream=l2-3d-affine(cg)')
        try:
            M = assemble.mass(kvs, geo=geo).toarray()
            N = M.shape[0]
            condM = float(np.linalg.cond(M))
            def tol_for(b, sc):          # purely relative (see the 2-D stream)
                return condM * (10 * 1e-12 + 1024 * N * EPS) * sc * np.sqrt(N)
            # (a) an element of the space given in parameter coordinates
            xa = np.asarray(approx.project_L2(kvs, f, geo=geo))
            ba = assemble.inner_products(kvs, f, geo=geo).ravel()
            ta = tol_for(ba, max(1.0, float(np.abs(coef).max())))
            # independent reference for the load vector: |det A| * (C^T W f) with dense_collocation and numpy Gauss rules
            from numpy.polynomial.legendre import leggauss
            nq = max(kv.p for kv in kvs) + 1
            qs = []
            for kv in kvs:
                gx, gw = leggauss(nq); a_, b_ = kv.mesh[:-1, None], kv.mesh[1:, None]
                qs.append((((a_ + b_) / 2 + (b_ - a_) / 2 * gx).ravel(), ((b_ - a_) / 2 * gw).ravel()))
            Cq = [dense_collocation(kv.kv, kv.p, q[0]) for kv, q in zip(kvs, qs)]
            fq = dense_eval(kvs, coef, [q[0] for q in qs])
            bref = fq
            for k in range(3):
                bref = np.moveaxis(np.tensordot((Cq[k].T * qs[k][1]), bref, axes=([1], [k])), 0, k)
            bref = abs(np.linalg.det(Amat)) * bref.ravel()
            if np.abs(ba - bref).max() > 4096 * N * EPS * max(1.0, float(np.abs(bref).max())):
                ctx.violation('l2-3d-loadvector', 'inner_products(kvs, f, geo=full affine 3-D map) differs from |det DG| * C^T W f (independent quadrature): max diff %g' % (
                    np.abs(ba - bref).max()), replay, True)
            if xa.shape != coef.shape or np.abs(xa - coef).max() > ta:
                ctx.violation('l2-3d-reproduce', 'project_L2 under a full affine 3-D map does not reproduce an element of the space: error %g > bound %g' % (
                    np.abs(xa - coef).max() if xa.shape == coef.shape else np.inf, ta), replay, True)
            # (b) polynomial data in physical coordinates vs its pull-back
            cref = np.asarray(approx.interpolate(kvs, pull))
            xb = np.asarray(approx.project_L2(kvs, fphys, f_physical=True, geo=geo))
            xc = np.asarray(approx.project_L2(kvs, pull, geo=geo))
            bb = assemble.inner_products(kvs, pull, geo=geo).ravel()
            kap = float(np.prod([cond_inf(dense_collocation(kv.kv, kv.p, kv.greville())) for kv in kvs]))
            sc = max(1.0, float(np.abs(cref).max()))
            tb = tol_for(bb, sc) + 64.0 * N * EPS * kap * sc
            if xb.shape != cref.shape or np.abs(xb - cref).max() > tb or np.abs(xc - cref).max() > tb:
                ctx.violation('l2-3d-physical', 'project_L2 under a full affine 3-D map: |phys - ref| = %g, |pull-back - ref| = %g, bound %g' % (
                    np.abs(xb - cref).max() if xb.shape == cref.shape else np.inf, np.abs(xc - cref).max() if xc.shape == cref.shape else np.inf, tb), replay, True)
        except Exception as ex:
            ctx.violation('l2-raise', 'project_L2 with a 3-D affine geometry raised %s' % type(ex).__name__, dict(replay, error=str(ex)[:200]), True)
    # ------------------------------------------------------------ a univariate solve with more than 4096 right-hand-side columns
    for it in range(1 if quick else 4):
        n1 = int(rng.integers(66, 72)); n2 = int(rng.integers(66, 72))
        kvs = (bspline.make_knots(1, 0.0, 1.0, int(rng.integers(3, 6))), bspline.make_knots(2, 0.0, 1.0, n1), bspline.make_knots(int(rng.integers(1, 3)), 0.0, 1.0, n2))
        nd = tuple(kv.numdofs for kv in kvs)
        coef = rng.integers(-8, 9, size=nd) / 8.0
        replay = {'mode': 'many-columns', 'kvs': [(kv.p, kv.numdofs) for kv in kvs], 'columns_seen_by_first_axis': int(nd[1] * nd[2]), 'seed_note': 'coefficients: rng.integers(-8,9)/8'}
        ctx.case(('manycols', nd, coef.tobytes())); ctx.count('stream=many-columns(>4096)')
        try:
            nodes = [kv.greville() for kv in kvs]
            vals = dense_eval(kvs, coef, nodes)
            kap = float(np.prod([cond_inf(dense_collocation(kv.kv, kv.p, n)) for kv, n in zip(kvs, nodes)]))
            tol = 64.0 * coef.size * EPS * kap
            x = np.asarray(approx.interpolate(kvs, vals, nodes=nodes))
            if x.shape != coef.shape or not np.all(np.isfinite(x)) or np.abs(x - coef).max() > tol:
                bad = np.argwhere(~(np.abs(x - coef) <= tol)) if x.shape == coef.shape else []
                ctx.violation('interp-many-columns', 'interpolate on a %dx%dx%d space (first-axis solve sees %d columns) does not reproduce the coefficients: %d entries off, max error %g > %g' % (
                    nd + (nd[1] * nd[2], len(bad), np.nanmax(np.abs(x - coef)) if x.shape == coef.shape else np.inf, tol)), dict(replay, first_bad_index=bad[0].tolist() if len(bad) else None), True)
            f = bspline.BSplineFunc(kvs, coef)
            xl = np.asarray(approx.project_L2(kvs, f))
            km = float(np.prod([cond_inf(assemble.mass(kv).toarray()) for kv in kvs]))
            tl = 256.0 * coef.size * EPS * km
            if xl.shape != coef.shape or not np.all(np.isfinite(xl)) or np.abs(xl - coef).max() > tl:
                ctx.violation('l2-many-columns', 'project_L2 on a %dx%dx%d space does not reproduce the coefficients: max error %g > %g' % (
                    nd + (np.nanmax(np.abs(xl - coef)) if xl.shape == coef.shape else np.inf, tl)), replay, True)
        except Exception as ex:
            ctx.violation('interp-many-columns', 'large tensor-product space raised %s: %s' % (type(ex).__name__, str(ex)[:150]), replay, True)
    nh = 8 if quick else 60
    import sys
    sys.stdout.flush(); sys.stderr.flush()
    _null = os.open(os.devnull, os.O_WRONLY); _o1, _o2 = os.dup(1), os.dup(2)
    os.dup2(_null, 1); os.dup2(_null, 2)      # generated-assembler compilation is noisy
    try:
        _hspace_part(ctx, rng, nh, bspline, approx, hierarchical, utils)
    finally:
        sys.stdout.flush(); sys.stderr.flush()
        os.dup2(_o1, 1); os.dup2(_o2, 2); os.close(_null); os.close(_o1); os.close(_o2)
    _model_diff(ctx, req, chk, meta)


def _hspace_part(ctx, rng, nh, bspline, approx, hierarchical, utils):
    from pyiga import geometry, assemble, vform
    EPSL = 2.0 ** -53
    for it in range(nh):
        dim = int(rng.choice([1, 2]))
        p = int(rng.integers(1, 4))
        nspans = int(rng.integers(2, 5))
        trunc = bool(rng.integers(0, 2))
        nlev = int(rng.choice([2, 3]))
        k0 = int(rng.integers(1, nspans + 1)); k1 = int(rng.integers(1, 2 * k0 + 1))
        # refine the cells of level lv lying in [0, cut)^dim; cuts are cell boundaries of their level, nested
        cuts = [(k0 + 0.25) / nspans, (k1 + 0.25) / (2 * nspans)][:nlev - 1]
        name = 'THB' if trunc else 'HB'
        replay0 = {'dim': dim, 'p': p, 'spans': nspans, 'truncate': trunc,
                   'refine_region': [[lv, 'all(x < %g)' % t] for lv, t in enumerate(cuts)]}
        try:
            kvs = tuple(bspline.make_knots(p, 0.0, 1.0, nspans) for _ in range(dim))
            hs = hierarchical.HSpace(kvs, truncate=trunc)
            for lv, t in enumerate(cuts):
                hs.refine_region(lv, lambda *X, t=t: all(x < t for x in X))
            N = hs.numdofs
            ident = geometry.identity(hs.knotvectors(0))
            M = assemble.assemble(vform.mass_vf(dim), hs, geo=ident).toarray()
            kap = float(np.linalg.cond(M))
            # (1) a polynomial of the coarse space (smooth on every cell of every level)
            cf = rng.integers(-3, 4, size=(p + 1,) * dim).astype(float)
            if dim == 1:
                fun = lambda x: sum(cf[i] * x ** i for i in range(p + 1))
            else:
                fun = lambda x, y: sum(cf[i, j] * x ** i * y ** j for i in range(p + 1) for j in range(p + 1))
            ctx.case(('hspace-poly', dim, p, nspans, trunc, tuple(cuts), cf.tobytes())); ctx.count('stream=l2-hspace(%s)' % name)
            u = approx.project_L2(hs, fun)
            X = np.linspace(0.0, 1.0, 9)
            grid = (X,) * dim
            got = hierarchical.HSplineFunc(hs, u).grid_eval(grid)
            want = utils.grid_eval(fun, grid)
            tolp = 1024.0 * N * EPSL * kap * max(1.0, float(np.abs(want).max()))
            if np.abs(got - want).max() > tolp:
                ctx.violation('l2-hspace-reproduce', 'project_L2 into an %s space does not reproduce a polynomial of the space: max error %g > %g' % (
                    name, np.abs(got - want).max(), tolp), dict(replay0, poly=cf.tolist()), True)
            # (2) an arbitrary element of the space: random dyadic coefficients on ALL levels
            c = rng.integers(-8, 9, size=N) / 8.0
            f = hierarchical.HSplineFunc(hs, c)
            ctx.case(('hspace-elem', dim, p, nspans, trunc, tuple(cuts), c.tobytes())); ctx.count('stream=l2-hspace-all-levels(%s)' % name)
            u = np.asarray(approx.project_L2(hs, f))
            tol = 1024.0 * N * EPSL * kap * max(1.0, float(np.abs(c).max()))
            if u.shape != c.shape or np.abs(u - c).max() > tol:
                na = [len(ii) for ii in hs.active_indices()]
                ctx.violation('l2-hspace-fine-components',
                              'project_L2 into an %s space does not reproduce an element of the space with fine-level components '
                              '(f = HSplineFunc(hs, c), identity geometry): max |u - c| = %g, bound %g' % (name, np.abs(u - c).max() if u.shape == c.shape else np.inf, tol),
                              dict(replay0, dofs_per_level=na, coeffs=c.tolist(), result=u.tolist()), True)
            # (3) non-identity (affine) geometry, callable data in parameter vs physical coordinates
            if dim == 2:
                aff = geometry.unit_square().scale((2.0, 0.5)).translate((1.0, -3.0))      # x = 2*xi_x + 1, y = xi_y/2 - 3
                pull = fun
                fphys = lambda x, y, fun=fun: fun((x - 1.0) / 2.0, (y + 3.0) * 2.0)
            else:
                aff = geometry.line_segment(1.0, 3.0)                                         # x = 2*xi + 1
                pull = fun
                fphys = lambda x, fun=fun: fun((x - 1.0) / 2.0)
            ctx.case(('hspace-phys', dim, p, nspans, trunc, tuple(cuts), cf.tobytes())); ctx.count('stream=l2-hspace-geometry(%s)' % name)
            Mg = assemble.assemble(vform.mass_vf(dim), hs, geo=aff).toarray()
            kg = float(np.linalg.cond(Mg))
            ua = np.asarray(approx.project_L2(hs, pull, geo=aff))
            ub = np.asarray(approx.project_L2(hs, fphys, f_physical=True, geo=aff))
            ga = hierarchical.HSplineFunc(hs, ua).grid_eval(grid)
            gb = hierarchical.HSplineFunc(hs, ub).grid_eval(grid)
            tolg = 4096.0 * N * EPSL * kg * max(1.0, float(np.abs(want).max()))
            if np.abs(ga - want).max() > tolg:
                ctx.violation('l2-hspace-geometry', 'project_L2(hs, f, geo=affine) does not reproduce a polynomial of the %s space: error %g > %g' % (
                    name, np.abs(ga - want).max(), tolg), dict(replay0, poly=cf.tolist(), geo='affine'), True)
            if np.abs(gb - want).max() > tolg or np.abs(ua - ub).max() > tolg:
                ctx.violation('l2-hspace-physical', 'project_L2(hs, f_phys, f_physical=True, geo=affine) differs from the projection of the pull-back in the %s space: '
                              '|phys - exact| = %g, |phys - param| = %g, bound %g' % (name, np.abs(gb - want).max(), np.abs(ua - ub).max(), tolg),
                              dict(replay0, poly=cf.tolist(), geo='affine: x=2*xi+1 (, y=eta/2-3)'), True)
        except Exception as ex:
            ctx.violation('l2-hspace-raise', 'project_L2(HSpace) raised %s: %s' % (type(ex).__name__, str(ex)[:150]), replay0, True)


def _model_diff(ctx, req, chk, meta):
    got = ctx.model('drv_c17', req)
    nbad = 0
    for r, c, g, m in zip(req, chk, got, meta):
        d = c(g) if g != 'bad-request' else 'driver rejected the request'
        if d is not None:
            nbad += 1
            if nbad <= 15:
                ctx.violation('approx-corr:' + m['op'], 'model and implementation disagree: ' + d,
                              {'request': r[:4000], 'model': g[:1500], 'meta': m, 'stream': 'approx (drv_c17)'}, False)
    ctx.obligation('correspondence stream approx: %d requests, implementation within the derived bound of the exact model' % len(req), nbad == 0, '%d disagreements' % nbad)
    ctx.extra['requests'] = len(req)
    ctx.assumptions += ['unisolvence of the node grid (Schoenberg-Whitney) is not proved; decided per instance by exact elimination in the model',
                        'CG convergence is a parameter: the geometry-weighted projection is checked against |M^-1|*(cg tolerance) on generated spaces',
                        'quadrature exactness of the (p+1)-point Gauss rule is assumed (data are polynomials of degree <= p+1 where orthogonality is checked)']
