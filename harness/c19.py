"""
C19 — knot vectors are constructed and queried exactly (DESIGN.md §6/C19).

tie: hand-written Lean model Pyiga.Model.Knots (driver drv_c19) vs pyiga.bspline.KnotVector /
     make_knots / pyx_findspan(s) / Spline.derivative on the same inputs.  Discrete outputs
     (lengths, span counts, multiplicities, mesh indices, span indices, first-active indices,
     sorted unions of exact doubles) are diffed exactly; computed knot values / Greville points /
     derivative coefficients must lie within the running error bound the model computes for
     the same formula (Model/BSpline.lean `RE`).
theorems: Pyiga.Props.C19.*
search (model-free): the property evaluated directly on the returned arrays with numpy /
     linear scans (count of np.diff>0, end points, unique counts, the unique span containing u,
     sorted multiset union, symmetric equality, derivative spline vs pointwise derivative).
"""
from fractions import Fraction

import numpy as np

from .common import plist, frac as _frac


def frac(x):
    """exact rational token of a double; a non-finite value (possible only from a broken implementation) becomes a token
    the driver rejects (`bad-request`), so the request is reported as a disagreement instead of crashing the harness"""
    try:
        return _frac(x)
    except (ValueError, OverflowError):
        return 'nonfinite'

THEOREMS = [
    'Pyiga.Props.C19.findspan_spec', 'Pyiga.Props.C19.findspan_unique', 'Pyiga.Props.C19.findspan_right_end',
    'Pyiga.Props.C19.findspan_fuel_irrelevant',
    'Pyiga.Props.C19.make_knots_length', 'Pyiga.Props.C19.make_knots_numdofs', 'Pyiga.Props.C19.make_knots_sorted',
    'Pyiga.Props.C19.make_knots_mesh', 'Pyiga.Props.C19.make_knots_numspans', 'Pyiga.Props.C19.make_knots_last_breakpoint',
    'Pyiga.Props.C19.make_knots_mults', 'Pyiga.Props.C19.make_knots_open', 'Pyiga.Props.C19.make_knots_rounded',
    'Pyiga.Props.C19.mesh_strictly_increasing', 'Pyiga.Props.C19.mesh_knots_to_mesh', 'Pyiga.Props.C19.knots_to_mesh_monotone',
    'Pyiga.Props.C19.mesh_span_indices_spec', 'Pyiga.Props.C19.mesh_span_indices_count',
    'Pyiga.Props.C19.mesh_support_consistency',
    'Pyiga.Props.C19.greville_in_domain', 'Pyiga.Props.C19.greville_raw_in_domain',
    'Pyiga.Props.C19.refine_sorted', 'Pyiga.Props.C19.refine_perm', 'Pyiga.Props.C19.refine_uniform_spec',
    'Pyiga.Props.C19.refine_uniform_mesh',
    'Pyiga.Props.C19.eq_refl', 'Pyiga.Props.C19.eq_not_symm', 'Pyiga.Props.C19.eq_sym_repaired',
    'Pyiga.Props.C19.spline_derivative',
    'Pyiga.Props.C19.make_knots_admissible', 'Pyiga.Props.C19.make_knots_partition_of_unity',
]
MODULES = ['Pyiga.Model.Knots', 'Pyiga.Model.BSpline', 'Pyiga.Proofs.Knots', 'Pyiga.Proofs.KnotsInterleave', 'Pyiga.Proofs.BSpline', 'Pyiga.Props.C02', 'Pyiga.Props.C19']

ATOL = 1e-8
RTOL = 1e-8


def rle(xs):
    out = []
    for x in xs:
        x = int(x)
        if out and out[-2] == x:
            out[-1] += 1
        else:
            out += [x, 1]
    return out


def gen_kv(rng, pmax=6, maxspans=8, style=None):
    """random open knot vector: (kv ndarray, p).  Breakpoints exact in double (dyadic spans with
    ratios up to 2^40, integer/8 spans) or arbitrary doubles; interior multiplicities 1..p."""
    p = int(rng.integers(0, pmax + 1))
    n = int(rng.integers(1, maxspans + 1))
    style = style or rng.choice(['dyadic', 'wild', 'int8', 'float', 'uniform'])
    if style == 'dyadic':
        h = 2.0 ** rng.integers(-6, 3, size=n)
    elif style == 'wild':
        h = 2.0 ** rng.integers(-40, 1, size=n)
        h[int(rng.integers(0, n))] = 1.0
    elif style == 'int8':
        h = rng.integers(1, 9, size=n) / 8.0
    elif style == 'uniform':
        h = np.full(n, float(rng.choice([1.0, 0.25, 0.1, 1 / 3.0])))
    else:
        h = rng.uniform(0.01, 1.0, size=n) * 10.0 ** rng.integers(-3, 4)
    a = float(rng.choice([0.0, 0.0, 1.0, -1.0, -2.5, 0.9, 1e3]))
    if style == 'wild':
        a = 0.0
    brk = np.concatenate(([a], a + np.cumsum(h)))
    brk = np.unique(brk)        # guards against absorbed tiny spans for 'float'
    n = len(brk) - 1
    mult = [int(rng.integers(1, max(p, 1) + 1)) for _ in range(n - 1)]
    kv = np.concatenate((np.repeat(brk[0], p + 1), np.repeat(brk[1:-1], mult), np.repeat(brk[-1], p + 1)))
    return np.ascontiguousarray(kv, dtype=float), p, style


def points_for(rng, kv, p, nrand=4):
    """interior points, every breakpoint, its two nextafter neighbours, both ends"""
    mesh = np.unique(kv)
    pts = [mesh[0], mesh[-1]]
    for m in mesh:
        pts += [m, np.nextafter(m, -np.inf), np.nextafter(m, np.inf)]
    pts += list(rng.uniform(mesh[0], mesh[-1], size=nrand))
    pts += list((mesh[1:] + mesh[:-1]) / 2)
    pts = np.array([x for x in pts if mesh[0] <= x <= mesh[-1]], dtype=float)
    return np.ascontiguousarray(pts)


def span_oracle(kv, p, u):
    """the unique non-empty span containing u, the last non-empty one at the right end (linear scan)"""
    n = len(kv)
    if u == kv[-1]:
        cands = [i for i in range(n - 1) if kv[i] < kv[i + 1]]
        return cands[-1]
    cands = [i for i in range(n - 1) if kv[i] <= u < kv[i + 1]]
    assert len(cands) == 1
    return cands[0]


class Stream:
    def __init__(self, ctx, exe):
        self.ctx = ctx; self.exe = exe
        self.req = []; self.exp = []; self.meta = []

    def add(self, r, e, kind, oracle=None, info=None):
        if callable(e):
            try:
                e = e()
            except AssertionError:
                e = 'err-assertion'; self.ctx.count('err-assertion')
            except Exception as ex:
                e = 'err-' + type(ex).__name__; self.ctx.count(e)
        self.req.append(r); self.exp.append(e); self.meta.append((kind, oracle, info))

    def model_parallel(self, nproc=12):
        """pipe the requests through several driver processes (round-robin split into 4*nproc parts served by a
        pool of nproc workers, order restored)"""
        from concurrent.futures import ThreadPoolExecutor
        n = len(self.req)
        if n < 8 * nproc:
            return self.ctx.model(self.exe, self.req)
        nparts = 4 * nproc
        parts = [self.req[i::nparts] for i in range(nparts)]
        with ThreadPoolExecutor(nproc) as ex:
            outs = list(ex.map(lambda part: self.ctx.model(self.exe, part), parts))
        got = [None] * n
        for i, o in enumerate(outs):
            got[i::nparts] = o
        return got

    def run(self, name, theorems, skip=lambda e, g: False):
        ctx = self.ctx
        got = self.model_parallel()
        ndis = 0; nskip = 0; nknown = 0
        per_kind = {}
        for r, e, g, (kind, oracle, info) in zip(self.req, self.exp, got, self.meta):
            if skip(e, g):
                nskip += 1
                continue
            if e != g:
                ndis += 1
                if callable(kind):
                    kind, oracle = kind(e, g)
                if '%s:%s' % (name, kind) in ctx.known_keys():
                    # an open known finding of exactly this call site: reported (KNOWN-FINDING), not counted against the stream
                    ndis -= 1; nknown += 1
                # at most 3 searches per call site (kind), 60 in total
                per_kind[kind] = per_kind.get(kind, 0) + 1
                if per_kind[kind] > 3 or sum(min(v, 3) for v in per_kind.values()) > 60:
                    continue
                found = None
                if oracle is not None:
                    try:
                        found = oracle()
                    except Exception as ex:
                        found = 'implementation raised %s: %s' % (type(ex).__name__, str(ex)[:200])
                ctx.violation('%s:%s' % (name, kind),
                              'model and implementation disagree on `%s`%s' % (kind, (': ' + found) if found else ''),
                              {'request': r[:3000], 'implementation': e[:1500], 'model': g[:1500], 'oracle': found,
                               'input': info, 'stream': '%s (%s)' % (name, self.exe), 'theorems': theorems}, found is not None)
        if per_kind:
            ctx.extra['disagreements_per_call_site_' + name] = per_kind
        ctx.obligation('correspondence stream %s: %d requests, model == implementation' % (name, len(self.req)), ndis == 0,
                       '%d disagreements%s' % (ndis, (' (+%d at call sites listed as open known findings)' % nknown) if nknown else ''))
        ctx.extra['requests_' + name] = len(self.req)
        if nskip:
            ctx.count(name + ': skipped (edge of tolerance)', nskip)
        return ndis


def mk_oracle(p, a, b, n, mult):
    """the property itself on the returned array (no model)"""
    def f():
        from pyiga import bspline
        kv = bspline.make_knots(p, a, b, n, mult)
        k = kv.kv
        if len(k) != 2 * (p + 1) + mult * (n - 1):
            return 'len(kv)=%d, expected %d' % (len(k), 2 * (p + 1) + mult * (n - 1))
        if not np.all(np.diff(k) >= 0):
            return 'knot vector decreases'
        if int(np.count_nonzero(np.diff(k) > 0)) != n or kv.numspans != n:
            return 'numspans=%d (non-empty spans %d), requested %d' % (kv.numspans, int(np.count_nonzero(np.diff(k) > 0)), n)
        if k[0] != a or k[-1] != b or np.any(k[:p + 1] != a) or np.any(k[-(p + 1):] != b):
            return 'end knots are not exactly a, b with multiplicity p+1'
        u, c = np.unique(k, return_counts=True)
        if list(c) != [p + 1] + [mult] * (n - 1) + [p + 1]:
            return 'multiplicities %s' % list(c)[:10]
        if kv.numdofs != p + 1 + mult * (n - 1):
            return 'numdofs=%d, expected %d' % (kv.numdofs, p + 1 + mult * (n - 1))
        h = (b - a) / n
        if np.max(np.abs(np.diff(u) - h)) > 8 * np.finfo(float).eps * max(abs(a), abs(b)):
            return 'breakpoints are not equally spaced'
        return None
    return f


def run(ctx):
    ctx.build_repo()
    from pyiga import bspline, spline
    from pyiga.bspline_cy import pyx_findspan, pyx_findspans
    ctx.require_lean(['Pyiga.Props.C19', 'drv_c19'])
    ctx.audit(['Pyiga.Props.C19'], THEOREMS, MODULES)
    if ctx.tier == 'thorough':
        ctx.leanchecker(MODULES)
    rng = ctx.rng
    quick = ctx.tier == 'quick'
    ctx.trusted += ['np.unique / np.sort / np.repeat / np.concatenate / np.linspace (formula i*((b-a)/n)+a, last point overwritten by b) modelled by their documented behaviour',
                    'tolerance rule: model-computed running error bound (4 ulp-units per operation) for computed knots, Greville points, derivative coefficients']
    ctx.assumptions += ['IEEE double arithmetic of numpy is not modelled: computed values are compared within the derived bound, order/equality facts exactly',
                        'knot vectors are non-decreasing (asserted by the constructor) and open']
    ctx.rule = ('make_knots: exhaustive (p<=6, n<=%d, mult<=max(p,1)) on [0,1] (discrete facts; values for every n), the same n-range on a grid of '
                'rational/decimal intervals, random a<b over 1e-6..1e6; queries: random open knot vectors p<=6, <=8 spans, dyadic spans with ratios '
                'up to 2^40 / eighths / arbitrary doubles, interior multiplicities 1..p; findspan at every breakpoint, its two adjacent doubles, '
                'midpoints, random points; refine with random new knots and uniform; __eq__ on perturbed copies incl. a directed search for an '
                'asymmetric pair; Spline.derivative; call histories (refine()/copy() reuse of KnotVector caches, Spline.derivative() after in-place and '
                'rebinding coefficient changes), each answer against the model of the current data; support() / support(None) / support(j) for every '
                'j incl. 0; Spline.derivative with int64/int32/float32 coefficient arrays; knot arrays stored as int64/int32/float32.  non-trivial = at least 2 spans.' % (400 if quick else 2000))

    # ------------------------------------------------------------------ make_knots
    S = Stream(ctx, 'drv_c19')
    nmax = 400 if quick else 2000
    direct_bad = 0

    def mk_case(p, a, b, n, mult, with_vals):
        nonlocal direct_bad
        def impl():
            kv = bspline.make_knots(p, a, b, n, mult)
            u, c = np.unique(kv.kv, return_counts=True)
            head = 'len=%d spans=%d dofs=%d mults=%s' % (len(kv.kv), kv.numspans, kv.numdofs, plist(rle(c)))
            return head, kv
        try:
            head, kv = impl()
        except AssertionError:
            head, kv = 'err-assertion', None
        except Exception as ex:
            head, kv = 'err-' + type(ex).__name__, None
        ora = mk_oracle(p, a, b, n, mult)
        ctx.case(('mk', p, a, b, n, mult), nontrivial=n >= 2)
        if kv is None:
            S.add('mkd %d %s %s %d %d' % (p, frac(a), frac(b), n, mult), head, 'make_knots', ora, {'p': p, 'a': a, 'b': b, 'n': n, 'mult': mult})
            return
        if with_vals:
            S.add('mk %d %s %s %d %d %s' % (p, frac(a), frac(b), n, mult, plist(kv.kv, frac)), head + ' vals=ok', 'make_knots', ora,
                  {'p': p, 'a': a, 'b': b, 'n': n, 'mult': mult})
        else:
            S.add('mkd %d %s %s %d %d' % (p, frac(a), frac(b), n, mult), head, 'make_knots', ora, {'p': p, 'a': a, 'b': b, 'n': n, 'mult': mult})
        # the property itself, directly (cheap): every case
        d = ora()
        if d is not None:
            direct_bad += 1
            ctx.violation('make_knots-direct', 'make_knots(%d,%r,%r,%d,%d): %s' % (p, a, b, n, mult, d),
                          {'p': p, 'a': a, 'b': b, 'n': n, 'mult': mult, 'oracle': d}, True)

    for n in range(1, nmax + 1):
        for p in range(0, 7):
            for mult in range(1, max(p, 1) + 1):
                mk_case(p, 0.0, 1.0, n, mult, with_vals=(p == n % 7 and mult == 1))
        ctx.count('make_knots [0,1] n', 1)
    grid = [(0.9, 1.0), (-1.0, 1.0), (0.0, 0.1), (0.1, 0.7), (1 / 3.0, 2 / 3.0), (0.0, 3.0), (-2.5, 7.25), (1e-3, 2e-3),
            (0.0, 1e6), (100.0, 100.1), (0.0, 0.3), (-0.7, -0.2), (1.0, 2.0), (0.0, 2 * np.pi)]
    for (a, b) in grid:
        ns = list(range(1, 129)) + [int(x) for x in rng.integers(129, nmax + 1, size=(40 if quick else 400))]
        for n in ns:
            p = int(rng.integers(0, 7)); mult = int(rng.integers(1, max(p, 1) + 1))
            mk_case(p, a, b, n, mult, with_vals=True)
        ctx.count('make_knots grid intervals', 1)
    for _ in range(300 if quick else 3000):
        mag = 10.0 ** rng.uniform(-6, 6)
        a = float(rng.uniform(-1, 1) * mag)
        b = a + float(10.0 ** rng.uniform(-6, 6))
        if not a < b:
            continue
        n = int(rng.integers(1, nmax + 1)); p = int(rng.integers(0, 7)); mult = int(rng.integers(1, max(p, 1) + 1))
        # the constructor is only asked to separate breakpoints that doubles can separate
        if (b - a) / n < 64 * np.finfo(float).eps * max(abs(a), abs(b)):
            ctx.count('make_knots random: skipped (h below 64 ulp of the end points)')
            continue
        mk_case(p, a, b, n, mult, with_vals=True)
        ctx.count('make_knots random intervals')
    ctx.sample({'make_knots': S.req[5][:160], 'implementation': S.exp[5][:160]})

    # ------------------------------------------------------------------ queries on arbitrary knot vectors
    nkv = 600 if quick else 5000
    kvs = []
    for _ in range(nkv):
        k, p, style = gen_kv(rng)
        kvs.append((k, p, style))
    # plus constructor outputs (large n) so that findspan is exercised on long vectors
    for n in ([49, 98, 103, 400] if quick else [49, 98, 103, 400, 1000, 2000]):
        for p in (0, 2, 5):
            kvs.append((bspline.make_knots(p, 0.0, 1.0, n, max(1, p - 1)).kv, p, 'make_knots'))

    for (k, p, style) in kvs:
        KV = bspline.KnotVector(k.copy(), p)
        n = len(k)
        kvd = plist(k, frac)
        ctx.case(('kv', p, tuple(k.tolist())), nontrivial=len(np.unique(k)) >= 3)
        ctx.count('kv style=' + style); ctx.count('kv p=%d' % p)

        def q():
            msia = KV.mesh_support_idx_all()
            msi = KV.mesh_span_indices()
            supp = [KV.mesh_support_idx(j) for j in range(KV.numdofs)]
            return 'mesh=%s k2m=%s spans=%d dofs=%d msia=%s msi=%s supp=%s' % (
                plist(KV.mesh, frac), plist(KV._knots_to_mesh.tolist()), KV.numspans, KV.numdofs,
                plist(msia.tolist(), lambda e: '%d,%d' % tuple(e)), plist(msi.tolist()),
                plist(supp, lambda e: '%d,%d' % (int(e[0]), int(e[1]))))

        def q_oracle(k=k, p=p):
            K2 = bspline.KnotVector(k.copy(), p)
            mesh = sorted(set(k.tolist()))
            if K2.mesh.tolist() != mesh:
                return 'mesh is not the sorted set of knots'
            if K2.numspans != sum(1 for i in range(len(k) - 1) if k[i] < k[i + 1]):
                return 'numspans is not the number of non-empty spans'
            if K2.mesh_span_indices().tolist() != [i for i in range(len(k) - 1) if k[i] < k[i + 1]]:
                return 'mesh_span_indices is not {i : kv[i] < kv[i+1]}'
            for j in range(K2.numdofs):
                want = (mesh.index(k[j]), mesh.index(k[j + p + 1]))
                if tuple(int(x) for x in K2.mesh_support_idx(j)) != want:
                    return 'mesh_support_idx(%d) is not the mesh indices of the support ends' % j
                if tuple(K2.mesh_support_idx_all()[j].tolist()) != want:
                    return 'mesh_support_idx_all()[%d] differs from mesh_support_idx' % j
            return None
        S.add('q %d %s' % (p, kvd), q, 'queries', q_oracle, {'kv': k.tolist(), 'p': p})

        def supp_line(KVo):
            a = KVo.support(); b = KVo.support(None)
            if tuple(float(x) for x in a) != tuple(float(x) for x in b):
                return 'support()-vs-support(None)-mismatch'
            sj = [KVo.support(j) for j in range(KVo.numdofs)]
            return 'all=%s,%s j=%s' % (frac(a[0]), frac(a[1]), plist(sj, lambda e: '%s,%s' % (frac(e[0]), frac(e[1]))))

        def supp_oracle(k=k, p=p):
            K2 = bspline.KnotVector(k.copy(), p)
            if tuple(K2.support()) != (k[0], k[-1]) or tuple(K2.support(None)) != (k[0], k[-1]):
                return 'support() is not (kv[0], kv[-1])'
            for j in range(K2.numdofs):
                if tuple(K2.support(j)) != (k[j], k[j + p + 1]):
                    return 'support(%d) = %s, the knots of B-spline %d span (%r, %r)' % (j, tuple(float(x) for x in K2.support(j)), j, float(k[j]), float(k[j + p + 1]))
                if tuple(K2.support_idx(j)) != (j, j + p + 1):
                    return 'support_idx(%d) != (j, j+p+1)' % j
            return None
        S.add('supp %d %s' % (p, kvd), lambda: supp_line(KV), 'support', supp_oracle, {'kv': k.tolist(), 'p': p})

        us = points_for(rng, k, p)
        if len(us) > 60:
            us = us[np.sort(rng.permutation(len(us))[:60])]

        def fs():
            s1 = pyx_findspans(KV.kv, p, us).tolist()
            s2 = [int(KV.findspan(float(u))) for u in us]
            if s1 != s2:
                return 'findspans-vs-findspan-mismatch'
            fa = [int(KV.first_active_at(float(u))) for u in us]
            return '%s %s' % (plist(s1), plist(fa))

        def fs_oracle(k=k, p=p, us=us):
            K2 = bspline.KnotVector(k.copy(), p)
            for u in us:
                w = span_oracle(k, p, float(u))
                g = int(K2.findspan(float(u)))
                if g != w:
                    return 'findspan(%r) = %d, the span containing it is %d' % (float(u), g, w)
                if int(K2.first_active_at(float(u))) != w - p:
                    return 'first_active_at(%r) != span - p' % float(u)
            return None
        S.add('fs %d %s %s' % (p, kvd, plist(us, frac)), fs, 'findspan', fs_oracle, {'kv': k.tolist(), 'p': p, 'u': us.tolist()})
        ctx.count('findspan points', len(us))

        if style == 'make_knots':
            continue

        def grev():
            g = KV.greville()
            return 'n=%d vals=ok dom=ok' % len(g), g
        try:
            ge, g = grev()
            S.add('grev %d %s %s' % (p, kvd, plist(g, frac)), ge, 'greville',
                  (lambda g=g, k=k: None if (np.all(g >= k[0]) and np.all(g <= k[-1]) and np.all(np.diff(g) >= 0)) else 'Greville points leave the domain or decrease'),
                  {'kv': k.tolist(), 'p': p})
            if not (np.all(g >= k[0]) and np.all(g <= k[-1])):
                ctx.violation('greville-direct', 'greville() leaves the domain', {'kv': k.tolist(), 'p': p, 'g': g.tolist()}, True)
        except Exception as ex:
            S.add('grev %d %s 0' % (p, kvd), 'err-' + type(ex).__name__, 'greville', None, {'kv': k.tolist(), 'p': p})

        # refine with explicit new knots: interior points, existing breakpoints, repeated
        mesh = np.unique(k)
        m = int(rng.integers(0, 6))
        new = np.concatenate((rng.uniform(mesh[0], mesh[-1], size=m), rng.choice(mesh, size=int(rng.integers(0, 3)))))
        rng.shuffle(new)

        def refw():
            r = KV.refine(new)
            if r.p != p:
                return 'degree-changed'
            return plist(r.kv, frac)

        def refw_oracle(k=k, new=new, p=p):
            r = bspline.KnotVector(k.copy(), p).refine(new)
            if sorted(k.tolist() + new.tolist()) != r.kv.tolist():
                return 'refine(new_knots) is not the sorted union'
            return None
        S.add('refw %s %s' % (kvd, plist(new, frac)), refw, 'refine', refw_oracle, {'kv': k.tolist(), 'p': p, 'new': new.tolist()})

        def refu():
            r = KV.refine()
            return 'n=%d spans=%d vals=ok' % (len(r.kv), r.numspans), r

        def refu_oracle(k=k, p=p):
            K2 = bspline.KnotVector(k.copy(), p)
            r = K2.refine()
            if r.numspans != 2 * K2.numspans:
                return 'uniform refinement: numspans %d -> %d' % (K2.numspans, r.numspans)
            if not np.all(np.diff(r.kv) >= 0) or len(r.kv) != len(k) + K2.numspans:
                return 'uniform refinement is not sorted / has wrong length'
            u0, c0 = np.unique(k, return_counts=True); u1, c1 = np.unique(r.kv, return_counts=True)
            if dict(zip(u0.tolist(), c0.tolist())) != {x: c for x, c in zip(u1.tolist(), c1.tolist()) if x in set(u0.tolist())}:
                return 'uniform refinement changed an old multiplicity'
            # theorem refine_uniform_mesh: the new mesh is the old one interleaved with the span midpoints
            m0 = [Fraction(float(x)) for x in K2.mesh]
            ilv = []
            for a_, b_ in zip(m0[:-1], m0[1:]):
                ilv += [a_, (a_ + b_) / 2]
            ilv.append(m0[-1])
            m1 = [Fraction(float(x)) for x in r.mesh]
            if len(m1) != len(ilv):
                return 'uniform refinement: mesh has %d breakpoints, interleaving has %d' % (len(m1), len(ilv))
            for i_, (x_, y_) in enumerate(zip(m1, ilv)):
                if abs(x_ - y_) > Fraction(1, 2 ** 50) * max(abs(m0[0]), abs(m0[-1]), abs(y_)):
                    return 'uniform refinement: breakpoint %d is %r, old mesh interleaved with midpoints has %r' % (i_, float(x_), float(y_))
            return None
        # midpoints of adjacent doubles cannot halve a span: the generator's spans are >= 2^-40 relative, fine
        try:
            e, r = refu()
            S.add('refu %s %s' % (kvd, plist(r.kv, frac)), e, 'refine-uniform', refu_oracle, {'kv': k.tolist(), 'p': p})
            d = refu_oracle()
            if d is not None:
                ctx.violation('refine-uniform-direct', d, {'kv': k.tolist(), 'p': p}, True)
        except Exception as ex:
            S.add('refu %s 0' % kvd, 'err-' + type(ex).__name__, 'refine-uniform', refu_oracle, {'kv': k.tolist(), 'p': p})

        # Spline.derivative
        if p >= 1:
            c = rng.integers(-8, 9, size=KV.numdofs).astype(float) if rng.integers(0, 2) else rng.normal(size=KV.numdofs)
            usd = us[:12]

            def dspl():
                sp = spline.Spline(KV, c)
                d = sp.derivative()
                return 'kv=%s p=%d vals=ok ident=ok' % (plist(d.kv.kv, frac), d.kv.p), d

            def dspl_oracle(k=k, p=p, c=c):
                K2 = bspline.KnotVector(k.copy(), p)
                sp = spline.Spline(K2, c)
                d = sp.derivative()
                x = np.linspace(k[0], k[-1], 41)[1:-1]
                x = x[~np.isin(x, k)]
                y1 = d.eval(x); y2 = sp.deriv(x)
                hmin = np.min(np.diff(np.unique(k)))
                scale = np.max(np.abs(c)) * p / hmin + 1e-300
                if np.max(np.abs(y1 - y2)) > 1e-9 * scale:
                    return 'derivative().eval differs from deriv() by %.3g (scale %.3g)' % (np.max(np.abs(y1 - y2)), scale)
                return None
            try:
                e, d = dspl()
                S.add('dspl %d %s %s %s %s' % (p, kvd, plist(c, frac), plist(d.coeffs, frac), plist(usd, frac)), e, 'spline-derivative',
                      dspl_oracle, {'kv': k.tolist(), 'p': p, 'coeffs': c.tolist()})
            except Exception as ex:
                S.add('dspl %d %s %s 0 0' % (p, kvd, plist(c, frac)), 'err-' + type(ex).__name__, 'spline-derivative', dspl_oracle,
                      {'kv': k.tolist(), 'p': p, 'coeffs': c.tolist()})
            ctx.count('Spline.derivative cases')
            # the same coefficient values stored with an integer / float32 dtype (Spline keeps the array it is given)
            if np.all(c == np.round(c)):
                cx = c; cv = c.astype(np.int64 if rng.integers(0, 2) else np.int32)
            else:
                # (float32 coefficients are not used here: numpy computes p/dk*diff(c) in single precision for float32 data, which is
                # the precision the caller chose; the model's bound is for double precision)
                cx = np.round(c * 4); cv = cx.astype(np.int64)

            def dspl_dt_oracle(k=k, p=p, cx=cx, cv=cv):
                K2 = bspline.KnotVector(k.copy(), p)
                d1 = spline.Spline(K2, cv).derivative(); d2 = spline.Spline(K2, cx.copy()).derivative()
                a1 = np.asarray(d1.coeffs, dtype=float); a2 = np.asarray(d2.coeffs, dtype=float)
                if a1.shape != a2.shape or np.max(np.abs(a1 - a2)) > 1e-9 * (np.max(np.abs(a2)) + 1e-300):
                    return ('Spline.derivative() with %s coefficients gives %s, with the same values as float64 %s'
                            % (cv.dtype, a1[:5].tolist(), a2[:5].tolist()))
                return None
            try:
                dv = spline.Spline(KV, cv).derivative()
                S.add('dspl %d %s %s %s %s' % (p, kvd, plist(cx, frac), plist(np.asarray(dv.coeffs, dtype=float), frac), plist(usd, frac)),
                      'kv=%s p=%d vals=ok ident=ok' % (plist(dv.kv.kv, frac), dv.kv.p), 'spline-derivative[coeff-dtype]', dspl_dt_oracle,
                      {'kv': k.tolist(), 'p': p, 'coeffs': cx.tolist(), 'dtype': str(cv.dtype)})
            except Exception as ex:
                S.add('dspl %d %s %s 0 0' % (p, kvd, plist(cx, frac)), 'err-' + type(ex).__name__, 'spline-derivative[coeff-dtype]', dspl_dt_oracle,
                      {'kv': k.tolist(), 'p': p, 'coeffs': cx.tolist(), 'dtype': str(cv.dtype)})
            ctx.count('Spline.derivative coefficient dtype=' + str(cv.dtype))
    ctx.sample({'queries': S.req[-3][:200]})

    # ------------------------------------------------------------------ knot arrays with an integer / float32 dtype
    # integer-valued (resp. multiples of 1/8) knots stored as int64 / int32 / float32: every query that does not go through the
    # typed Cython kernel must give the answers of the float64 knot vector with the same values
    def dtype_knots_case(kvals, p, dt):
        karr = kvals.astype(dt)
        assert np.array_equal(karr.astype(float), kvals)
        tag = '[knots %s]' % np.dtype(dt).name
        info = {'kv': kvals.tolist(), 'p': p, 'knot_dtype': np.dtype(dt).name}
        kvd = plist(kvals, frac)
        mk = lambda: bspline.KnotVector(karr.copy(), p)
        ref = lambda: bspline.KnotVector(kvals.copy(), p)

        def same(fn, what):
            def f():
                a = fn(mk()); b = fn(ref())
                if a != b:
                    return '%s with %s knots differs from the float64 knot vector with the same values' % (what, np.dtype(dt).name)
                return None
            return f
        S.add('q %d %s' % (p, kvd), lambda: q_line(mk()), 'queries' + tag, same(q_line, 'mesh/support queries'), info)
        S.add('supp %d %s' % (p, kvd), lambda: supp_line_g(mk()), 'support' + tag, same(supp_line_g, 'support(j)'), info)
        def grev_line(KVo):
            g = np.asarray(KVo.greville(), dtype=float)
            return 'grev %d %s %s' % (p, kvd, plist(g, frac)), 'n=%d vals=ok dom=ok' % len(g)
        def refu_line(KVo):
            r = KVo.refine()
            return 'refu %s %s' % (kvd, plist(np.asarray(r.kv, dtype=float), frac)), 'n=%d spans=%d vals=ok' % (len(r.kv), r.numspans)
        mesh = np.unique(kvals)
        new = np.concatenate((rng.choice(mesh, size=2), (mesh[:-1] + mesh[1:])[:2] / 2)).astype(float)
        def refw_line(KVo):
            r = KVo.refine(new)
            return 'refw %s %s' % (kvd, plist(new, frac)), plist(np.asarray(r.kv, dtype=float), frac)
        newi = rng.choice(mesh, size=3).astype(dt)
        def refwi_line(KVo):
            r = KVo.refine(newi)
            return 'refw %s %s' % (kvd, plist(newi.astype(float), frac)), plist(np.asarray(r.kv, dtype=float), frac)
        lines = [(grev_line, 'greville'), (refu_line, 'refine-uniform'), (refw_line, 'refine'), (refwi_line, 'refine')]
        if p >= 1 and dt is not np.float32:      # float32 knots: derivative coefficients are legitimately single precision
            cc = rng.integers(-8, 9, size=len(kvals) - p - 1)
            ccv = cc.astype(np.int64) if rng.integers(0, 2) else cc.astype(float)
            usd = points_for(rng, kvals, p, nrand=2)[:8]
            def dspl_line(KVo):
                d = spline.Spline(KVo, ccv.copy()).derivative()
                return ('dspl %d %s %s %s %s' % (p, kvd, plist(cc.astype(float), frac), plist(np.asarray(d.coeffs, dtype=float), frac), plist(usd, frac)),
                        'kv=%s p=%d vals=ok ident=ok' % (plist(np.asarray(d.kv.kv, dtype=float), frac), d.kv.p))
            lines.append((dspl_line, 'spline-derivative'))

            def dspl_ref_oracle():
                # all-float64 reference: same knot and coefficient values
                d1 = spline.Spline(mk(), ccv.copy()).derivative()
                d2 = spline.Spline(ref(), cc.astype(float)).derivative()
                a1 = np.asarray(d1.coeffs, dtype=float); a2 = np.asarray(d2.coeffs, dtype=float)
                if a1.shape != a2.shape or np.max(np.abs(a1 - a2)) > 1e-9 * (np.max(np.abs(a2)) + 1e-300):
                    return ('Spline.derivative() with %s knots and %s coefficients gives %s, with the same values as float64 %s'
                            % (np.dtype(dt).name, ccv.dtype, a1[:5].tolist(), a2[:5].tolist()))
                return None
        for fn, kind in lines:
            def orc(fn=fn, kind=kind):
                try:
                    a = fn(mk())
                except Exception as ex:
                    a = 'raised ' + type(ex).__name__
                b = fn(ref())
                if a != b:
                    return '%s with %s knots differs from the float64 knot vector with the same values' % (kind, np.dtype(dt).name)
                return None
            try:
                r_, e_ = fn(mk())
            except AssertionError:
                r_, e_ = 'q 0 0', 'err-assertion'
            except Exception as ex:
                r_, e_ = 'q 0 0', 'err-' + type(ex).__name__
            S.add(r_, e_, kind + tag, dspl_ref_oracle if kind == 'spline-derivative' else orc, info)
        ctx.count('knot dtype=' + np.dtype(dt).name)

    def supp_line_g(KVo):
        a = KVo.support(); b = KVo.support(None)
        if tuple(float(x) for x in a) != tuple(float(x) for x in b):
            return 'support()-vs-support(None)-mismatch'
        sj = [KVo.support(j) for j in range(KVo.numdofs)]
        return 'all=%s,%s j=%s' % (frac(a[0]), frac(a[1]), plist(sj, lambda e: '%s,%s' % (frac(e[0]), frac(e[1]))))

    # ------------------------------------------------------------------ call histories (caching / aliasing)
    # construct, query, mutate, query again: every answer of the long-lived object is compared with the model evaluated on the
    # CURRENT data (= what a fresh object built from the current data must answer)
    def q_line(KVo, perm=None):
        # the six queries are issued in the order `perm` (a fresh object must give the same answers in every order: no query
        # may depend on another one having filled or repaired a cache first); the line is formatted in a fixed order
        pp = KVo.p
        qs = [
            lambda: plist(KVo.mesh_support_idx_all().tolist(), lambda e: '%d,%d' % tuple(e)),
            lambda: plist(KVo.mesh_span_indices().tolist()),
            lambda: plist([KVo.mesh_support_idx(j) for j in range(KVo.numdofs)], lambda e: '%d,%d' % (int(e[0]), int(e[1]))),
            lambda: plist(KVo.mesh, frac),
            lambda: (KVo.mesh, plist(KVo._knots_to_mesh.tolist()))[1],   # private table: defined only once a public query filled it
            lambda: '%d' % KVo.numspans,
        ]
        res = [None] * len(qs)
        for i_ in (perm if perm is not None else range(len(qs))):
            res[i_] = qs[i_]()
        msia, msi, supp, mesh_, k2m, spans = res
        return 'mesh=%s k2m=%s spans=%s dofs=%d msia=%s msi=%s supp=%s' % (mesh_, k2m, spans, KVo.numdofs, msia, msi, supp)

    def fresh_q_oracle(karr, pp, got_line, step):
        karr = np.array(karr, dtype=float)
        def f():
            want = q_line(bspline.KnotVector(karr.copy(), pp))
            if want != got_line:
                return 'history step `%s`: the long-lived KnotVector answers differently from a fresh KnotVector built from the current knots' % step
            return None
        return f

    def hist_q(KVo, step, hist):
        karr = np.array(KVo.kv, dtype=float)
        perm = [int(x) for x in rng.permutation(6)]
        ctx.count('history: first query = ' + ['mesh_support_idx_all', 'mesh_span_indices', 'mesh_support_idx', 'mesh', '_knots_to_mesh', 'numspans'][perm[0]])
        try:
            line = q_line(KVo, perm)
        except AssertionError:
            line = 'err-assertion'
        except Exception as ex:
            line = 'err-' + type(ex).__name__
        S.add('q %d %s' % (KVo.p, plist(karr, frac)), line, 'kv-history', fresh_q_oracle(karr, KVo.p, line, step),
              {'history': hist, 'step': step, 'kv': karr.tolist(), 'p': KVo.p})
        ctx.count('history: KnotVector queries')

    def hist_spline(sp, KVo, usd, step, hist):
        cur = np.array(sp.coeffs, dtype=float)          # the coefficients the spline has NOW
        karr = np.array(KVo.kv, dtype=float); pp = KVo.p
        try:
            d = sp.derivative()
            dco = np.array(d.coeffs, dtype=float); dkv = np.array(d.kv.kv, dtype=float); dp = d.kv.p
            line = 'kv=%s p=%d vals=ok ident=ok' % (plist(dkv, frac), dp)
            reqline = 'dspl %d %s %s %s %s' % (pp, plist(karr, frac), plist(cur, frac), plist(dco, frac), plist(usd, frac))
        except Exception as ex:
            dco = None
            line = 'err-' + type(ex).__name__
            reqline = 'dspl %d %s %s 0 0' % (pp, plist(karr, frac), plist(cur, frac))

        def orc():
            fr = spline.Spline(bspline.KnotVector(karr.copy(), pp), cur.copy()).derivative()
            if dco is None or not np.array_equal(np.asarray(fr.coeffs, dtype=float), dco):
                x = np.linspace(karr[0], karr[-1], 23)[1:-1]
                x = x[~np.isin(x, karr)]
                return ('history step `%s`: derivative() of the long-lived Spline is not the derivative of its current coefficients '
                        '(fresh object: %s, long-lived: %s; deriv() at %r = %r)' % (step, np.asarray(fr.coeffs)[:4].tolist(),
                        None if dco is None else dco[:4].tolist(), float(x[0]), float(sp.__class__(bspline.KnotVector(karr.copy(), pp), cur.copy()).deriv(x[:1])[0])))
            return None
        S.add(reqline, line, 'spline-history', orc, {'history': hist, 'step': step, 'kv': karr.tolist(), 'p': pp, 'coeffs': cur.tolist()})
        ctx.count('history: Spline.derivative queries')

    nhist = 120 if quick else 1500
    stale_obs = 0
    for (k, p, style) in [e for e in kvs if e[2] != 'make_knots'][:nhist]:
        mesh = np.unique(k)
        # --- KnotVector: refine / copy reuse
        K0 = bspline.KnotVector(k.copy(), p)
        order = int(rng.integers(0, 3))
        if order == 1:
            _ = K0.numspans
        elif order == 2:
            _ = K0.findspan(float(mesh[0]))
        hist_q(K0, 'construct', 'refine-reuse')
        newk = rng.uniform(mesh[0], mesh[-1], size=int(rng.integers(1, 4)))
        rk = int(rng.integers(0, 4))
        if rk == 1:      # a new knot that coincides with an existing breakpoint
            newk = np.concatenate((newk, rng.choice(mesh, size=1)))
        elif rk == 2:    # the same new knot listed twice
            newk = np.concatenate((newk, newk[:1]))
        elif rk == 3:    # only existing breakpoints
            newk = rng.choice(mesh, size=int(rng.integers(1, 3)))
        R = K0.refine(newk)
        hist_q(K0, 'original after refine(new)', 'refine-reuse')
        hist_q(R, 'refined', 'refine-reuse')
        R2 = R.refine()
        hist_q(R, 'refined after its own uniform refine()', 'refine-reuse')
        hist_q(R2, 'twice refined', 'refine-reuse')
        C = K0.copy()
        if len(mesh) >= 3:
            # edit the copy's knots in place BEFORE its first query: shift all interior knots by a fraction of the smallest span
            hmin = float(np.min(np.diff(mesh)))
            inner = (C.kv > mesh[0]) & (C.kv < mesh[-1])
            C.kv[inner] += hmin / 4
        hist_q(C, 'copy edited before its first query', 'copy-reuse')
        hist_q(K0, 'original after its copy was edited', 'copy-reuse')
        # observation only (not part of the property: pyiga never edits a knot array in place): caches after an in-place edit
        if len(mesh) >= 3:
            K1 = bspline.KnotVector(k.copy(), p)
            _ = K1.mesh
            K1.kv[(K1.kv > mesh[0]) & (K1.kv < mesh[-1])] += float(np.min(np.diff(mesh))) / 4
            try:
                if q_line(K1) != q_line(bspline.KnotVector(K1.kv.copy(), p)):
                    stale_obs += 1
            except Exception:
                stale_obs += 1
        # --- Spline: in-place and rebinding coefficient changes
        if p >= 1:
            KVh = bspline.KnotVector(k.copy(), p)
            usd = points_for(rng, k, p, nrand=2)[:8]
            carr = rng.integers(-8, 9, size=KVh.numdofs).astype(float)
            sp = spline.Spline(KVh, carr)
            hist_spline(sp, KVh, usd, 'construct', 'coeff-mutation')
            hist_spline(sp, KVh, usd, 'derivative() called again', 'coeff-mutation')
            carr[:] = rng.integers(-8, 9, size=KVh.numdofs).astype(float)        # through the array shared with the caller
            hist_spline(sp, KVh, usd, 'coefficients edited in place through the shared array', 'coeff-mutation')
            sp.coeffs[int(rng.integers(0, KVh.numdofs))] += 3.0
            hist_spline(sp, KVh, usd, 'one coefficient edited in place via s.coeffs[i]', 'coeff-mutation')
            sp.coeffs = rng.normal(size=KVh.numdofs)
            hist_spline(sp, KVh, usd, 's.coeffs rebound to a new array', 'coeff-mutation')
            sp.coeffs = sp.coeffs * 2.0
            hist_spline(sp, KVh, usd, 's.coeffs rebound again', 'coeff-mutation')
        ctx.count('histories')
    ctx.extra['observation_stale_mesh_cache_after_inplace_knot_edit'] = (
        '%d of %d knot vectors: KnotVector does not invalidate _mesh/_knots_to_mesh when kv.kv is edited in place after a query '
        '(design observation, not a violation: no pyiga code edits a knot array in place)' % (stale_obs, nhist))

    for _ in range(100 if quick else 1200):
        p_ = int(rng.integers(0, 6)); n_ = int(rng.integers(1, 7))
        brk = np.concatenate(([0.0], np.cumsum(rng.integers(1, 5, size=n_).astype(float)))) + float(rng.integers(-3, 4))
        mult_ = [int(rng.integers(1, max(p_, 1) + 1)) for _ in range(n_ - 1)]
        kvals = np.concatenate((np.repeat(brk[0], p_ + 1), np.repeat(brk[1:-1], mult_), np.repeat(brk[-1], p_ + 1)))
        dt = [np.int64, np.int32, np.float32][int(rng.integers(0, 3))]
        if dt is np.float32:
            kvals = kvals / 8.0
        dtype_knots_case(np.ascontiguousarray(kvals, dtype=float), p_, dt)

    # ------------------------------------------------------------------ __eq__
    asym = None
    neq = 0

    def eqs(a, b):
        """`a == b` as a token: '1' / '0' / 'err-<exception>' (a broken implementation must not crash the harness)"""
        try:
            return str(int(bool(a == b)))
        except AssertionError:
            return 'err-assertion'
        except Exception as ex:
            return 'err-' + type(ex).__name__

    def eq_oracle(k1, p1, k2, p2):
        def f():
            a = bspline.KnotVector(np.array(k1, dtype=float), p1); b = bspline.KnotVector(np.array(k2, dtype=float), p2)
            r = [eqs(a, b), eqs(b, a), eqs(a, a), eqs(b, b)]
            if r[0] != r[1]:
                return 'kv1 == kv2 gives %s, kv2 == kv1 gives %s' % (r[0], r[1])
            if r[2] != '1' or r[3] != '1':
                return 'a knot vector compared with itself gives %s / %s' % (r[2], r[3])
            return None
        return f
    for (k, p, style) in kvs[: (300 if quick else 2000)]:
        K1 = bspline.KnotVector(k.copy(), p)
        variants = [(k.copy(), p), (k.copy(), p + 1), (k[:-1].copy(), p)]
        for rel in (1e-12, 3e-9, 0.9e-8, 1.1e-8, 1e-7, 1e-5):
            variants.append((k * (1 + rel) + rel * rng.uniform(-1, 1), p))
        i = int(rng.integers(0, len(k)))
        k3 = k.copy(); k3[i:] += 1.5e-8 * (1 + abs(k3[-1]))
        variants.append((k3, p))
        for (k2, p2) in variants:
            try:
                K2 = bspline.KnotVector(np.ascontiguousarray(k2), p2)
            except AssertionError:
                continue
            e12 = eqs(K1, K2); e21 = eqs(K2, K1)
            orc_ = eq_oracle(k.tolist(), p, np.asarray(k2).tolist(), p2)
            S.add('eq %d %s %d %s %s %s' % (p, plist(k, frac), p2, plist(k2, frac), frac(ATOL), frac(RTOL)), e12, 'eq', orc_,
                  {'kv1': k.tolist(), 'p1': p, 'kv2': np.asarray(k2).tolist(), 'p2': p2})
            S.add('eq %d %s %d %s %s %s' % (p2, plist(k2, frac), p, plist(k, frac), frac(ATOL), frac(RTOL)), e21, 'eq', orc_,
                  {'kv1': np.asarray(k2).tolist(), 'p1': p2, 'kv2': k.tolist(), 'p2': p})
            neq += 1
            if eqs(K2, K2) != '1':
                ctx.violation('eq-reflexive', 'KnotVector == itself gives %s' % eqs(K2, K2), {'kv': np.asarray(k2).tolist(), 'p': p2}, True)
            if e12 != e21 and asym is None:
                asym = {'kv1': k.tolist(), 'p1': p, 'kv2': np.asarray(k2).tolist(), 'p2': p2, 'kv1==kv2': e12, 'kv2==kv1': e21}
    # a repeated knot against two knots a tiny distance apart: A = kv.refine([x]) at an existing breakpoint, B = kv.refine([x + eps]);
    # both orders, through the model, plus the direct symmetry / reflexivity test
    for (k, p, style) in kvs[: (200 if quick else 2000)]:
        K0 = bspline.KnotVector(k.copy(), p)
        mesh = np.unique(k)
        x = float(rng.choice(mesh[:-1]))
        for eps in (1e-12, 1e-10, 3e-9, 4e-8):
            e_ = eps * max(1.0, abs(x))
            try:
                A = K0.refine(np.array([x])); B = K0.refine(np.array([x + e_]))
            except AssertionError:
                continue
            eAB = eqs(A, B); eBA = eqs(B, A)
            orc_ = eq_oracle(A.kv.tolist(), p, B.kv.tolist(), p)
            S.add('eq %d %s %d %s %s %s' % (p, plist(A.kv, frac), p, plist(B.kv, frac), frac(ATOL), frac(RTOL)), eAB, 'eq', orc_,
                  {'kv1': A.kv.tolist(), 'p1': p, 'kv2': B.kv.tolist(), 'p2': p})
            S.add('eq %d %s %d %s %s %s' % (p, plist(B.kv, frac), p, plist(A.kv, frac), frac(ATOL), frac(RTOL)), eBA, 'eq', orc_,
                  {'kv1': B.kv.tolist(), 'p1': p, 'kv2': A.kv.tolist(), 'p2': p})
            neq += 1
            if eqs(A, A) != '1' or eqs(B, B) != '1':
                ctx.violation('eq-reflexive', 'KnotVector == itself gives %s / %s' % (eqs(A, A), eqs(B, B)), {'kv': B.kv.tolist(), 'p': p}, True)
            if eAB != eBA and (asym is None or 'refine' not in asym):
                asym = {'refine': 'A = kv.refine([%r]), B = kv.refine([%r]) for kv = KnotVector(%s, %d): A == B is %s, B == A is %s'
                        % (x, x + e_, k.tolist(), p, eAB, eBA), 'kv1': A.kv.tolist(), 'kv2': B.kv.tolist(), 'p1': p, 'p2': p,
                        'kv1==kv2': eAB, 'kv2==kv1': eBA}
    ctx.count('__eq__ pairs', neq)
    # directed search: b' = b + (atol + rtol*b) rounded to neighbouring doubles (see Props.C19.eq_not_symm for the exact-arithmetic witness)
    for b in [1.0, 2.0, 10.0, 0.5, 1e3, 1e6] + [float(x) for x in rng.uniform(1, 1e6, size=20)]:
        c = b + (ATOL + RTOL * b)
        for _ in range(4):
            c = np.nextafter(c, -np.inf)
        for _ in range(9):
            try:
                K1 = bspline.make_knots(2, 0.0, b, 4); K2 = bspline.make_knots(2, 0.0, float(c), 4)
                e12 = bool(K1 == K2); e21 = bool(K2 == K1)
            except Exception:
                break
            if e12 != e21:
                if asym is None or 'make_knots' not in asym:
                    asym = {'make_knots': 'make_knots(2, 0.0, %r, 4) vs make_knots(2, 0.0, %r, 4)' % (b, float(c)), 'kv1': K1.kv.tolist(), 'kv2': K2.kv.tolist(),
                            'p1': 2, 'p2': 2, 'kv1==kv2': e12, 'kv2==kv1': e21}
                break
            c = np.nextafter(c, np.inf)
        if asym is not None and 'make_knots' in asym:
            break
    if asym is not None:
        ctx.violation('kv-eq-asymmetric', 'KnotVector.__eq__ is not symmetric: %s' % asym.get('make_knots', asym.get('refine', 'see replay')), asym, True)

    def skip(e, g):
        return g == 'edge'
    S.run('kv', THEOREMS, skip=skip)
    ctx.extra['direct_property_failures'] = direct_bad
