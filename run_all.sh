#!/bin/bash
# run every claimed check's quick command once; summary in /tmp/run_all_<seed>.txt
seed=${1:-0}; tier=${2:-quick}
out=/tmp/run_all_${seed}_${tier}.txt; : > $out
for pid in $(python3 -c "import json;print(' '.join(c['property_id'] for c in json.load(open('MANIFEST.json'))['checks']))"); do
  t0=$(date +%s)
  VERIF_SEED=$seed ./check $pid --tier $tier > /tmp/run_all_$pid.log 2>&1; rc=$?
  t1=$(date +%s)
  echo "$pid exit=$rc wall=$((t1-t0))s $(grep -c '^VIOLATION' /tmp/run_all_$pid.log) violations $(grep -c '^KNOWN-FINDING' /tmp/run_all_$pid.log) known :: $(tail -1 /tmp/run_all_$pid.log)" | tee -a $out
done
