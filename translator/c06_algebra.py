#!/usr/bin/env python3
"""
T-alg translator for C06: the closed-form algebra that pyiga/vform.py spells out
symbolically is re-extracted on every run and re-proved in Lean.

How the terms are obtained.  Nothing is parsed: the translator *runs the library's
own symbolic code* (`vform.det`, `inv`, `minor`, `cross`, `dot`, `outer`, `tr`, `.T`,
`inner`, `TensorOperExpr.at`, `Dx`/`_dx_impl`, `VForm.replace_physical_derivs`) on
matrices / vectors / fields of *atoms* (`vf.parameter`, `vf.input`, `vf.basisfuns`)
and walks the resulting expression tree, which consists only of

    ScalarOperExpr(+ - * /) | NegExpr | ConstExpr | VarRefExpr | PartialDerivExpr

(any other node is a `TranslateError`, never skipped silently).  The tree becomes a
Lean term over one variable per atom; the *other* side of every emitted identity is
written by the translator independently of vform.py (Leibniz sums, explicit sums over
k, Kronecker delta, `d (f * g)` for an abstract derivation `d`, ...).

Division-free formulation: every `N / D` node of a library term is replaced by a fresh
variable `q` with hypothesis `q * D = N` (for `inv`: `invdet`, `h : invdet * det = 1`);
the quotient rule is stated as `q * g = f  ->  d q * Dn = N` for the library's
top-level `N / Dn`.

API (used by /verif/harness/c06.py; `pyiga` must already resolve to the tree under test):
    generate()      -> (lean_source_text, [fully qualified theorem names], [identity dicts])
    write(path)     -> (changed, theorem_names)      writes only when the text changed
    numeric_check(rng_seed=0, trials=20) -> [failure dicts]   (model-free, exact Fractions)
    python -m translator.c06_algebra   (from /verif) regenerates the file
"""
import itertools
import os
import random
import sys
from fractions import Fraction

LEAN_PATH = '/verif/lean/Pyiga/Gen/Algebra.lean'
NAMESPACE = 'Pyiga.Gen.Algebra'


class TranslateError(Exception):
    pass


# --------------------------------------------------------------------------------------
# intermediate representation
#
#   ('atom', key) | ('const', int) | ('add'|'sub'|'mul'|'div', a, b) | ('neg', a)
#   ('lib', expr, expand)      a *library* expression tree (lowered by to_ir / evaluated
#                              directly by eval_expr)
#   ('d', ir, k)               abstract derivation d applied to ir (direction k)
#
# atom keys:
#   ('v', var.name, I, D, parametric)   VarRefExpr
#   ('b', basisfun.name, D, physical)   PartialDerivExpr
#   ('s', name, idx...)                 atom introduced by the translator (spec side)
#   ('q', n)                            quotient variable introduced by elim_div
# --------------------------------------------------------------------------------------

def A(key):       return ('atom', key)
def C(n):         return ('const', int(n))
def add(a, b):    return ('add', a, b)
def sub(a, b):    return ('sub', a, b)
def mul(a, b):    return ('mul', a, b)
def neg(a):       return ('neg', a)
def L(e, expand=False): return ('lib', e, bool(expand))
def Dd(ir, k):    return ('d', ir, k)


def sum_ir(terms):
    terms = list(terms)
    if not terms:
        return C(0)
    r = terms[0]
    for t in terms[1:]:
        r = add(r, t)
    return r


def _vform():
    from pyiga import vform
    return vform


def atom_key(e):
    V = _vform()
    if isinstance(e, V.VarRefExpr):
        return ('v', str(e.var.name), tuple(int(i) for i in e.I),
                tuple(int(k) for k in e.D), bool(e.parametric))
    if isinstance(e, V.PartialDerivExpr):
        comp = e.basisfun.component
        name = str(e.basisfun.name) + ('' if comp is None else '_%d' % comp)
        return ('b', name, tuple(int(k) for k in e.D), bool(e.physical))
    raise TranslateError('not an atom: %s' % type(e).__name__)


def _is_expr_var(e):
    """VarRefExpr of a variable that is defined by an expression (e.g. JacInv, Jac)"""
    return getattr(e.var, 'expr', None) is not None and sum(e.D) == 0


def to_ir(e, expand=False):
    """library expression tree -> IR.  Anything unknown is an error."""
    V = _vform()
    if isinstance(e, V.ConstExpr):
        v = e.value
        if v != v or v in (float('inf'), float('-inf')) or v != int(v) or abs(v) > 10 ** 6:
            raise TranslateError('constant %r is not a small integer' % (v,))
        return C(int(v))
    if isinstance(e, V.VarRefExpr):
        if expand and _is_expr_var(e):
            return to_ir(e.get_underlying_expr(), expand)
        return A(atom_key(e))
    if isinstance(e, V.PartialDerivExpr):
        return A(atom_key(e))
    if isinstance(e, V.NegExpr):
        return neg(to_ir(e.x, expand))
    if isinstance(e, V.ScalarOperExpr):
        op = {'+': 'add', '-': 'sub', '*': 'mul', '/': 'div'}.get(e.oper)
        if op is None:
            raise TranslateError('unknown scalar operation %r' % (e.oper,))
        if len(e.children) != 2:
            raise TranslateError('scalar operation with %d children' % len(e.children))
        return (op, to_ir(e.x, expand), to_ir(e.y, expand))
    raise TranslateError('unsupported node %s in scalar term' % type(e).__name__)


def lower(ir):
    """replace ('lib', e) leaves by their IR"""
    t = ir[0]
    if t in ('atom', 'const'):
        return ir
    if t == 'lib':
        return to_ir(ir[1], ir[2])
    if t == 'neg':
        return ('neg', lower(ir[1]))
    if t == 'd':
        return ('d', lower(ir[1]), ir[2])
    return (t, lower(ir[1]), lower(ir[2]))


def has_div(ir):
    t = ir[0]
    if t in ('atom', 'const'):
        return False
    if t == 'div':
        return True
    if t in ('neg', 'd'):
        return has_div(ir[1])
    return has_div(ir[1]) or has_div(ir[2])


def elim_div(ir, table):
    """replace every N / D node by a quotient atom; `table` collects (N, D) (shared, structural)"""
    t = ir[0]
    if t in ('atom', 'const'):
        return ir
    if t == 'neg':
        return ('neg', elim_div(ir[1], table))
    if t == 'd':
        return ('d', elim_div(ir[1], table), ir[2])
    a = elim_div(ir[1], table)
    b = elim_div(ir[2], table)
    if t == 'div':
        if (a, b) not in table:
            table.append((a, b))
        return A(('q', table.index((a, b))))
    return (t, a, b)


def atoms_of(ir, out=None):
    """atom keys in order of first occurrence (lowered IR)"""
    if out is None:
        out = []
    t = ir[0]
    if t == 'atom':
        if ir[1] not in out:
            out.append(ir[1])
    elif t == 'const':
        pass
    elif t in ('neg', 'd'):
        atoms_of(ir[1], out)
    else:
        atoms_of(ir[1], out)
        atoms_of(ir[2], out)
    return out


def dkey(key, k):
    """the atom the library uses for the parametric derivative in direction k of atom `key`"""
    if key[0] == 'v':
        D = list(key[3]); D[k] += 1
        return ('v', key[1], key[2], tuple(D), True)
    if key[0] == 'b':
        D = list(key[2]); D[k] += 1
        return ('b', key[1], tuple(D), False)
    raise TranslateError('no derivative atom for %r' % (key,))


# --------------------------------------------------------------------------------------
# Lean output
# --------------------------------------------------------------------------------------

def _base_name(key):
    if key[0] == 'v':
        nm = key[1]
        if nm.endswith('_a'):
            nm = nm[:-2]
        return nm.lower().replace('_', '') + ''.join(str(i) for i in key[2])
    if key[0] == 'b':
        return key[1].lower()
    if key[0] == 's':
        return str(key[1]) + ''.join(str(i) for i in key[2:])
    raise TranslateError('cannot name atom %r' % (key,))


def namer_plain(key):
    """atoms without derivatives -> (term, binder)"""
    if key[0] == 'q':
        return ('q%d' % key[1], 'q%d' % key[1])
    if key[0] == 'v' and sum(key[3]) != 0:
        raise TranslateError('unexpected derivative atom %r' % (key,))
    if key[0] == 'b' and sum(key[2]) != 0:
        raise TranslateError('unexpected derivative atom %r' % (key,))
    n = _base_name(key)
    return (n, n)


def namer_dx(k, dim):
    """first derivative in direction k of atom f  ->  `(d f)`"""
    ek = tuple(1 if i == k else 0 for i in range(dim))

    def nm(key):
        if key[0] == 'v' and sum(key[3]) != 0:
            if key[3] == ek and key[4]:
                b = _base_name(key)
                return ('(d %s)' % b, b)
            raise TranslateError('unexpected derivative atom %r (expected parametric D=%r)' % (key, ek))
        return namer_plain(key)
    return nm


def namer_chain(dim):
    """geo[i]_{e_j}(para) -> jij ; u_{e_i}(para) -> gpi ; spec atoms"""
    def nm(key):
        if key[0] == 'v' and key[1] in ('geo_a', 'geo') and sum(key[3]) == 1 and key[4] and len(key[2]) == 1:
            n = 'j%d%d' % (key[2][0], key[3].index(1))
            return (n, n)
        if key[0] == 'b' and sum(key[2]) == 1 and not key[3]:
            n = 'gp%d' % key[2].index(1)
            return (n, n)
        return namer_plain(key)
    return nm


def lean_of(ir, namer):
    t = ir[0]
    if t == 'atom':
        return namer(ir[1])[0]
    if t == 'const':
        return '(%d : R)' % ir[1]
    if t == 'neg':
        return '(-%s)' % lean_of(ir[1], namer)
    if t == 'd':
        s = lean_of(ir[1], namer)
        if not s.startswith('('):
            s = '(' + s + ')' if ' ' in s else s
        return '(d %s)' % s
    if t == 'div':
        raise TranslateError('division left in a term that must be division-free')
    if t == 'lib':
        raise TranslateError('internal: term not lowered')
    op = {'add': '+', 'sub': '-', 'mul': '*'}[t]
    return '(%s %s %s)' % (lean_of(ir[1], namer), op, lean_of(ir[2], namer))


def binders_of(irs, namer):
    names = []
    for ir in irs:
        for key in atoms_of(ir):
            b = namer(key)[1]
            if b not in names:
                names.append(b)
    return sorted(names)


def _strip(s):
    """drop one pair of outer parentheses for readability"""
    if s.startswith('(') and s.endswith(')'):
        if s.endswith(': R)') and s.count('(') == 1:
            return s            # a numeral `(c : R)`
        depth = 0
        for i, ch in enumerate(s):
            if ch == '(':
                depth += 1
            elif ch == ')':
                depth -= 1
                if depth == 0 and i != len(s) - 1:
                    return s
        return s[1:-1]
    return s


DHYPS = ('(d : R → R) (hadd : ∀ a b, d (a + b) = d a + d b) '
         '(hsub : ∀ a b, d (a - b) = d a - d b) (hmul : ∀ a b, d (a * b) = d a * b + a * d b)')


def lean_theorem(name, doc, binders, hyps, lhs, rhs, proof, pre=''):
    bs = ''
    if pre:
        bs += ' ' + pre
    if binders:
        bs += ' (%s : R)' % ' '.join(binders)
    for h in hyps:
        bs += '\n    (%s)' % h
    return ('/-- %s -/\ntheorem %s {R : Type*} [CommRing R]%s :\n    %s =\n    %s := by\n  %s\n'
            % (doc, name, bs, lhs, rhs, proof))


# --------------------------------------------------------------------------------------
# exact evaluation (model-free: directly on the library's trees)
# --------------------------------------------------------------------------------------

class Dual:
    """first-order jet (value, derivative) over Fraction: the textbook rules"""
    __slots__ = ('v', 'dv')

    def __init__(self, v, dv=0):
        self.v = Fraction(v)
        self.dv = Fraction(dv)

    def __add__(self, o): return Dual(self.v + o.v, self.dv + o.dv)
    def __sub__(self, o): return Dual(self.v - o.v, self.dv - o.dv)
    def __mul__(self, o): return Dual(self.v * o.v, self.dv * o.v + self.v * o.dv)
    def __neg__(self):    return Dual(-self.v, -self.dv)

    def __truediv__(self, o):
        q = self.v / o.v
        return Dual(q, (self.dv - q * o.dv) / o.v)


def eval_expr(e, env, expand=False, lift=Fraction):
    """evaluate a library expression tree; env: atom key -> number"""
    V = _vform()
    if isinstance(e, V.ConstExpr):
        return lift(Fraction(e.value))
    if isinstance(e, V.VarRefExpr):
        key = atom_key(e)
        if key in env:
            return env[key]
        if expand and _is_expr_var(e):
            return eval_expr(e.get_underlying_expr(), env, expand, lift)
        raise TranslateError('no value for atom %s' % (e,))
    if isinstance(e, V.PartialDerivExpr):
        key = atom_key(e)
        if key in env:
            return env[key]
        raise TranslateError('no value for atom %s' % (e,))
    if isinstance(e, V.NegExpr):
        return -eval_expr(e.x, env, expand, lift)
    if isinstance(e, V.ScalarOperExpr):
        a = eval_expr(e.x, env, expand, lift)
        b = eval_expr(e.y, env, expand, lift)
        if e.oper == '+': return a + b
        if e.oper == '-': return a - b
        if e.oper == '*': return a * b
        if e.oper == '/': return a / b
        raise TranslateError('unknown scalar operation %r' % (e.oper,))
    raise TranslateError('unsupported node %s in scalar term' % type(e).__name__)


def eval_ir(ir, env, lift=Fraction):
    t = ir[0]
    if t == 'atom':
        return env[ir[1]]
    if t == 'const':
        return lift(Fraction(ir[1]))
    if t == 'lib':
        return eval_expr(ir[1], env, ir[2], lift)
    if t == 'neg':
        return -eval_ir(ir[1], env, lift)
    if t == 'd':
        k = ir[2]
        denv = {}
        for key in atoms_of(lower(ir[1])):
            denv[key] = Dual(env[key], env[dkey(key, k)])
        return eval_ir(ir[1], denv, lift=Dual).dv
    a = eval_ir(ir[1], env, lift)
    b = eval_ir(ir[2], env, lift)
    if t == 'add': return a + b
    if t == 'sub': return a - b
    if t == 'mul': return a * b
    if t == 'div': return a / b
    raise TranslateError('bad IR node %r' % (t,))


def all_atoms(ir):
    """atoms needed to evaluate ir (including derivative atoms for 'd' nodes)"""
    out = []

    def rec(x):
        t = x[0]
        if t == 'atom':
            if x[1] not in out:
                out.append(x[1])
        elif t == 'const':
            pass
        elif t == 'neg':
            rec(x[1])
        elif t == 'd':
            for key in atoms_of(x[1]):
                for kk in (key, dkey(key, x[2])):
                    if kk not in out:
                        out.append(kk)
        else:
            rec(x[1]); rec(x[2])
    rec(lower(ir))
    return out


def _rand_frac(rng):
    n = rng.choice([-7, -5, -4, -3, -2, -1, 1, 2, 3, 4, 5, 7])
    return Fraction(n, rng.choice([1, 1, 2, 3]))


def _fs(x):
    x = Fraction(x)
    return '%d/%d' % (x.numerator, x.denominator)


def _key_str(key):
    if key[0] == 'v':
        s = key[1] + ('[%s]' % ','.join(str(i) for i in key[2]) if key[2] else '')
        if sum(key[3]):
            s += '_' + ''.join(str(k) for k in key[3]) + ('(para)' if key[4] else '(phys)')
        return s
    if key[0] == 'b':
        s = key[1]
        if sum(key[2]):
            s += '_' + ''.join(str(k) for k in key[2]) + ('(phys)' if key[3] else '(para)')
        return s
    return _base_name(key)


# --------------------------------------------------------------------------------------
# translator-side (independent) definitions
# --------------------------------------------------------------------------------------

def perm_sign(p):
    s = 1
    for i in range(len(p)):
        for j in range(i + 1, len(p)):
            if p[i] > p[j]:
                s = -s
    return s


def leibniz(M):
    """Leibniz determinant of a square matrix of IR terms: signed sum over permutations"""
    n = len(M)
    if n == 0:
        return C(1)
    r = None
    for p in itertools.permutations(range(n)):
        t = M[0][p[0]]
        for i in range(1, n):
            t = mul(t, M[i][p[i]])
        if r is None:
            r = t if perm_sign(p) > 0 else neg(t)
        else:
            r = add(r, t) if perm_sign(p) > 0 else sub(r, t)
    return r


def gauss_det(M):
    """determinant of a Fraction matrix by elimination (used as a second, independent oracle)"""
    M = [list(map(Fraction, r)) for r in M]
    n = len(M)
    det = Fraction(1)
    for c in range(n):
        p = next((r for r in range(c, n) if M[r][c] != 0), None)
        if p is None:
            return Fraction(0)
        if p != c:
            M[c], M[p] = M[p], M[c]
            det = -det
        det *= M[c][c]
        for r in range(c + 1, n):
            f = M[r][c] / M[c][c]
            for cc in range(c, n):
                M[r][cc] -= f * M[c][cc]
    return det


# --------------------------------------------------------------------------------------
# identities
# --------------------------------------------------------------------------------------

class Ident:
    def __init__(self, name, kind, params):
        self.name = name
        self.kind = kind
        self.params = params
        self.error = None
        self.lean = None          # full theorem text
        self.lhs_s = self.rhs_s = None
        self.lib = None           # str of the library tree(s)
        self.num = None           # (lhs_ir, rhs_ir) or callable(rng) -> failure dict | None
        self.atom_names = {}      # key -> Lean name

    def as_dict(self):
        return {
            'name': self.name,
            'theorem': NAMESPACE + '.' + self.name,
            'kind': self.kind,
            'params': self.params,
            'emitted': self.lean is not None,
            'error': self.error,
            'lhs': self.lhs_s,
            'rhs': self.rhs_s,
            'library_term': self.lib,
        }


class _Builder:
    def __init__(self):
        self.V = _vform()
        self.idents = []
        self.extra = []     # non-theorem Lean text (examples)

    # ---- plumbing -----------------------------------------------------------------
    def item(self, name, kind, params, thunk):
        it = Ident(name, kind, params)
        try:
            thunk(it)
        except Exception as ex:          # the library under test may raise anything
            it.lean = None
            it.num = None
            it.error = '%s: %s' % (type(ex).__name__, ex)
        self.idents.append(it)

    def params(self, dim, *specs):
        """fresh VForm with parameters; returns library objects and translator-side atom arrays"""
        vf = self.V.VForm(dim)
        Z = (0,) * dim
        out = []
        for name, shape in specs:
            E = vf.parameter(name, shape=shape)
            if len(shape) == 1:
                K = [A(('v', name, (i,), Z, False)) for i in range(shape[0])]
            else:
                K = [[A(('v', name, (i, j), Z, False)) for j in range(shape[1])]
                     for i in range(shape[0])]
            out.append((E, K))
        return vf, out

    def simple(self, it, lhs, rhs, doc, proof='ring', namer=namer_plain, hyps=(), pre='', libs=()):
        """identity  lhs = rhs  (IR on both sides), division-free"""
        ll, rl = lower(lhs), lower(rhs)
        if has_div(ll) or has_div(rl):
            raise TranslateError('unexpected division in a division-free identity')
        it.lhs_s, it.rhs_s = _strip(lean_of(ll, namer)), _strip(lean_of(rl, namer))
        it.lib = '; '.join(str(e) for e in libs) if libs else None
        it.lean = lean_theorem(it.name, doc, binders_of([ll, rl], namer), list(hyps),
                               it.lhs_s, it.rhs_s, proof, pre)
        it.num = (lhs, rhs)

    # ---- families -----------------------------------------------------------------
    def build(self):
        V = self.V
        sq = [1, 2, 3]

        # indexing of literal matrices / vectors and transpose
        for shape in [(1, 1), (2, 2), (3, 3), (2, 3)]:
            m, n = shape
            for i in range(n):
                for j in range(m):
                    def th(it, i=i, j=j, shape=shape):
                        vf, ((Am, a),) = self.params(3, ('A', shape))
                        e = Am.T[i, j]
                        self.simple(it, L(e), a[j][i],
                                    'entry (%d,%d) of `A.T` for a %dx%d matrix of atoms is `A[%d,%d]`'
                                    % (i, j, shape[0], shape[1], j, i), libs=[e])
                    self.item('transpose_%dx%d_%d_%d' % (m, n, i, j), 'transpose',
                              {'shape': list(shape), 'i': i, 'j': j}, th)

        # determinant
        for n in sq:
            def th(it, n=n):
                vf, ((Am, a),) = self.params(3, ('A', (n, n)))
                e = V.det(Am)
                self.simple(it, L(e), leibniz(a),
                            '`vform.det` of a %dx%d matrix of atoms is the Leibniz expansion' % (n, n),
                            libs=[e])
            self.item('det_%d' % n, 'det', {'n': n}, th)

            def thm(it, n=n):
                vf, ((Am, a),) = self.params(3, ('A', (n, n)))
                e = V.det(Am)
                ll = lower(L(e))
                if has_div(ll):
                    raise TranslateError('unexpected division in det')
                rows = '; '.join(', '.join(namer_plain(a[i][j][1])[0] for j in range(n)) for i in range(n))
                it.lhs_s = 'Matrix.det !![%s]' % rows
                it.rhs_s = _strip(lean_of(ll, namer_plain))
                it.lib = str(e)
                proof = {1: 'rw [Matrix.det_fin_one_of]',
                         2: 'rw [Matrix.det_fin_two_of]; ring',
                         3: ('rw [Matrix.det_fin_three]\n  simp only [Matrix.of_apply, Matrix.cons_val\', '
                             'Matrix.cons_val_zero, Matrix.cons_val_one, Matrix.cons_val]\n  ring')}[n]
                names = sorted(set(binders_of([ll], namer_plain)) |
                               set(namer_plain(a[i][j][1])[1] for i in range(n) for j in range(n)))
                it.lean = lean_theorem(it.name,
                                       'Mathlib\'s `Matrix.det` of the %dx%d matrix of atoms equals the term '
                                       '`vform.det` builds' % (n, n),
                                       names, [], it.lhs_s, it.rhs_s, proof)

                def num(rng, e=e, a=a, n=n):
                    env = {a[i][j][1]: _rand_frac(rng) for i in range(n) for j in range(n)}
                    obs = eval_expr(e, env)
                    exp = gauss_det([[env[a[i][j][1]] for j in range(n)] for i in range(n)])
                    return None if obs == exp else (env, exp, obs)
                it.num = num
            self.item('det_%d_mathlib' % n, 'det', {'n': n}, thm)

        # minors
        for n in [2, 3]:
            for i in range(n):
                for j in range(n):
                    def th(it, n=n, i=i, j=j):
                        vf, ((Am, a),) = self.params(3, ('A', (n, n)))
                        e = V.minor(Am, i, j)
                        S = [[a[r][c] for c in range(n) if c != j] for r in range(n) if r != i]
                        self.simple(it, L(e), leibniz(S),
                                    '`vform.minor(A,%d,%d)` (%dx%d) is the determinant of `A` without row %d '
                                    'and column %d' % (i, j, n, n, i, j), libs=[e])
                    self.item('minor_%d_%d_%d' % (n, i, j), 'minor', {'n': n, 'i': i, 'j': j}, th)

        # inverse: two-sided, division-free
        for n in sq:
            for side in ('left', 'right'):
                for i in range(n):
                    for j in range(n):
                        def th(it, n=n, side=side, i=i, j=j):
                            vf, ((Am, a),) = self.params(3, ('A', (n, n)))
                            Y = V.inv(Am)
                            if side == 'left':
                                ents = [Y[i, k] for k in range(n)]
                                lhs = sum_ir(mul(L(ents[k]), a[k][j]) for k in range(n))
                            else:
                                ents = [Y[k, j] for k in range(n)]
                                lhs = sum_ir(mul(a[i][k], L(ents[k])) for k in range(n))
                            rhs = C(1 if i == j else 0)
                            table = []
                            ll = elim_div(lower(lhs), table)
                            hyps, qn = [], {}
                            if len(table) == 1 and table[0][0] == C(1):
                                qn[('q', 0)] = 'invdet'
                                hn = ['h']
                            else:
                                for t in range(len(table)):
                                    qn[('q', t)] = 'q%d' % t
                                hn = ['h%d' % t for t in range(len(table))]

                            def nm(key):
                                if key[0] == 'q':
                                    return (qn[key], qn[key])
                                return namer_plain(key)
                            for t, (N, D) in enumerate(table):
                                hyps.append('%s : %s * %s = %s' % (hn[t], qn[('q', t)],
                                                                   lean_of(D, nm), lean_of(N, nm)))
                            it.lhs_s = _strip(lean_of(ll, nm))
                            it.rhs_s = lean_of(rhs, nm)
                            it.lib = '; '.join(str(e) for e in ents)
                            proof = ('linear_combination %s' % hn[0]) if (i == j and hn) else 'ring'
                            it.lean = lean_theorem(
                                it.name,
                                'entry (%d,%d) of `%s` for the %dx%d `vform.inv`, given `invdet * det A = 1` '
                                '(`invdet` stands for the library\'s `1 / det(A)`)'
                                % (i, j, 'inv(A) * A' if side == 'left' else 'A * inv(A)', n, n),
                                binders_of([ll] + [D for (_, D) in table] + [N for (N, _) in table], nm),
                                hyps, it.lhs_s, it.rhs_s, proof)
                            it.num = (lhs, rhs)
                        self.item('inv_%s_%d_%d_%d' % (side, n, i, j), 'inv',
                                  {'n': n, 'side': side, 'i': i, 'j': j}, th)

        # cross product
        for i in range(3):
            def th(it, i=i):
                vf, ((xv, x), (yv, y)) = self.params(3, ('x', (3,)), ('y', (3,)))
                e = V.cross(xv, yv)[i]
                p, q = (i + 1) % 3, (i + 2) % 3
                self.simple(it, L(e), sub(mul(x[p], y[q]), mul(x[q], y[p])),
                            'component %d of `vform.cross(x,y)` is `x%d*y%d - x%d*y%d`' % (i, p, q, q, p),
                            libs=[e])
            self.item('cross_%d' % i, 'cross', {'i': i}, th)
        for which in ('x', 'y'):
            def th(it, which=which):
                vf, ((xv, x), (yv, y)) = self.params(3, ('x', (3,)), ('y', (3,)))
                ents = [V.cross(xv, yv)[i] for i in range(3)]
                w = x if which == 'x' else y
                self.simple(it, sum_ir(mul(w[i], L(ents[i])) for i in range(3)), C(0),
                            '`%s . cross(x,y) = 0` for the library\'s entries of the cross product' % which,
                            libs=ents)
            self.item('cross_orth_%s' % which, 'cross', {'which': which}, th)

        def th(it):
            vf, ((xv, x), (yv, y), (zv, z)) = self.params(3, ('x', (3,)), ('y', (3,)), ('z', (3,)))
            ents = [V.cross(xv, yv)[i] for i in range(3)]
            self.simple(it, sum_ir(mul(z[i], L(ents[i])) for i in range(3)),
                        leibniz([z, x, y]),
                        '`z . cross(x,y)` is the determinant with rows z, x, y (triple product)', libs=ents)
        self.item('cross_triple', 'cross', {}, th)

        # matrix-vector, matrix-matrix, outer
        for (m, n) in [(1, 1), (2, 2), (3, 3), (2, 3), (3, 2)]:
            for i in range(m):
                def th(it, m=m, n=n, i=i):
                    vf, ((Am, a), (xv, x)) = self.params(3, ('A', (m, n)), ('x', (n,)))
                    e = V.dot(Am, xv)[i]
                    self.simple(it, L(e), sum_ir(mul(a[i][k], x[k]) for k in range(n)),
                                'component %d of `dot(A,x)` (%dx%d times %d) is the row sum' % (i, m, n, n),
                                libs=[e])
                self.item('matvec_%dx%d_%d' % (m, n, i), 'matvec', {'shape': [m, n], 'i': i}, th)
        for (m, k_, n) in [(1, 1, 1), (2, 2, 2), (3, 3, 3), (2, 3, 2), (3, 2, 3), (1, 3, 2)]:
            for i in range(m):
                for j in range(n):
                    def th(it, m=m, k_=k_, n=n, i=i, j=j):
                        vf, ((Am, a), (Bm, b)) = self.params(3, ('A', (m, k_)), ('B', (k_, n)))
                        e = V.dot(Am, Bm)[i, j]
                        self.simple(it, L(e), sum_ir(mul(a[i][k], b[k][j]) for k in range(k_)),
                                    'entry (%d,%d) of `dot(A,B)` (%dx%d times %dx%d) is the sum over k'
                                    % (i, j, m, k_, k_, n), libs=[e])
                    self.item('matmat_%dx%dx%d_%d_%d' % (m, k_, n, i, j), 'matmat',
                              {'shape': [m, k_, n], 'i': i, 'j': j}, th)
        for (m, n) in [(1, 1), (2, 2), (3, 3), (2, 3), (3, 1)]:
            for i in range(m):
                for j in range(n):
                    def th(it, m=m, n=n, i=i, j=j):
                        vf, ((xv, x), (yv, y)) = self.params(3, ('x', (m,)), ('y', (n,)))
                        e = V.outer(xv, yv)[i, j]
                        self.simple(it, L(e), mul(x[i], y[j]),
                                    'entry (%d,%d) of `outer(x,y)` (%d, %d) is `x%d*y%d`' % (i, j, m, n, i, j),
                                    libs=[e])
                    self.item('outer_%dx%d_%d_%d' % (m, n, i, j), 'outer',
                              {'shape': [m, n], 'i': i, 'j': j}, th)

        # trace, inner products
        for n in sq:
            def th(it, n=n):
                vf, ((Am, a),) = self.params(3, ('A', (n, n)))
                e = V.tr(Am)
                self.simple(it, L(e), sum_ir(a[i][i] for i in range(n)),
                            '`tr(A)` (%dx%d) is the sum of the diagonal' % (n, n), libs=[e])
            self.item('tr_%d' % n, 'tr', {'n': n}, th)

            def th(it, n=n):
                vf, ((xv, x), (yv, y)) = self.params(3, ('x', (n,)), ('y', (n,)))
                e = V.inner(xv, yv)
                self.simple(it, L(e), sum_ir(mul(x[i], y[i]) for i in range(n)),
                            '`inner(x,y)` of %d-vectors' % n, libs=[e])
            self.item('inner_vec_%d' % n, 'inner', {'n': n}, th)

            def th(it, n=n):
                vf, ((xv, x), (yv, y)) = self.params(3, ('x', (n,)), ('y', (n,)))
                e = V.dot(xv, yv)
                self.simple(it, L(e), sum_ir(mul(x[i], y[i]) for i in range(n)),
                            '`dot(x,y)` of %d-vectors is the inner product' % n, libs=[e])
            self.item('dot_vec_%d' % n, 'inner', {'n': n}, th)
        for (m, n) in [(1, 1), (2, 2), (3, 3), (2, 3)]:
            def th(it, m=m, n=n):
                vf, ((Am, a), (Bm, b)) = self.params(3, ('A', (m, n)), ('B', (m, n)))
                e = V.inner(Am, Bm)
                self.simple(it, L(e), sum_ir(mul(a[i][j], b[i][j]) for i in range(m) for j in range(n)),
                            '`inner(A,B)` of %dx%d matrices is the Frobenius product' % (m, n), libs=[e])
            self.item('inner_mat_%dx%d' % (m, n), 'inner', {'shape': [m, n]}, th)

        # inner(A, B) = tr(A^T B) built from the library's own pieces (consistency of three routines)
        for n in [2, 3]:
            def th(it, n=n):
                vf, ((Am, a), (Bm, b)) = self.params(3, ('A', (n, n)), ('B', (n, n)))
                e1 = V.inner(Am, Bm)
                e2 = V.tr(V.dot(Am.T, Bm))
                self.simple(it, L(e1), L(e2), '`inner(A,B) = tr(dot(A.T, B))` (%dx%d), both sides library terms'
                            % (n, n), libs=[e1, e2])
            self.item('inner_tr_%d' % n, 'inner', {'n': n}, th)

        # elementwise tensor operations with broadcasting
        for (opn, ops, mk) in [('add', '+', add), ('sub', '-', sub), ('mul', '*', mul)]:
            for shape in [(2, 2), (2, 3)]:
                m, n = shape
                for i in range(m):
                    for j in range(n):
                        def th(it, ops=ops, mk=mk, shape=shape, i=i, j=j):
                            vf, ((Am, a), (Bm, b)) = self.params(3, ('A', shape), ('B', shape))
                            T = {'+': Am + Bm, '-': Am - Bm, '*': Am * Bm}[ops]
                            e = T[i, j]
                            self.simple(it, L(e), mk(a[i][j], b[i][j]),
                                        'entry (%d,%d) of the elementwise `A %s B` (%dx%d)'
                                        % (i, j, ops, shape[0], shape[1]), libs=[e])
                        self.item('tensor_%s_mat_%dx%d_%d_%d' % (opn, m, n, i, j), 'tensor',
                                  {'oper': ops, 'shape': list(shape), 'i': i, 'j': j}, th)
            for i in range(3):
                def th(it, ops=ops, mk=mk, i=i):
                    vf, ((xv, x), (yv, y)) = self.params(3, ('x', (3,)), ('y', (3,)))
                    T = {'+': xv + yv, '-': xv - yv, '*': xv * yv}[ops]
                    e = T[i]
                    self.simple(it, L(e), mk(x[i], y[i]),
                                'component %d of the elementwise `x %s y` (3-vectors)' % (i, ops), libs=[e])
                self.item('tensor_%s_vec_%d' % (opn, i), 'tensor', {'oper': ops, 'i': i}, th)
        for (tag, left) in [('lscal', True), ('rscal', False)]:
            for i in range(2):
                for j in range(3):
                    def th(it, left=left, i=i, j=j):
                        vf, ((Am, a),) = self.params(3, ('A', (2, 3)))
                        T = (2 * Am) if left else (Am * 2)
                        e = T[i, j]
                        rhs = mul(C(2), a[i][j]) if left else mul(a[i][j], C(2))
                        self.simple(it, L(e), rhs,
                                    'entry (%d,%d) of `%s` (scalar broadcast over a 2x3 matrix)'
                                    % (i, j, '2 * A' if left else 'A * 2'), libs=[e])
                    self.item('tensor_%s_mat_%d_%d' % (tag, i, j), 'tensor',
                              {'oper': '*', 'broadcast': tag, 'i': i, 'j': j}, th)
        for i in range(3):
            def th(it, i=i):
                vf, ((xv, x), (pv, p)) = self.params(3, ('x', (3,)), ('p', (1,)))
                s = pv[0]
                e = (s * xv - xv)[i]
                self.simple(it, L(e), sub(mul(p[0], x[i]), x[i]),
                            'component %d of `s*x - x` (scalar atom broadcast over a 3-vector)' % i, libs=[e])
            self.item('tensor_bcast_vec_%d' % i, 'tensor', {'i': i}, th)

        # differentiation rules
        self.build_dx()
        # chain rule (replace_physical_derivs, order 1)
        self.build_chain()

    # ---- Dx ---------------------------------------------------------------------------
    def build_dx(self):
        V = self.V
        dim = 3
        plain = [
            ('add',        lambda f, g, h: f + g),
            ('sub',        lambda f, g, h: f - g),
            ('mul',        lambda f, g, h: f * g),
            ('mul3',       lambda f, g, h: f * g * h),
            ('mul3r',      lambda f, g, h: f * (g * h)),
            ('add_mul',    lambda f, g, h: (f + g) * h),
            ('mul_add',    lambda f, g, h: f * g + h),
            ('sub_mul',    lambda f, g, h: (f - g) * (g - h)),
            ('sq',         lambda f, g, h: f * f),
            ('poly',       lambda f, g, h: f * f * g - g * h + f),
        ]
        quot = [
            ('quot',         lambda f, g, h: f,       lambda f, g, h: g),
            ('quot_mul_num', lambda f, g, h: f * g,   lambda f, g, h: h),
            ('quot_mul_den', lambda f, g, h: f,       lambda f, g, h: g * h),
            ('quot_add_num', lambda f, g, h: f + g,   lambda f, g, h: h),
            ('quot_sub_den', lambda f, g, h: f,       lambda f, g, h: g - h),
        ]
        for k in range(dim):
            kk = '' if k == 0 else '_k%d' % k
            if k == 1:
                continue        # directions 0 and 2 suffice (first and last axis)
            for (tag, fn) in plain:
                if k != 0 and tag not in ('add', 'sub', 'mul'):
                    continue

                def th(it, fn=fn, k=k):
                    vf = V.VForm(dim)
                    f, g, h = vf.input('f'), vf.input('g'), vf.input('h')
                    e = fn(f, g, h)
                    r = V.Dx(e, k, parametric=True)
                    nm = namer_dx(k, dim)
                    lhs, rhs = L(r), Dd(L(e), k)
                    ll, rl = lower(lhs), lower(rhs)
                    if has_div(ll) or has_div(rl):
                        raise TranslateError('unexpected division')
                    it.lhs_s, it.rhs_s = _strip(lean_of(ll, nm)), _strip(lean_of(rl, nm))
                    it.lib = 'Dx(%s, %d) = %s' % (e, k, r)
                    it.lean = lean_theorem(
                        it.name, 'the term `Dx(%s, %d, parametric=True)` returns, with derivative atoms read '
                        'as `d f`, is `d` of the argument for every additive Leibniz map `d`' % (e, k),
                        binders_of([ll, rl], nm), [], it.lhs_s, it.rhs_s,
                        'simp only [hadd, hsub, hmul] <;> ring', pre=DHYPS)
                    it.num = (lhs, rhs)
                self.item('dx_%s%s' % (tag, kk), 'dx', {'rule': tag, 'k': k}, th)

            for (tag, fnum, fden) in quot:
                if k != 0 and tag != 'quot':
                    continue

                def th(it, fnum=fnum, fden=fden, k=k):
                    vf = V.VForm(dim)
                    f, g, h = vf.input('f'), vf.input('g'), vf.input('h')
                    num, den = V.as_expr(fnum(f, g, h)), V.as_expr(fden(f, g, h))
                    e = num / den
                    r = V.Dx(e, k, parametric=True)
                    nm = namer_dx(k, dim)
                    rl = to_ir(r)
                    if rl[0] != 'div':
                        raise TranslateError('quotient rule: top-level node of Dx(%s) is not a division' % (e,))
                    N, Dn = rl[1], rl[2]
                    nl, dl = to_ir(num), to_ir(den)
                    if any(has_div(x) for x in (N, Dn, nl, dl)):
                        raise TranslateError('quotient rule: nested division')
                    ns, ds = lean_of(nl, nm), lean_of(dl, nm)
                    it.lhs_s = 'd q * %s' % lean_of(Dn, nm)
                    it.rhs_s = _strip(lean_of(N, nm))
                    it.lib = 'Dx(%s, %d) = %s' % (e, k, r)
                    bs = sorted(set(binders_of([N, Dn, nl, dl], nm)) | {'q'})
                    proof = ('have h1 := (congrArg d hq).symm.trans (hmul q %s)\n'
                             '  linear_combination (norm := skip) (-%s) * h1 - (d %s) * hq\n'
                             '  (try simp only [hadd, hsub, hmul]) <;> ring' % (ds, ds, ds))
                    it.lean = lean_theorem(
                        it.name, 'quotient rule, division-free: `Dx(%s, %d, parametric=True)` is `N / Dn`; if '
                        '`q * den = num` (q plays num/den) then `d q * Dn = N` for every additive Leibniz map `d`'
                        % (e, k),
                        bs, ['hq : q * %s = %s' % (ds, ns)], it.lhs_s, it.rhs_s, proof, pre=DHYPS)
                    it.num = (L(r), Dd(L(e), k))
                self.item('dx_%s%s' % (tag, kk), 'dx', {'rule': tag, 'k': k}, th)

        # constants and parameters
        def th(it):
            r = V.Dx(V.as_expr(3.0), 0, parametric=True)
            self.simple(it, L(r), C(0), '`Dx` of a constant is the zero constant', libs=[r])
        self.item('dx_const', 'dx', {'rule': 'const'}, th)

        def th(it):
            vf, ((pv, p),) = self.params(3, ('p', (2,)))
            r = V.Dx(pv[1], 0, parametric=True)
            self.simple(it, L(r), C(0), '`Dx` of a parameter atom is the zero constant', libs=[r])
        self.item('dx_param', 'dx', {'rule': 'param'}, th)

        def th(it):
            vf, ((Pm, p),) = self.params(3, ('P', (2, 2)))
            r = V.Dx(Pm[1, 0], 2, parametric=True)
            self.simple(it, L(r), C(0), '`Dx` of a matrix parameter atom is the zero constant', libs=[r])
        self.item('dx_param_mat', 'dx', {'rule': 'param'}, th)

        def th(it):
            vf = V.VForm(dim)
            f = vf.input('f')
            c = vf.parameter('c')
            ck = A(('v', 'c', (), (0,) * dim, False))
            fk = ('v', 'f_a', (), (0,) * dim, False)
            e = c * f
            r = V.Dx(e, 0, parametric=True)
            self.simple(it, L(r), mul(ck, A(dkey(fk, 0))),
                        '`Dx(c*f)` for a parameter `c` is `c * d f` (parameters are constants)',
                        proof='ring', namer=namer_dx(0, dim), pre='(d : R → R)', libs=[r])
        self.item('dx_param_mul', 'dx', {'rule': 'param_mul'}, th)

        def th(it):
            vf = V.VForm(dim)
            f = vf.input('f')
            fk = ('v', 'f_a', (), (0,) * dim, False)
            e = 3 * f - 2
            r = V.Dx(e, 0, parametric=True)
            self.simple(it, L(r), mul(C(3), A(dkey(fk, 0))),
                        '`Dx(3*f - 2)` is `3 * d f`',
                        proof='ring', namer=namer_dx(0, dim), pre='(d : R → R)', libs=[r])
        self.item('dx_const_lin', 'dx', {'rule': 'const_lin'}, th)

        self.extra.append(
            '/-- the hypotheses on `d` are satisfiable (cheapest witness: the zero map; every derivation\n'
            '`∂_k` of a commutative ring satisfies them, which is how `Pyiga.Props.C06` uses the rules). -/\n'
            'example : ∃ d : ℤ → ℤ, (∀ a b, d (a + b) = d a + d b) ∧ (∀ a b, d (a - b) = d a - d b) ∧\n'
            '    (∀ a b, d (a * b) = d a * b + a * d b) :=\n'
            '  ⟨fun _ => 0, fun _ _ => by ring, fun _ _ => by ring, fun _ _ => by ring⟩\n')

    # ---- chain rule ---------------------------------------------------------------------
    def build_chain(self):
        V = self.V
        for dim in (2, 3):
            for k in range(dim):
                def th(it, dim=dim, k=k):
                    vf = V.VForm(dim)
                    u, v = vf.basisfuns()
                    e = V.grad(u)[k]
                    r = vf.replace_physical_derivs(e)
                    if r is None:
                        raise TranslateError('replace_physical_derivs returned None for %s' % (e,))
                    nm0 = namer_chain(dim)
                    table = []
                    ll = elim_div(to_ir(r, expand=True), table)
                    if not (len(table) == 1 and table[0][0] == C(1)):
                        raise TranslateError('chain rule: expected exactly one division 1/det(Jac), found %d'
                                             % len(table))

                    def nm(key):
                        if key[0] == 'q':
                            return ('invdet', 'invdet')
                        return nm0(key)
                    Z = (0,) * dim

                    def e_(i):
                        return tuple(1 if t == i else 0 for t in range(dim))
                    J = [[A(('v', 'geo_a', (m,), e_(i), True)) for i in range(dim)] for m in range(dim)]
                    g = [A(('s', 'g', m)) for m in range(dim)]
                    gp = [A(('b', 'u', e_(i), False)) for i in range(dim)]
                    hyps = ['h : invdet * %s = %s' % (lean_of(table[0][1], nm), lean_of(table[0][0], nm))]
                    for i in range(dim):
                        hyps.append('hgp%d : %s = %s' % (
                            i, lean_of(gp[i], nm),
                            _strip(lean_of(sum_ir(mul(J[m][i], g[m]) for m in range(dim)), nm))))
                    it.lhs_s = _strip(lean_of(ll, nm))
                    it.rhs_s = lean_of(g[k], nm)
                    it.lib = 'replace_physical_derivs(%s) = %s  [JacInv, Jac expanded]' % (e, r)
                    bs = sorted(set(binders_of([ll, table[0][1]] + [x for row in J for x in row] + g + gp, nm)))
                    proof = ('subst %s\n  linear_combination %s * h'
                             % (' '.join('hgp%d' % i for i in range(dim)), lean_of(g[k], nm)))
                    it.lean = lean_theorem(
                        it.name,
                        'chain rule, order 1, dim %d, direction %d: the term `replace_physical_derivs` '
                        'substitutes for `%s` (JacInv = inv(Jac) and Jac expanded to atoms `jmi = d_i G_m`), '
                        'evaluated where the parametric gradient is `gp = J^T g`, is the physical derivative `g%d`'
                        % (dim, k, e, k),
                        bs, hyps, it.lhs_s, it.rhs_s, proof)

                    def num(rng, r=r, J=J, g=g, gp=gp, dim=dim, k=k):
                        env = {}
                        for m in range(dim):
                            for i in range(dim):
                                env[J[m][i][1]] = _rand_frac(rng)
                            env[g[m][1]] = _rand_frac(rng)
                        for i in range(dim):
                            env[gp[i][1]] = sum(env[J[m][i][1]] * env[g[m][1]] for m in range(dim))
                        obs = eval_expr(r, env, expand=True)
                        exp = env[g[k][1]]
                        return None if obs == exp else (env, exp, obs)
                    it.num = num
                self.item('chain_%d_%d' % (dim, k), 'chain', {'dim': dim, 'k': k}, th)


# --------------------------------------------------------------------------------------
# public API
# --------------------------------------------------------------------------------------

HEADER = '''/-
REGENERATED by /verif/translator/c06_algebra.py from pyiga/vform.py — do not edit.

T-alg obligations of C06, re-proved on every run.  Every left-hand side below is the term the
library's *own* symbolic code (`vform.det`, `inv`, `minor`, `cross`, `dot`, `outer`, `tr`, `.T`,
`inner`, `TensorOperExpr.at`, `Dx`, `VForm.replace_physical_derivs`) produced when run on
matrices / vectors / fields of atoms; every right-hand side is written by the translator
independently of vform.py.  Division-free: a library node `N / D` is a variable `q` with
hypothesis `q * D = N` (`invdet`, `h : invdet * det = 1` for `inv`).
-/
import Mathlib.Tactic.Ring
import Mathlib.Tactic.LinearCombination
import Mathlib.LinearAlgebra.Matrix.Determinant.Basic

set_option linter.unusedVariables false
set_option linter.unusedSimpArgs false
set_option linter.unusedTactic false
set_option linter.unreachableTactic false
set_option linter.unnecessarySeqFocus false

namespace Pyiga.Gen.Algebra

'''

FOOTER = 'end Pyiga.Gen.Algebra\n'


def _build():
    b = _Builder()
    b.build()
    names = [it.name for it in b.idents]
    if len(set(names)) != len(names):
        raise TranslateError('internal: duplicate theorem names')
    return b


def generate():
    """-> (lean source text, fully qualified theorem names, identities as JSON-able dicts)"""
    b = _build()
    parts = [HEADER]
    names = []
    errs = [it for it in b.idents if it.lean is None]
    if errs:
        parts.append('/-\nNOT EMITTED (the library raised, or returned a term of unexpected shape, while the\n'
                     'identity was being built; reported by the harness as failed obligations):\n')
        for it in errs:
            parts.append('  %s: %s\n' % (it.name, str(it.error).replace('-/', '- /')))
        parts.append('-/\n\n')
    for it in b.idents:
        if it.lean is not None:
            parts.append(it.lean)
            parts.append('\n')
            names.append(NAMESPACE + '.' + it.name)
    for x in b.extra:
        parts.append(x)
        parts.append('\n')
    parts.append(FOOTER)
    return ''.join(parts), names, [it.as_dict() for it in b.idents]


def write(path=LEAN_PATH):
    """regenerate; write only if the text changed.  -> (changed, theorem_names)"""
    text, names, _ = generate()
    old = None
    if os.path.exists(path):
        with open(path, 'r', encoding='utf-8') as f:
            old = f.read()
    if old == text:
        return False, names
    os.makedirs(os.path.dirname(path), exist_ok=True)
    tmp = path + '.tmp%d' % os.getpid()
    with open(tmp, 'w', encoding='utf-8') as f:
        f.write(text)
    os.replace(tmp, path)
    return True, names


def numeric_check(rng_seed=0, trials=20):
    """Model-free search.  Every identity is evaluated directly on the library's expression trees
    with exact Fractions at random non-zero rational atoms (a division by zero resamples); the
    expected value comes from the translator's independent definition (Leibniz / Gaussian
    elimination / explicit sums / Kronecker delta / first-order jets with the textbook rules).
    Returns the failing identities with the concrete atom values, expected and observed value.
    Identities that could not even be built are returned with an 'error' entry."""
    rng = random.Random(rng_seed)
    b = _build()
    fails = []
    for it in b.idents:
        base = {'name': it.name, 'theorem': NAMESPACE + '.' + it.name, 'kind': it.kind,
                'params': it.params, 'library_term': it.lib}
        if it.num is None:
            base.update({'error': it.error or 'identity not built', 'found_input': False})
            fails.append(base)
            continue
        try:
            bad = None
            done = 0
            attempts = 0
            while done < trials and attempts < 20 * trials and bad is None:
                attempts += 1
                try:
                    if callable(it.num):
                        res = it.num(rng)
                    else:
                        lhs, rhs = it.num
                        keys = []
                        for ir in (lhs, rhs):
                            for kx in all_atoms(ir):
                                if kx not in keys:
                                    keys.append(kx)
                        env = {kx: _rand_frac(rng) for kx in keys}
                        obs = eval_ir(lhs, env)
                        exp = eval_ir(rhs, env)
                        res = None if obs == exp else (env, exp, obs)
                except ZeroDivisionError:
                    continue
                done += 1
                if res is not None:
                    bad = res
            if bad is not None:
                env, exp, obs = bad
                base.update({'atoms': {_key_str(kx): _fs(vx) for kx, vx in env.items()},
                             'expected': _fs(exp), 'observed': _fs(obs), 'found_input': True,
                             'statement': '%s = %s' % (it.lhs_s, it.rhs_s)})
                fails.append(base)
            elif done == 0:
                base.update({'error': 'no admissible sample (division by zero in every attempt)',
                             'found_input': False})
                fails.append(base)
        except Exception as ex:
            base.update({'error': '%s: %s' % (type(ex).__name__, ex), 'found_input': False})
            fails.append(base)
    return fails


def main(argv=None):
    argv = sys.argv[1:] if argv is None else argv
    path = argv[0] if argv else LEAN_PATH
    changed, names = write(path)
    _, _, ids = generate()
    nerr = sum(1 for d in ids if not d['emitted'])
    print('%s: %d theorems%s (%s)' % (path, len(names),
                                     (', %d identities NOT emitted' % nerr) if nerr else '',
                                     'rewritten' if changed else 'unchanged'))
    return 0


if __name__ == '__main__':
    sys.exit(main())
