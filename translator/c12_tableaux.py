"""
T-tab: regenerate /verif/lean/Pyiga/Gen/Tableaux.lean from the *running* pyiga.

For each of the twelve exported time integrators the coefficient arrays are read from
the closure of the method object (what the method really uses), cross-checked against
the corresponding `coeffs_*()` function, and printed as the exact rationals of the
doubles.  The tolerances `*_eps` of the order conditions are derived, not tuned:

  u_T   = max( 10^-(decimal places) of every numeric literal with >= 8 significant
               digits in the source text of the tableau (an approximation of an
               irrational/long value, uncertain by one unit in its last place),
               2^-52 * max(1, max|entry|) )          (double rounding of computed entries)
  L_c   = sum over all entries e of |d(condition c)/d e|   (exact, forward-mode in Fractions)
  eps_c = 4 * u_T * L_c  rounded up to 3 significant digits

Literals with fewer than 8 significant digits (0.5, 0.28, 2.54, -0.049392, …) are read
as exact decimal fractions.  Nothing here looks at the residuals.

Usable as a module (`generate(path)` returns the data for the harness/oracle) and as a
script (`python c12_tableaux.py [out.lean]`).
"""
import ast
import inspect
import io
import math
import os
import re
import sys
import tokenize
from fractions import Fraction as Fr

DIRK = ['crank_nicolson', 'sdirk3', 'sdirk3_b', 'sdirk21', 'dirk34', 'esdirk23', 'esdirk34']
ROS = ['ros3p', 'ros3pw', 'rowdaind2', 'rodasp', 'rosi2p1']
# documented orders (DESIGN §6/C12; from the source comments / method names): main, embedded
ORDERS = {'crank_nicolson': (2, None), 'sdirk3': (3, None), 'sdirk3_b': (4, None), 'sdirk21': (2, 1),
          'dirk34': (3, 2), 'esdirk23': (2, 3), 'esdirk34': (3, 4), 'ros3p': (3, 2), 'ros3pw': (3, 2),
          'rowdaind2': (3, 2), 'rodasp': (4, 3), 'rosi2p1': (3, 2)}
COND_NAMES_RK = [['sum_b=1'], ['b.c=1/2'], ['b.c^2=1/3', 'b.A.c=1/6'],
                 ['b.c^3=1/4', 'b.(c*Ac)=1/8', 'b.A.c^2=1/12', 'b.A.A.c=1/24']]
COND_NAMES_ROS = [['sum_b=1'], ['b.beta=1/2-g'], ['b.alpha^2=1/3', 'b.beta.beta=1/6-g+g^2'],
                  ['b.alpha^3=1/4', 'b.(alpha*(A.beta))=1/8-g/3', 'b.beta.alpha^2=1/12-g/3',
                   'b.beta.beta.beta=1/24-g/2+3g^2/2-g^3']]


class Dual:
    """forward-mode derivative over Fractions"""
    __slots__ = ('v', 'd')

    def __init__(self, v, d=Fr(0)):
        self.v = v; self.d = d

    @staticmethod
    def lift(o):
        return o if isinstance(o, Dual) else Dual(Fr(o))

    def __add__(self, o):
        o = Dual.lift(o); return Dual(self.v + o.v, self.d + o.d)
    __radd__ = __add__

    def __sub__(self, o):
        o = Dual.lift(o); return Dual(self.v - o.v, self.d - o.d)

    def __rsub__(self, o):
        return Dual.lift(o) - self

    def __mul__(self, o):
        o = Dual.lift(o); return Dual(self.v * o.v, self.v * o.d + self.d * o.v)
    __rmul__ = __mul__

    def __truediv__(self, o):     # only division by exact constants is needed
        return Dual(self.v / Fr(o), self.d / Fr(o))


def _dot(u, v):
    acc = 0
    for a, b in zip(u, v):
        acc = acc + a * b
    return acc


def _matvec(A, v):
    return [_dot(r, v) for r in A]


def _had(u, v):
    return [a * b for a, b in zip(u, v)]


def _sum(l):
    acc = 0
    for a in l:
        acc = acc + a
    return acc


def rk_residuals(A, w):
    """mirror of Pyiga.ODE.rkResiduals"""
    c = [_sum(r) for r in A]
    c2 = _had(c, c)
    Ac = _matvec(A, c)
    return [[_sum(w) - 1],
            [_dot(w, c) - Fr(1, 2)],
            [_dot(w, c2) - Fr(1, 3), _dot(w, Ac) - Fr(1, 6)],
            [_dot(w, _had(c, c2)) - Fr(1, 4), _dot(w, _had(c, Ac)) - Fr(1, 8),
             _dot(w, _matvec(A, c2)) - Fr(1, 12), _dot(w, _matvec(A, Ac)) - Fr(1, 24)]]


def ros_residuals(A, G, w):
    """mirror of Pyiga.ODE.rosResiduals (Hairer-Wanner IV.7)"""
    s = len(w)
    g = G[0][0]
    B = [[(A[i][j] + G[i][j]) if j < i else 0 * g for j in range(s)] for i in range(s)]
    al = [_sum(r) for r in A]
    be = [_sum(r) for r in B]
    al2 = _had(al, al)
    Bbe = _matvec(B, be)
    return [[_sum(w) - 1],
            [_dot(w, be) - (Fr(1, 2) - g)],
            [_dot(w, al2) - Fr(1, 3), _dot(w, Bbe) - (Fr(1, 6) - g + g * g)],
            [_dot(w, _had(al, al2)) - Fr(1, 4), _dot(w, _had(al, _matvec(A, be))) - (Fr(1, 8) - g / 3),
             _dot(w, _matvec(B, al2)) - (Fr(1, 12) - g / 3),
             _dot(w, _matvec(B, Bbe)) - (Fr(1, 24) - g / 2 + Fr(3, 2) * g * g - g * g * g)]]


def _val(x):
    return x.v if isinstance(x, Dual) else Fr(x)


def sensitivities(kind, mats, w):
    """L_c = sum_e |d cond_c / d e| over all entries of the matrices and the weight vector"""
    def run(mats_, w_):
        return rk_residuals(mats_[0], w_) if kind == 'rk' else ros_residuals(mats_[0], mats_[1], w_)
    base = run(mats, w)
    L = [[Fr(0) for _ in grp] for grp in base]
    slots = [(m, i, j) for m in range(len(mats)) for i in range(len(mats[m])) for j in range(len(mats[m][i]))]
    slots += [('w', i, None) for i in range(len(w))]
    for (m, i, j) in slots:
        mats2 = [[[Dual(x) for x in r] for r in mm] for mm in mats]
        w2 = [Dual(x) for x in w]
        if m == 'w':
            w2[i] = Dual(w[i], Fr(1))
        else:
            mats2[m][i][j] = Dual(mats[m][i][j], Fr(1))
        res = run(mats2, w2)
        for k, grp in enumerate(res):
            for c, r in enumerate(grp):
                L[k][c] += abs(Dual.lift(r).d)
    return L


def literal_unit(text):
    """(significant digits, 10^-decimal places) of a float literal as written; None for integers"""
    t = text.lower().replace('_', '')
    if not re.fullmatch(r'[0-9]*\.?[0-9]*(e[+-]?[0-9]+)?', t) or ('.' not in t and 'e' not in t):
        return None
    mant, _, ex = t.partition('e')
    ex = int(ex) if ex else 0
    ip, _, fp = mant.partition('.')
    digits = (ip + fp).lstrip('0')
    sig = len(digits)
    decimals = len(fp) - ex
    return sig, Fr(1, 10 ** decimals) if decimals >= 0 else Fr(10 ** (-decimals))


def source_literals(src):
    out = []
    for tok in tokenize.generate_tokens(io.StringIO(src).readline):
        if tok.type == tokenize.NUMBER:
            lu = literal_unit(tok.string)
            if lu is not None:
                out.append((tok.string,) + lu)
    return out


def closure(f):
    return dict(zip(f.__code__.co_freevars, [c.cell_contents for c in (f.__closure__ or [])]))


def _fr_mat(a):
    import numpy as np
    a = np.asarray(a, dtype=float)
    if a.ndim == 1:
        return [Fr(float(x)) for x in a]
    return [[Fr(float(x)) for x in r] for r in a]


def tableau_source(solvers, name):
    """source text whose literals define the tableau `name`"""
    fn = getattr(solvers, 'coeffs_' + name, None)
    if fn is not None:
        return inspect.getsource(fn)
    # crank_nicolson: inline array in the module-level assignment
    src = inspect.getsource(solvers)
    tree = ast.parse(src)
    for node in tree.body:
        if isinstance(node, ast.Assign) and any(isinstance(t, ast.Name) and t.id == name for t in node.targets):
            return ast.get_source_segment(src, node)
    raise KeyError(name)


def read_tableaux():
    """returns list of dicts (one per exported method) with exact-rational arrays as the methods use them"""
    import numpy as np
    from pyiga import solvers
    out = []
    for name in DIRK + ROS:
        meth = getattr(solvers, name)
        cl = closure(meth)
        st = closure(cl['stepper'])
        ent = {'name': name, 'kind': 'rk' if name in DIRK else 'ros', 'notes': []}
        ent['err_order'] = cl.get('err_order')
        src = tableau_source(solvers, name)
        ent['literals'] = source_literals(src)
        if name in DIRK:
            Afull = np.asarray(st['A'], dtype=float)
            s = Afull.shape[1]
            if Afull.shape[0] not in (s + 1, s + 2):
                ent['notes'].append('unexpected tableau shape %s' % (Afull.shape,))
            ent['s'] = s
            ent['A'] = _fr_mat(Afull[:s])
            ent['b'] = _fr_mat(Afull[s])
            ent['bhat'] = _fr_mat(Afull[s + 1]) if Afull.shape[0] == s + 2 else None
            ent['raw'] = Afull
            if 'const_method' in cl:
                Ac = np.asarray(closure(closure(cl['const_method'])['stepper'])['A'], dtype=float)
                if not np.array_equal(Ac, Afull[:-1]):
                    ent['notes'].append('constant-step fallback uses a different array than the adaptive method')
            fn = getattr(solvers, 'coeffs_' + name, None)
            if fn is not None:
                r = fn()
                Af = np.asarray(r[0] if isinstance(r, tuple) else r, dtype=float)
                if not np.array_equal(Af, Afull):
                    ent['notes'].append('coeffs_%s() differs from the array captured by the method' % name)
                if isinstance(r, tuple) and r[1] != ent['err_order']:
                    ent['notes'].append('coeffs_%s() err_order differs from the method' % name)
        else:
            A = np.asarray(st['A'], dtype=float); G = np.asarray(st['Gamma'], dtype=float)
            b = np.asarray(st['b'], dtype=float); bh = st.get('b_hat')
            ent['s'] = A.shape[0]
            ent['A'] = _fr_mat(A); ent['G'] = _fr_mat(G); ent['b'] = _fr_mat(b)
            ent['bhat'] = _fr_mat(bh) if bh is not None else None
            ent['raw'] = (A, G, b, bh)
            r = getattr(solvers, 'coeffs_' + name)()
            for got, want, nm in zip(r[:4], (A, G, b, bh), ('A', 'Gamma', 'b', 'b_hat')):
                if not np.array_equal(np.asarray(got, dtype=float), np.asarray(want, dtype=float)):
                    ent['notes'].append('coeffs_%s() %s differs from the array captured by the method' % (name, nm))
            if r[4] != ent['err_order']:
                ent['notes'].append('coeffs_%s() err_order differs from the method' % name)
            cs = closure(closure(cl['const_method'])['stepper'])
            for nm, want in (('A', A), ('Gamma', G), ('b', b)):
                if not np.array_equal(np.asarray(cs[nm], dtype=float), want):
                    ent['notes'].append('constant-step fallback uses a different %s' % nm)
        # tolerance unit
        approx = [(t, sg, u) for (t, sg, u) in ent['literals'] if sg >= 8]
        mats = [ent['A']] + ([ent['G']] if ent['kind'] == 'ros' else [])
        mx = max([abs(x) for m in mats for r in m for x in r] + [abs(x) for x in ent['b']] +
                 [abs(x) for x in (ent['bhat'] or [])] + [Fr(1)])
        u_round = Fr(1, 2 ** 52) * mx
        ent['u_T'] = max([u for (_, _, u) in approx] + [u_round])
        ent['u_from'] = max(approx, key=lambda e: e[2])[0] if approx and max(u for (_, _, u) in approx) >= u_round else 'double rounding'
        for which in ('b', 'bhat'):
            w = ent[which]
            if w is None:
                ent['res_' + which] = ent['eps_' + which] = None
                continue
            res = rk_residuals(ent['A'], w) if ent['kind'] == 'rk' else ros_residuals(ent['A'], ent['G'], w)
            L = sensitivities(ent['kind'], mats, w)
            ent['res_' + which] = [[_val(r) for r in grp] for grp in res]
            ent['eps_' + which] = [[round_up(4 * ent['u_T'] * l) for l in grp] for grp in L]
        out.append(ent)
    return out


def round_up(x, sig=3):
    """smallest decimal with `sig` significant digits that is >= x (x > 0)"""
    if x <= 0:
        return Fr(0)
    e = math.floor(math.log10(float(x)))
    for ee in (e - 1, e, e + 1):    # guard against float log error
        scale = Fr(10) ** (ee - sig + 1)
        m = math.ceil(x / scale)
        if 10 ** (sig - 1) <= m <= 10 ** sig:
            return m * scale
    return x


def lean_rat(q):
    q = Fr(q)
    if q.denominator == 1:
        return '(%d : Rat)' % q.numerator if q.numerator >= 0 else '(%d : Rat)' % q.numerator
    return 'mkRat (%d) %d' % (q.numerator, q.denominator)


def lean_list(l):
    return '[' + ', '.join(lean_rat(x) for x in l) + ']'


def lean_mat(m):
    return '[' + ',\n      '.join(lean_list(r) for r in m) + ']'


def emit(tabs):
    o = ['/-', 'GENERATED by /verif/translator/c12_tableaux.py from the running pyiga.solvers on every',
         '`./check C12` run — do not edit.  Every number is the exact rational value of the',
         'double stored in the closure of the exported method.  `*_eps` / `*_epsHat`:',
         'tolerances for the order conditions of the main / embedded weights, grouped by order',
         '1..4 like `rkResiduals` / `rosResiduals`; derivation in the translator docstring.', '-/',
         'import Pyiga.Model.ODE', '', 'namespace Pyiga.Gen.Tableaux', 'open Pyiga.ODE', '']
    for t in tabs:
        n = t['name']
        o.append('/-- `%s`: u_T = %.3e (from %s) -/' % (n, float(t['u_T']), t['u_from']))
        if t['kind'] == 'rk':
            o.append('def %s : RKTab :=\n  { name := "%s", s := %d,\n    A := %s,\n    b := %s,\n    bhat := %s }' % (
                n, n, t['s'], lean_mat(t['A']), lean_list(t['b']),
                'none' if t['bhat'] is None else 'some ' + lean_list(t['bhat'])))
        else:
            o.append('def %s : RosTab :=\n  { name := "%s", s := %d,\n    A := %s,\n    G := %s,\n    b := %s,\n    bhat := %s }' % (
                n, n, t['s'], lean_mat(t['A']), lean_mat(t['G']), lean_list(t['b']),
                'none' if t['bhat'] is None else 'some ' + lean_list(t['bhat'])))
        o.append('def %s_eps : List (List Rat) :=\n  %s' % (n, lean_mat(t['eps_b'])))
        if t['bhat'] is not None:
            o.append('def %s_epsHat : List (List Rat) :=\n  %s' % (n, lean_mat(t['eps_bhat'])))
        o.append('')
    o.append('def allRK : List RKTab := [%s]' % ', '.join(t['name'] for t in tabs if t['kind'] == 'rk'))
    o.append('def allRos : List RosTab := [%s]' % ', '.join(t['name'] for t in tabs if t['kind'] == 'ros'))
    o.append('')
    o.append('end Pyiga.Gen.Tableaux')
    return '\n'.join(o) + '\n'


def generate(path):
    tabs = read_tableaux()
    text = emit(tabs)
    old = open(path).read() if os.path.exists(path) else None
    if old != text:          # keep the mtime (and lake's no-op build) when nothing changed
        os.makedirs(os.path.dirname(path), exist_ok=True)
        tmp = path + '.tmp%d' % os.getpid()
        with open(tmp, 'w') as fh:
            fh.write(text)
        os.replace(tmp, path)
    return tabs, old != text


if __name__ == '__main__':
    here = os.path.dirname(os.path.dirname(os.path.abspath(__file__)))
    repo = os.environ.get('VERIF_REPO')
    if repo:
        sys.path.insert(0, repo)
    out = sys.argv[1] if len(sys.argv) > 1 else os.path.join(here, 'lean', 'Pyiga', 'Gen', 'Tableaux.lean')
    tabs, changed = generate(out)
    for t in tabs:
        q, qh = ORDERS[t['name']]
        def worst(res, eps, qq):
            return max((abs(r) / e if e else (0 if r == 0 else float('inf'))) for k in range(qq) for r, e in zip(res[k], eps[k]))
        print('%-15s u_T=%.2e (%s) main q=%d worst |res|/eps=%.3g' % (t['name'], float(t['u_T']), t['u_from'], q,
              float(worst(t['res_b'], t['eps_b'], q))) +
              ('' if t['bhat'] is None else '  emb q=%d worst=%.3g' % (qh, float(worst(t['res_bhat'], t['eps_bhat'], qh)))),
              t['notes'] or '')
    print('written' if changed else 'unchanged', out)
