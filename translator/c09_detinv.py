#!/usr/bin/env python3
"""
T-alg translator for C09: closed-form 2x2 / 3x3 determinants and inverses.

Reads  <repo>/pyiga/assemble_tools_cy.pyx  and re-extracts, on every run, the
assignment lines of

    det_and_inv_2x2, inverses_2x2, det_and_inv_3x3, determinants_3x3, inverses_3x3
    and the inline 2x2 branch of `determinants`

(Python `ast` on the de-indented assignment statements of each function body; the
only non-Python lines of those bodies are `cdef` declarations, which are skipped).
The right-hand sides are evaluated *symbolically*: local names (a,b,c,d,det,invdet,
x00.., the views `x = X[i0,i1,i2,:,:]`, `y = Y[...]`) are substituted, so every
output component becomes a closed term in the matrix entries x00..x22.

Emits
  lean/Pyiga/Gen/DetInvDefs.lean   Mathlib-free defs (executed by drv_c09 in exact Rat)
  lean/Pyiga/Gen/DetInv.lean       theorems, re-proved on every run:
      *_det_eq        det = Leibniz/Laplace expansion              (any commutative ring)
      *_left_inv / *_right_inv   det != 0 -> Y*X = 1 = X*Y entrywise (any field)
      *_agree         the copies return the same terms
Anything the translator does not understand is an error (never skipped silently).
"""
import ast
import os
import re
import sys

FUNCS = ['det_and_inv_2x2', 'inverses_2x2', 'det_and_inv_3x3', 'determinants_3x3', 'inverses_3x3']


class TranslateError(Exception):
    pass


def _function_body(src, name):
    """lines of the body of `cdef ... name(...)` / `def name(...)`, continuation lines joined"""
    lines = src.split('\n')
    start = None
    for i, l in enumerate(lines):
        if re.match(r'^(cdef|cpdef|def)\b.*\b%s\s*\(' % re.escape(name), l):
            start = i
            break
    if start is None:
        raise TranslateError('function %s not found' % name)
    body = []
    for l in lines[start + 1:]:
        if l.strip() == '':
            body.append('')
            continue
        if not l.startswith((' ', '\t')):
            break
        body.append(l)
    # join backslash continuations
    out, cur = [], ''
    for l in body:
        if l.rstrip().endswith('\\'):
            cur += l.rstrip()[:-1] + ' '
        else:
            out.append(cur + l)
            cur = ''
    if cur:
        out.append(cur)
    return out


class Sym:
    """symbolic evaluation of the straight-line assignment code of one function"""

    def __init__(self, fname, d):
        self.fname = fname
        self.d = d
        self.env = {}          # local scalar name -> term (nested tuples)
        self.views = {}        # name -> 'X' | 'Y'
        self.out = {}          # ('Y', r, c) / ('det',) -> term
        self.views['X'] = 'X'
        self.views['Y'] = 'Y'

    # terms: ('x', r, c) | ('one',) | ('add'|'sub'|'mul'|'div', a, b) | ('neg', a)
    def expr(self, e):
        if isinstance(e, ast.BinOp):
            ops = {ast.Add: 'add', ast.Sub: 'sub', ast.Mult: 'mul', ast.Div: 'div'}
            if type(e.op) not in ops:
                raise TranslateError('%s: operator %s' % (self.fname, ast.dump(e.op)))
            return (ops[type(e.op)], self.expr(e.left), self.expr(e.right))
        if isinstance(e, ast.UnaryOp):
            if isinstance(e.op, ast.USub):
                return ('neg', self.expr(e.operand))
            if isinstance(e.op, ast.UAdd):
                return self.expr(e.operand)
            raise TranslateError('%s: unary operator' % self.fname)
        if isinstance(e, ast.Constant):
            if e.value == 1 or e.value == 1.0:
                return ('one',)
            raise TranslateError('%s: unexpected constant %r' % (self.fname, e.value))
        if isinstance(e, ast.Name):
            if e.id in self.env:
                return self.env[e.id]
            raise TranslateError('%s: unknown name %s' % (self.fname, e.id))
        if isinstance(e, ast.Subscript):
            base, r, c = self.subscript(e)
            if base == 'X':
                return ('x', r, c)
            if base == 'Y':
                if ('Y', r, c) not in self.out:
                    raise TranslateError('%s: read of unwritten output' % self.fname)
                return self.out[('Y', r, c)]
            raise TranslateError('%s: read of %s' % (self.fname, base))
        raise TranslateError('%s: expression %s' % (self.fname, ast.dump(e)))

    def subscript(self, e):
        """returns (base in X/Y/det_out, r, c) with the trailing two indices literal ints"""
        if not isinstance(e.value, ast.Name):
            raise TranslateError('%s: subscript base' % self.fname)
        nm = e.value.id
        idx = e.slice.elts if isinstance(e.slice, ast.Tuple) else [e.slice]
        if nm == 'det_out':
            return ('det_out', None, None)
        if nm not in self.views:
            raise TranslateError('%s: subscript of unknown array %s' % (self.fname, nm))
        last = idx[-2:]
        if len(last) != 2 or not all(isinstance(t, ast.Constant) and isinstance(t.value, int) for t in last):
            raise TranslateError('%s: entry index is not a literal pair' % self.fname)
        r, c = last[0].value, last[1].value
        if not (0 <= r < self.d and 0 <= c < self.d):
            raise TranslateError('%s: entry index out of range' % self.fname)
        # the leading indices must be the loop variables (plain names), in any number
        for t in idx[:-2]:
            if not isinstance(t, ast.Name):
                raise TranslateError('%s: leading index is not a loop variable' % self.fname)
        return (self.views[nm], r, c)

    def is_view(self, e):
        """x = X[i0, i1, i2, :, :]"""
        if isinstance(e, ast.Subscript) and isinstance(e.value, ast.Name) and e.value.id in ('X', 'Y'):
            idx = e.slice.elts if isinstance(e.slice, ast.Tuple) else [e.slice]
            if len(idx) >= 2 and all(isinstance(t, ast.Slice) and t.lower is None and t.upper is None for t in idx[-2:]):
                return e.value.id
        return None

    def assign(self, tgt, val):
        if isinstance(tgt, ast.Tuple):
            if not isinstance(val, ast.Tuple) or len(val.elts) != len(tgt.elts):
                raise TranslateError('%s: tuple assignment shape' % self.fname)
            vals = [self.expr(v) for v in val.elts]
            for t, v in zip(tgt.elts, vals):
                self.store(t, v)
            return
        v = self.is_view(val)
        if v is not None:
            if not isinstance(tgt, ast.Name):
                raise TranslateError('%s: view target' % self.fname)
            self.views[tgt.id] = v
            return
        self.store(tgt, self.expr(val))

    def store(self, tgt, term):
        if isinstance(tgt, ast.Name):
            self.env[tgt.id] = term
        elif isinstance(tgt, ast.Subscript):
            base, r, c = self.subscript(tgt)
            if base == 'det_out':
                self.out[('det',)] = term
            elif base == 'Y':
                self.out[('Y', r, c)] = term
            else:
                raise TranslateError('%s: write to %s' % (self.fname, base))
        else:
            raise TranslateError('%s: assignment target' % self.fname)


SKIP = re.compile(r'^\s*(cdef\b|return\b|for\b|#|"""|$)')
SHAPE = re.compile(r'^\s*[\w, ]+=\s*X\.shape')
ALLOC = re.compile(r'^\s*(cdef\s+.*)?\bY\s*=\s*np\.empty')


def translate_function(src, name):
    d = 2 if '2x2' in name else 3
    sym = Sym(name, d)
    for l in _function_body(src, name):
        if SKIP.match(l) or SHAPE.match(l) or ALLOC.match(l):
            continue
        stmt = l.strip()
        try:
            tree = ast.parse(stmt)
        except SyntaxError:
            raise TranslateError('%s: cannot parse line %r' % (name, stmt))
        if len(tree.body) != 1 or not isinstance(tree.body[0], ast.Assign) or len(tree.body[0].targets) != 1:
            raise TranslateError('%s: not a single assignment: %r' % (name, stmt))
        a = tree.body[0]
        sym.assign(a.targets[0], a.value)
    res = dict(sym.out)
    if name.startswith('determinants'):
        # result array is called Y there: a scalar per matrix, written as Y[i0,i1,i2]
        pass
    elif 'det' in sym.env and ('det',) not in res:
        res[('detlocal',)] = sym.env['det']
    return d, res


def translate_determinants_3x3(src):
    """determinants_3x3 writes the scalar Y[i0,i1,i2] = <expr in x[r,c]>"""
    name = 'determinants_3x3'
    sym = Sym(name, 3)
    det = None
    for l in _function_body(src, name):
        if SKIP.match(l) or SHAPE.match(l) or ALLOC.match(l):
            continue
        stmt = l.strip()
        tree = ast.parse(stmt)
        a = tree.body[0]
        if not isinstance(a, ast.Assign):
            raise TranslateError('%s: %r' % (name, stmt))
        t = a.targets[0]
        if isinstance(t, ast.Subscript) and isinstance(t.value, ast.Name) and t.value.id == 'Y':
            det = sym.expr(a.value)
        else:
            sym.assign(t, a.value)
    if det is None:
        raise TranslateError('determinants_3x3: no result assignment found')
    return det


def translate_determinants_2x2(src):
    """inline branch of `determinants`:  return X[:,:,0,0] * X[:,:,1,1] - X[:,:,0,1] * X[:,:,1,0]"""
    body = _function_body(src, 'determinants')
    cand = [l.strip() for l in body if l.strip().startswith('return') and 'X[:,:,' in l.replace(' ', '')]
    if len(cand) != 1:
        raise TranslateError('determinants: 2x2 return line not found uniquely')
    e = ast.parse(cand[0][len('return'):].strip(), mode='eval').body

    def ev(e):
        if isinstance(e, ast.BinOp):
            ops = {ast.Add: 'add', ast.Sub: 'sub', ast.Mult: 'mul'}
            if type(e.op) not in ops:
                raise TranslateError('determinants: operator')
            return (ops[type(e.op)], ev(e.left), ev(e.right))
        if isinstance(e, ast.UnaryOp) and isinstance(e.op, ast.USub):
            return ('neg', ev(e.operand))
        if isinstance(e, ast.Subscript) and isinstance(e.value, ast.Name) and e.value.id == 'X':
            idx = e.slice.elts
            if len(idx) == 4 and all(isinstance(t, ast.Slice) for t in idx[:2]) and all(isinstance(t, ast.Constant) for t in idx[2:]):
                return ('x', idx[2].value, idx[3].value)
        raise TranslateError('determinants: expression %s' % ast.dump(e))
    return ev(e)


def lean(t):
    k = t[0]
    if k == 'x':
        return 'x%d%d' % (t[1], t[2])
    if k == 'one':
        return '(1 : K)'
    if k == 'neg':
        return '(-%s)' % lean(t[1])
    op = {'add': '+', 'sub': '-', 'mul': '*', 'div': '/'}[k]
    return '(%s %s %s)' % (lean(t[1]), op, lean(t[2]))


def xs(d):
    return ' '.join('x%d%d' % (r, c) for r in range(d) for c in range(d))


def generate(repo):
    src = open(os.path.join(repo, 'pyiga', 'assemble_tools_cy.pyx')).read()
    comps = {}   # lean def name -> (d, term)
    for f in ['det_and_inv_2x2', 'inverses_2x2', 'det_and_inv_3x3', 'inverses_3x3']:
        d, res = translate_function(src, f)
        for r in range(d):
            for c in range(d):
                if ('Y', r, c) not in res:
                    raise TranslateError('%s: output entry (%d,%d) never written' % (f, r, c))
                comps['%s_y%d%d' % (f, r, c)] = (d, res[('Y', r, c)])
        if f.startswith('det_and_inv'):
            if ('det',) not in res:
                raise TranslateError('%s: det_out never written' % f)
            comps[f + '_det'] = (d, res[('det',)])
        else:
            if ('detlocal',) not in res:
                raise TranslateError('%s: local det not found' % f)
            comps[f + '_det'] = (d, res[('detlocal',)])
    comps['determinants_3x3_det'] = (3, translate_determinants_3x3(src))
    comps['determinants_2x2_det'] = (2, translate_determinants_2x2(src))

    defs = ['/-', 'REGENERATED by /verif/translator/c09_detinv.py from pyiga/assemble_tools_cy.pyx — do not edit.',
            'Closed terms of every output component of the 2x2/3x3 determinant/inverse routines (Mathlib-free).', '-/',
            'namespace Pyiga.Gen.DetInv', '',
            'variable {K : Type} [Add K] [Sub K] [Mul K] [Div K] [Neg K] [OfNat K 1]', '']
    for nm, (d, t) in comps.items():
        defs.append('def %s (%s : K) : K :=\n  %s\n' % (nm, xs(d), lean(t)))
    for f, d in [('det_and_inv_2x2', 2), ('inverses_2x2', 2), ('det_and_inv_3x3', 3), ('inverses_3x3', 3)]:
        ent = ', '.join('%s_y%d%d %s' % (f, r, c, xs(d)) for r in range(d) for c in range(d))
        defs.append('/-- `[det, y00, y01, ...]` (row-major) -/\ndef %s_out (%s : K) : List K :=\n  [%s_det %s, %s]\n' % (f, xs(d), f, xs(d), ent))
    defs.append('end Pyiga.Gen.DetInv')

    th = ['/-', 'REGENERATED by /verif/translator/c09_detinv.py from pyiga/assemble_tools_cy.pyx — do not edit.',
          'Obligations re-proved on every run (T-alg): determinant = Leibniz expansion, returned inverse is a',
          'two-sided inverse when det != 0, the copies of the formulas agree.', '-/',
          'import Pyiga.Gen.DetInvDefs', 'import Mathlib.Tactic.Ring', 'import Mathlib.Tactic.LinearCombination', 'import Mathlib.Tactic.FieldSimp', '',
          'namespace Pyiga.Gen.DetInv', '']
    leib = {2: '(x00 * x11 - x01 * x10)',
            3: '(x00 * x11 * x22 - x00 * x12 * x21 - x01 * x10 * x22 + x01 * x12 * x20 + x02 * x10 * x21 - x02 * x11 * x20)'}
    names = []
    for nm, (d, t) in comps.items():
        if nm.endswith('_det'):
            th.append('/-- `%s` is the Leibniz expansion of the determinant (any commutative ring). -/' % nm)
            th.append('theorem %s_eq {K : Type} [CommRing K] (%s : K) :\n    %s %s = %s := by\n  simp only [%s] <;> ring\n' % (nm, xs(d), nm, xs(d), leib[d], nm))
            names.append(nm + '_eq')
    for f, d in [('det_and_inv_2x2', 2), ('inverses_2x2', 2), ('det_and_inv_3x3', 3), ('inverses_3x3', 3)]:
        X = xs(d)
        unfold = ', '.join(['%s_y%d%d' % (f, r, c) for r in range(d) for c in range(d)])
        for side in ('left', 'right'):
            eqs = []
            for i in range(d):
                for j in range(d):
                    if side == 'left':   # (Y X)[i,j]
                        s = ' + '.join('%s_y%d%d %s * x%d%d' % (f, i, k, X, k, j) for k in range(d))
                    else:                # (X Y)[i,j]
                        s = ' + '.join('x%d%d * %s_y%d%d %s' % (i, k, f, k, j, X) for k in range(d))
                    eqs.append('(%s = %s)' % (s, '1' if i == j else '0'))
            stmt = ' ∧\n    '.join(eqs)
            th.append('/-- entrywise: the matrix returned by `%s` is a %s inverse whenever its determinant is nonzero (any field). -/' % (f, side))
            th.append('theorem %s_%s_inv {K : Type} [Field K] (%s : K)\n    (h : %s ≠ 0) :\n    %s := by' % (f, side, X, leib[d], stmt))
            th.append('  have hd : %s⁻¹ * %s = 1 := inv_mul_cancel₀ h' % (leib[d], leib[d]))
            th.append('  simp only [%s, div_eq_mul_inv, one_mul]' % unfold)
            th.append('  refine ⟨%s⟩' % ', '.join(['?_'] * (d * d)))
            for i in range(d):
                for j in range(d):
                    # rewrite the determinant as written in the source into the Leibniz form, then close
                    th.append('  · linear_combination (exp := 1) %s * hd' % ('1' if i == j else '0'))
            th.append('')
            names.append('%s_%s_inv' % (f, side))
    # agreement of the copies
    for (a, b, d) in [('inverses_2x2', 'det_and_inv_2x2', 2), ('inverses_3x3', 'det_and_inv_3x3', 3)]:
        X = xs(d)
        eqs = ['%s_y%d%d %s = %s_y%d%d %s' % (a, r, c, X, b, r, c, X) for r in range(d) for c in range(d)]
        eqs.append('%s_det %s = %s_det %s' % (a, X, b, X))
        unfold = ', '.join(['%s_y%d%d, %s_y%d%d' % (a, r, c, b, r, c) for r in range(d) for c in range(d)] + [a + '_det', b + '_det'])
        th.append('/-- `%s` and `%s` return the same matrix (any field). -/' % (a, b))
        th.append('theorem %s_agree {K : Type} [Field K] (%s : K) :\n    %s := by' % (a, X, ' ∧\n    '.join(eqs)))
        th.append('  refine ⟨%s⟩ <;> (simp only [%s] <;> ring)\n' % (', '.join(['?_'] * (d * d + 1)), unfold))
        names.append(a + '_agree')
    th.append('theorem determinants_2x2_agree {K : Type} [CommRing K] (%s : K) :\n    determinants_2x2_det %s = det_and_inv_2x2_det %s := by\n  simp only [determinants_2x2_det, det_and_inv_2x2_det] <;> ring\n' % (xs(2), xs(2), xs(2)))
    th.append('theorem determinants_3x3_agree {K : Type} [CommRing K] (%s : K) :\n    determinants_3x3_det %s = det_and_inv_3x3_det %s := by\n  simp only [determinants_3x3_det, det_and_inv_3x3_det] <;> ring\n' % (xs(3), xs(3), xs(3)))
    names += ['determinants_2x2_agree', 'determinants_3x3_agree']
    th.append('end Pyiga.Gen.DetInv')
    return '\n'.join(defs) + '\n', '\n'.join(th) + '\n', ['Pyiga.Gen.DetInv.' + n for n in names]


def write_if_changed(path, text):
    if os.path.exists(path) and open(path).read() == text:
        return False
    os.makedirs(os.path.dirname(path), exist_ok=True)
    with open(path, 'w') as fh:
        fh.write(text)
    return True


def main(repo, lean_dir):
    d, t, names = generate(repo)
    c1 = write_if_changed(os.path.join(lean_dir, 'Pyiga', 'Gen', 'DetInvDefs.lean'), d)
    c2 = write_if_changed(os.path.join(lean_dir, 'Pyiga', 'Gen', 'DetInv.lean'), t)
    return names, (c1 or c2)


if __name__ == '__main__':
    repo = sys.argv[1] if len(sys.argv) > 1 else os.environ.get('VERIF_REPO', '/repo')
    here = os.path.dirname(os.path.dirname(os.path.abspath(__file__)))
    names, changed = main(repo, os.path.join(here, 'lean'))
    print('\n'.join(names))
    print('changed' if changed else 'unchanged', file=sys.stderr)
