"""
T-key translator (C06 / C13): extract from the tree under test

  * which stored attributes of each Expr class enter `hash_key()` (Python `ast` of pyiga/vform.py,
    cross-checked by probing pairs of instances that differ in exactly one attribute),
  * whether `Expr.hash` contains the class, the shape and the child hashes,
  * which attributes enter BasisFun/InputField/Parameter.hash, AsmVar.hash, VForm.hash and the cache
    key of compile.compile_vform (ast + probing by mutating one attribute of a form),
  * which attributes of the form / its inputs / parameters / basis functions / variables the code
    generator reads (ast of pyiga/codegen/cython.py and compile.py): anything not in the modelled
    projection is listed as an unknown read,

and emit them as Lean tables in lean/Pyiga/Gen/HashKeys.lean together with the decidable
completeness obligations, which are re-decided by `lake build Pyiga.Gen.HashKeys` on every run.
"""
import ast
import os

VERIF = os.path.dirname(os.path.dirname(os.path.abspath(__file__)))
OUT = os.path.join(VERIF, 'lean', 'Pyiga', 'Gen', 'HashKeys.lean')

CLS_LEAN = {
    'ConstExpr': 'Const', 'LiteralVectorExpr': 'LitVec', 'LiteralMatrixExpr': 'LitMat', 'VarRefExpr': 'VarRef',
    'NegExpr': 'Neg', 'BuiltinFuncExpr': 'Builtin', 'ScalarOperExpr': 'ScalarOper', 'TensorOperExpr': 'TensorOper',
    'VectorCrossExpr': 'Cross', 'OuterProdExpr': 'Outer', 'PartialDerivExpr': 'PartialDeriv', 'MatVecExpr': 'MatVec',
    'MatMatExpr': 'MatMat', 'GaussWeightExpr': 'GaussWeight', 'VolumeMeasureExpr': 'VolumeMeasure',
    'SurfaceMeasureExpr': 'SurfaceMeasure',
}
# source text of a hash_key element -> model attribute(s)
ELEM = {
    'self.value': ['value'], 'repr(self.value)': ['value'], 'self.var.name': ['varName'], 'self.I': ['I'], 'self.D': ['D'], 'self.parametric': ['parametric'],
    'self.funcname': ['funcname'], 'self.oper': ['oper'], 'self.physical': ['physical'], 'self.axis': ['axis'],
}
BF_ELEM = {'self.name': 'bfName', 'self.numcomp': 'bfNumcomp', 'self.component': 'bfComponent', 'self.space': 'bfSpace'}
IN_ELEM = {'self.name': 'inName', 'self.shape': 'inShape', 'self.physical': 'inPhysical', 'self.updatable': 'inUpdatable'}
PAR_ELEM = {'self.name': 'parName', 'self.shape': 'parShape'}
VAR_ELEM = {'self.name': 'varName', 'src_hash': 'varSrc', 'self.shape': 'varShape', 'self.symmetric': 'varSymmetric', 'self.deriv': 'varDeriv'}
VF_ELEM = {'self.dim': 'dim', 'self.geo_dim': 'geoDim', 'self.is_boundary': 'isBoundary', 'self.arity': 'arity', 'self.vec': 'vec',
           'self.spacetime': 'spacetime'}

# what the model's projection covers: attribute names the code generator may read from these objects
KNOWN_READS = {
    'vform': {'dim', 'geo_dim', 'is_boundary', 'arity', 'vec', 'spacetime', 'basis_funs', 'inputs', 'params', 'vars', 'exprs',
              # derived by finalize()/methods from the attributes above
              'precomp', 'kernel_deps', 'linear_deps', 'finalize', 'find_max_deriv', 'num_components', 'is_boundary_integral',
              'is_volume_integral', 'is_surface_integral', 'num_spaces', 'spacedims', 'timedim'},
    'inp': {'name', 'shape', 'physical', 'updatable'},
    'par': {'name', 'shape'},
    'bfun': {'name', 'space', 'numcomp', 'component'},
    'var': {'name', 'shape', 'symmetric', 'deriv', 'src', 'expr', 'scope', 'is_global', 'is_scalar', 'is_vector', 'is_matrix'},
    'expr': {'value', 'var', 'I', 'x', 'y', 'children', 'funcname', 'oper', 'physical', 'basisfun', 'D', 'axis', 'shape',
             'is_scalar', 'is_vector', 'is_matrix'},
}
READ_ROOTS = {   # variable names in codegen/cython.py -> kind of object
    'vf': 'vform', 'vform': 'vform', 'inp': 'inp', 'par': 'par', 'param': 'par', 'bfun': 'bfun', 'bf': 'bfun', 'basisfun': 'bfun',
    'var': 'var', 'entry': 'var', 'expr': 'expr',
}


def _src(node):
    return ast.unparse(node)


def _tuple_elems(node):
    """elements of a (possibly concatenated) tuple expression"""
    if isinstance(node, ast.Tuple):
        return [('elem', e) for e in node.elts]
    if isinstance(node, ast.BinOp) and isinstance(node.op, ast.Add):
        return _tuple_elems(node.left) + _tuple_elems(node.right)
    return [('other', node)]


def _find_method(cls, name):
    for n in cls.body:
        if isinstance(n, ast.FunctionDef) and n.name == name:
            return n
    return None


def _return_value(fn):
    for n in ast.walk(fn):
        if isinstance(n, ast.Return) and n.value is not None:
            return n.value
    return None


def _hash_arg(fn):
    """the tuple inside the last `hash((...))` call of a function (return value or assignment)"""
    best = None
    for n in ast.walk(fn):
        if isinstance(n, ast.Call) and isinstance(n.func, ast.Name) and n.func.id == 'hash' and n.args:
            if isinstance(n.args[0], (ast.Tuple, ast.BinOp)):
                best = n.args[0]
    return best


def extract(repo=None):
    if repo is None:
        from harness.common import REPO as repo
    problems = []
    vsrc = open(os.path.join(repo, 'pyiga', 'vform.py')).read()
    tree = ast.parse(vsrc)
    classes = {n.name: n for n in tree.body if isinstance(n, ast.ClassDef)}

    def tuple_attrs(cname, meth, mapping, what):
        c = classes.get(cname)
        fn = _find_method(c, meth) if c is not None else None
        if fn is None:
            problems.append('%s.%s not found' % (cname, meth))
            return []
        arg = _hash_arg(fn)
        if arg is None:
            problems.append('%s.%s: no hash((…)) call' % (cname, meth))
            return []
        out = []
        for kind, e in _tuple_elems(arg):
            s = _src(e)
            if kind == 'elem' and s in mapping:
                out.append(mapping[s])
            else:
                out.append(('?', s))
        return out

    bf_attrs = [a for a in tuple_attrs('BasisFun', 'hash', BF_ELEM, 'bf') if isinstance(a, str)]
    in_attrs = [a for a in tuple_attrs('InputField', 'hash', IN_ELEM, 'in') if isinstance(a, str)]
    par_attrs = [a for a in tuple_attrs('Parameter', 'hash', PAR_ELEM, 'par') if isinstance(a, str)]
    var_attrs = [a for a in tuple_attrs('AsmVar', 'hash', VAR_ELEM, 'var') if isinstance(a, str)]
    # src_hash must be derived from the expr / the source's hash
    asm_fn = _find_method(classes['AsmVar'], 'hash') if 'AsmVar' in classes else None
    asm_text = _src(asm_fn) if asm_fn is not None else ''
    if 'varSrc' in var_attrs and not ('expr_hashes[self.expr]' in asm_text and 'self.src.hash()' in asm_text):
        var_attrs.remove('varSrc')
        problems.append('AsmVar.hash: src_hash is not computed from expr_hashes[self.expr] / self.src.hash()')

    # --- Expr classes
    expr_table = {}
    base = classes.get('Expr')
    base_ok = False
    if base is not None:
        hfn = _find_method(base, 'hash')
        arg = _hash_arg(hfn) if hfn is not None else None
        if arg is not None:
            parts = [_src(e) for _, e in _tuple_elems(arg)]
            base_ok = ('type(self)' in parts and 'self.shape' in parts and 'self.hash_key()' in parts and 'child_hashes' in parts)
    for cname in CLS_LEAN:
        c = classes.get(cname)
        attrs = []
        if c is None:
            problems.append('class %s not found' % cname)
        else:
            if _find_method(c, 'hash') is not None:
                problems.append('%s overrides hash(): not understood, treated as empty key' % cname)
            else:
                fn = _find_method(c, 'hash_key')
                if fn is not None:
                    rv = _return_value(fn)
                    for kind, e in _tuple_elems(rv):
                        s = _src(e)
                        if kind == 'elem' and s in ELEM:
                            attrs += ELEM[s]
                        elif kind == 'elem' and s == 'self.basisfun.hash()':
                            attrs += bf_attrs
                        else:
                            problems.append('%s.hash_key: element %s not understood' % (cname, s))
        expr_table[cname] = attrs

    # --- VForm.hash
    f_attrs = []
    vfn = _find_method(classes['VForm'], 'hash') if 'VForm' in classes else None
    arg = _hash_arg(vfn) if vfn is not None else None
    if arg is None:
        problems.append('VForm.hash: no hash((…)) call')
    else:
        for kind, e in _tuple_elems(arg):
            s = _src(e)
            if kind == 'elem' and s in VF_ELEM:
                f_attrs.append(VF_ELEM[s])
            elif 'bf.hash()' in s and 'self.basis_funs' in s:
                f_attrs.append('basisFuns'); f_attrs += bf_attrs
            elif 'inp.hash()' in s and 'self.inputs' in s:
                f_attrs.append('inputs'); f_attrs += in_attrs
            elif 'var.hash(expr_hashes)' in s and 'self.vars.values()' in s:
                f_attrs.append('vars'); f_attrs += var_attrs
                if 'varSrc' in var_attrs:
                    f_attrs += par_attrs      # parameters are hashed through the variables that hold them
            elif 'expr_hashes[e]' in s and 'self.exprs' in s:
                f_attrs.append('exprs')
            else:
                problems.append('VForm.hash: element %s not understood' % s)
    # --- cache key in compile.py
    csrc = open(os.path.join(repo, 'pyiga', 'compile.py')).read()
    ctree = ast.parse(csrc)
    fns = {n.name: n for n in ctree.body if isinstance(n, ast.FunctionDef)}
    cv = fns.get('compile_vform')
    on_demand = False
    if cv is not None:
        for n in ast.walk(cv):
            if isinstance(n, ast.Assign) and _src(n.targets[0]) == 'cache_key' and isinstance(n.value, ast.Tuple):
                parts = [_src(e) for e in n.value.elts]
                if 'vf.hash()' not in parts:
                    problems.append('compile_vform: cache_key does not contain vf.hash()')
                    f_attrs = []
                for e in n.value.elts:
                    if isinstance(e, ast.Call) and isinstance(e.func, ast.Name) and e.func.id in fns:
                        rv = _return_value(fns[e.func.id])
                        argn = [a.arg for a in fns[e.func.id].args.args]
                        if rv is not None and isinstance(rv, ast.Tuple) and any(isinstance(x, ast.Name) and x.id in argn for x in rv.elts):
                            if [_src(a) for a in e.args] == ['on_demand']:
                                on_demand = True
                    elif isinstance(e, ast.Tuple) and any(_src(x) == 'on_demand' for x in e.elts):
                        on_demand = True
                    elif _src(e) == 'on_demand':
                        on_demand = True
        # the lookup and the store must use that key
        text = _src(cv)
        if '__vform_asm_cache.get(cache_key)' not in text or '__vform_asm_cache[cache_key] = asm' not in text:
            problems.append('compile_vform: cache is not read and written with cache_key')
            on_demand = False
    else:
        problems.append('compile.compile_vform not found')
    if on_demand:
        f_attrs.append('onDemand')

    # --- what code generation reads
    unknown = []
    for fn in ('codegen/cython.py', 'compile.py'):
        t = ast.parse(open(os.path.join(repo, 'pyiga', fn)).read())
        for n in ast.walk(t):
            if isinstance(n, ast.Attribute):
                v = n.value
                root = None
                if isinstance(v, ast.Name) and v.id in READ_ROOTS:
                    root = READ_ROOTS[v.id]
                elif isinstance(v, ast.Attribute) and _src(v) == 'self.vform':
                    root = 'vform'
                if root == 'vform' and isinstance(v, ast.Name) and v.id == 'vform' and n.attr[:1].isupper():
                    continue        # module attribute such as vform.ConstExpr
                if root == 'vform' and isinstance(v, ast.Name) and v.id == 'vform' and n.attr in (
                        'Scope', 'sym_index_to_seq', 'mass_vf', 'stiffness_vf', 'heat_st_vf', 'wave_st_vf', 'divdiv_vf', 'L2functional_vf'):
                    continue
                if root and n.attr not in KNOWN_READS[root] and n.attr not in ('hash',):
                    unknown.append('%s:%d %s.%s' % (fn, n.lineno, root, n.attr))
    unknown = sorted(set(unknown))

    res = {'expr_table': expr_table, 'base_ok': base_ok, 'f_attrs': f_attrs, 'unknown_reads': unknown, 'problems': problems}
    res['modname'] = extract_modname(fns)
    res['objsem'] = extract_objsem(classes)
    res['probe'] = probe(res)
    return res


def extract_objsem(classes):
    """how VForm.hash memoises (ast): {'recompute': hash is recomputed until finalize(), 'refuse_final': declarations refused
    once finalized}"""
    out = {'recompute': False, 'refuse_final': False, 'hash_test': None}
    vfc = classes.get('VForm')
    if vfc is None:
        return out
    h = _find_method(vfc, 'hash')
    if h is not None:
        for n in ast.walk(h):
            if isinstance(n, ast.If):
                out['hash_test'] = _src(n.test)
                out['recompute'] = '__is_finalized' in out['hash_test']
                break
    sv = _find_method(vfc, 'set_var')
    out['refuse_final'] = sv is not None and '__is_finalized' in _src(sv)
    return out


CRYPTO_BITS = {'md5': 128, 'sha1': 160, 'sha224': 224, 'sha256': 256, 'sha384': 384, 'sha512': 512, 'sha3_224': 224, 'sha3_256': 256,
               'sha3_384': 384, 'sha3_512': 512, 'blake2b': 512, 'blake2s': 256}


def extract_modname(fns):
    """how compile.compile_cython_module names the on-disk module: {'expr', 'alg', 'bits', 'full_source', 'used'}.
    Understood: 'mod' + hashlib.<alg>(src.encode()).hexdigest([n]) [optionally sliced [:k]]."""
    out = {'expr': None, 'alg': 'unknown', 'bits': 0, 'full_source': False, 'used': False}
    fn = fns.get('compile_cython_module')
    if fn is None:
        return out
    val = None
    for n in ast.walk(fn):
        if isinstance(n, ast.Assign) and _src(n.targets[0]) == 'modname':
            val = n.value
    if val is None:
        return out
    out['expr'] = _src(val)
    text = _src(fn)
    out['used'] = ('importlib.import_module(modname)' in text and '_compile_cython_module_nocache(src, modname' in text)
    # 'mod' + <digest>
    d = val
    if isinstance(d, ast.BinOp) and isinstance(d.op, ast.Add) and isinstance(d.left, ast.Constant) and isinstance(d.left.value, str):
        d = d.right
    else:
        return out
    slice_hex = None
    if isinstance(d, ast.Subscript) and isinstance(d.slice, ast.Slice) and d.slice.lower is None and isinstance(d.slice.upper, ast.Constant):
        slice_hex = int(d.slice.upper.value)
        d = d.value
    if not (isinstance(d, ast.Call) and isinstance(d.func, ast.Attribute) and d.func.attr == 'hexdigest'):
        return out
    hexarg = d.args[0].value if d.args and isinstance(d.args[0], ast.Constant) else None
    h = d.func.value
    if not (isinstance(h, ast.Call) and isinstance(h.func, ast.Attribute) and _src(h.func.value) == 'hashlib'):
        return out
    alg = h.func.attr
    out['full_source'] = [_src(a) for a in h.args] in (['src.encode()'], ["src.encode('utf-8')"], ["src.encode('utf8')"])
    if alg in ('shake_128', 'shake_256') and isinstance(hexarg, int):
        bits = 8 * hexarg
    elif alg in CRYPTO_BITS and hexarg is None:
        bits = CRYPTO_BITS[alg]
    else:
        return out
    if slice_hex is not None:
        bits = min(bits, 4 * slice_hex)
    out['alg'] = alg
    out['bits'] = bits
    return out


# ----------------------------------------------------------------------------- probing
def probe(res):
    """cross-check the AST tables by hashing pairs of instances / forms that differ in exactly one attribute.
    Returns {'expr': {cls: [attrs that change the hash]}, 'form': [attrs], 'mismatch': [...]}"""
    out = {'expr': {}, 'form': [], 'mismatch': []}
    try:
        from pyiga import vform as V
        vf = V.VForm(2)
        f = vf.input('f'); g = vf.input('g'); w = vf.input('w', shape=(2,))
        vF = vf.vars['f_a']; vG = vf.vars['g_a']; vW = vf.vars['w_a']
        x, y = f, g
        H = V.exprhash
        bf = lambda **kw: V.BasisFun(kw.get('name', 'u'), vf, numcomp=kw.get('numcomp'), component=kw.get('component'), space=kw.get('space', 0))
        P = lambda b, D=(0, 0), ph=False: V.PartialDerivExpr(b, D, physical=ph)
        pairs = {
            'ConstExpr': {'value': (V.ConstExpr(1.0), V.ConstExpr(2.0))},
            'VarRefExpr': {'varName': (V.VarRefExpr(vF, ()), V.VarRefExpr(vG, ())),
                           'I': (V.VarRefExpr(vW, (0,)), V.VarRefExpr(vW, (1,))),
                           'D': (V.VarRefExpr(vF, (), (1, 0), True), V.VarRefExpr(vF, (), (0, 1), True)),
                           'parametric': (V.VarRefExpr(vF, (), (1, 0), True), V.VarRefExpr(vF, (), (1, 0), False))},
            'BuiltinFuncExpr': {'funcname': (V.BuiltinFuncExpr('sin', x), V.BuiltinFuncExpr('cos', x))},
            'ScalarOperExpr': {'oper': (V.ScalarOperExpr('+', x, y), V.ScalarOperExpr('*', x, y))},
            'TensorOperExpr': {'oper': (V.TensorOperExpr('+', w, w), V.TensorOperExpr('*', w, w))},
            'PartialDerivExpr': {'bfName': (P(bf(name='u')), P(bf(name='v'))),
                                 'bfNumcomp': (P(bf()), P(bf(numcomp=2))),
                                 'bfComponent': (P(bf()), P(bf(component=1))),
                                 'bfSpace': (P(bf()), P(bf(space=1))),
                                 'D': (P(bf(), (1, 0)), P(bf(), (0, 1))),
                                 'physical': (P(bf(), (1, 0), False), P(bf(), (1, 0), True))},
            'GaussWeightExpr': {'axis': (V.GaussWeightExpr(0), V.GaussWeightExpr(1))},
        }
        for cname in res['expr_table']:
            got = []
            for a, (e1, e2) in pairs.get(cname, {}).items():
                if H(e1) != H(e2):
                    got.append(a)
            out['expr'][cname] = got
            if sorted(got) != sorted(res['expr_table'][cname]):
                out['mismatch'].append('%s: ast %s vs probe %s' % (cname, sorted(res['expr_table'][cname]), sorted(got)))
        # base hash: class, shape, children
        a, b, c, d = [V.ConstExpr(float(k)) for k in (3, 4, 5, 6)]
        base = (H(V.VolumeMeasureExpr()) != H(V.SurfaceMeasureExpr())
                and H(V.LiteralMatrixExpr([[a, b, c, d]])) != H(V.LiteralMatrixExpr([[a, b], [c, d]]))
                and H(V.NegExpr(a)) != H(V.NegExpr(b))
                and H(V.MatVecExpr(V.LiteralMatrixExpr([[a, b], [c, d]]), w)) != H(V.MatVecExpr(V.LiteralMatrixExpr([[a, b], [c, d]]).T, w)))
        if base != res['base_ok']:
            out['mismatch'].append('Expr.hash: ast says type/shape/children %s, probe %s' % (res['base_ok'], base))
        out['base'] = base

        # forms: mutate one attribute at a time
        def mk():
            vf = V.VForm(2)
            u, v = vf.basisfuns()
            fi = vf.input('f'); c = vf.parameter('c')
            B = vf.let('B', fi * c)
            vf.add(B * u * v * vf.GaussWeight)
            return vf
        h0 = mk().hash()

        def mut(fn):
            vf = mk(); fn(vf)
            try:
                return vf.hash() != h0
            except Exception:
                return True
        muts = {
            'dim': lambda vf: setattr(vf, 'dim', 3), 'geoDim': lambda vf: setattr(vf, 'geo_dim', 3),
            'isBoundary': lambda vf: setattr(vf, 'is_boundary', True), 'arity': lambda vf: setattr(vf, 'arity', 1),
            'vec': lambda vf: setattr(vf, 'vec', 4), 'spacetime': lambda vf: setattr(vf, 'spacetime', True),
            'basisFuns': lambda vf: setattr(vf, 'basis_funs', vf.basis_funs[:1]),
            'inputs': lambda vf: vf.inputs.append(V.InputField('zz', (), False, vf)),
            'vars': lambda vf: vf.vars.pop('geo_a'),
            'exprs': lambda vf: vf.exprs.append(vf.exprs[0]),
            'bfName': lambda vf: setattr(vf.basis_funs[0], 'name', 'q'), 'bfNumcomp': lambda vf: setattr(vf.basis_funs[0], 'numcomp', 2),
            'bfComponent': lambda vf: setattr(vf.basis_funs[0], 'component', 1), 'bfSpace': lambda vf: setattr(vf.basis_funs[0], 'space', 1),
            'inName': lambda vf: setattr(vf.inputs[1], 'name', 'q'), 'inShape': lambda vf: setattr(vf.inputs[1], 'shape', (2,)),
            'inPhysical': lambda vf: setattr(vf.inputs[1], 'physical', True), 'inUpdatable': lambda vf: setattr(vf.inputs[1], 'updatable', True),
            'parName': lambda vf: setattr(vf.params[0], 'name', 'q'), 'parShape': lambda vf: setattr(vf.params[0], 'shape', (2,)),
            'varName': lambda vf: setattr(vf.vars['B'], 'name', 'q'), 'varShape': lambda vf: setattr(vf.vars['B'], 'shape', (2,)),
            'varSymmetric': lambda vf: setattr(vf.vars['B'], 'symmetric', True), 'varDeriv': lambda vf: setattr(vf.vars['B'], 'deriv', 1),
            'varSrc': lambda vf: setattr(vf.vars['f_a'], 'src', vf.inputs[0]),
        }
        got = [a for a, fn in muts.items() if mut(fn)]
        try:
            from pyiga import compile as C
            fn = C.__dict__.get('__asm_cache_args')
            if fn is not None and fn(True) != fn(False):
                got.append('onDemand')
        except Exception as ex:
            out['mismatch'].append('compile probe failed: %s' % type(ex).__name__)
        out['form'] = got
        if sorted(set(got)) != sorted(set(res['f_attrs'])):
            out['mismatch'].append('form key: ast %s vs probe %s' % (sorted(set(res['f_attrs'])), sorted(set(got))))
    except Exception as ex:
        out['mismatch'].append('probe raised %s: %s' % (type(ex).__name__, str(ex)[:200]))
    return out


# ----------------------------------------------------------------------------- emission
def lean_text(res):
    pr = res['probe']
    # conservative: an attribute counts as hashed only if the AST and the probe agree on it
    rows = []
    for cname, lean in CLS_LEAN.items():
        attrs = [a for a in res['expr_table'][cname] if a in pr['expr'].get(cname, [])]
        rows.append('(.%s, [%s])' % (lean, ', '.join('.' + a for a in attrs)))
    fat = [a for a in dict.fromkeys(res['f_attrs']) if a in pr['form']]
    base = bool(res['base_ok'] and pr.get('base'))
    unk = res['unknown_reads']
    lines = [
        '/-',
        'REGENERATED on every run by /verif/translator/c13_keys.py from the tree under test — do not edit.',
        'Tables: which stored attributes enter Expr.hash_key / the form-level hash() methods / the cache key',
        '(Python ast of pyiga/vform.py and pyiga/compile.py, cross-checked by probing), and what the code',
        'generator reads beyond the modelled projection.  The four obligations below are re-decided here.',
        '-/',
        'import Pyiga.Model.VForm',
        '',
        'namespace Pyiga.Gen.HashKeys',
        'open Pyiga.VForm',
        '',
        'def keyTable : KeyTable :=',
        '  [' + ',\n   '.join(rows) + ']',
        '',
        'def fkeyTable : FKeyTable :=',
        '  [' + ', '.join('.' + a for a in fat) + ']',
        '',
        '/-- `Expr.hash` = hash((type(self), self.shape) + self.hash_key() + child_hashes) -/',
        'def baseHashHasTypeShapeChildren : Bool := %s' % ('true' if base else 'false'),
        '',
        '/-- attribute reads of the code generator that the modelled projection does not know -/',
        'def unknownCodegenReads : List String := [%s]' % ', '.join('"%s"' % u for u in unk),
        '',
        '/-- disagreements between the ast extraction and the probing of live instances -/',
        'def extractionMismatches : List String := [%s]' % ', '.join('"%s"' % m.replace('"', "'") for m in (pr['mismatch'] + res['problems'])),
        '',
        '/-- how `compile_cython_module` names the on-disk module (ast of compile.py): `%s` -/' % str(res['modname']['expr']).replace('-/', '- /'),
        'def modnameAlg : String := "%s"' % res['modname']['alg'],
        'def modnameBits : Nat := %d' % res['modname']['bits'],
        'def modnameOfFullSource : Bool := %s' % ('true' if (res['modname']['full_source'] and res['modname']['used']) else 'false'),
        'def cryptographicDigests : List String :=',
        '  ["shake_128", "shake_256", "md5", "sha1", "sha224", "sha256", "sha384", "sha512", "sha3_224", "sha3_256", "sha3_384", "sha3_512", "blake2b", "blake2s"]',
        '',
        'theorem keyTable_complete : KeyTableComplete keyTable = true := by decide',
        'theorem fkeyTable_complete : FKeyTableComplete fkeyTable = true := by decide',
        'theorem base_hash_ok : baseHashHasTypeShapeChildren = true := by decide',
        'theorem codegen_reads_known : unknownCodegenReads = [] := by decide',
        'theorem extraction_consistent : extractionMismatches = [] := by decide',
        '/-- the module name is a cryptographic digest of at least 64 bits of the *whole* generated source -/',
        'theorem modname_digest_ok : (cryptographicDigests.contains modnameAlg && decide (64 ≤ modnameBits) && modnameOfFullSource) = true := by decide',
        '',
        'end Pyiga.Gen.HashKeys',
        '',
    ]
    return '\n'.join(lines)


def write(res=None, path=OUT):
    if res is None:
        res = extract()
    txt = lean_text(res)
    os.makedirs(os.path.dirname(path), exist_ok=True)
    old = open(path).read() if os.path.exists(path) else None
    if old != txt:
        with open(path, 'w') as f:
            f.write(txt)
        return True
    return False


if __name__ == '__main__':
    import sys
    sys.path.insert(0, VERIF)
    r = extract()
    print(write(r))
    for k in ('expr_table', 'f_attrs', 'unknown_reads', 'problems'):
        print(k, r[k])
    print('probe', r['probe'])
