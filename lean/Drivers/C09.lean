/-
Driver for correspondence stream `gal` (property C09).  All numbers exact rationals.
<M> = matrix = length-prefixed list of length-prefixed rows; <o> = optional list: `0` or `1 <list>`.

  gauss  <x> <w> <a> <b>                               -> <nodes> <weights>
  tquad  <x> <w> <meshes>                              -> <grids> <weightlists>   (lists of lists)
  bquad  <x> <w> <meshes> bdax bdside                  -> <grids> <weightlists>
  knots  <kv>                                          -> <mesh> <spanIndices>
  fspan  p <kv> <us>                                   -> list of findspan results
  coo    p nspans <spanIdx>                            -> <I> <J>     (_create_coo_1d_from_kv)
  cooc   nspans n1 n2 <fa1> <fa2>                      -> <I> <J>     (_create_coo_1d_custom)
  biform p nqp <kv> <xg> <wg> <Dv:M> <Du:M> <wf:o>     -> <nodes> <qweights> rows cols <dense row-major>
  asym   p1 p2 nqp <kv1> <kv2> <quadgrid> <xg> <wg> <derivs1:M> <derivs2:M>
                                                       -> <nodes> <qweights> rows cols <dense>
  tp     kind dim { p <kv> nqpM <xg> <wg> <D0:M> nqpK <xg> <wg> <D1:M> }*dim
         kind = mass | stiff                           -> rows cols <dense>   (Kronecker path)
  load   <C:M> <w> <fv>                                -> list
  inner  <Cs: list of M> <ws: list of lists> <fv> <det:o>   -> list (C order)
  integ  <ws> <fv> <det:o>                             -> rat
  innerg <Cs> <ws> <fv> <dets>  /  integg <ws> <fv> <dets>   same with SIGNED det J per node: the model applies |.|
  detinv name <entries>                                -> list `[det, y00, ...]` / `[det]`
         name in det_and_inv_2x2 inverses_2x2 det_and_inv_3x3 inverses_3x3 determinants_2x2 determinants_3x3
         (terms regenerated from assemble_tools_cy.pyx: Pyiga.Gen.DetInvDefs)
`err-precondition` = a span index smaller than the degree (knot vector not open).
-/
import Pyiga.Proto
import Pyiga.Model.Galerkin
import Pyiga.Gen.DetInvDefs

open Pyiga Pyiga.Proto Pyiga.Galerkin

instance : Zero Rat := ⟨0⟩

def half : Rat := mkRat 1 2

def pMat : P (List (List Rat)) := list (list rat)
def pOpt : P (Option (List Rat)) := do
  let b ← nat
  if b == 0 then pure none else if b == 1 then do let l ← list rat; pure (some l) else failure

def showMat (m : List (List Rat)) : String :=
  let r := m.length
  let c := (m.getD 0 []).length
  s!"{r} {c} {showRats m.flatten}"

def showLL (l : List (List Rat)) : String := showList showRats l

def showAsm (r : List Rat × List Rat × List (Nat × Nat × Rat)) : String :=
  s!"{showRats r.1} {showRats r.2.1} {showMat (cooDense r.2.2)}"

/-- 1-D mass / stiffness matrices of one axis of the `tp` request -/
def axis1d : P (List (List Rat) × List (List Rat)) := do
  let p ← nat; let kv ← list rat
  let nqpM ← nat; let xgM ← list rat; let wgM ← list rat; let d0 ← pMat
  let nqpK ← nat; let xgK ← list rat; let wgK ← list rat; let d1 ← pMat
  if (spanIndices kv).any (· < p) then failure
  let M := cooDense (biform1d half kv p nqpM xgM wgM d0 d0 none).2.2
  let K := cooDense (biform1d half kv p nqpK xgK wgK d1 d1 none).2.2
  pure (M, K)

def request : P String := do
  let op ← tok
  match op with
  | "gauss" => do
      let x ← list rat; let w ← list rat; let a ← list rat; let b ← list rat
      let r := gaussRule half x w a b
      pure s!"{showRats r.1} {showRats r.2}"
  | "tquad" => do
      let x ← list rat; let w ← list rat; let ms ← list (list rat)
      let r := tensorQuadrature half x w ms
      pure s!"{showLL r.1} {showLL r.2}"
  | "bquad" => do
      let x ← list rat; let w ← list rat; let ms ← list (list rat); let ax ← nat; let side ← nat
      if ax ≥ ms.length then failure
      let r := boundaryQuadrature half 1 x w ms ax side 0
      pure s!"{showLL r.1} {showLL r.2}"
  | "knots" => do
      let kv ← list rat
      pure s!"{showRats (uniqueSorted kv)} {showNats (spanIndices kv)}"
  | "fspan" => do
      let p ← nat; let kv ← list rat; let us ← list rat
      pure (showNats (us.map fun u => findspan kv p u 0))
  | "coo" => do
      let p ← nat; let ns ← nat; let si ← list nat
      if si.any (· < p) then pure "err-precondition" else
      let r := cooFromKv p ns si
      pure s!"{showNats r.1} {showNats r.2}"
  | "cooc" => do
      let ns ← nat; let n1 ← nat; let n2 ← nat; let f1 ← list nat; let f2 ← list nat
      let r := cooCustom ns n1 n2 f1 f2
      pure s!"{showNats r.1} {showNats r.2}"
  | "biform" => do
      let p ← nat; let nqp ← nat; let kv ← list rat; let xg ← list rat; let wg ← list rat
      let dv ← pMat; let du ← pMat; let wf ← pOpt
      if (spanIndices kv).any (· < p) then pure "err-precondition" else
      pure (showAsm (biform1d half kv p nqp xg wg dv du wf))
  | "asym" => do
      let p1 ← nat; let p2 ← nat; let nqp ← nat
      let kv1 ← list rat; let kv2 ← list rat; let qg ← list rat
      let xg ← list rat; let wg ← list rat; let d1 ← pMat; let d2 ← pMat
      pure (showAsm (biform1dAsym half kv1 p1 kv2 p2 qg nqp xg wg d1 d2))
  | "tp" => do
      let kind ← tok; let dim ← nat
      let isMass ← (if kind == "mass" then pure true else if kind == "stiff" then pure false else failure)
      match dim with
      | 2 => do
          let a ← axis1d; let b ← axis1d
          pure (showMat (if isMass then mass2d a.1 b.1 else stiffness2d a.1 a.2 b.1 b.2))
      | 3 => do
          let a ← axis1d; let b ← axis1d; let c ← axis1d
          pure (showMat (if isMass then mass3d a.1 b.1 c.1 else stiffness3d a.1 a.2 b.1 b.2 c.1 c.2))
      | _ => failure
  | "load" => do
      let C ← pMat; let w ← list rat; let fv ← list rat
      pure (showRats (loadVector C w fv))
  | "inner" => do
      let Cs ← list pMat; let ws ← list (list rat); let fv ← list rat; let det ← pOpt
      if Cs.length ≠ ws.length then failure
      pure (showRats (innerProducts Cs ws fv det))
  | "innerg" => do
      let Cs ← list pMat; let ws ← list (list rat); let fv ← list rat; let dets ← list rat
      if Cs.length ≠ ws.length then failure
      pure (showRats (innerProductsGeo Cs ws fv dets))
  | "integg" => do
      let ws ← list (list rat); let fv ← list rat; let dets ← list rat
      pure (showRat (integrateGeo ws fv dets))
  | "integ" => do
      let ws ← list (list rat); let fv ← list rat; let det ← pOpt
      pure (showRat (Galerkin.integrate ws fv det))
  | "detinv" => do
      let name ← tok; let e ← list rat
      match name, e with
      | "det_and_inv_2x2", [a, b, c, d] => pure (showRats (Gen.DetInv.det_and_inv_2x2_out a b c d))
      | "inverses_2x2", [a, b, c, d] => pure (showRats (Gen.DetInv.inverses_2x2_out a b c d))
      | "determinants_2x2", [a, b, c, d] => pure (showRats [Gen.DetInv.determinants_2x2_det a b c d])
      | "det_and_inv_3x3", [a, b, c, d, e, f, g, h, i] => pure (showRats (Gen.DetInv.det_and_inv_3x3_out a b c d e f g h i))
      | "inverses_3x3", [a, b, c, d, e, f, g, h, i] => pure (showRats (Gen.DetInv.inverses_3x3_out a b c d e f g h i))
      | "determinants_3x3", [a, b, c, d, e, f, g, h, i] => pure (showRats [Gen.DetInv.determinants_3x3_det a b c d e f g h i])
      | _, _ => failure
  | _ => failure

def handle (line : String) : String :=
  match runLine request line with
  | some s => s
  | none => "bad-request"

def main : IO Unit := mainLoop handle
