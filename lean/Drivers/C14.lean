/-
Driver for correspondence stream `mp` (property C14).  Requests (one line each):

  hist <merge> <unshared> <shapes> <calls>
      shapes : list of per-patch dof-count lists            e.g. `2 2 2 2 2 2 2`
      calls  : length-prefixed list of
                 jb p1 ax1 side1 p2 ax2 side2 <hasflip> <flip : list of bool>
                 jd p1 <I1> p2 <I2>
      answer : `<r_1> | … | <r_k> | fin <state> nd=<numdofs> <p2g_0> ; <p2g_1> ; …`
               r_i = `ok <state>` or `err-<kind>` (state unchanged), state = `sd=<classes> spp=<dicts>`
               with every class and every dict printed in increasing order; p2g_p = list or `err-<kind>`.
  asm  <merge> <unshared> <shapes> <calls> <A_0> <b_0> … <A_{P-1}> <b_{P-1}>
      A_p : list of N_p rows (each a list of N_p ints), b_p : list of N_p ints
      answer : `A=<rows> b=<list>`   (the accumulated system of `assemble_system`)
  slice <ax> <idx> <shape> <hasflip> <flip>     -> list | err-<kind>   (slice_indices, ravel=True)
  phases <merge> <unshared> <shapes> <Q> <phases>
      one Multipatch object through several phases: phase = list of calls followed by `finalize()` and the queries;
      Q : list of `p ax side val` = `compute_dirichlet_bcs([(p, (ax, side), val), …])` with constant data
      answer : per phase `fin <state> nd=<numdofs> <p2g_0> ; … bc=<i:v …>|err-<kind>`, joined by ` || `
-/
import Pyiga.Proto
import Pyiga.Model.Multipatch
import Pyiga.Model.Restrict

open Pyiga Pyiga.Proto Pyiga.MP

def pFlip : P (Option (List Bool)) := do
  let has ← bool
  let fl ← list bool
  pure (if has then some fl else none)

def pCall : P Call := do
  let op ← tok
  match op with
  | "jb" => do
      let p1 ← nat; let ax1 ← nat; let s1 ← nat; let p2 ← nat; let ax2 ← nat; let s2 ← nat
      let fl ← pFlip
      pure (.jb p1 ax1 s1 p2 ax2 s2 fl)
  | "jd" => do
      let p1 ← nat; let I1 ← list nat; let p2 ← nat; let I2 ← list nat
      pure (.jd p1 I1 p2 I2)
  | _ => failure

def showErr : Err → String
  | .assertion => "err-assertion"
  | .index => "err-IndexError"
  | .value => "err-ValueError"

def dofLe (a b : Dof) : Bool := a.1 < b.1 || (a.1 == b.1 && a.2 ≤ b.2)

def showState (shapes : List (List Nat)) (st : State) : String :=
  let classes := (List.range st.nsd).map (fun s => (st.sd s).mergeSort dofLe)
  let sd := showList (fun (c : List Dof) => showList (fun (d : Dof) => s!"{d.1}:{d.2}") c) classes
  let dicts := (List.range shapes.length).map (fun p =>
    (List.range (Index.prod (shapes.getD p []))).filterMap (fun i =>
      match st.spp p i with | some s => some s!"{i}:{s}" | none => none))
  let spp := showList (fun (d : List String) => showList id d) dicts
  s!"sd={sd} spp={spp}"

def runCallsShow (cfg : Cfg) (shapes : List (List Nat)) (calls : List Call) : State × List String :=
  calls.foldl (fun (acc : State × List String) c =>
    match stepCall cfg shapes acc.1 c with
    | .ok st' => (st', acc.2 ++ ["ok " ++ showState shapes st'])
    | .error e => (acc.1, acc.2 ++ [showErr e])) (State.init, [])

def mkGlob (cfg : Cfg) (shapes : List (List Nat)) (st : State) : Glob :=
  { P := shapes.length, N := fun p => Index.prod (shapes.getD p []), st := finalize cfg st }

def pHeader : P (Cfg × List (List Nat) × List Call) := do
  let m ← bool; let u ← bool
  let shapes ← list (list nat)
  let calls ← list pCall
  pure (⟨m, u⟩, shapes, calls)

def request : P String := do
  let op ← tok
  match op with
  | "hist" => do
      let (cfg, shapes, calls) ← pHeader
      let (st, outs) := runCallsShow cfg shapes calls
      let G := mkGlob cfg shapes st
      let p2g := (List.range G.P).map (fun p =>
        match G.p2gIdx cfg p with
        | .ok l => showNats l
        | .error e => showErr e)
      pure (" | ".intercalate (outs ++ [s!"fin {showState shapes G.st} nd={G.numdofs} " ++ " ; ".intercalate p2g]))
  | "asm" => do
      let (cfg, shapes, calls) ← pHeader
      let st := runCalls cfg shapes State.init calls
      let G := mkGlob cfg shapes st
      let rec readPatches : Nat → List (List (List Int) × List Int) → P (List (List (List Int) × List Int))
        | 0, acc => pure acc.reverse
        | k+1, acc => do
            let A ← list (list int); let b ← list int
            readPatches k ((A, b) :: acc)
      let pm ← readPatches G.P []
      let Ap : Nat → Mat Int := fun p =>
        let A := (pm.getD p ([], [])).1
        ⟨G.N p, G.N p, fun i j => (A.getD i []).getD j 0⟩
      let bp : Nat → Nat → Int := fun p i => ((pm.getD p ([], [])).2).getD i 0
      let A := G.assembleA Ap
      let b := G.assembleB bp
      pure (s!"A={showList showInts A.toLists} b={showInts ((List.range G.numdofs).map b)}")
  | "phases" => do
      let m ← bool; let u ← bool
      let cfg : Cfg := ⟨m, u⟩
      let shapes ← list (list nat)
      let Q ← list (do let p ← nat; let ax ← nat; let sd ← nat; let v ← int; pure (p, ax, sd, v))
      let phases ← list (list pCall)
      let step := fun (acc : State × List String) (calls : List Call) =>
        -- `finalize()` mutates the object (drops emptied shared dofs): the next phase continues from there
        let st := finalize cfg (runCalls cfg shapes acc.1 calls)
        let G : Glob := { P := shapes.length, N := fun p => Index.prod (shapes.getD p []), st := st }
        let p2g := (List.range G.P).map (fun p =>
          match G.p2gIdx cfg p with
          | .ok l => showNats l
          | .error e => showErr e)
        -- Multipatch.compute_dirichlet_bcs: idx = patch_to_global_idx(p); (idx[bc[0]], bc[1]) per condition; combine_bcs
        let bcs : Except Err (List (List Nat × List Int)) := Q.mapM (fun (q : Nat × Nat × Nat × Int) =>
          match shapes[q.1]? with
          | none => .error .index
          | some sh =>
            match liftSlice (Slice.boundaryDofs sh q.2.1 q.2.2.1 none), G.p2gIdx cfg q.1 with
            | .ok face, .ok idx => .ok (face.map (fun i => idx.getD i 0), face.map (fun _ => q.2.2.2))
            | .error e, _ => .error e
            | _, .error e => .error e)
        let bc := match bcs with
          | .error e => showErr e
          | .ok l => match Restrict.combineBcs l with
            | .ok (is, vs) => showList (fun (iv : Nat × Int) => s!"{iv.1}:{iv.2}") (is.zip vs)
            | .error _ => "err-assertion"
        (st, acc.2 ++ [s!"fin {showState shapes st} nd={G.numdofs} " ++ " ; ".intercalate p2g ++ " bc=" ++ bc])
      let (_, outs) := phases.foldl step (State.init, [])
      pure (" || ".intercalate outs)
  | "slice" => do
      let ax ← nat; let idx ← int; let shape ← list nat; let fl ← pFlip
      match Slice.sliceIndices ax idx shape fl with
      | .ok l => pure (showNats l)
      | .error .index => pure "err-IndexError"
      | .error .value => pure "err-ValueError"
  | _ => failure

def handle (line : String) : String :=
  match runLine request line with
  | some s => s
  | none => "bad-request"

def main : IO Unit := mainLoop handle
