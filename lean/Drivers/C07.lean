/-
Driver for correspondence stream `geo` (property C07).

Carrier: `Tr` = exact `Rat` value + running forward-error data (`e` = the same formula with every
term replaced by its absolute value, `k` = number of arithmetic operations in the expression
tree, so that *any* evaluation order of the same operations is covered by `γ_k · e`).
Every numeric answer entry is printed as `value tol` with `tol = (k+4) · 2⁻⁵² · e`.

Grammar (see Pyiga/Proto.lean for numbers and lists):
  F    := nurbs isscalar <dims> <vshape> <coeffs>
  Info := first <list over derivative order of <list of rat>>
  T    := <list over kv index d of <list over coordinate slot e of <list over points of Info>>>
          (`T[d][e][k]` = collocation_derivs_info(kvs[d], coordinate array e)[k]; a route must pick
           the slots it pairs with each knot vector itself)
Requests:
  call F T | pweval F T n | pwjac F T n | pwevaljac F T n | geval F T | gjac F T | ghess F T
  bdcall F axis T | bdgeval F axis T | bdgjac F axis T
  translate F <off> | scale F <fac> | applymat F <A> | rotate F s c | asnurbs F | asvector F
  getitem F I | getitems F <Is> | boundary F axis side | copy F | cw F
  osum F F | oprod F F | tprod F F | lineseg <x0> <x1> <S> | arc <cs> w r | qannulus r1 r2 w
  bdspec name|pair a s  dim | hesspairs n
Answers: `<shape> | v tol v tol …`, functions as `F <nurbs> <isscalar> <dims> <vshape> | …`,
error kinds `err-AssertionError`, `err-ValueError`, `div0`.
-/
import Pyiga.Proto
import Pyiga.Model.Geometry

open Pyiga Pyiga.Proto Pyiga.Index Pyiga.Geo

structure Tr where
  v : Rat
  e : Rat
  k : Nat
  bad : Bool := false
deriving Inhabited

def rabs (q : Rat) : Rat := if q < 0 then -q else q

namespace Tr
def ofRat (q : Rat) : Tr := ⟨q, rabs q, 0, false⟩
instance : Zero Tr := ⟨ofRat 0⟩
instance : One Tr := ⟨ofRat 1⟩
instance : Add Tr := ⟨fun a b => ⟨a.v + b.v, a.e + b.e, a.k + b.k + 1, a.bad || b.bad⟩⟩
instance : Sub Tr := ⟨fun a b => ⟨a.v - b.v, a.e + b.e, a.k + b.k + 1, a.bad || b.bad⟩⟩
instance : Neg Tr := ⟨fun a => ⟨-a.v, a.e, a.k, a.bad⟩⟩
instance : Mul Tr := ⟨fun a b => ⟨a.v * b.v, a.e * b.e, a.k + b.k + 1, a.bad || b.bad⟩⟩
instance : Div Tr := ⟨fun a b =>
  if b.v = 0 then ⟨0, 0, 0, true⟩
  else ⟨a.v / b.v, a.e / rabs b.v + rabs a.v * b.e / (b.v * b.v), a.k + b.k + 2, a.bad || b.bad⟩⟩
def tol (a : Tr) : Rat := ((a.k + 4 : Nat) : Rat) * a.e / (4503599627370496 : Rat)
end Tr

def pTr : P Tr := do let q ← rat; pure (Tr.ofRat q)

def pFunc : P (Func Tr) := do
  let nb ← bool; let sc ← bool
  let dims ← list nat; let vs ← list nat; let c ← list pTr
  if c.length ≠ prod dims * prod vs then failure
  pure { nurbs := nb, dims := dims, vshape := vs, isscalar := sc, c := c }

def pInfo : P (Info Tr) := do
  let f ← nat; let v ← list (list pTr); pure { first := f, vals := v }

abbrev Table := List (List (List (Info Tr)))
def pTable : P Table := list (list (list pInfo))

def Table.B (T : Table) (d : Nat) (x : Nat × Nat) : Info Tr :=
  ((T.getD d []).getD x.1 []).getD x.2 default

def showEntries (l : List Tr) : String :=
  if l.any (·.bad) then "div0"
  else " ".intercalate (l.map (fun t => showRat t.v ++ " " ++ showRat t.tol))

def showArr (shape : List Nat) (l : List Tr) : String :=
  if l.any (·.bad) then "div0" else showNats shape ++ " | " ++ showEntries l

def showFunc (F : Func Tr) : String :=
  if F.c.any (·.bad) then "div0"
  else s!"F {if F.nurbs then 1 else 0} {if F.isscalar then 1 else 0} {showNats F.dims} {showNats F.vshape} | {showEntries F.c}"

/-- output shape of the function value -/
def outShape (F : Func Tr) : List Nat :=
  if F.nurbs then (if F.isscalar then [] else [F.ncomp - 1]) else F.vshape

/-- values at one node through a B-spline value/jac/hess provider, NURBS quotient applied if needed -/
def nodeVal (F : Func Tr) (val : Nat → Tr) : List Tr :=
  let vs := (List.range F.ncomp).map val
  if F.nurbs then nurbsValue vs else vs

def nodeJac (F : Func Tr) (val : Nat → Tr) (jac : Nat → List Tr) : List Tr :=
  let js := (List.range F.ncomp).map jac
  if F.nurbs then (nurbsJacobian ((List.range F.ncomp).map val) js).flatten else js.flatten

def gridNodes (lens : List Nat) : List (List Nat) :=
  (List.range (prod lens)).map (fun k => fromSeq k lens)

def request : P String := do
  let op ← tok
  match op with
  | "call" => do
      let F ← pFunc; let T ← pTable
      let S := F.toSpl
      let x : List (Nat × Nat) := (List.range S.sdim).map (fun e => (e, 0))
      pure (showArr (outShape F) (nodeVal F (S.call T.B x)))
  | "pweval" => do
      let F ← pFunc; let T ← pTable; let n ← nat
      let S := F.toSpl
      let out := (List.range n).flatMap (fun k =>
        nodeVal F (S.pwVal T.B ((List.range S.sdim).map (fun e => (e, k)))))
      pure (showArr (n :: outShape F) out)
  | "pwjac" => do
      let F ← pFunc; let T ← pTable; let n ← nat
      let S := F.toSpl
      let out := (List.range n).flatMap (fun k =>
        let pts := (List.range S.sdim).map (fun e => (e, k))
        nodeJac F (S.pwVal T.B pts) (S.pwJacRow T.B pts))
      pure (showArr (n :: outShape F ++ [S.sdim]) out)
  | "pwevaljac" => do
      -- bspline.tp_bsp_eval_with_jac_pointwise on the raw coefficient array
      let F ← pFunc; let T ← pTable; let n ← nat
      let S := F.toSpl
      let vals := (List.range n).flatMap (fun k =>
        (List.range F.ncomp).map (S.pwVal T.B ((List.range S.sdim).map (fun e => (e, k)))))
      let jacs := (List.range n).flatMap (fun k =>
        ((List.range F.ncomp).map (S.pwJacRow T.B ((List.range S.sdim).map (fun e => (e, k))))).flatten)
      pure (showArr (n :: F.vshape) vals ++ " ; " ++ showArr (n :: F.vshape ++ [S.sdim]) jacs)
  | "geval" | "gjac" | "ghess" => do
      let F ← pFunc; let T ← pTable
      let S := F.toSpl
      let lens := (List.range S.sdim).map (fun i => ((T.getD i []).getD i []).length)
      let nodes := gridNodes lens
      let ysOf := fun (g : List Nat) => (List.range S.sdim).map (fun i => (i, g.getD i 0))
      if op == "geval" then
        pure (showArr (lens ++ outShape F) (nodes.flatMap (fun g => nodeVal F (S.gridVal T.B (ysOf g)))))
      else if op == "gjac" then
        pure (showArr (lens ++ outShape F ++ [S.sdim])
          (nodes.flatMap (fun g => nodeJac F (S.gridVal T.B (ysOf g)) (S.gridJacRow T.B (ysOf g)))))
      else
        -- `assert np.isscalar(self.dim)` (B-spline); NURBS are scalar/vector by construction
        if (!F.nurbs) && F.vshape.length ≥ 2 then pure "err-AssertionError" else
        let nh := (S.sdim * (S.sdim + 1)) / 2
        if F.nurbs then
          pure (showArr (lens ++ outShape F ++ [nh]) (nodes.flatMap (fun g =>
            let ys := ysOf g
            (nurbsHessian S.sdim ((List.range F.ncomp).map (S.gridVal T.B ys))
              ((List.range F.ncomp).map (S.gridJacRow T.B ys))
              ((List.range F.ncomp).map (S.gridHessRow T.B ys))).flatten)))
        else
          -- `if self.dim == 1: out_shape = N + (n_hess,)` (dim==1 also for a trailing axis of length 1;
          -- the values are `.reshape(N)`d into it since 691cf06)
          let shp := if F.ncomp == 1 then lens ++ [nh] else lens ++ F.vshape ++ [nh]
          pure (showArr shp (nodes.flatMap (fun g =>
            ((List.range F.ncomp).map (S.gridHessRow T.B (ysOf g))).flatten)))
  | "bdcall" => do
      let F ← pFunc; let axis ← nat; let T ← pTable
      let S := F.toSpl
      let x : List (Nat × Nat) := (List.range (S.sdim - 1)).map (fun e => (e, 0))
      pure (showArr (outShape F) (nodeVal F (S.call T.B (bdEvalArgs x axis (S.sdim - 1, 0)))))
  | "bdgeval" | "bdgjac" => do
      let F ← pFunc; let axis ← nat; let T ← pTable
      let S := F.toSpl
      -- slots 0..sdim-2: grid axes of the boundary function (zyx), slot sdim-1: the fixed coordinate
      let slots := bdGridArgs (List.range (S.sdim - 1)) axis (S.sdim - 1)
      let lens := (List.range (S.sdim - 1)).map (fun e => ((T.getD (if e < axis then e else e + 1) []).getD e []).length)
      let nodes := gridNodes lens
      let ysOf := fun (g : List Nat) =>
        slots.map (fun e => (e, if e = S.sdim - 1 then 0 else g.getD e 0))
      if op == "bdgeval" then
        pure (showArr (lens ++ outShape F) (nodes.flatMap (fun g => nodeVal F (S.gridVal T.B (ysOf g)))))
      else
        let rowsOf := fun (g : List Nat) =>
          let js := (List.range F.ncomp).map (S.gridJacRow T.B (ysOf g))
          let js := if F.nurbs then nurbsJacobian ((List.range F.ncomp).map (S.gridVal T.B (ysOf g))) js else js
          (js.map (fun r => bdDropColumn r axis)).flatten
        pure (showArr (lens ++ outShape F ++ [S.sdim - 1]) (nodes.flatMap rowsOf))
  | "translate" => do
      let F ← pFunc; let off ← list pTr
      pure (showFunc (if F.nurbs then F.nurbsTranslate off else F.bspTranslate off))
  | "scale" => do
      let F ← pFunc; let fac ← list pTr
      pure (showFunc (if F.nurbs then F.nurbsScale fac else F.bspScale fac))
  | "applymat" => do
      let F ← pFunc; let A ← list (list pTr)
      pure (showFunc (if F.nurbs then F.nurbsApplyMatrix A else F.bspApplyMatrix A))
  | "applymatb" => do
      -- apply_matrix with an array of matrices: batch shape <ab>, then r, then the matrices in C order
      let F ← pFunc; let ab ← list nat; let r ← nat; let As ← list (list (list pTr))
      match broadcastShape F.dims ab with
      | some res =>
          if res == F.dims then
            pure (showFunc (if F.nurbs then F.nurbsApplyMatrixB As ab r else F.bspApplyMatrixB As ab r))
          else pure "err-AssertionError"     -- result has a larger control grid than the knot vectors
      | none => pure "err-ValueError"
  | "rotate" => do
      let F ← pFunc; let s ← pTr; let c ← pTr
      pure (showFunc (if F.nurbs then F.nurbsApplyMatrix (rot2 s c) else F.bspApplyMatrix (rot2 s c)))
  | "asnurbs" => do
      let F ← pFunc
      if F.nurbs then pure (showFunc F)
      else if F.vshape.length ≥ 2 then pure "err-AssertionError" else pure (showFunc F.bspAsNurbs)
  | "asvector" => do
      let F ← pFunc
      pure (showFunc (if F.nurbs then F.nurbsAsVector else F.bspAsVector))
  | "getitem" => do
      let F ← pFunc; let I ← nat
      pure (showFunc (if F.nurbs then F.nurbsGetItem I else F.bspGetItem I))
  | "getitems" => do
      let F ← pFunc; let Is ← list nat
      pure (showFunc (if F.nurbs then F.nurbsGetItems Is else F.bspGetItems Is))
  | "boundary" => do
      let F ← pFunc; let axis ← nat; let side ← nat
      match F.boundaryCoded axis side with
      | .ok R => pure (showFunc R)
      | .error e => pure e
  | "copy" => do let F ← pFunc; pure (showFunc F.copy)
  | "cw" => do
      let F ← pFunc
      let (C, W) := F.coeffsWeights
      pure (showArr (F.dims ++ [F.ncomp - 1]) C ++ " ; " ++ showArr F.dims W)
  | "osum" | "oprod" | "tprod" => do
      let G1 ← pFunc; let G2 ← pFunc
      let anyN := G1.nurbs || G2.nurbs
      -- tensor_product first converts scalars with as_vector
      let V1 := if op == "tprod" then (if G1.nurbs then G1.nurbsAsVector else G1.bspAsVector) else G1
      let V2 := if op == "tprod" then (if G2.nurbs then G2.nurbsAsVector else G2.bspAsVector) else G2
      let N1 := if anyN && !V1.nurbs then V1.bspAsNurbs else V1
      let N2 := if anyN && !V2.nurbs then V2.bspAsNurbs else V2
      -- value shapes of rank ≥ 2 (B-spline operands only): general numpy broadcasting
      if (!anyN) && op != "tprod" && (G1.vshape.length ≥ 2 || G2.vshape.length ≥ 2) then
        match (if op == "osum" then bspOuterG (· + ·) G1 G2 else bspOuterG (· * ·) G1 G2) with
        | .ok r => pure (showFunc r)
        | .error e => pure e
      else
      let r :=
        if op == "osum" then (if anyN then nurbsOuter (· + ·) N1 N2 else bspOuter (· + ·) N1 N2)
        else if op == "oprod" then (if anyN then nurbsOuter (· * ·) N1 N2 else bspOuter (· * ·) N1 N2)
        else (if anyN then nurbsTensor N1 N2 else bspTensor N1 N2)
      pure (showFunc r)
  | "lineseg" => do
      let x0 ← list pTr; let x1 ← list pTr; let S ← list pTr
      pure (showFunc (lineSegment x0 x1 S))
  | "arc" => do
      let cs ← list (pair pTr pTr); let w ← pTr; let r ← pTr
      pure (showFunc (circularArc cs w r))
  | "qannulus" => do
      let r1 ← pTr; let r2 ← pTr; let w ← pTr
      pure (showFunc (quarterAnnulus r1 r2 w))
  | "bdspec" => do
      let name ← tok
      let b ← (match name with
        | "left" => pure BdSpec.left | "right" => pure BdSpec.right
        | "bottom" => pure BdSpec.bottom | "top" => pure BdSpec.top
        | "front" => pure BdSpec.front | "back" => pure BdSpec.back
        | "pair" => do let a ← int; let s ← int; pure (BdSpec.pair a s)
        | _ => failure)
      let dim ← nat
      match parseBdspec b dim with
      | some (a, s) => pure s!"{a} {s}"
      | none => pure "err-ValueError"
  | "unitcube" => do
      let dim ← nat; let S ← list pTr
      pure (showFunc (unitCube dim S))
  | "identity" => do
      let ex ← list (pair pTr pTr)
      pure (showFunc (identityGeo ex))
  | "cylinderize" => do
      let F ← pFunc; let z0 ← pTr; let z1 ← pTr
      pure (showFunc (F.cylinderize z0 z1))
  | "flipud" => do
      let F ← pFunc
      pure (showFunc F.flipud)
  | "disk" => do
      -- disk(r): gR = circular_arc(pi/2); gL = flipud(copy) . scale(-1); gB, gT = rotate_2d(-pi/2); assemble
      let cs ← list (pair pTr pTr); let w ← pTr; let si ← pTr; let co ← pTr; let r ← pTr; let scaleR ← bool
      let gR := circularArc cs w 1
      let gL := (gR.copy.flipud).nurbsScale [-(1 : Tr)]
      let gB := gR.nurbsApplyMatrix (rot2 si co)
      let gT := gL.nurbsApplyMatrix (rot2 si co)
      pure (showFunc (diskAssemble gB.c gT.c gL.c gR.c (Tr.ofRat (1/2)) r scaleR))
  | "compgeval" => do
      -- ComposedFunction.grid_eval: geo2's scattered route at the points XY = geo1.grid_eval (inputs)
      let F2 ← pFunc; let T2 ← pTable; let shape ← list nat
      let S2 := F2.toSpl
      let n := prod shape
      let out := (List.range n).flatMap (fun k =>
        nodeVal F2 (composedVal S2 T2.B ((List.range S2.sdim).map (fun e => (e, k)))))
      pure (showArr (shape ++ outShape F2) out)
  | "compgjac" => do
      -- ComposedFunction.grid_jacobian: matmul(geo2.pointwise_jacobian(XY), geo1.grid_jacobian(grd))
      let F1 ← pFunc; let T1 ← pTable; let F2 ← pFunc; let T2 ← pTable
      let S1 := F1.toSpl; let S2 := F2.toSpl
      let lens := (List.range S1.sdim).map (fun i => ((T1.getD i []).getD i []).length)
      let nodes := gridNodes lens
      let jacM := fun (F : Func Tr) (val : Nat → Tr) (jac : Nat → List Tr) =>
        let js := (List.range F.ncomp).map jac
        if F.nurbs then nurbsJacobian ((List.range F.ncomp).map val) js else js
      let out := (nodes.zip (List.range nodes.length)).flatMap (fun (g, k) =>
        let ys := (List.range S1.sdim).map (fun i => (i, g.getD i 0))
        let jac1 := jacM F1 (S1.gridVal T1.B ys) (S1.gridJacRow T1.B ys)
        let pts := (List.range S2.sdim).map (fun e => (e, k))
        let jac2 := jacM F2 (S2.pwVal T2.B pts) (S2.pwJacRow T2.B pts)
        (composedJac jac2 jac1).flatten)
      pure (showArr (lens ++ outShape F2 ++ [S1.sdim]) out)
  | "hesspairs" => do
      let n ← nat
      pure (showPairs (hessPairs n) ++ " ; " ++ showPairs (triu n))
  | _ => failure

def handle (line : String) : String :=
  match runLine request line with
  | some s => s
  | none => "bad-request"

def main : IO Unit := mainLoop handle
