/-
Driver for the correspondence stream `hasm` (property C03).  Requests:

  hasm <space> disp sym trunc <nbr> <A>   -> <ilx> | <toAssemble> | <neighborsCan> | <matrix>
  hfun <space> trunc <b>                  -> rat list

<space> as in Drivers/C05; disp = -1 for inf; <nbr> = list (per k) of lists (per lv) of raveled
index lists; <A> = list (per level) of sparse matrices `m n nnz (i j v)*`; <b> = list of rat lists.
The final matrix is obtained by summing the model's COO triples (duplicates added), then
`Tᵀ · T` for `trunc`.
-/
import Pyiga.Proto
import Pyiga.Model.HAssemble

open Pyiga Pyiga.Proto Pyiga.Transfer Pyiga.HAsm

def pMat : P (Mat Rat) := do
  let m ← nat; let n ← nat
  let trip ← list (do let i ← nat; let j ← nat; let v ← rat; pure (i, j, v))
  let base : Array (Array Rat) := Array.replicate m (Array.replicate n 0)
  let arr := trip.foldl (fun (a : Array (Array Rat)) (t : Nat × Nat × Rat) =>
      a.modify t.1 (fun row => row.setIfInBounds t.2.1 t.2.2)) base
  pure ⟨m, n, fun i j => (arr.getD i #[]).getD j 0⟩

def pSpace : P (HSp Rat) := do
  let L ← nat
  let rec lv : Nat → List Nat → List (List Nat) → List (List Nat) → P (List Nat × List (List Nat) × List (List Nat))
    | 0, N, IA, ID => pure (N.reverse, IA.reverse, ID.reverse)
    | k + 1, N, IA, ID => do
        let n ← nat; let a ← list nat; let d ← list nat
        lv k (n :: N) (a :: IA) (d :: ID)
  let (N, IA, ID) ← lv L [] [] []
  let rec ts : Nat → List (Mat Rat) → P (List (Mat Rat))
    | 0, acc => pure acc.reverse
    | k + 1, acc => do
        let fs ← list pMat
        ts k ((Mat.multiKron fs).freeze :: acc)
  let T ← ts (L - 1) []
  pure { N := N, IA := IA, ID := ID, T := T }

def showMat (A : Mat Rat) : String := Id.run do
  let mut parts : Array String := #[]
  let mut cnt := 0
  for i in [0:A.m] do
    for j in [0:A.n] do
      let v := A.f i j
      if v ≠ 0 then
        parts := parts.push s!"{i},{j},{showRat v}"
        cnt := cnt + 1
  return s!"{A.m} {A.n} {cnt}" ++ (if cnt = 0 then "" else " " ++ " ".intercalate parts.toList)

/-- COO → dense with duplicate summation -/
def ofTriples (n : Nat) (tr : List (Nat × Nat × Rat)) : Mat Rat :=
  let base : Array (Array Rat) := Array.replicate n (Array.replicate n 0)
  let arr := tr.foldl (fun (a : Array (Array Rat)) (t : Nat × Nat × Rat) =>
      a.modify t.1 (fun row => row.modify t.2.1 (· + t.2.2))) base
  ⟨n, n, fun i j => (arr.getD i #[]).getD j 0⟩

def request : P String := do
  let op ← tok
  match op with
  | "hasm" => do
      let H ← pSpace; let d ← int; let sym ← bool; let tr ← bool
      let nbr ← list (list (list nat)); let A ← list pMat
      let X : Input Rat := { H := H, disparity := if d < 0 then none else some d.toNat, nbr := nbr, A := A, symmetric := sym }
      let L := H.numlevels
      let ilx := (List.range L).map X.interlevelIx
      let ta := (List.range L).map X.toAssemble
      let nb := (List.range L).map X.neighborsCan
      let Ahb := ofTriples H.numdofs X.cooTriples
      let M := X.assembleWith Ahb tr
      pure (" | ".intercalate [showList showNats ilx, showList showNats ta, showList showNats nb, showMat M])
  | "hfun" => do
      let H ← pSpace; let tr ← bool; let b ← list (list rat)
      let X : Input Rat := { H := H, disparity := none, nbr := [], A := [], symmetric := false }
      pure (showRats (X.functional b tr))
  | _ => failure

def handle (line : String) : String :=
  match runLine request line with
  | some s => s
  | none => "bad-request"

def main : IO Unit := mainLoop handle
