/-
Driver for the correspondence stream `hasm` (property C03).  Requests:

  hasm <space> disp sym trunc <nbr> <A>   -> <ilx> | <toAssemble> | <neighborsCan> | <matrix>
  hfun <space> trunc <b>                  -> rat list

<space> as in Drivers/C05; disp = -1 for inf; <nbr> = list (per k) of lists (per lv) of raveled
index lists; <A> = list (per level) of sparse matrices `m n nnz (i j v)*`; <b> = list of rat lists.
The final matrix is obtained by summing the model's COO triples (duplicates added), then
`Tᵀ · T` for `trunc`.
-/
import Pyiga.Proto
import Pyiga.Model.HAssemble

open Pyiga Pyiga.Proto Pyiga.Transfer Pyiga.HAsm

def pMat : P (Mat Rat) := do
  let m ← nat; let n ← nat
  let trip ← list (do let i ← nat; let j ← nat; let v ← rat; pure (i, j, v))
  let base : Array (Array Rat) := Array.replicate m (Array.replicate n 0)
  let arr := trip.foldl (fun (a : Array (Array Rat)) (t : Nat × Nat × Rat) =>
      a.modify t.1 (fun row => row.setIfInBounds t.2.1 t.2.2)) base
  pure ⟨m, n, fun i j => (arr.getD i #[]).getD j 0⟩

def pSpace : P (HSp Rat) := do
  let L ← nat
  let rec lv : Nat → List Nat → List (List Nat) → List (List Nat) → P (List Nat × List (List Nat) × List (List Nat))
    | 0, N, IA, ID => pure (N.reverse, IA.reverse, ID.reverse)
    | k + 1, N, IA, ID => do
        let n ← nat; let a ← list nat; let d ← list nat
        lv k (n :: N) (a :: IA) (d :: ID)
  let (N, IA, ID) ← lv L [] [] []
  let rec ts : Nat → List (Mat Rat) → P (List (Mat Rat))
    | 0, acc => pure acc.reverse
    | k + 1, acc => do
        let fs ← list pMat
        ts k ((Mat.multiKron fs).freeze :: acc)
  let T ← ts (L - 1) []
  pure { N := N, IA := IA, ID := ID, T := T }

def showMat (A : Mat Rat) : String := Id.run do
  let mut parts : Array String := #[]
  let mut cnt := 0
  for i in [0:A.m] do
    for j in [0:A.n] do
      let v := A.f i j
      if v ≠ 0 then
        parts := parts.push s!"{i},{j},{showRat v}"
        cnt := cnt + 1
  return s!"{A.m} {A.n} {cnt}" ++ (if cnt = 0 then "" else " " ++ " ".intercalate parts.toList)

/-- COO → dense with duplicate summation -/
def ofTriples (n : Nat) (tr : List (Nat × Nat × Rat)) : Mat Rat :=
  let base : Array (Array Rat) := Array.replicate n (Array.replicate n 0)
  let arr := tr.foldl (fun (a : Array (Array Rat)) (t : Nat × Nat × Rat) =>
      a.modify t.1 (fun row => row.modify t.2.1 (· + t.2.2))) base
  ⟨n, n, fun i j => (arr.getD i #[]).getD j 0⟩

/-! ### execution device: sparse tabulation of `represent_fine(lv=k, truncate=False, rows=…)`

The model's `representFine` multiplies the (partial) identity of size `N_k` with the dense
prolongation: `N_k² · N_{k-1}` exact additions per level, which is what makes large 2-D histories
slow.  The driver tabulates the same matrix with sparse rows (arrays) and hands it to the model's
`levelBlocksWith`; on moderate sizes it is compared entry by entry with `representFine` (a mismatch
is answered with `driver-fastpath-mismatch`, never silently used). -/

abbrev SpRow := Array (Nat × Rat)

/-- number of active functions on levels `< k` (column offset of block `k`) -/
def Pyiga.Transfer.HSp.ntb' (H : HSp Rat) (k : Nat) : Nat := if k = 0 then 0 else H.nt (k - 1)

def toSparseRows (A : Mat Rat) : Array SpRow :=
  (Array.range A.m).map fun i => Id.run do
    let mut row : SpRow := #[]
    for j in [0:A.n] do
      let v := A.f i j
      if v ≠ 0 then row := row.push (j, v)
    return row

/-- sparse `P · T` for sparse rows `P` (columns index rows of `T`) -/
def spMul (P : Array SpRow) (T : Array SpRow) (ncols : Nat) : Array SpRow :=
  P.map fun prow => Id.run do
    if prow.isEmpty then return #[]
    let mut acc : Array Rat := Array.replicate ncols 0
    let mut touched : Array Nat := #[]
    for (c, v) in prow do
      for (c2, t) in T.getD c #[] do
        if acc.getD c2 0 == 0 then touched := touched.push c2
        acc := acc.modify c2 (· + v * t)
    let cols := touched.qsort (· < ·)
    let mut out : SpRow := #[]
    let mut last : Option Nat := none
    for c2 in cols do
      if last != some c2 then
        let v := acc.getD c2 0
        if v ≠ 0 then out := out.push (c2, v)
        last := some c2
    return out

/-- sparse tabulation of `H.representFine lv false (some rows) false` -/
def repFineFast (H : HSp Rat) (lv : Nat) (rows : List Nat) : Mat Rat := Id.run do
  let N := H.Nl lv
  let ncols := H.ntb' lv + (H.ir lv).length
  let inv := invArr N rows
  let mut P : Array SpRow := (Array.range N).map fun i => if (pos? inv i).isSome then #[(i, 1)] else #[]
  let mut out : Array (Array Rat) := Array.replicate N (Array.replicate ncols 0)
  let mut k := lv
  let mut fuel := lv + 1
  while fuel > 0 do
    fuel := fuel - 1
    -- block k: columns `actv lv k` at offset `ntb k`
    let cols := H.actv lv k
    let cinv := invArr (H.Nl k) cols
    let off := H.ntb' k
    for i in [0:N] do
      for (c, v) in P.getD i #[] do
        match pos? cinv c with
        | some q => out := out.modify i (fun r => r.setIfInBounds (off + q) v)
        | none => pure ()
    if k = 0 then fuel := 0
    else
      let T := toSparseRows (H.Tl (k - 1))
      P := spMul P T (H.Nl (k - 1))
      k := k - 1
  let arr := out
  return ⟨N, ncols, fun i j => (arr.getD i #[]).getD j 0⟩

def matEqOn (A B : Mat Rat) : Bool :=
  A.m == B.m && A.n == B.n && (List.range A.m).all fun i => (List.range A.n).all fun j => A.f i j == B.f i j

def request : P String := do
  let op ← tok
  match op with
  | "hasm" => do
      let H ← pSpace; let d ← int; let sym ← bool; let tr ← bool
      let nbr ← list (list (list nat)); let A ← list pMat
      let X : Input Rat := { H := H, disparity := if d < 0 then none else some d.toNat, nbr := nbr, A := A, symmetric := sym }
      let L := H.numlevels
      let ilx := (List.range L).map X.interlevelIx
      let ta := (List.range L).map X.toAssemble
      let nb := (List.range L).map X.neighborsCan
      -- representation matrices per level: sparse tabulation, cross-checked against the model on moderate sizes
      let Is := (List.range L).map fun k => repFineFast H k (ta.getD k [])
      let okFast := (List.range L).all fun k =>
        let cost := H.Nl k * H.Nl k * (if k = 0 then 1 else H.Nl (k - 1))
        if cost ≤ 4000000 then matEqOn (Is.getD k (Mat.zero 0 0)) (H.representFine k false (some (ta.getD k [])) false).freeze else true
      if !okFast then pure "driver-fastpath-mismatch" else
      let IsArr := Is.toArray
      let Ahb := ofTriples H.numdofs (X.cooTriplesWith fun k => IsArr.getD k (Mat.zero 0 0))
      let M := X.assembleWith Ahb tr
      pure (" | ".intercalate [showList showNats ilx, showList showNats ta, showList showNats nb, showMat M])
  | "hfun" => do
      let H ← pSpace; let tr ← bool; let b ← list (list rat)
      let X : Input Rat := { H := H, disparity := none, nbr := [], A := [], symmetric := false }
      pure (showRats (X.functional b tr))
  | _ => failure

def handle (line : String) : String :=
  match runLine request line with
  | some s => s
  | none => "bad-request"

def main : IO Unit := mainLoop handle
