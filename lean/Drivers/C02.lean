/-
Driver for correspondence stream `bsp` (property C02).  Requests (lists length-prefixed,
numbers exact rationals of the doubles the implementation used / returned):

  rows p nd <kv> <nodes> <sets>     set = `nd_i <idx_i> <vals_i>`, vals_i = result[k][node][r] flattened, k ≤ nd_i ≤ nd
      -> `idx=<first active index per node> sets=<verdict per set> spec=ok|bad:i`
      The literal A2.3 model is evaluated once per node over `RE` (exact value + running error bound of
      the same recursion); a set's verdict is `ok` iff its indices equal the model's and every double
      lies within its bound, else `badidx:i` / `bad:i,k,r,model,bound,got`.
      `spec=ok` iff the *exact* A2.3 output equals the Cox-de Boor / derivative recursion
      (`dcoxS`, memoised; additionally the naive recursion for p ≤ 5) for every k, r.
  single p <kv> <nodes> <fns>       fn = `i <vals>`  -> `sets=<verdicts> spec=ok|bad:…`   (`single_ev`)
  spl p <kv> <coeffs> <nodes> <sets>   set = `f k <vals>`
      -> `sets=<verdicts>`   Σ_r c[fa+r]·result[k][r] over RE, bound scaled by `f`
  tp2 p1 <kv1> p2 <kv2> <coeffs> <x1> <x2> <sets>   set = `f k1 k2 <vals>`
      -> `sets=<verdicts>`  tensor-product grid evaluation (axis 0 ↔ kv1), derivative orders k1,k2
  exact p nd <kv> u                    -> the exact model rows as rationals (debugging / replay)
-/
import Pyiga.Proto
import Pyiga.Model.BSpline

open Pyiga Pyiga.Proto Pyiga.Knots Pyiga.BSpline

def accR (kv : List Rat) : Nat → Rat := let a := kv.toArray; fun i => a.getD i 0
def accE (kv : List Rat) : Nat → RE := let a := (kv.map RE.exact).toArray; fun i => a.getD i 0

def chunk (l : List α) (k : Nat) : List (List α) :=
  if k = 0 then [] else
  let rec go (fuel : Nat) (l : List α) (acc : List (List α)) : List (List α) :=
    match fuel with
    | 0 => acc.reverse
    | f + 1 => if l.isEmpty then acc.reverse else go f (l.drop k) (l.take k :: acc)
  go (l.length + 1) l []

/-- first mismatch between model rows (k × r) and implementation doubles -/
def firstBad (m : List (List RE)) (x : List (List Rat)) : Option String := Id.run do
  let mut k := 0
  for (mr, xr) in m.zip x do
    let mut r := 0
    for (mv, xv) in mr.zip xr do
      if !(mv.accepts xv) then
        return some s!"{k},{r},{showRat mv.v},{showRat mv.e},{showRat xv}"
      r := r + 1
    if mr.length ≠ xr.length then return some s!"{k},len"
    k := k + 1
  if m.length ≠ x.length then return some "rows"
  return none

/-- bottom-up (memoised) evaluation of the specification recursion `dcoxS` (the naive recursion is
exponential in `p`): `tbl[q][j]` holds `dcoxS t s u j q i` for `i = s-q .. s`; outside that window the
recursion is `0` (theorem `dN_local_support`). -/
def lookup (tbl : Array (Array (Array Rat))) (s q j i : Nat) : Rat :=
  if i + q < s ∨ i > s then 0 else ((tbl.getD q #[]).getD j #[]).getD (i - (s - q)) 0

def specTable (t : Nat → Rat) (s p nd : Nat) (u : Rat) : Array (Array (Array Rat)) :=
  (List.range p).foldl (fun tbl q =>
      let lvl := (List.range (nd + 1)).toArray.map (fun j =>
        (List.range (q + 2)).toArray.map (fun w =>
          let i := s - (q + 1) + w
          if j = 0 then
            (u - t i) / (t (i + q + 1) - t i) * lookup tbl s q 0 i
              + (t (i + q + 2) - u) / (t (i + q + 2) - t (i + 1)) * lookup tbl s q 0 (i + 1)
          else
            ((q + 1 : Nat) : Rat) * (lookup tbl s q (j - 1) i / (t (i + q + 1) - t i)
              - lookup tbl s q (j - 1) (i + 1) / (t (i + q + 2) - t (i + 1)))))
      tbl.push lvl)
    #[(List.range (nd + 1)).toArray.map (fun j => #[if j = 0 then 1 else 0])]

def specRows (t : Nat → Rat) (s p nd : Nat) (u : Rat) : List (List Rat) :=
  let tbl := specTable t s p nd u
  (List.range (nd + 1)).map (fun k => (List.range (p + 1)).map (fun r => lookup tbl s p k (s - p + r)))

/-- the naive recursion itself (used for small degrees to cross-check the memoised table) -/
def specRowsNaive (t : Nat → Rat) (s p nd : Nat) (u : Rat) : List (List Rat) :=
  (List.range (nd + 1)).map (fun k => (List.range (p + 1)).map (fun r => dcoxS t s u k p (s - p + r)))

/-- one value set of a `rows` request: derivative orders `0..nd`, the route's own first-active
indices, values `[k][node][r]` -/
def pRowSet (m p : Nat) : P (Nat × List Int × List Rat) := do
  let nd ← nat; let idx ← list int; let vals ← list rat
  if vals.length ≠ (nd + 1) * m * (p + 1) then failure
  pure (nd, idx, vals)

def request : P String := do
  let op ← tok
  match op with
  | "rows" => do
      let p ← nat; let nd ← nat; let kv ← list rat; let nodes ← list rat
      let n := kv.length
      let m := nodes.length
      let sets ← list (pRowSet m p)
      if sets.any (fun st => st.1 > nd) then failure
      let tR := accR kv; let tE := accE kv
      let setsA := sets.toArray.map (fun st => (st.1, st.2.1, chunk st.2.2 (m * (p + 1))))
      let mut verdict : Array String := setsA.map (fun _ => "ok")
      let mut idx : List Int := []
      let mut sres := "ok"
      let mut i := 0
      for u in nodes do
        let s := findspan tR n p u
        let fa := firstActive p s
        idx := fa :: idx
        let mE := activeDeriv tE n p (RE.exact u) nd
        let mut q := 0
        for (ndq, idxq, byK) in setsA do
          if verdict[q]! == "ok" then
            if idxq.getD i (-1) ≠ fa ∨ idxq.length ≠ m then
              verdict := verdict.set! q s!"badidx:{i}"
            else
              let xi := byK.map (fun blk => (blk.drop (i * (p + 1))).take (p + 1))
              match firstBad (mE.take (ndq + 1)) xi with
              | some b => verdict := verdict.set! q s!"bad:{i},{b}"
              | none => pure ()
          q := q + 1
        if sres == "ok" then
          let mR := activeDeriv tR n p u nd
          if mR ≠ specRows tR s p nd u then sres := s!"bad:{i}"
          else if p ≤ 5 ∧ mR ≠ specRowsNaive tR s p nd u then sres := s!"bad-naive:{i}"
        i := i + 1
      pure s!"idx={showInts idx.reverse} sets={" ".intercalate verdict.toList} spec={sres}"
  | "single" => do
      let p ← nat; let kv ← list rat; let nodes ← list rat
      let fns ← list (pair nat (list rat))
      let n := kv.length
      let tR := accR kv; let tE := accE kv
      let mut vres : List String := []
      let mut sres := "ok"
      for (i, vals) in fns do
        if vals.length ≠ nodes.length then failure
        let mut v := "ok"
        let mut c := 0
        for (u, x) in nodes.zip vals do
          -- branch decisions of the model are taken on exact values (RE order/equality instances)
          let mR := singleEv tR n p i u
          if sres == "ok" then
            let s := findspan tR n p u
            if mR ≠ lookup (specTable tR s p 0 u) s p 0 i then sres := s!"bad:{i},{c}"
            else if p ≤ 6 ∧ mR ≠ coxS tR s u p i then sres := s!"bad-naive:{i},{c}"
          let mE := singleEv tE n p i (RE.exact u)
          if v == "ok" && !(mE.accepts x) then
            v := s!"bad:{i},{c},{showRat mE.v},{showRat mE.e},{showRat x}"
          c := c + 1
        vres := v :: vres
      pure s!"sets={" ".intercalate vres.reverse} spec={sres}"
  | "spl" => do
      let p ← nat; let kv ← list rat; let cs ← list rat; let nodes ← list rat
      let sets ← list (do let f ← nat; let k ← nat; let vals ← list rat; pure (f, k, vals))
      if sets.any (fun st => st.2.2.length ≠ nodes.length) then failure
      let kmax := sets.foldl (fun a st => max a st.2.1) 0
      let n := kv.length
      let tR := accR kv; let tE := accE kv
      let cE := (cs.map RE.exact).toArray
      let setsA := sets.toArray
      let mut verdict : Array String := setsA.map (fun _ => "ok")
      let mut c := 0
      for u in nodes do
        let s := findspan tR n p u
        let rows := activeDeriv tE n p (RE.exact u) kmax
        let mut q := 0
        for (f, k, vals) in setsA do
          if verdict[q]! == "ok" then
            let mut acc : RE := 0
            let mut r := 0
            for b in rows.getD k [] do
              acc := acc + cE.getD (s - p + r) 0 * b
              r := r + 1
            let mE : RE := { acc with e := (f : Rat) * acc.e }
            let x := vals.getD c 0
            if !(mE.accepts x) then
              verdict := verdict.set! q s!"bad:{c},{showRat mE.v},{showRat mE.e},{showRat x}"
          q := q + 1
        c := c + 1
      pure s!"sets={" ".intercalate verdict.toList}"
  | "tp2" => do
      let p1 ← nat; let kv1 ← list rat; let p2 ← nat; let kv2 ← list rat
      let cs ← list rat
      let x1 ← list rat; let x2 ← list rat
      let sets ← list (do let f ← nat; let k1 ← nat; let k2 ← nat; let vals ← list rat; pure (f, k1, k2, vals))
      if sets.any (fun st => st.2.2.2.length ≠ x1.length * x2.length) then failure
      let k1max := sets.foldl (fun a st => max a st.2.1) 0
      let k2max := sets.foldl (fun a st => max a st.2.2.1) 0
      let n1 := kv1.length; let n2 := kv2.length
      let nd2 := n2 - p2 - 1
      let t1R := accR kv1; let t1E := accE kv1
      let t2R := accR kv2; let t2E := accE kv2
      let cE := (cs.map RE.exact).toArray
      let rows2 := x2.map (fun u => (findspan t2R n2 p2 u, activeDeriv t2E n2 p2 (RE.exact u) k2max))
      let setsA := sets.toArray
      let mut verdict : Array String := setsA.map (fun _ => "ok")
      let mut c := 0
      for u in x1 do
        let s1 := findspan t1R n1 p1 u
        let rows1 := activeDeriv t1E n1 p1 (RE.exact u) k1max
        for (s2, r2s) in rows2 do
          let mut q := 0
          for (f, k1, k2, vals) in setsA do
            if verdict[q]! == "ok" then
              let mut acc : RE := 0
              let mut r1 := 0
              for b1 in rows1.getD k1 [] do
                let mut inner : RE := 0
                let mut r2 := 0
                for b2 in r2s.getD k2 [] do
                  inner := inner + cE.getD ((s1 - p1 + r1) * nd2 + (s2 - p2 + r2)) 0 * b2
                  r2 := r2 + 1
                acc := acc + b1 * inner
                r1 := r1 + 1
              let mE : RE := { acc with e := (f : Rat) * acc.e }
              let x := vals.getD c 0
              if !(mE.accepts x) then
                verdict := verdict.set! q s!"bad:{c},{showRat mE.v},{showRat mE.e},{showRat x}"
            q := q + 1
          c := c + 1
      pure s!"sets={" ".intercalate verdict.toList}"
  | "exact" => do
      let p ← nat; let nd ← nat; let kv ← list rat; let u ← rat
      let rows := activeDeriv (accR kv) kv.length p u nd
      pure (" | ".intercalate (rows.map showRats))
  | _ => failure

def handle (line : String) : String :=
  match runLine request line with
  | some s => s
  | none => "bad-request"

def main : IO Unit := mainLoop handle
