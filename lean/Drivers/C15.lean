/-
Driver for correspondence stream `ml` (property C15).  Requests:

  toseq   <I> <dims>                      -> nat
  fromseq <i> <dims>                      -> list
  rfr     i j m1 n1 m2 n2                 -> "a b"      (reindex_from_reordered)
  r2ml    i j <bs>                        -> list       (reindex_to_multilevel)
  rfml    <M> <bs>                        -> "a b"      (reindex_from_multilevel)
  nonzero <lower> <bs> <bidx>             -> pairs | err-assertion   (MLStructure.nonzero)
  nznd    <lower> <bs> <bidx>             -> pairs                  (ml_nonzero_nd directly)
  rows    <bs> <bidx> <R>                 -> triples
  cols    <bs> <bidx> <C>                 -> pairs
  tidx    <pattern>                       -> list (-1 = missing)
  banded  n bw                            -> pairs
  dense   m n                             -> pairs
  spars   <ms1> <ms2>                     -> pairs
  matvec  <bs> <bidx> <data> <x>          -> ints
  asmat   <bs> <bidx> <data>              -> triples
  rav     <arrays> <dims>                 -> list
  sbidx   <bs> <bidx>                     -> list of nat lists (sequential_bidx)
  gent    <bs> <bidx> <list of μ>         -> pairs     (positions asked by ReorderedTensorGenerator)
  gent2   <bs> <bidx> <pairs (i,j)>       -> pairs     (positions asked by ReorderedMatrixGenerator, L = 2)
  kronp   <restrict> <As> <rows>          -> triples   (utils.kron_partial; A = m n <list of i j v>)
where <bs>, a pattern = length-prefixed list of `a b` pairs, <bidx> = list of patterns.
`asCoded` for the nd odometer is chosen by the first token suffix: `nonzero!`/`nznd!` = as in the
pinned source (bidx_ptr[0][1]); without `!` the repaired initialisation.
-/
import Pyiga.Proto
import Pyiga.Model.MLMatrix

open Pyiga Pyiga.Proto Pyiga.Index Pyiga.ML

def pPairs : P (List (Nat × Nat)) := list (pair nat nat)
def pStruct : P MLStructure := do
  let bs ← pPairs
  let bidx ← list pPairs
  pure { bs := bs, bidx := bidx }

def showTriples (l : List (Nat × Nat × Nat)) : String :=
  showList (fun (t : Nat × Nat × Nat) => s!"{t.1},{t.2.1},{t.2.2}") l

def request : P String := do
  let op ← tok
  match op with
  | "toseq" => do
      let I ← list nat; let d ← list nat
      if I.length ≠ d.length then failure
      pure (toString (toSeq I d))
  | "fromseq" => do let i ← nat; let d ← list nat; pure (showNats (fromSeq i d))
  | "rfr" => do
      let i ← nat; let j ← nat; let m1 ← nat; let n1 ← nat; let m2 ← nat; let n2 ← nat
      if n1 = 0 || n2 = 0 then failure
      let r := reindexFromReordered i j m1 n1 m2 n2
      pure s!"{r.1} {r.2}"
  | "r2ml" => do let i ← nat; let j ← nat; let bs ← pPairs; pure (showNats (reindexToMultilevel i j bs))
  | "rfml" => do
      let M ← list nat; let bs ← pPairs
      let r := reindexFromMultilevel M bs
      pure s!"{r.1} {r.2}"
  | "nonzero" | "nonzero!" => do
      let lower ← bool; let S ← pStruct
      match S.nonzero lower (op == "nonzero!") with
      | .ok l => pure (showPairs l)
      | .error _ => pure "err-assertion"
  | "nznd" | "nznd!" => do
      let lower ← bool; let S ← pStruct
      pure (showPairs (nonzeroNd S lower (op == "nznd!")))
  | "spec" => do
      let lower ← bool; let S ← pStruct
      pure (showPairs (S.nonzeroSpec lower))
  | "sbidx" | "sbidx!" => do
      let S ← pStruct
      pure (showList showNats (S.sequentialBidx (op == "sbidx!")))
  | "gent" | "gent!" => do
      let S ← pStruct; let mus ← list (list nat)
      pure (showPairs (mus.map (S.generatorEntry (op == "gent!"))))
  | "gent2" | "gent2!" => do
      let S ← pStruct; let ijs ← pPairs
      if S.bs.length ≠ 2 then pure "err-assertion" else
      pure (showPairs (ijs.map (fun ij => S.generatorEntry2 (op == "gent2!") ij.1 ij.2)))
  | "rows" => do let S ← pStruct; let R ← list nat; pure (showTriples (S.nonzerosForRows R))
  | "cols" => do let S ← pStruct; let C ← list nat; pure (showPairs (S.nonzerosForColumns C))
  | "tidx" => do
      let b ← pPairs
      pure (showList (fun (o : Option Nat) => match o with | some k => toString k | none => "-1") (transposeIdx b))
  | "banded" => do let n ← nat; let bw ← nat; pure (showPairs (bandedIJ n bw))
  | "dense" => do let m ← nat; let n ← nat; pure (showPairs (denseIJ m n))
  | "spars" => do let a ← pPairs; let b ← pPairs; pure (showPairs (sparsityIJ a b))
  | "matvec" => do
      let S ← pStruct; let d ← list int; let x ← list int
      pure (showInts (S.matvecImpl d x))
  | "asmat" => do
      let S ← pStruct; let d ← list int
      pure (showList (fun (t : Nat × Nat × Int) => s!"{t.1},{t.2.1},{t.2.2}") (S.asmatrix d))
  | "kronp" => do
      let restrict ← bool
      let As ← list (do let m ← nat; let n ← nat; let e ← list (do let i ← nat; let j ← nat; let v ← int; pure (i, j, v)); pure ({ m := m, n := n, ent := e } : SpMat))
      let rows ← list nat
      pure (showList (fun (t : Nat × Nat × Int) => s!"{t.1},{t.2.1},{t.2.2}") (kronPartial As rows restrict))
  | "rav" => do let a ← list (list nat); let d ← list nat; pure (showNats (ravCart a d))
  | _ => failure

def handle (line : String) : String :=
  match runLine request line with
  | some s => s
  | none => "bad-request"

def main : IO Unit := mainLoop handle
