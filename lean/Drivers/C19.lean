/-
Driver for correspondence stream `kv` (property C19).  Requests:

  mkd p a b n mult          -> the discrete part only
  mk p a b n mult <kv>      -> `len=… spans=… dofs=… mults=<list> vals=ok|bad:i,model,bound,got`
        discrete facts from the exact (`Rat`) `makeKnots`; every implementation knot must lie
        within the running error bound of `i*((b-a)/n)+a` (end knots: bound 0, i.e. exactly a, b)
  q p <kv>                  -> `mesh=<rats> k2m=<nats> spans=… dofs=… msia=<pairs> msi=<nats> supp=<pairs>`
  supp p <kv>               -> `all=lo,hi j=<lo,hi per basis function>`  (support() and support(j), j = 0..numdofs-1)
  fs p <kv> <us>            -> `<spans> <first_active>`
  grev p <kv> <vals>        -> `n=… vals=ok|bad:… dom=ok|bad:i`   (dom: the model's value is in [kv[0],kv[-1]])
  refw <kv> <new>           -> `<rats>`  (sorted union, exact)
  refu <kv> <vals>          -> `n=… spans=… vals=ok|bad:…`
  eq p1 <kv1> p2 <kv2> atol rtol -> `1|0|edge`  (`__eq__` as it is now: allclose in both directions;
        edge: some component within 2⁻³⁰ relative of a threshold; `eq-former`: the one-directional predicate)
  dspl p <kv> <coeffs> <vals> <us>
        -> `kv=<rats> p=… vals=ok|bad:… ident=ok|bad:i`
        ident: Σ d_i N_{i,p-1}(u) on the shortened knot vector = Σ c_i N'_{i,p}(u), exactly, at every u
-/
import Pyiga.Proto
import Pyiga.Model.BSpline

open Pyiga Pyiga.Proto Pyiga.Knots Pyiga.BSpline

def accR (kv : List Rat) : Nat → Rat := let a := kv.toArray; fun i => a.getD i 0

def cmpVals (m : List RE) (x : List Rat) : String := Id.run do
  if m.length ≠ x.length then return s!"bad:len,{m.length},{x.length}"
  let mut i := 0
  for (mv, xv) in m.zip x do
    if !(mv.accepts xv) then
      return s!"bad:{i},{showRat mv.v},{showRat mv.e},{showRat xv}"
    i := i + 1
  return "ok"

/-- run-length coding `[v1,c1,v2,c2,…]` (keeps the answer lines short) -/
def rle : List Nat → List Nat
  | [] => []
  | x :: xs =>
    let rec go (v c : Nat) : List Nat → List Nat
      | [] => [v, c]
      | y :: ys => if y = v then go v (c + 1) ys else v :: c :: go y 1 ys
    go x 1 xs

def request : P String := do
  let op ← tok
  match op with
  | "mkd" => do
      let p ← nat; let a ← rat; let b ← rat; let n ← nat; let mult ← nat
      if n = 0 then failure
      let ex : List Rat := makeKnots p a b n mult
      pure s!"len={ex.length} spans={numspans ex} dofs={numdofs ex p} mults={showNats (rle (mults ex))}"
  | "mk" => do
      let p ← nat; let a ← rat; let b ← rat; let n ← nat; let mult ← nat; let kv ← list rat
      if n = 0 then failure
      let ex : List Rat := makeKnots p a b n mult
      let er : List RE := makeKnots p (RE.exact a) (RE.exact b) n mult
      pure s!"len={ex.length} spans={numspans ex} dofs={numdofs ex p} mults={showNats (rle (mults ex))} vals={cmpVals er kv}"
  | "q" => do
      let p ← nat; let kv ← list rat
      let k2m := knotsToMesh kv
      let nd := numdofs kv p
      pure s!"mesh={showRats (mesh kv)} k2m={showNats k2m} spans={numspans kv} dofs={nd} msia={showPairs (meshSupportIdxAll k2m p nd)} msi={showNats (meshSpanIndices k2m)} supp={showPairs ((List.range nd).map (meshSupportIdx k2m p))}"
  | "fs" => do
      let p ← nat; let kv ← list rat; let us ← list rat
      let t := accR kv
      let s := findspans t kv.length p us
      pure s!"{showNats s} {showInts (s.map (firstActive p))}"
  | "grev" => do
      let p ← nat; let kv ← list rat; let vals ← list rat
      let ex : List Rat := greville kv p
      let er : List RE := greville (kv.map RE.exact) p
      let lo := getK kv 0; let hi := getK kv (kv.length - 1)
      let dom := match (ex.zipIdx.find? (fun (g, _) => g < lo ∨ hi < g)) with
        | some (_, i) => s!"bad:{i}"
        | none => "ok"
      pure s!"n={ex.length} vals={cmpVals er vals} dom={dom}"
  | "supp" => do
      -- `KnotVector.support()` (whole vector) and `support(j)` for every basis function j = 0 .. numdofs-1
      let p ← nat; let kv ← list rat
      let nd := numdofs kv p
      let all := (getK kv 0, getK kv (kv.length - 1))
      let sj := (List.range nd).map (fun j => support kv p j)
      let sh := fun (q : Rat × Rat) => s!"{showRat q.1},{showRat q.2}"
      pure s!"all={sh all} j={showList sh sj}"
  | "refw" => do
      let kv ← list rat; let new ← list rat
      pure (showRats (refineWith kv new))
  | "refu" => do
      let kv ← list rat; let vals ← list rat
      let ex : List Rat := refineUniform kv
      -- error-carrying twin: midpoints over RE, merged in the order of the exact values
      let exE : List RE := (refineWith (kv.map RE.exact) (midpoints ((mesh kv).map RE.exact)))
      pure s!"n={ex.length} spans={numspans ex} vals={cmpVals exE vals}"
  | "eq" | "eq-former" => do
      let p1 ← nat; let kv1 ← list rat; let p2 ← nat; let kv2 ← list rat; let atol ← rat; let rtol ← rat
      -- `eq`: `__eq__` as it is now (both directions of allclose); `eq-former`: the one-directional predicate
      let near := fun (x y : Rat) =>
        let lhs := absK (x - y); let rhs := atol + rtol * absK y
        decide (absK (lhs - rhs) * (2 ^ 30 : Nat) ≤ rhs)
      let edge := (kv1.zip kv2).any (fun (x, y) => near x y || (op == "eq" && near y x))
      if p1 = p2 ∧ kv1.length = kv2.length ∧ edge then pure "edge"
      else if op == "eq" then pure (if kvEqSym atol rtol kv1 p1 kv2 p2 then "1" else "0")
      else pure (if kvEq atol rtol kv1 p1 kv2 p2 then "1" else "0")
  | "dspl" => do
      let p ← nat; let kv ← list rat; let cs ← list rat; let vals ← list rat; let us ← list rat
      if p = 0 then failure
      let dk : List Rat := derivKnots kv
      let dc : List Rat := derivCoeffs kv p cs
      let dcE : List RE := derivCoeffs (kv.map RE.exact) p (cs.map RE.exact)
      let t := accR kv; let td := accR dk
      let n := kv.length
      let ident := Id.run do
        let mut i := 0
        for u in us do
          let s := findspan t n p u
          -- Σ c_i N'_{i,p}(u) over the active functions
          let lhs := (List.range (p + 1)).foldl (fun acc r => acc + getK cs (s - p + r) * dcoxS t s u 1 p (s - p + r)) (0 : Rat)
          -- span index in kv[1:-1] is s-1; active functions of degree p-1: (s-1)-(p-1) .. s-1
          let rhs := (List.range p).foldl (fun acc r => acc + getK dc (s - p + r) * coxS td (s - 1) u (p - 1) (s - p + r)) (0 : Rat)
          if lhs ≠ rhs then return s!"bad:{i}"
          i := i + 1
        return "ok"
      pure s!"kv={showRats dk} p={p - 1} vals={cmpVals dcE vals} ident={ident}"
  | _ => failure

def handle (line : String) : String :=
  match runLine request line with
  | some s => s
  | none => "bad-request"

def main : IO Unit := mainLoop handle
