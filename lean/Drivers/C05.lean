/-
Driver for the correspondence streams `kins` / `hprol` (property C05).  Requests:

  findspan p <kv> u                      -> k
  kins     p <kv> u                      -> k <matrix>          (bspline.knot_insertion)
  prol     p <kv1> <kv2>                 -> ok|mismatch <matrix> (exact composition of insertions)
  repfine  <space> lv trunc hasrows <rows> restrict   -> <matrix>
  trunc1   <space> k numrows inverse     -> <matrix>
  thb2hb   <space> | hb2thb <space>      -> <matrix>
  vprol    <space> trunc                 -> <list of matrices>
  prolto   <spaceC> <spaceF> disp old    -> <matrix>   (disp = -1 for inf; old = 1: pre-6ce171d loop bounds)
  lvlw     <space> <coeffs>              -> list of rat lists
  bdmap    <IA> <dims> axis side         -> nat list
  bdspace  <IA> <ID> <dims> axis side    -> per level `<active face indices> ; <deactivated face indices>`

<kv>, <rows>, <coeffs> = length-prefixed lists; <matrix> is printed as `m n nnz i,j,v ...`
(row-major, exact rationals, zeros dropped); <space> = `L` then per level `N <IA> <ID>`, then
per level `< L-1` a length-prefixed list of per-axis factor matrices, each `m n nnz (i j v)*`.
-/
import Pyiga.Proto
import Pyiga.Model.Transfer
import Pyiga.Model.TransferBoundary

open Pyiga Pyiga.Proto Pyiga.Transfer

def pMat : P (Mat Rat) := do
  let m ← nat; let n ← nat
  let trip ← list (do let i ← nat; let j ← nat; let v ← rat; pure (i, j, v))
  let base : Array (Array Rat) := Array.replicate m (Array.replicate n 0)
  let arr := trip.foldl (fun (a : Array (Array Rat)) (t : Nat × Nat × Rat) =>
      a.modify t.1 (fun row => row.setIfInBounds t.2.1 t.2.2)) base
  pure ⟨m, n, fun i j => (arr.getD i #[]).getD j 0⟩

def pSpace : P (HSp Rat) := do
  let L ← nat
  let rec lv : Nat → List Nat → List (List Nat) → List (List Nat) → P (List Nat × List (List Nat) × List (List Nat))
    | 0, N, IA, ID => pure (N.reverse, IA.reverse, ID.reverse)
    | k + 1, N, IA, ID => do
        let n ← nat; let a ← list nat; let d ← list nat
        lv k (n :: N) (a :: IA) (d :: ID)
  let (N, IA, ID) ← lv L [] [] []
  let rec ts : Nat → List (Mat Rat) → P (List (Mat Rat))
    | 0, acc => pure acc.reverse
    | k + 1, acc => do
        let fs ← list pMat
        ts k ((Mat.multiKron fs).freeze :: acc)
  let T ← ts (L - 1) []
  pure { N := N, IA := IA, ID := ID, T := T }

def showMat (A : Mat Rat) : String := Id.run do
  let mut parts : Array String := #[]
  let mut cnt := 0
  for i in [0:A.m] do
    for j in [0:A.n] do
      let v := A.f i j
      if v ≠ 0 then
        parts := parts.push s!"{i},{j},{showRat v}"
        cnt := cnt + 1
  return s!"{A.m} {A.n} {cnt}" ++ (if cnt = 0 then "" else " " ++ " ".intercalate parts.toList)

def showRows (rows : List (List Rat)) (n : Nat) : String := showMat (Mat.ofRows rows n)

def request : P String := do
  let op ← tok
  match op with
  | "findspan" => do
      let p ← nat; let kv ← list rat; let u ← rat
      pure (toString (findspan kv p u))
  | "kins" => do
      let p ← nat; let kv ← list rat; let u ← rat
      let k := findspan kv p u
      pure s!"{k} {showRows (knotInsertionAt kv p k u) (kv.length - p - 1)}"
  | "prol" => do
      let p ← nat; let kv1 ← list rat; let kv2 ← list rat
      let (M, kv) := prolongationExact kv1 kv2 p
      pure s!"{if kv = kv2 then "ok" else "mismatch"} {showRows M (kv1.length - p - 1)}"
  | "repfine" => do
      let H ← pSpace; let lv ← nat; let tr ← bool; let hasRows ← bool; let rows ← list nat; let restrict ← bool
      pure (showMat ((H.representFine lv tr (if hasRows then some rows else none) restrict).freeze))
  | "trunc1" => do
      let H ← pSpace; let k ← nat; let nr ← nat; let inv ← bool
      pure (showMat ((H.truncOneLevel k nr inv).freeze))
  | "thb2hb" => do let H ← pSpace; pure (showMat H.thbToHb)
  | "hb2thb" => do let H ← pSpace; pure (showMat H.hbToThb)
  | "vprol" => do
      let H ← pSpace; let tr ← bool
      let Ps := H.virtualProlongators tr
      pure (" | ".intercalate (toString Ps.length :: Ps.map showMat))
  | "prolto" => do
      let C ← pSpace; let F ← pSpace; let d ← int; let old ← bool
      let disp : Option Nat := if d < 0 then none else some d.toNat
      pure (showMat (prolongateTo C F disp old))
  | "lvlw" => do
      let H ← pSpace; let c ← list rat
      let arr := c.toArray
      pure (" | ".intercalate ((H.levelwiseCoeffs (fun i => arr.getD i 0)).map showRats))
  | "bdmap" => do
      let IA ← list (list nat); let dims ← list (list nat); let axis ← nat; let side ← nat
      pure (showNats (bdMap IA dims axis side))
  | "bdspace" => do
      let IA ← list (list nat); let ID ← list (list nat); let dims ← list (list nat); let axis ← nat; let side ← nat
      pure (" | ".intercalate ((bdSpaceIndices IA ID dims axis side).map fun (a, d) => showNats a ++ " ; " ++ showNats d))
  | _ => failure

def handle (line : String) : String :=
  match runLine request line with
  | some s => s
  | none => "bad-request"

def main : IO Unit := mainLoop handle
