/-
Driver for correspondence stream `op` (property C16).  Scalars are exact rationals (`Rat`).

  <tensor> = <shape:list nat> <data:list rat>            (C order)
  <op>     = kind m n <entries: list rat, row-major>     kind ∈ d|r|c|l  (ndarray|csr|csc|linop)
  <oop>    = N | <op>                                    (None placeholder)

  tprod   <ops: list oop> <tensor>                 apply_tprod
  modek   <op> k <tensor>                          modek_tprod
  krond   <ops: list op> <tensor>                  _apply_kronecker_dense
  kronl   <ops> <tensor>                           _apply_kronecker_linops
  kron    <ops> <tensor>                           apply_kronecker (dispatch)
  kronop  <word> <ops> <tensor>                       KroneckerOperator(*ops)[.T].dot(x)
  bdiag   N|T <ops> <tensor>                       BlockDiagonalOperator(*ops)[.T].dot(x)
  block   N|T <rows: list (list blk)> <tensor>     BlockOperator(rows)[.T].dot(x);  blk = - | z m n | <op>
  base    N|T M N <ops> <ranOut: list (a b)> <ranIn> <tensor>   BaseBlockOperator
  diag    <d: list rat> <tensor>   ident n <tensor>   null m n <tensor>
  subsp   <word> <Ps> <Bs> <tensor>                   SubspaceOperator
  csrs    nrows ncols <indptr> <indices> <data> a b <tensor>    CSRRowSlice
  csrr    nrows ncols <indptr> <indices> <data> <rows> <tensor> CSRRowSubset
  ksolve  <Bs: list op (square)> <tensor>          make_kronecker_solver with exact inverses
  fdiag   <Us> <invdiag> <tensor>                  fastdiag operator from given eigenvectors
  fdd     <lams: list (list rat)>                  the diagonal Σ_d kron(1,…,λ_d,…,1)
<word> = N | a string over {T,H} applied left to right (`TH` = X.T.H); bdiag/block/base/subsp take a word too.
answer: `<shape> <data>` or `err-…`.
-/
import Pyiga.Proto
import Pyiga.Model.Operators

open Pyiga Pyiga.Proto Pyiga.Index Pyiga.LA Pyiga.Ops

instance : Zero Rat := ⟨0⟩

def pTensor : P (Tensor Rat) := do
  let shape ← list nat
  let data ← list rat
  if data.length ≠ prod shape then failure
  pure { shape := shape, data := data.toArray }

def pKind : P Kind := do
  let t ← tok
  match t with
  | "d" => pure .dense | "r" => pure .csr | "c" => pure .csc | "l" => pure .linop
  | _ => failure

def mkOp (k : Kind) (m n : Nat) (e : Array Rat) : Op Rat :=
  { kind := k, m := m, n := n, ent := fun i j => if i < m ∧ j < n then e.getD (i * n + j) 0 else 0 }

def pOp : P (Op Rat) := do
  let k ← pKind; let m ← nat; let n ← nat
  let e ← list rat
  if e.length ≠ m * n then failure
  pure (mkOp k m n e.toArray)

def pOOp : P (Option (Op Rat)) := do
  match (← get) with
  | "N" :: ts => set ts; pure none
  | _ => do let o ← pOp; pure (some o)

def pBlk : P (Blk Rat) := do
  match (← get) with
  | "-" :: ts => set ts; pure .none
  | "z" :: ts => do set ts; let m ← nat; let n ← nat; pure (.null m n)
  | _ => do let o ← pOp; pure (.op o)

/-- a word over {T, H} (`N` = empty word), applied left to right: `TH` = `X.T.H` -/
def pWord : P (List Bool) := do
  let t ← tok
  if t == "N" then pure [] else
  if t.toList.all (fun c => c == 'T' || c == 'H') then pure (t.toList.map (· == 'T')) else failure

def pFlag : P Bool := do
  let t ← tok
  -- `H` (adjoint): real scalars, so the adjoint operator is the transposed one
  match t with | "N" => pure false | "T" => pure true | "H" => pure true | _ => failure

def showTensor (T : Tensor Rat) : String :=
  showNats T.shape ++ " " ++ showRats T.data.toList

def showR (r : Except Err (Tensor Rat)) : String :=
  match r with
  | .ok T => showTensor T
  | .error e => e.show

/-- exact inverse over `Rat` by Gauss-Jordan elimination (instance of the `make_solver` parameter);
`none` for a singular matrix -/
def inverse (n : Nat) (ent : Nat → Nat → Rat) : Option (Array (Array Rat)) := Id.run do
  let mut a : Array (Array Rat) := Array.ofFn (n := n) (fun i =>
    Array.ofFn (n := 2 * n) (fun j => if j.val < n then ent i.val j.val else if j.val - n = i.val then 1 else 0))
  for c in [0:n] do
    let mut piv := n
    for r in [c:n] do
      if piv = n ∧ (a.getD r #[]).getD c 0 ≠ 0 then piv := r
    if piv = n then return none
    let rp := a.getD piv #[]
    let rc := a.getD c #[]
    a := (a.set! piv rc).set! c rp
    let p := rp.getD c 0
    let rowc := rp.map (· / p)
    a := a.set! c rowc
    for r in [0:n] do
      if r ≠ c then
        let f := (a.getD r #[]).getD c 0
        if f ≠ 0 then
          let rr := a.getD r #[]
          a := a.set! r (Array.ofFn (n := 2 * n) (fun j => rr.getD j.val 0 - f * rowc.getD j.val 0))
  return some (a.map (fun row => row.extract n (2 * n)))

def request : P String := do
  let op ← tok
  match op with
  | "tprod" => do let ops ← list pOOp; let A ← pTensor; pure (showR (applyTprod ops A))
  | "modek" => do let B ← pOp; let k ← nat; let X ← pTensor; pure (showR (modekTprod B k X))
  | "krond" => do let ops ← list pOp; let x ← pTensor; pure (showR (applyKroneckerDense ops x))
  | "kronl" => do let ops ← list pOp; let x ← pTensor; pure (showR (applyKroneckerLinops ops x))
  | "kron" => do let ops ← list pOp; let x ← pTensor; pure (showR (applyKronecker ops x))
  | "kronop" => do
      let w ← pWord; let ops ← list pOp; let x ← pTensor
      pure (showR (kronDot (kronWord ops w) x))
  | "bdiag" => do
      let w ← pWord; let ops ← list pOp; let x ← pTensor
      match blockDiagonal ops with
      | .ok B => pure (showR ((B.word w).dot x))
      | .error e => pure e.show
  | "block" => do
      let w ← pWord; let rows ← list (list pBlk); let x ← pTensor
      match blockOperator rows with
      | .ok B => pure (showR ((B.word w).dot x))
      | .error e => pure e.show
  | "base" => do
      let w ← pWord; let M ← nat; let N ← nat; let ops ← list pOp
      let ro ← list (pair nat nat); let ri ← list (pair nat nat); let x ← pTensor
      let B : BaseBlock Rat := { M := M, N := N, ops := ops, ranOut := ro, ranIn := ri }
      pure (showR ((B.word w).dot x))
  | "diag" => do let d ← list rat; let x ← pTensor; pure (showR (diagDot d x))
  | "ident" => do let n ← nat; let x ← pTensor; pure (showR (identDot n x))
  | "null" => do let m ← nat; let n ← nat; let x ← pTensor; pure (showR (nullDot m n x))
  | "subsp" => do
      let w ← pWord; let Ps ← list pOp; let Bs ← list pOp; let x ← pTensor
      pure (showR ((Subspace.word { Ps := Ps, Bs := Bs, isT := false } w).dot x))
  | "csrs" | "csrr" => do
      let nr ← nat; let nc ← nat; let ip ← list nat; let ix ← list nat; let d ← list rat
      let A : CSR Rat := { nrows := nr, ncols := nc, indptr := ip.toArray, indices := ix.toArray, data := d.toArray }
      if op == "csrs" then do
        let a ← nat; let b ← nat; let x ← pTensor
        pure (showR (csrRowSlice A a b x))
      else do
        let rows ← list nat; let x ← pTensor
        pure (showR (csrRowSubset A rows x))
  | "ksolve" => do
      let Bs ← list pOp; let x ← pTensor
      let invs := Bs.map (fun B => (inverse B.n B.ent).map (fun a =>
        ({ kind := .linop, m := B.n, n := B.n, ent := fun i j => (a.getD i #[]).getD j 0 } : Op Rat)))
      if invs.any Option.isNone then pure "singular"
      else pure (showR (kroneckerSolverDot (invs.filterMap id) x))
  | "fdiag" => do
      let Us ← list pOp; let dinv ← list rat; let x ← pTensor
      pure (showR (fastdiagDot Us dinv x))
  | "fdd" => do let lams ← list (list rat); pure (showRats (fastdiagDiag lams))
  | _ => failure

def handle (line : String) : String :=
  match runLine request line with
  | some s => s
  | none => "bad-request"

def main : IO Unit := mainLoop handle
