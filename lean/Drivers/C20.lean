/-
Driver for correspondence stream `cache` (property C20).  One request per line:

  x <proto> <events> <np> <paths>

  <proto>  = c (current: in-place writes) | r (repaired: private dir + atomic publish)
  <events> = length-prefixed list of
               s i src        spawn process i for source src
               r i crash      one step of process i (crash=1: a partial .so kills the interpreter)
               k i            SIGKILL process i
               f <path> <fs>  external fault
               w              external wipe of the whole modules directory (clear-cache.py)
  <path>   = S n kind | P t kind       (kind = pyx|c|o|so;  S n so is the final path)
  <fs>     = A | P | C src             (absent | partial | complete src)
  <np>     = report processes 0..np-1
  <paths>  = length-prefixed list of paths to report

Answer:  `pc <pcs…> built <0/1…> files <fs…> tmp <nextTmp>`
`built` = the process entered `_compile_cython_module_nocache` (was at `pyx0`) at some point.
The digest is the identity (`mod<src>`).
-/
import Pyiga.Proto
import Pyiga.Model.CompileCache

open Pyiga Pyiga.Proto Pyiga.CompileCache

def pKind : P Kind := do
  match (← tok) with
  | "pyx" => pure .pyx | "c" => pure .c | "o" => pure .o | "so" => pure .so
  | _ => failure

def pPath : P Path := do
  match (← tok) with
  | "S" => do let n ← nat; let k ← pKind; pure (.shared n k)
  | "P" => do let t ← nat; let k ← pKind; pure (.priv t k)
  | _ => failure

def pFs : P FileState := do
  match (← tok) with
  | "A" => pure .absent
  | "P" => pure .part
  | "C" => do let s ← nat; pure (.complete s)
  | _ => failure

/-- a scheduler event, or `none` = external wipe (`State.wipe`) -/
def pEvent : P (Option Event) := do
  match (← tok) with
  | "s" => do let i ← nat; let s ← nat; pure (some (.spawn i s))
  | "r" => do let i ← nat; let c ← bool; pure (some (.run i c))
  | "k" => do let i ← nat; pure (some (.kill i))
  | "f" => do let p ← pPath; let v ← pFs; pure (some (.fault p v))
  | "w" => pure none
  | _ => failure

def showFs : FileState → String
  | .absent => "A" | .part => "P" | .complete s => s!"C{s}"

def showW : Where → String
  | none => "inplace" | some t => s!"t{t}"

def showPC : PC → String
  | .unborn => "unborn" | .imp => "imp" | .mk => "mk"
  | .pyx0 w => s!"pyx0:{showW w}" | .pyx1 w => s!"pyx1:{showW w}"
  | .cy0 w => s!"cy0:{showW w}" | .cy1 w s => s!"cy1:{showW w}:{s}"
  | .cc0 w => s!"cc0:{showW w}" | .cc1 w s => s!"cc1:{showW w}:{s}"
  | .ld0 w => s!"ld0:{showW w}" | .ld1 w s => s!"ld1:{showW w}:{s}"
  | .pub t => s!"pub:t{t}" | .pub1 t => s!"pub1:t{t}" | .clean t => s!"clean:t{t}" | .imp2 => "imp2"
  | .loaded s => s!"loaded:{s}" | .failed => "failed" | .crashed => "crashed" | .killed => "killed"

def isPyx0 : PC → Bool
  | .pyx0 _ => true
  | _ => false

def request : P String := do
  let op ← tok
  if op ≠ "x" then failure
  let proto ← (do match (← tok) with
    | "c" => pure Proto.current | "r" => pure Proto.repaired | _ => failure)
  let evs ← list pEvent
  let np ← nat
  let paths ← list pPath
  let idx := List.range np
  let (σ, built) := evs.foldl (fun (acc : State × List Bool) e =>
      let σ' := match e with | some ev => step proto id acc.1 ev | none => acc.1.wipe
      (σ', (idx.zip acc.2).map (fun (ib : Nat × Bool) => ib.2 || isPyx0 (σ'.procs ib.1).pc)))
    (State.init, idx.map (fun _ => false))
  let pcs := idx.map (fun i => showPC (σ.procs i).pc)
  let bs := built.map (fun b => if b then "1" else "0")
  let fs := paths.map (fun p => showFs (σ.dir p))
  pure s!"pc {" ".intercalate pcs} built {" ".intercalate bs} files {" ".intercalate fs} tmp {σ.nextTmp}"

def handle (line : String) : String :=
  match runLine request line with
  | some s => s
  | none => "bad-request"

def main : IO Unit := mainLoop handle
