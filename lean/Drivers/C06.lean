/-
Driver for the C06 correspondence stream `pass` and the T-ir checkers.  Requests
(<e> = expression in the wire format of Pyiga/Model/VFormIO.lean):

  fold <e>                      -> <e> | err-ZeroDivisionError        (vf.transform(fold_constants))
  lit <e>                       -> <e>                                (vf.transform(_to_literal_vec_mat))
  at <e> <i> <j>                -> <e> | err-IndexError | err-TypeError   (e[i] / e[i,j])
  row <e> <i> | col <e> <j>     -> <e>                                (e[i,:], e[:,j])
  T <e> | ravel <e> | tr <e>    -> <e>
  inner <e> <e>                 -> <e>
  oper <op> <e> <e>             -> <e> | err-assertion | err-TypeError    (OperExpr with broadcasting)
  dx <vars> <e> <k> <times> <par> -> <e> | err-…                      (Dx)
  phys1 <dim> <bf> <k>          -> <e>         (replace_physical_derivs on a first physical derivative of a basis function)
  phys1g/phys2g/physD/ghtdef/physST/inderiv/symseq/predef … -> the branches of replace_physical_derivs, _geo_hess_trf,
                                   insert_input_field_derivs and the predefined variables (Model/VFormPhys.lean)
  vec <bfs> <e>                 -> <e>                                (substitute_vec_components + ravel)
  keys <table> <roots>          -> class ids of all nodes in post-order (grouping of extract_common_expressions)
  inline <defs> <e>             -> <e>         (translation validation of CSE / trivial-variable elimination)
  sched <sources> <params> <bfuns> <linear> <precomp> <kernel> <globals> <exprReads> <basisScope> -> ok | fail:…
-/
import Pyiga.Proto
import Pyiga.Model.VForm
import Pyiga.Model.VFormIO
import Pyiga.Model.SLP
import Pyiga.Model.VFormPhys
import Pyiga.Model.VFormIndex

open Pyiga Pyiga.Proto Pyiga.VForm Pyiga.SLP

def pStmt2 : P Stmt := do
  let l ← tok; let r ← list tok
  pure { lhs := l, reads := r, rhs := "" }

def iterInline (defs : List (String × Expr)) : Nat → Expr → Expr
  | 0, e => e
  | n + 1, e => iterInline defs n (inlineVars defs e)

def request : P String := do
  let op ← tok
  match op with
  | "fold" => do
      let e ← pExpr
      pure (if foldRaises e then "err-ZeroDivisionError" else showExpr (foldAll e))
  | "lit" => do let e ← pExpr; pure (showExpr (toLit e))
  | "at" => do
      let e ← pExpr; let i ← nat; let j ← nat
      if isScalar e then pure "err-TypeError"
      else if !atOk e i j then pure "err-IndexError"
      else pure (showExpr (atE e i j))
  | "row" => do let e ← pExpr; let i ← nat; pure (showExpr (rowE e i))
  | "col" => do let e ← pExpr; let j ← nat; pure (showExpr (colE e j))
  | "T" => do let e ← pExpr; pure (showExpr (transposeE e))
  | "ravel" => do let e ← pExpr; pure (showExpr (ravelE e))
  | "tr" => do let e ← pExpr; pure (showExpr (trE e))
  | "inner" => do let x ← pExpr; let y ← pExpr; pure (showExpr (innerE x y))
  | "oper" => do
      let o ← pOp; let x ← pExpr; let y ← pExpr
      match operErr x y with
      | some err => pure err
      | none => pure (showExpr (operExpr o x y))
  | "dx" => do
      let vt ← list pVar; let e ← pExpr; let k ← nat; let times ← nat; let par ← bool
      match dxTop vt (vt.length + 1) e k times par with
      | .ok r => pure (showExpr r)
      | .error s => pure s
  | "phys1" => do let dim ← nat; let b ← pBFun; let k ← nat; pure (showExpr (physToPara1 dim b k))
  | "phys1g" | "phys2g" => do
      -- atom: `B <bf>` or `V <name> <I>`
      let dim ← nat
      let kind ← tok
      let atom ← (if kind == "B" then do let b ← pBFun; pure (bfAtom b)
                  else do let v ← tok; let I ← list nat; pure (varAtom v I))
      if op == "phys1g" then do let k ← nat; pure (showExpr (physToPara1G dim atom k))
      else do let i ← nat; let j ← nat; pure (showExpr (physToPara2G dim atom i j))
  | "physD" => do
      let dim ← nat; let b ← pBFun; let D ← list nat
      match physToParaG dim (bfAtom b) D with
      | some e => pure (showExpr e)
      | none => pure "err-assertion"
  | "ghtdef" => do let dim ← nat; let a ← nat; let i ← nat; let j ← nat; pure (geoHessTrfName a i j ++ " " ++ showExpr (geoHessTrfDef dim a i j))
  | "physST" => do
      let dim ← nat; let b ← pBFun; let D ← list nat
      match physToParaST dim b D with
      | some e => pure (showExpr e)
      | none => pure "err-assertion"
  | "inderiv" => do
      let dim ← nat; let nm ← tok; let I ← list nat; let D ← list nat
      match insertInputDeriv dim nm I D with
      | some e => pure (showExpr e)
      | none => pure "none"
  | "symseq" => do let n ← nat; let i ← nat; let j ← nat; pure (toString (symIndexToSeq n i j))
  | "predef" => do
      let what ← tok; let dim ← nat
      match what with
      | "Jac" => do let gd ← nat; pure (showExpr (jacDef dim gd))
      | "JacInv" => pure (showExpr (jacInvDef dim))
      | "GaussWeight" => pure (showExpr (gaussWeightDef dim))
      | "W" => pure (showExpr (volumeWeightDef dim))
      | "SW" => do let j ← tok; let r ← nat; let c ← nat; pure (showExpr (surfaceWeightDef dim j r c))
      | "normal" => do let j ← tok; let r ← nat; let c ← nat; pure (showExpr (normalDef dim j r c))
      | "BJac" => pure (showExpr (bjacDef dim))
      | _ => failure
  | "rphys" => do
      let dim ← nat; let physIn ← list tok; let e ← pExpr
      match (postorder e).findSome? (replacePhysRaises dim physIn) with
      | some err => pure err
      | none => pure (showExpr (replacePhysAll dim physIn e))
  | "rphysST" => do
      let dim ← nat; let physIn ← list tok; let e ← pExpr
      match (postorder e).findSome? (replacePhysRaisesST dim physIn) with
      | some err => pure err
      | none => pure (showExpr (replacePhysAllST dim physIn e))
  | "getitem" => do
      -- getitem <e> <axis>*   axis = `1 <int>` | `n <int list>`
      let e ← pExpr
      let pAxis : P AxisIdx := do
        match (← tok) with
        | "1" => do let i ← int; pure (AxisIdx.one i)
        | "n" => do let l ← list int; pure (AxisIdx.many l)
        | _ => failure
      let I ← pAxis
      if isVector e then
        match getitemV e I with
        | .ok r => pure (showExpr r)
        | .error s => pure s
      else do
        let J ← pAxis
        match getitemM e I J with
        | .ok r => pure (showExpr r)
        | .error s => pure s
  | "vec" => do let bfs ← list pBFun; let e ← pExpr; pure (showExpr (substVec bfs e))
  | "keys" => do
      let t ← pKeyTable; let roots ← list pExpr
      pure (showNats (groupIds t roots))
  | "inline" => do
      let defs ← list (pair tok pExpr); let e ← pExpr
      pure (showExpr (iterInline defs (defs.length + 1) e))
  | "sched" => do
      let sources ← list tok; let params ← list tok; let bfuns ← list tok
      let linear ← list pStmt2
      let precomp ← list tok; let kernel ← list tok; let globals ← list tok
      let exprReads ← list tok; let basisScope ← list tok
      pure (schedCheck { sources, params, bfuns, linear, precomp, kernel, globals, exprReads, basisScope })
  | _ => failure

def handle (line : String) : String :=
  match runLine request line with
  | some s => s
  | none => "bad-request"

def main : IO Unit := mainLoop handle
