/-
Driver for correspondence stream `approx` (property C17).  Exact rationals.

  <axis>   = p <kv: list rat> <nodes: list rat>
  <tensor> = <shape: list nat> <data: list rat>

  grev   p <kv>                         -> list rat            KnotVector.greville (exact, clipped)
  colloc <axis>                         -> "m n" <entries>     dense collocation matrix, row-major
  evalg  <axes: list axis> <tensor c>   -> tensor              values of Σ c_I N_I on the node grid
  interp <axes> <tensor rhs>            -> tensor | singular | err-…     approx.interpolate
  l2     <axes (nodes = Gauss nodes)> <ws: list (list rat)> <tensor fvals>  -> tensor | singular | err-…
  det0   <axis>                         -> 0 | 1               1 iff the collocation matrix is singular
-/
import Pyiga.Proto
import Pyiga.Model.Approx

open Pyiga Pyiga.Proto Pyiga.Index Pyiga.LA Pyiga.Approx

def pTensor : P (Tensor Rat) := do
  let shape ← list nat
  let data ← list rat
  if data.length ≠ prod shape then failure
  pure { shape := shape, data := data.toArray }

def pAxis : P Axis := do
  let p ← nat; let kv ← list rat; let nodes ← list rat
  if kv.length < 2 * (p + 1) then failure
  pure { p := p, kv := kv.toArray, nodes := nodes.toArray }

def showTensor (T : Tensor Rat) : String := showNats T.shape ++ " " ++ showRats T.data.toList

def showRes : Res → String
  | .ok T => showTensor T
  | .singular => "singular"
  | .err e => e.show

def request : P String := do
  let op ← tok
  match op with
  | "grev" => do
      let p ← nat; let kv ← list rat
      if kv.length < 2 * (p + 1) then failure
      pure (showRats (greville kv.toArray p))
  | "colloc" => do
      let a ← pAxis
      let C := collocation a.kv a.p a.nodes
      let ents := (List.range C.m).flatMap (fun i => (List.range C.n).map (fun j => C.ent i j))
      pure s!"{C.m} {C.n} {showRats ents}"
  | "evalg" => do let axes ← list pAxis; let c ← pTensor; pure (showRes (evalGrid axes c))
  | "interp" => do let axes ← list pAxis; let rhs ← pTensor; pure (showRes (interpolate axes rhs))
  | "l2" => do
      let axes ← list pAxis; let ws ← list (list rat); let f ← pTensor
      pure (showRes (projectL2 axes (ws.map List.toArray) f))
  | "det0" => do
      let a ← pAxis
      let C := collocation a.kv a.p a.nodes
      pure (if C.m ≠ C.n then "1" else if (gaussInverse C.n C.ent).isNone then "1" else "0")
  | _ => failure

def handle (line : String) : String :=
  match runLine request line with
  | some s => s
  | none => "bad-request"

def main : IO Unit := mainLoop handle
