/-
Driver for correspondence stream `bc` (property C10).  Scalars are exact rationals
(`num/den` or integers), `nan` stands for a NaN value.  Requests:

  rls m n <A flat> <b: s v | a list> <a|l> <idx> <vals: s v | a list> <er: - | list>
      <u> <uf> <f> <B flat>
        -> err-<Kind>  |  A .. | b .. | vals .. | restrict .. | extend .. | rrhs .. | rmat .. | complete ..
  slice ax idx <shape> <flip: - | list bool> ravel          -> list | rows | err-<Kind>
  bdofs <N> <spec> <flip> ravel                             -> likewise
  combine k (<idx> <vals>)*                                 -> idx ; vals | err-assertion
  dropnans <idx> <vals>                                     -> idx ; vals
  dbc <N> <spec> <nc: - | c> <coeffs>                       -> idx ; vals | err
  dbcs <N> k (<spec> <nc> <coeffs>)*                        -> idx ; vals | err
  dbcsall <N> k (<nc> <coeffs>)*                            -> idx ; vals | err
  mpbcs <Ns> <p2g> k (p <spec> <nc> <coeffs>)*              -> idx ; vals | err
  ic01 <N> <spec> a b c d <c0> <c1>                         -> idx ; vals | err
<spec> = a face name (left/right/bottom/top/front/back/any other word) or `ax side`.
-/
import Pyiga.Proto
import Pyiga.Model.Restrict

open Pyiga Pyiga.Proto Pyiga.Index Pyiga.Slice Pyiga.Restrict

def pOpt (p : P α) : P (Option α) := do
  match (← get) with
  | "-" :: ts => set ts; pure none
  | _ => some <$> p

def ratOrNan : P (Option Rat) := do
  match (← get) with
  | "nan" :: ts => set ts; pure none
  | _ => some <$> rat

def scalarOr : P (ScalarOr Rat) := do
  let t ← tok
  if t == "s" then do let v ← rat; pure (.scalar v)
  else if t == "a" then do let vs ← list rat; pure (.array vs)
  else failure

def bdspec : P BdSpec := do
  let t ← tok
  match t.toInt? with
  | some ax => do let side ← int; pure (.pair ax side)
  | none => pure (.name t)

def showErr : Restrict.Err → String
  | .index => "err-IndexError"
  | .value => "err-ValueError"
  | .attr => "err-AttributeError"
  | .assertion => "err-assertion"
  | .linalg => "err-LinAlgError"

def showSliceErr : Slice.Err → String
  | .index => "err-IndexError"
  | .value => "err-ValueError"

def showE (f : α → String) : Except Restrict.Err α → String
  | .ok a => f a
  | .error e => showErr e

def showMat (M : List (List Rat)) : String := showList showRats M
def showOpt : Option Rat → String
  | none => "nan"
  | some q => showRat q
def showBc (r : List Nat × List (Option Rat)) : String :=
  showNats r.1 ++ " ; " ++ showList showOpt r.2
def showRows (l : List (List Int)) : String := showList showInts l

/-- split a flat list into rows of length `n` (`m` rows) -/
def rows (m n : Nat) (flat : List Rat) : List (List Rat) :=
  (List.range m).map (fun r => (flat.drop (r * n)).take n)

def pCond : P (BdSpec × Option Nat × List (Option Rat)) := do
  let bd ← bdspec; let nc ← pOpt nat; let co ← list ratOrNan
  pure (bd, nc, co)

def request : P String := do
  let op ← tok
  match op with
  | "rls" => do
      let m ← nat; let n ← nat
      let Af ← list rat
      let b ← scalarOr
      let kind ← tok
      let idx ← list nat
      let vals ← scalarOr
      let er ← pOpt (list nat)
      let u ← list rat; let uf ← list rat; let f ← list rat; let Bf ← list rat
      if Af.length ≠ m * n || Bf.length ≠ m * n then failure
      if kind ≠ "a" && kind ≠ "l" then failure
      match Sys.build m n (rows m n Af) b (kind == "a") idx vals er with
      | .error e => pure (showErr e)
      | .ok S =>
        pure (" | ".intercalate [
          "A " ++ showMat S.A, "b " ++ showRats S.b, "vals " ++ showRats S.values,
          "restrict " ++ showE showRats (S.restrict? u),
          "extend " ++ showE showRats (S.extend? uf),
          "rrhs " ++ showE showRats (S.restrictRhs? f),
          "rmat " ++ showMat (S.restrictMatrix (rows m n Bf)),
          "complete " ++ showE showRats (S.complete? uf)])
  | "slice" => do
      let ax ← nat; let idx ← int; let shape ← list nat
      let flip ← pOpt (list bool); let ravel ← bool
      if ravel then
        match sliceIndices ax idx shape flip with
        | .ok l => pure (showNats l)
        | .error e => pure (showSliceErr e)
      else pure (showE showRows (sliceNoRavel ax idx shape flip))
  | "bdofs" => do
      let N ← list nat; let bd ← bdspec
      let flip ← pOpt (list bool); let ravel ← bool
      if ravel then pure (showE showNats (boundaryDofsSpec N bd flip))
      else pure (showE showRows (boundaryDofsNoRavel N bd flip))
  | "combine" => do
      let bcs ← list (pair (list nat) (list ratOrNan))
      pure (showE showBc (combineBcs bcs))
  | "dropnans" => do
      let idx ← list nat; let vals ← list ratOrNan
      pure (showBc (dropNans idx vals))
  | "dbc" => do
      let N ← list nat; let c ← pCond
      pure (showE showBc (dirichletBc N c.1 c.2.1 c.2.2))
  | "dbcs" => do
      let N ← list nat; let cs ← list pCond
      pure (showE showBc (dirichletBcs N cs))
  | "dbcsall" => do
      let N ← list nat
      let cs ← list (pair (pOpt nat) (list ratOrNan))
      pure (showE showBc (dirichletBcsAll N cs))
  | "mpbcs" => do
      let Ns ← list (list nat); let p2g ← list (list nat)
      let cs ← list (pair nat pCond)
      pure (showE showBc (mpDirichletBcs Ns p2g cs))
  | "ic01" => do
      let N ← list nat; let bd ← bdspec
      let a ← rat; let b ← rat; let c ← rat; let d ← rat
      let c0 ← list rat; let c1 ← list rat
      pure (showE (fun (r : List Nat × List Rat) => showNats r.1 ++ " ; " ++ showRats r.2)
        (initialCondition01 N bd a b c d c0 c1))
  | _ => failure

def handle (line : String) : String :=
  match runLine request line with
  | some s => s
  | none => "bad-request"

def main : IO Unit := mainLoop handle
