/-
Driver for correspondence stream `ode` (property C12).  Requests (vectors/matrices are
length-prefixed lists of rationals, matrices row-major with `n*n` entries):

  dirk   s rows <A rows*s> n mflag <M> <L> <g> <x> tau fxflag [<Fx>]
         -> ok <xnew> | <xest or -> | <Fxnew or -> | fcalls | isSA    (F y = L y + g)
            err-NoConvergence | err-AssertionError | err-singular
  ros    s <A> <G> <b> hasbhat [<bhat>] n <M> <L> <g> <x> tau
         -> ok <xnew> | <xest or -> | <k_0> … <k_{s-1}>
  newton n <Q> <dq> <c> <x0> atol rtol maxiter freeze     (F x = Q x + dq∘x∘x − c)
         -> ok|err-NoConvergence <x> | updates | <nsq(res) at every test> | target²(=max(atol²,rtol²·nsq res0))
  const  t0 tau tend <script>        script item: `0` | `1 a d e fxflag`
         -> <times> | <sols>
  adapt  errorder tolbits sfbits tau0bits tendbits t0bits x0bits fuel <script>   (IEEE-754 bit patterns)
         script item: `cbits ebits thrbits` (used for the step after that many accepted steps);
         xnew = (x + tau*c) + (Fx*tau)/8, xhat = xnew + e*tau, Fxnew = xnew/2 + tau
         -> <times bits> | <sols bits> | taubits | outOfFuel | <accepted flags>
  constf t0bits taubits tendbits   -> <times bits> | #states     (constDriver over Float, num_iter in double arithmetic)
  adaptr errorder sfbits tau0bits tendbits t0bits fuel <script: idx taubits ok rbits>   recorded real run
         -> <times bits> | taubits | outOfFuel       (controller + time accumulation from t0)
  dirkf  s rows <A bits> n <M> <K> <d> <g> <x> taubits fxflag [<Fx>]   (all IEEE bit patterns; F y = −K y − d∘y³ + g)
         -> ok <xnew> | <xest or -> | <Fxnew or -> | fcalls        (Float instantiation of dirkStep)
  rosf   s <A> <G> <b> hasbhat [<bhat>] n <M> <K> <d> <g> <x> taubits  -> ok <xnew> | <xest or ->
  rkres  s <A> <w>      -> residual groups of `rkResiduals`
  rosres s <A> <G> <w>  -> residual groups of `rosResiduals`
  allclose <b> <a>      -> 0/1
-/
import Pyiga.Proto
import Pyiga.Model.ODE
import Pyiga.Model.RatVec
import Pyiga.Model.FloatVec

open Pyiga Pyiga.Proto Pyiga.ODE Pyiga.RatVec

def pVec : P Vec := do let l ← list rat; pure ⟨l⟩

def toMat (n : Nat) (l : List Rat) : Mat :=
  (List.range (l.length / (if n = 0 then 1 else n))).map (fun i => (l.drop (i * n)).take n)

def pMat (ncols : Nat) : P Mat := do let l ← list rat; pure (toMat ncols l)

def fn2 (A : Mat) : Nat → Nat → Rat := fun i j => (A.getD i []).getD j 0
def fn1 (b : List Rat) : Nat → Rat := fun i => b.getD i 0

def showVec (v : Vec) : String := showRats v.d
def showOptVec : Option Vec → String
  | some v => showVec v
  | none => "-"

/-- `norm(res) < max(atol, rtol*norm(res0))` for non-negative `atol`, `rtol`, via squares. -/
def convSq (atol rtol : Rat) (res0 res : Vec) : Bool :=
  decide (nsq res < atol * atol) || decide (nsq res < rtol * rtol * nsq res0)

/-- the doubles `1e-4` (atol passed by dirk_step) and `1e-6` (default rtol, default atol of newton) -/
def atolDirk : Rat := mkRat 7378697629483821 73786976294838206464
def rtolNewton : Rat := mkRat 4722366482869645 4722366482869645213696

def doDirk : P String := do
  let s ← nat; let rows ← nat
  let Afull ← pMat s
  let n ← nat; let mflag ← bool
  let Mm ← pMat n; let L ← pMat n; let g ← pVec; let x ← pVec; let tau ← rat
  let fxflag ← bool
  let Fx ← if fxflag then (do let v ← pVec; pure (some v)) else pure none
  if Afull.length ≠ rows || (rows ≠ s + 1 && rows ≠ s + 2) || s = 0 then failure
  let Mm := if mflag then Mm else ident n
  let A := Afull.take s
  let b := Afull.getD s []
  let bhat := if rows = s + 2 then some (Afull.getD (s + 1) []) else none
  let isSA := allcloseQ rtolDefault atolDefault b (A.getD (s - 1) [])
  -- every linear system the step will factor must be non-singular in exact arithmetic
  let okM := nonsingular Mm
  let okStages := (List.range s).all (fun i =>
    let aii := fn2 A i i
    aii == 0 || nonsingular (matSub Mm (matScale (tau * aii) L)))
  if !(okM && okStages) then pure "err-singular" else
  let F : Vec → Vec := fun y => matVec L y + g
  let jsolve : Rat → Vec → Vec → Vec := fun c _ r => solveD (matSub Mm (matScale c L)) r
  match dirkStep s (fn2 A) (fn1 b) (bhat.map fn1) isSA (matVec Mm) (solveD Mm) F jsolve
      (convSq atolDirk rtolNewton) x tau Fx with
  | .error .noConvergence => pure "err-NoConvergence"
  | .error .assertion => pure "err-AssertionError"
  | .ok o =>
    pure s!"ok {showVec o.xnew} | {showOptVec o.xest} | {showOptVec o.Fxnew} | {o.fcalls} | {if isSA then 1 else 0}"

def doRos : P String := do
  let s ← nat
  let A ← pMat s; let G ← pMat s; let b ← list rat
  let hb ← bool
  let bhat ← if hb then (do let v ← list rat; pure (some v)) else pure none
  let n ← nat
  let Mm ← pMat n; let L ← pMat n; let g ← pVec; let x ← pVec; let tau ← rat
  if s = 0 then failure
  let gamma := fn2 G 0 0
  if !(nonsingular (matSub Mm (matScale (tau * gamma) L))) then pure "err-singular" else
  let F : Vec → Vec := fun y => matVec L y + g
  let csolve : Rat → Vec → Vec := fun c r => solveD (matSub Mm (matScale c L)) r
  let o := rosStep s (fn2 A) (fn2 G) (fn1 b) (bhat.map fn1) F (matVec L) csolve x tau
  pure s!"ok {showVec o.xnew} | {showOptVec o.xest} | {" ".intercalate (o.ks.map showVec)}"

/-- instrumented copy of the loop state for the `newton` request: the residual norms seen by
the convergence test are reported so that the harness can recognise borderline cases. -/
def doNewton : P String := do
  let n ← nat
  let Q ← pMat n; let dq ← list rat; let c ← pVec; let x0 ← pVec
  let atol ← rat; let rtol ← rat; let maxiter ← nat; let freeze ← nat
  if freeze = 0 then failure
  let F : Vec → Vec := fun x => matVec Q x + ⟨List.zipWith (fun d xi => d * xi * xi) dq x.d⟩ - c
  let Jm : Vec → Mat := fun x => Q.zipIdx.map (fun (r, i) => r.zipIdx.map (fun (v, j) =>
    if i = j then v + 2 * dq.getD i 0 * x.d.getD i 0 else v))
  let jsolve : Vec → Vec → Vec := fun z r => solveD (Jm z) r
  let res := newton F jsolve (convSq atol rtol) maxiter freeze x0
  let (tag, xf, k) := match res with
    | .converged x k => ("ok", x, k)
    | .noConvergence x k => ("err-NoConvergence", x, k)
  -- replay the iterates to list the tested residual norms and detect singular Jacobians
  let rec replay (fuel k : Nat) (x xJ : Vec) (acc : List Rat) (sing : Bool) : List Rat × Bool :=
    match fuel with
    | 0 => (acc.reverse, sing)
    | fuel + 1 =>
      let r := F x
      let acc := nsq r :: acc
      if k ≥ (match res with | .converged _ k => k | .noConvergence _ k => k) then (acc.reverse, sing) else
      let xJ' := if k % freeze == 0 then x else xJ
      let sing := sing || !(nonsingular (Jm xJ'))
      replay fuel (k + 1) (x - jsolve xJ' r) xJ' acc sing
  let (norms, sing) := replay (maxiter + 1) 0 x0 x0 [] false
  if sing then pure "err-singular" else
  let r0 := nsq (F x0)
  let t1 := atol * atol; let t2 := rtol * rtol * r0
  pure s!"{tag} {showVec xf} | {k} | {showRats norms} | {showRat (if t1 < t2 then t2 else t1)}"

inductive ScriptC where
  | fail
  | ok (a d e : Rat) (fx : Bool)

def pScriptC : P ScriptC := do
  let f ← bool
  if f then (do let a ← rat; let d ← rat; let e ← rat; let fx ← bool; pure (.ok a d e fx)) else pure .fail

/-- scripted stepper shared with the harness: call number = length of the history. -/
def doConst : P String := do
  let t0 ← rat; let tau ← rat; let tend ← rat
  let script ← list pScriptC
  if tau = 0 then failure
  -- state = (value, call index)
  let step : (Rat × Nat) → Option (Rat × Nat) → Except StepErr ((Rat × Nat) × Option (Rat × Nat)) :=
    fun (x, idx) Fx =>
      match script.getD idx .fail with
      | .fail => .error .noConvergence
      | .ok a d e fx =>
        let fxv := match Fx with | some (v, _) => v | none => 7
        let x' := a * x + d + e * fxv
        .ok ((x', idx + 1), if fx then some (2 * x', 0) else none)
  match constDriver step ((0 : Rat), 0) tau t0 (numIterRat t0 tend tau) with
  | .error _ => pure "err-AssertionError"
  | .ok (ts, xs) => pure s!"{showRats ts} | {showRats (xs.map (·.1))}"

/-- scripted adaptive stepper item: `xnew = (x + tau*c) + (Fx*tau)*0.125` (`Fx` = the value the
driver passes, `0.5` for `None`), `xhat = xnew + e*tau`, `F_x_new = xnew*0.5 + tau`,
`NoConvergenceError` iff `tau > thr`.  The dependence on `Fx` makes the threading of `Fx`
(accepted step: `Fxnew`, rejected step: the old `Fx`) visible in the returned states. -/
structure ScriptA where
  c : Float
  e : Float
  thr : Float

def fbits : P Float := do let n ← nat; pure (Float.ofBits n.toUInt64)
def showF (x : Float) : String := toString x.toBits.toNat

def pScriptA : P ScriptA := do
  let c ← fbits; let e ← fbits; let thr ← fbits; pure { c := c, e := e, thr := thr }

open Pyiga.FloatVec in
def doAdapt : P String := do
  let q ← nat
  let tol ← fbits; let sf ← fbits; let tau0 ← fbits; let tend ← fbits; let t0 ← fbits; let x0 ← fbits
  let fuel ← nat
  let script ← list pScriptA
  if q = 0 then failure
  -- the state carries the call index (= number of accepted steps)
  let step : (Float × Nat) → Float → Option (Float × Nat) →
      Except StepErr ((Float × Nat) × (Float × Nat) × Option (Float × Nat)) :=
    fun (x, idx) tau Fx =>
      -- item = number of accepted steps so far; past the end: an exact step (always accepted)
      let it := script.getD idx { c := 1.0, e := 0.0, thr := 1.0 / 0.0 }
      let fxv : Float := match Fx with | some (v, _) => v | none => 0.5
      if it.thr < tau then .error .noConvergence else
        let xnew := (x + tau * it.c) + (fxv * tau) * 0.125
        let xhat := xnew + it.e * tau
        .ok ((xnew, idx + 1), (xhat, idx + 1), some (xnew * 0.5 + tau, 0))
  -- `np.linalg.norm((xhat - xnew) / (tol + tol*abs(x))) / np.sqrt(len(x))` for len(x) = 1
  let ratio : (Float × Nat) → (Float × Nat) → (Float × Nat) → Float := fun x xn xh =>
    let d := tol + tol * Float.abs x.1
    let v := (xh.1 - xn.1) / d
    Float.sqrt (v * v) / Float.sqrt 1.0
  let ex : Float := (-1.0) / q.toFloat
  let powf : Float → Float := fun r => Float.pow r ex
  let ctl : Ctl Float := { one := 1.0, tiny := 1e-15, lo := 0.2, hi := 5.0, half := 0.5, stepFactor := sf }
  match adaptDriver step ratio powf ctl (x0, 0) tau0 tend t0 fuel with
  | .error _ => pure "err-AssertionError"
  | .ok o =>
    let acc := o.log.map (fun ev => match ev with
      | .stepped _ a _ => if a then "1" else "0"
      | .newtonFailed => "F")
    pure s!"{showList showF o.times} | {showList (fun (s : Float × Nat) => showF s.1) o.sols} | {showF o.tau} | {if o.outOfFuel then 1 else 0} | {showList id acc}"

/-- `constf`: the constant-step driver (`constDriver`) over `Float` with a stepper that always
succeeds; `num_iter = int(ceil((t_end - t0) / tau))` in the same double arithmetic as the code
(a non-positive quotient gives an empty `range`). -/
instance : NatCast Float := ⟨Nat.toFloat⟩

def doConstF : P String := do
  let t0 ← fbits; let tau ← fbits; let tend ← fbits
  let qt := Float.ceil ((tend - t0) / tau)
  let numIter : Nat := if qt > 0.0 then qt.toUInt64.toNat else 0
  if numIter > 100000 then failure
  let step : Nat → Option Nat → Except StepErr (Nat × Option Nat) := fun k _ => .ok (k + 1, none)
  match constDriver step (0 : Nat) tau t0 numIter with
  | .error _ => pure "err-AssertionError"
  | .ok (ts, xs) => pure s!"{showList showF ts} | {xs.length}"


/-- `adaptr`: the adaptive controller (`adaptLoop`, Float) driven by a *recorded* run of a real
stepper: the script lists every stepper call the implementation made as
`idx taubits ok rbits` (`idx` = number of accepted steps before the call, `r` = the scaled error
the code computed, `ok = 0` = NoConvergenceError).  The model looks its step up by `(idx, tau)`;
a call the implementation never made is answered `err-miss`.  Output: times, tau, outOfFuel. -/
structure RecCall where
  idx : Nat
  tau : Float
  ok : Bool
  r : Float

open Pyiga.FloatVec in
def doAdaptR : P String := do
  let q ← nat
  let sf ← fbits; let tau0 ← fbits; let tend ← fbits; let t0 ← fbits
  let fuel ← nat
  let script ← list (do
    let i ← nat; let t ← fbits; let ok ← bool; let r ← fbits
    pure ({ idx := i, tau := t, ok := ok, r := r } : RecCall))
  if q = 0 then failure
  let step : (Nat × Float) → Float → Option (Nat × Float) →
      Except StepErr ((Nat × Float) × (Nat × Float) × Option (Nat × Float)) :=
    fun (idx, _) tau _ =>
      match script.find? (fun e => e.idx == idx && e.tau.toBits == tau.toBits) with
      | none => .error .assertion
      | some e => if e.ok then .ok ((idx + 1, 0.0), (idx + 1, e.r), none) else .error .noConvergence
  let ratio : (Nat × Float) → (Nat × Float) → (Nat × Float) → Float := fun _ _ xh => xh.2
  let ex : Float := (-1.0) / q.toFloat
  let ctl : Ctl Float := { one := 1.0, tiny := 1e-15, lo := 0.2, hi := 5.0, half := 0.5, stepFactor := sf }
  match adaptDriver step ratio (fun r => Float.pow r ex) ctl (0, 0.0) tau0 tend t0 fuel with
  | .error _ => pure "err-miss"
  | .ok o => pure s!"{showList showF o.times} | {showF o.tau} | {if o.outOfFuel then 1 else 0}"


/-! ### nonlinear right-hand sides through the `Float` instantiation

`F(y) = −K·y − d∘y∘y∘y + g`, `J(y) = −K − 3·diag(d∘y∘y)`. -/

section floatops
open Pyiga.FloatVec

def pFList : P (List Float) := list fbits
def toFMat (n : Nat) (l : List Float) : FMat :=
  (List.range (l.length / (if n = 0 then 1 else n))).map (fun i => (l.drop (i * n)).take n)
def showFV (v : FVec) : String := showList showF v.d
def showOptFV : Option FVec → String
  | some v => showFV v
  | none => "-"
def ffn2 (A : FMat) : Nat → Nat → Float := fun i j => (A.getD i []).getD j 0.0
def ffn1 (b : List Float) : Nat → Float := fun i => b.getD i 0.0

def nlF (K : FMat) (d g : List Float) (y : FVec) : FVec :=
  ⟨List.zipWith (fun a b => a + b)
    (List.zipWith (fun ky t => -ky - t) (matVec K y).d (List.zipWith (fun di yi => di * yi * yi * yi) d y.d)) g⟩

def nlJ (K : FMat) (d : List Float) (y : FVec) : FMat :=
  K.zipIdx.map (fun (r, i) => r.zipIdx.map (fun (v, j) =>
    if i = j then -v - 3.0 * (d.getD i 0.0 * y.d.getD i 0.0 * y.d.getD i 0.0) else -v))

/-- `norm(res) < max(atol, rtol*norm(res0))` in doubles -/
def convF (atol rtol : Float) (res0 res : FVec) : Bool :=
  decide (norm res < pmax atol (rtol * norm res0))

def allcloseF (b a : List Float) : Bool :=
  b.length == a.length &&
    (List.zipWith (fun x y => decide (Float.abs (x - y) ≤ 1e-8 + 1e-5 * Float.abs y)) b a).all id

def doDirkF : P String := do
  let s ← nat; let rows ← nat
  let Afl ← pFList
  let n ← nat
  let Ml ← pFList; let Kl ← pFList; let d ← pFList; let g ← pFList; let x ← pFList; let tau ← fbits
  let fxflag ← bool
  let Fx ← if fxflag then (do let v ← pFList; pure (some (⟨v⟩ : FVec))) else pure none
  let Afull := toFMat s Afl
  if Afull.length ≠ rows || (rows ≠ s + 1 && rows ≠ s + 2) || s = 0 then failure
  let Mm := toFMat n Ml; let K := toFMat n Kl
  let A := Afull.take s
  let b := Afull.getD s []
  let bhat := if rows = s + 2 then some (Afull.getD (s + 1) []) else none
  let isSA := allcloseF b (A.getD (s - 1) [])
  let F := nlF K d g
  let jsolve : Float → FVec → FVec → FVec := fun c z r => solveV (matSub Mm (matScale c (nlJ K d z))) r
  match dirkStep s (ffn2 A) (ffn1 b) (bhat.map ffn1) isSA (matVec Mm) (solveV Mm) F jsolve
      (convF 1e-4 1e-6) (⟨x⟩ : FVec) tau Fx with
  | .error .noConvergence => pure "err-NoConvergence"
  | .error .assertion => pure "err-AssertionError"
  | .ok o =>
    pure s!"ok {showFV o.xnew} | {showOptFV o.xest} | {showOptFV o.Fxnew} | {o.fcalls}"

def doRosF : P String := do
  let s ← nat
  let Al ← pFList; let Gl ← pFList; let b ← pFList
  let hb ← bool
  let bhat ← if hb then (do let v ← pFList; pure (some v)) else pure none
  let n ← nat
  let Ml ← pFList; let Kl ← pFList; let d ← pFList; let g ← pFList; let x ← pFList; let tau ← fbits
  if s = 0 then failure
  let A := toFMat s Al; let G := toFMat s Gl
  let Mm := toFMat n Ml; let K := toFMat n Kl
  let xv : FVec := ⟨x⟩
  let Jx := nlJ K d xv
  let o := rosStep s (ffn2 A) (ffn2 G) (ffn1 b) (bhat.map ffn1) (nlF K d g) (matVec Jx)
    (fun c r => solveV (matSub Mm (matScale c Jx)) r) xv tau
  pure s!"ok {showFV o.xnew} | {showOptFV o.xest}"

end floatops

def showGroups (g : List (List Rat)) : String := " | ".intercalate (g.map showRats)

def request : P String := do
  let op ← tok
  match op with
  | "dirk" => doDirk
  | "ros" => doRos
  | "newton" => doNewton
  | "const" => doConst
  | "adapt" => doAdapt
  | "adaptr" => doAdaptR
  | "constf" => doConstF
  | "dirkf" => doDirkF
  | "rosf" => doRosF
  | "rkres" => do let s ← nat; let A ← pMat s; let w ← list rat; pure (showGroups (rkResiduals A w))
  | "rosres" => do
      let s ← nat; let A ← pMat s; let G ← pMat s; let w ← list rat
      pure (showGroups (rosResiduals A G w))
  | "allclose" => do
      let b ← list rat; let a ← list rat
      pure (if allcloseQ rtolDefault atolDefault b a then "1" else "0")
  | _ => failure

def handle (line : String) : String :=
  match runLine request line with
  | some s => s
  | none => "bad-request"

def main : IO Unit := mainLoop handle
