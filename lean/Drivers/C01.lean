/-
Driver for correspondence stream `asm` (property C01).  Requests:

  symidx  n i j                      -> nat                      (vform.sym_index_to_seq)
  ssize   <shape> sym                -> nat | err-assertion      (codegen.storage_size)
  sidx    <shape> sym <I>            -> nat | err-value          (codegen.storage_index)
  alloc   <vars>                     -> list of "sz,ofs" ++ total  (codegen.allocate_array); var = <shape> sym
  assigned <shape> sym               -> slots written by gen_assign, in statement order
  fromseqc i <dims>                  -> list                     (from_seq1/2/3 of assemble_tools_cy)
  nextlex <cur> <start> <end>        -> "0" | "1 <cur'>"          (next_lexicographic{d})
  visits  <ndofs>                    -> list of raveled indices visited by assemble_vector, in order
  entry2  <S1ndofs> <S0ndofs> <suppU> <suppV> <ofs> i j <N> <F>
                                     -> "empty <full>" | "box <sum> <abssum> <count> <full>"
  entry1  <S0ndofs> <suppV> <ofs> i <N> <F>   -> "box <sum> <abssum> <count> <full>"
  islin   bf <kernel expression, prefix>      -> 1 | 0   (KExpr.IsLinearIn: syntactically linear in basis function bf)
where a support table is a list (per axis) of lists of `a b` pairs, `<N>` is the shape of the
assembler's local node grid and `<F>` the C-ordered table of the summand `w·integrand` for this
(i, j) at every local node (exact rationals).  `full` = sum over the whole table.
-/
import Pyiga.Proto
import Pyiga.Model.Layout
import Pyiga.Model.Assembler
import Pyiga.Model.KernelExpr

open Pyiga Pyiga.Proto Pyiga.Index Pyiga.Layout Pyiga.Asm
open Pyiga.KExpr (KExpr)

def pVar : P Var := do
  let shape ← list nat
  let sym ← bool
  pure { name := 0, shape := shape, symmetric := sym }

def pSupp : P SuppTable := list (list (do let a ← nat; let b ← nat; pure (⟨a, b⟩ : Intv)))

def ratAbs (q : Rat) : Rat := if q < 0 then -q else q

def tableKernel (N : List Nat) (F : Array Rat) (q : List Nat) : Rat :=
  F.getD (toSeq q N) 0

def showBox (g : List (Nat × Nat)) (N : List Nat) (F : Array Rat) : String :=
  let s := runCombine g (tableKernel N F)
  let a := runCombine g (fun q => ratAbs (tableKernel N F q))
  let cnt := prod (g.map (fun p => p.2 - p.1))
  let full := F.foldl (· + ·) 0
  s!"box {showRat s} {showRat a} {cnt} {showRat full}"

/-- prefix-notation kernel expression: `c q | f k | p bf D | n e | + e e | - e e | * e e | / e e | F k e` -/
def pKExpr : Nat → P (KExpr Rat)
  | 0 => failure
  | fuel + 1 => do
    let t ← tok
    match t with
    | "c" => do let q ← rat; pure (.const q)
    | "f" => do let k ← nat; pure (.field k)
    | "p" => do let b ← nat; let d ← nat; pure (.pderiv b d)
    | "n" => do let x ← pKExpr fuel; pure (.neg x)
    | "+" => do let x ← pKExpr fuel; let y ← pKExpr fuel; pure (.add x y)
    | "-" => do let x ← pKExpr fuel; let y ← pKExpr fuel; pure (.sub x y)
    | "*" => do let x ← pKExpr fuel; let y ← pKExpr fuel; pure (.mul x y)
    | "/" => do let x ← pKExpr fuel; let y ← pKExpr fuel; pure (.div x y)
    | "F" => do let k ← nat; let x ← pKExpr fuel; pure (.fn k x)
    | _ => failure

def request : P String := do
  let op ← tok
  match op with
  | "symidx" => do
      let n ← nat; let i ← nat; let j ← nat
      pure (toString (symIndexToSeq n i j))
  | "ssize" => do
      let v ← pVar
      if v.sym && v.shape.getD 0 0 != v.shape.getD 1 0 then pure "err-assertion"
      else pure (toString (storageSize v))
  | "sidx" => do
      let v ← pVar; let I ← list nat
      if v.shape ≠ [] && v.sym then
        -- sym_index_to_seq does no range check
        (if I.length ≠ 2 then pure "err-TypeError" else pure (toString (storageIndex v I)))
      else if I.length ≠ v.shape.length then pure "err-value"
      else if v.shape ≠ [] && !(decide (Pyiga.Index.toSeq I v.shape < prod v.shape) && (List.zipWith (fun a b => decide (a < b)) I v.shape).all id) then
        pure "err-value"
      else pure (toString (storageIndex v I))
  | "alloc" => do
      let vs ← list pVar
      let r := allocateArray vs
      pure (showList (fun (e : Var × Nat × Nat) => s!"{e.2.1},{e.2.2}") r.1 ++ s!" {r.2}")
  | "assigned" => do
      let v ← pVar
      let m := v.shape.getD 0 0; let n := v.shape.getD 1 0
      pure (showNats ((assignedPairs v m n).map (fun p => storageIndex v [p.1, p.2])))
  | "fromseqc" => do let i ← nat; let d ← list nat; pure (showNats (fromSeqC i d))
  | "nextlex" => do
      let c ← list nat; let s ← list nat; let e ← list nat
      if c.length ≠ s.length || c.length ≠ e.length || c.isEmpty then failure
      match nextLex c s e with
      | none => pure "0"
      | some c' => pure ("1 " ++ showNats c')
  | "visits" => do
      let nd ← list nat
      if nd.isEmpty || nd.any (· == 0) then failure
      pure (showNats ((vectorVisits nd (prod nd) (nd.map (fun _ => 0))).map (fun I => toSeq I nd)))
  | "islin" => do
      let bf ← nat
      let toks ← get
      let e ← pKExpr (toks.length + 1)
      pure (if Pyiga.KExpr.IsLinearIn bf e then "1" else "0")
  | "entry2" => do
      let s1 ← list nat; let s0 ← list nat
      let su ← pSupp; let sv ← pSupp; let ofs ← list nat
      let i ← nat; let j ← nat
      let N ← list nat; let F ← list rat
      let d := N.length
      if s1.length ≠ d || s0.length ≠ d || su.length ≠ d || sv.length ≠ d || ofs.length ≠ d || F.length ≠ prod N then failure
      let I := fromSeqC i s1
      let J := fromSeqC j s0
      let Fa := F.toArray
      match gaussRange2 (lookupSupp su J) (lookupSupp sv I) ofs with
      | none => pure s!"empty {showRat (Fa.foldl (· + ·) 0)}"
      | some g => pure (showBox g N Fa)
  | "entry1" => do
      let s0 ← list nat
      let sv ← pSupp; let ofs ← list nat
      let i ← nat
      let N ← list nat; let F ← list rat
      let d := N.length
      if s0.length ≠ d || sv.length ≠ d || ofs.length ≠ d || F.length ≠ prod N then failure
      let I := fromSeqC i s0
      pure (showBox (gaussRange1 (lookupSupp sv I) ofs) N F.toArray)
  | _ => failure

def handle (line : String) : String :=
  match runLine request line with
  | some s => s
  | none => "bad-request"

def main : IO Unit := mainLoop handle
