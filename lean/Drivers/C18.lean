/-
Driver for correspondence stream `ten` (property C18).  One request per line:

  seq  <n> <tensor>… <m> <op>…     -> step results joined by " ; "   (operation sequence, env = list of tensors)
  norm <shape> <index-tuple>        -> "<idx lists> | <shape> | <singl>" or err-<Kind>
  gen  <full> <index-tuple>         -> "F <shape> <data>" | err       (TensorGenerator.from_array(X)[I])
  genarr <full>                     -> "F <shape> <data>"             (TensorGenerator.from_array(X).asarray())
  genmat <full> <I> a0 a1 <index-tuple>  -> matrix_at(I,(a0,a1))[J]
  ftr  <full> <tolsq>               -> list                            (find_truncation_rank)
  aca  <mat A> <mat X0> <tol> maxiter maxskip maxtol <rnd>  -> "<log> | <pivots> | <X>"
  acalr <mat A> <tol> maxiter <rnd>                      -> "<log> | <pivots> | <crosses as X>"
  cop  <n> <cop>… <m> <cop-op>…    -> step results joined by " ; "   (CanonicalOperator algebra)
  matricize <full> k | modek <mat> k <full> | aouter <n> <full>…
  gtaranks (R c | A thr | N) <mode sizes> <steps: list of per-mode `ny nv`>  -> ranks   (skip rule of gta/gta_ls)
tensor   = F <shape> <data> | C <d> <mat>… | T <d> <mat>… <shape> <data> | S <n> <tensor>… | P <n> <tensor>…
mat      = rows cols <data>
index    = i <int> | s <oint> <oint> <oint> | l <ints>          (oint = N or int)
op       = neg a | add a b | sub a b | get a <index-tuple> | squeeze a (N | <ints>) | nway a <k> (N | M <mat>)…
         | pad a <k> (N | b a)… | c2t a | t2c a | trunc a <nats> | tsum <refs> | tprod <refs>
         | czeros <shape> | cones <shape> | tzeros <shape> | tones <shape> | asarr a
-/
import Pyiga.Proto
import Pyiga.Model.Tensor

open Pyiga Pyiga.Proto Pyiga.Index Pyiga.Tensor

abbrev Q := Rat

def pMat : P (Mat Q) := do
  let r ← nat; let c ← nat; let d ← list rat
  if d.length ≠ r * c then failure
  pure (Mat.ofList r c d)

def pFull : P (Full Q) := do
  let s ← list nat; let d ← list rat
  if d.length ≠ prod s then failure
  pure (Full.ofList s d)

partial def pTen : P (Ten Q) := do
  let t ← tok
  match t with
  | "F" => do let A ← pFull; pure (.full A)
  | "C" => do let Xs ← list pMat; pure (.can Xs)
  | "T" => do let Us ← list pMat; let X ← pFull; pure (.tucker Us X)
  | "S" => do
      let Xs ← list pTen
      match mkSum Xs with
      | .ok T => pure T
      | .error _ => failure
  | "P" => do let Xs ← list pTen; pure (mkProd Xs)
  | _ => failure

def oint : P (Option Int) := do
  let t ← tok
  if t == "N" then pure none else
  match t.toInt? with
  | some n => pure (some n)
  | none => failure

def pIdx : P PyIndex := do
  let t ← tok
  match t with
  | "i" => do let i ← int; pure (.int i)
  | "s" => do let a ← oint; let b ← oint; let c ← oint; pure (.slice a b c)
  | "l" => do let l ← list int; pure (.list l)
  | _ => failure

def pOptMat : P (Option (Mat Q)) := do
  let t ← tok
  match t with
  | "N" => pure none
  | "M" => do let m ← pMat; pure (some m)
  | _ => failure

def pOptPad : P (Option (Nat × Nat)) := do
  let t ← tok
  if t == "N" then pure none else
  match t.toNat? with
  | some b => do let a ← nat; pure (some (b, a))
  | none => failure

/-! ### printing -/

def showFull (A : Full Q) : String := s!"{showNats A.shape} {showRats A.toList}"

def kindOf : Ten Q → String
  | .full _ => "F"
  | .can Xs => s!"C{canR Xs}"
  | .tucker _ X => "T" ++ ",".intercalate (X.shape.map toString)
  | .sum _ Xs => s!"S{Xs.length}"
  | .prod _ Xs => s!"P{Xs.length}"

def showTen (T : Ten Q) : String := s!"{kindOf T} {showFull T.asarray}"
def showRes : Res Q → String
  | .t T => showTen T
  | .s a => s!"s {showRat a}"
def showErr (e : Err) : String := "err-" ++ e.name
def showMat (A : Mat Q) : String := s!"M {A.rows} {A.cols} {showRats A.toList}"

/-! ### operation sequences -/

inductive Op where
  | neg (a : Nat) | add (a b : Nat) | sub (a b : Nat)
  | get (a : Nat) (I : List PyIndex)
  | squeeze (a : Nat) (ax : Option (List Int))
  | nway (a : Nat) (ops : List (Option (Mat Q)))
  | pad (a : Nat) (pw : List (Option (Nat × Nat)))
  | c2t (a : Nat) | t2c (a : Nat)
  | trunc (a : Nat) (k : List Nat)
  | tsum (refs : List Nat) | tprod (refs : List Nat)
  | czeros (s : List Nat) | cones (s : List Nat) | tzeros (s : List Nat) | tones (s : List Nat)
  | asarr (a : Nat)

def pOp : P Op := do
  let t ← tok
  match t with
  | "neg" => do let a ← nat; pure (.neg a)
  | "add" => do let a ← nat; let b ← nat; pure (.add a b)
  | "sub" => do let a ← nat; let b ← nat; pure (.sub a b)
  | "get" => do let a ← nat; let I ← list pIdx; pure (.get a I)
  | "squeeze" => do
      let a ← nat
      let t ← tok
      if t == "N" then pure (.squeeze a none) else
      match t.toNat? with
      | some n => do
          let rec go : Nat → List Int → P (List Int)
            | 0, acc => pure acc.reverse
            | k+1, acc => do let x ← int; go k (x :: acc)
          let l ← go n []
          pure (.squeeze a (some l))
      | none => failure
  | "nway" => do let a ← nat; let ops ← list pOptMat; pure (.nway a ops)
  | "pad" => do let a ← nat; let pw ← list pOptPad; pure (.pad a pw)
  | "c2t" => do let a ← nat; pure (.c2t a)
  | "t2c" => do let a ← nat; pure (.t2c a)
  | "trunc" => do let a ← nat; let k ← list nat; pure (.trunc a k)
  | "tsum" => do let r ← list nat; pure (.tsum r)
  | "tprod" => do let r ← list nat; pure (.tprod r)
  | "czeros" => do let s ← list nat; pure (.czeros s)
  | "cones" => do let s ← list nat; pure (.cones s)
  | "tzeros" => do let s ← list nat; pure (.tzeros s)
  | "tones" => do let s ← list nat; pure (.tones s)
  | "asarr" => do let a ← nat; pure (.asarr a)
  | _ => failure

/-- run one op on the environment; a tensor result is appended to the environment -/
def stepOp (env : List (Ten Q)) (op : Op) : Option (Except Err (Res Q)) :=
  let g (a : Nat) : Option (Ten Q) := env[a]?
  let lift (r : Except Err (Ten Q)) : Except Err (Res Q) := r.map Res.t
  match op with
  | .neg a => (g a).map (fun T => lift T.neg)
  | .add a b => do let A ← g a; let B ← g b; pure (lift (A.add B))
  | .sub a b => do let A ← g a; let B ← g b; pure (lift (A.sub B))
  | .get a I => (g a).map (fun T => T.getitem I)
  | .squeeze a ax => (g a).map (fun T => T.squeeze ax)
  | .nway a ops => (g a).map (fun T => lift (T.nway false ops))
  | .pad a pw => (g a).map (fun T => lift (T.pad pw))
  | .c2t a => (g a).map (fun T => lift (tuckerFromTensor T))
  | .t2c a => (g a).map (fun T => lift (canFromTensor T))
  | .trunc a k => (g a).map (fun T => lift (T.truncate k))
  | .tsum refs => do let Xs ← refs.mapM g; pure (lift (mkSum Xs))
  | .tprod refs => do let Xs ← refs.mapM g; pure (.ok (.t (mkProd Xs)))
  | .czeros s => some (lift (canZeros s))
  | .cones s => some (lift (canOnes s))
  | .tzeros s => some (lift (do let C ← canZeros s; tuckerFromTensor C))
  | .tones s => some (lift (do let C ← canOnes s; tuckerFromTensor C))
  | .asarr a => (g a).map (fun T => .ok (.t (.full T.asarray)))

def runSeq : List (Ten Q) → List Op → List String → Option (List String)
  | _, [], acc => some acc.reverse
  | env, op :: ops, acc =>
      match stepOp env op with
      | none => none
      | some (.error e) => runSeq env ops (showErr e :: acc)
      | some (.ok (.t T)) => runSeq (env ++ [T]) ops (showTen T :: acc)
      | some (.ok (.s a)) => runSeq env ops (s!"s {showRat a}" :: acc)

/-! ### operator sequences -/

def pCOp : P (COp Q) := do
  let ts ← list (list pMat)
  pure ⟨ts⟩

inductive COpOp where
  | tr (a : Nat) | add (a b : Nat) | sub (a b : Nat) | neg (a : Nat) | mul (a b : Nat) | kron (a b : Nat)
  | slice (a : Nat) (l : List (Int × Int)) | apply (a : Nat) (X : Ten Q) | mk (a : Nat)

def pCOpOp : P COpOp := do
  let t ← tok
  match t with
  | "T" => do let a ← nat; pure (.tr a)
  | "add" => do let a ← nat; let b ← nat; pure (.add a b)
  | "sub" => do let a ← nat; let b ← nat; pure (.sub a b)
  | "neg" => do let a ← nat; pure (.neg a)
  | "mul" => do let a ← nat; let b ← nat; pure (.mul a b)
  | "kron" => do let a ← nat; let b ← nat; pure (.kron a b)
  | "slice" => do let a ← nat; let l ← list (pair int int); pure (.slice a l)
  | "apply" => do let a ← nat; let X ← pTen; pure (.apply a X)
  | "mk" => do let a ← nat; pure (.mk a)
  | _ => failure

def showCOp (A : COp Q) : String :=
  s!"O{A.terms.length} {showNats A.shapeOut} {showNats A.shapeIn} {showMat A.asmatrix}"

def runCOps : List (COp Q) → List COpOp → List String → Option (List String)
  | _, [], acc => some acc.reverse
  | env, op :: ops, acc =>
      let g (a : Nat) : Option (COp Q) := env[a]?
      let r : Option (Except Err (COp Q ⊕ Ten Q)) :=
        match op with
        | .tr a => (g a).map (fun A => A.T.map .inl)
        | .add a b => do let A ← g a; let B ← g b; pure ((A.add B).map .inl)
        | .sub a b => do let A ← g a; let B ← g b; pure ((A.sub B).map .inl)
        | .neg a => (g a).map (fun A => A.neg.map .inl)
        | .mul a b => do let A ← g a; let B ← g b; pure ((A.mul B).map .inl)
        | .kron a b => do let A ← g a; let B ← g b; pure ((A.kron B).map .inl)
        | .slice a l => (g a).map (fun A => (A.slice l).map .inl)
        | .apply a X => (g a).map (fun A => (A.apply X).map .inr)
        | .mk a => (g a).map (fun A => (mkCOp A.terms).map .inl)
      match r with
      | none => none
      | some (.error e) => runCOps env ops (showErr e :: acc)
      | some (.ok (.inl A)) => runCOps (env ++ [A]) ops (showCOp A :: acc)
      | some (.ok (.inr T)) => runCOps env ops (showTen T :: acc)

def showLog (l : List (Nat × Nat × Nat)) : String :=
  showList (fun (t : Nat × Nat × Nat) =>
    if t.2.2 = 1 then s!"{t.1},{t.2.1},{t.2.2}" else s!"{t.1},-,{t.2.2}") l.reverse

def request : P String := do
  let op ← tok
  match op with
  | "seq" => do
      let env ← list pTen
      let ops ← list pOp
      match runSeq env ops [] with
      | some l => pure (" ; ".intercalate l)
      | none => failure
  | "norm" => do
      let s ← list nat; let I ← list pIdx
      match normalizeIndices I s with
      | .ok n => pure s!"{showList showNats n.idx} | {showNats n.shape} | {showNats n.singl}"
      | .error e => pure (showErr e)
  | "gen" => do
      let X ← pFull; let I ← list pIdx
      match (Gen.fromArray X).getitem I with
      | .ok A => pure s!"F {showFull A}"
      | .error e => pure (showErr e)
  | "genarr" => do let X ← pFull; pure s!"F {showFull (Gen.fromArray X).asarray}"
  | "genmat" => do
      let X ← pFull; let I ← list nat; let a0 ← nat; let a1 ← nat; let J ← list pIdx
      match (Gen.fromArray X).matrixAt I a0 a1 with
      | .ok G => match G.getitem J with
        | .ok A => pure s!"F {showFull A}"
        | .error e => pure (showErr e)
      | .error e => pure (showErr e)
  | "ftr" => do
      let X ← pFull; let t ← rat
      match findTruncationRank X t with
      | .ok l => pure (showNats l)
      | .error e => pure (showErr e)
  | "aca" => do
      let A ← pMat; let X0 ← pMat; let tol ← rat
      let maxiter ← nat; let maxskip ← nat; let maxtol ← nat; let rnd ← list nat
      match aca A X0 (1 / 1000000000000000 : Rat) tol maxiter maxskip maxtol rnd with
      | .ok s => pure s!"{showLog s.log} | {showRats s.piv.reverse} | {showMat s.X}"
      | .error e => pure (showErr e)
  | "acalr" => do
      let A ← pMat; let tol ← rat; let maxiter ← nat; let rnd ← list nat
      match acaLr A (1 / 1000000000000000 : Rat) tol maxiter rnd with
      | .ok s =>
          let X : Mat Q := ⟨A.rows, A.cols, fun a b => crossesAt s.crosses a b⟩
          pure s!"{showLog s.log} | {showRats s.piv.reverse} | {s.crosses.length} {showMat X}"
      | .error e => pure (showErr e)
  | "cop" => do
      let env ← list pCOp
      let ops ← list pCOpOp
      match runCOps env ops [] with
      | some l => pure (" ; ".intercalate l)
      | none => failure
  | "gtaranks" => do
      -- ranks after replaying the basis-extension decisions: rule (R c | A thr | N), mode sizes, steps of (ny, nv) per mode
      let rt ← tok
      let rule : SkipRule Rat ← (match rt with
        | "R" => do let c ← rat; pure (SkipRule.relative c)
        | "A" => do let t ← rat; pure (SkipRule.absolute t)
        | "N" => pure SkipRule.never
        | _ => failure)
      let sizes ← list nat
      let steps ← list (list (pair rat rat))
      let U0 : List (Mat Q) := sizes.map (fun n => Mat.zeros n 1)
      let Us := steps.foldl (fun Us nys => (Us.zip nys).map (fun p => gtaExtend rule p.1 (fun _ => 0) p.2.1 p.2.2)) U0
      pure (showNats (Us.map (·.cols)))
  | "matricize" => do
      let X ← pFull; let k ← nat
      match X.matricize k with
      | .ok M => pure (showMat M)
      | .error e => pure (showErr e)
  | "modek" => do
      let B ← pMat; let k ← nat; let X ← pFull
      match X.modek B k with
      | .ok A => pure s!"F {showFull A}"
      | .error e => pure (showErr e)
  | "aouter" => do
      let Xs ← list pFull
      pure s!"F {showFull (arrayOuter Xs)}"
  | _ => failure

def handle (line : String) : String :=
  match runLine request line with
  | some s => s
  | none => "bad-request"

def main : IO Unit := mainLoop handle
