/-
Driver for correspondence stream `cfg` (property C08).  Requests:

  chunk   n k                          -> list of chunk lengths            (chunk_tasks)
  ment    n threads                    -> order in which multi_entries returns positions 0..n-1
  wsets   n threads                    -> per worker: list of written result positions
  asm     sym L <nz> <vals>            -> canonical triples | err-assertion (assemble_entries, scalar)
  rows    <bs> <bidx> <R> <nz> <vals>  -> canonical triples                 (_assemble_partial_rows)
  vecbsr  sym L br bc <nz> <blocks>    -> canonical triples | err-assertion (packed + bsr branch)
  vecgen  sym blocked nc0 nc1 <bs> <bidx> <nz> <blocks>
                                       -> canonical triples | err-key       (generic core + reorder)
  p2b     N nc r                       -> nat                               (packed -> blocked index)
  precomp repaired fuel <linear_deps> <deps> <isUpd> <basisScope> -> list     (VForm.dependency_analysis: self.precomp)
`<nz>` = the block/entry positions `S.nonzero()` (full pattern, library order) as `i j` pairs,
`<vals>` the oracle entries `asm.entry(i,j)` for them (exact rationals), `<blocks>` lists of
`nc1*nc0` rationals.  Exact zeros are dropped from the canonical output on both sides.
-/
import Pyiga.Proto
import Pyiga.Model.Assembler
import Pyiga.Model.Layout

open Pyiga Pyiga.Proto Pyiga.Index Pyiga.ML Pyiga.Asm

def pPairs : P (List (Nat × Nat)) := list (pair nat nat)

def showTrip (t : Triples Rat) : String :=
  showList (fun (x : Nat × Nat × Rat) => s!"{x.1},{x.2.1},{showRat x.2.2}")
    ((canonical t).filter (fun x => x.2.2 ≠ 0))

def lookupVal (nz : List (Nat × Nat)) (vals : List Rat) (i j : Nat) : Rat :=
  match (nz.zip vals).find? (fun p => p.1 = (i, j)) with
  | some p => p.2
  | none => 0

def lookupBlk (nz : List (Nat × Nat)) (blocks : List (List Rat)) (i j : Nat) : List Rat :=
  match (nz.zip blocks).find? (fun p => p.1 = (i, j)) with
  | some p => p.2
  | none => []

def request : P String := do
  let op ← tok
  match op with
  | "chunk" => do
      let n ← nat; let k ← nat
      if k = 0 then failure
      pure (showNats ((chunkTasks (List.range n) k).map List.length))
  | "ment" => do
      let n ← nat; let k ← nat
      if k = 0 then failure
      pure (showNats (multiEntries (fun i _ => i) ((List.range n).map (fun t => (t, t))) k))
  | "wsets" => do
      let n ← nat; let k ← nat
      if k = 0 then failure
      let idx := (List.range n).map (fun t => (t, t))
      pure (showList showNats ((List.range k).map (fun c => (workerWrites (fun i _ => i) idx k c).map (·.1))))
  | "asm" => do
      let sym ← bool; let L ← nat; let nz ← pPairs; let vals ← list rat
      if nz.length ≠ vals.length then failure
      if L = 1 && sym then pure "err-assertion"
      else pure (showTrip (assembleEntries nz sym (lookupVal nz vals)))
  | "rows" => do
      let bs ← pPairs; let bidx ← list pPairs; let R ← list nat
      let nz ← pPairs; let vals ← list rat
      if nz.length ≠ vals.length || bs.length ≠ bidx.length then failure
      pure (showTrip (assemblePartialRows { bs := bs, bidx := bidx } R (lookupVal nz vals)))
  | "vecbsr" => do
      let sym ← bool; let L ← nat; let br ← nat; let bc ← nat
      let nz ← pPairs; let blocks ← list (list rat)
      if nz.length ≠ blocks.length then failure
      if sym && (L = 1 || br ≠ bc) then pure "err-assertion"
      else pure (showTrip (assembleVecBsr nz sym br bc (lookupBlk nz blocks)))
  | "vecgen" => do
      let sym ← bool; let blocked ← bool; let nc0 ← nat; let nc1 ← nat
      let bs ← pPairs; let bidx ← list pPairs
      let nz ← pPairs; let blocks ← list (list rat)
      if nz.length ≠ blocks.length || bs.length ≠ bidx.length then failure
      let tr := bidx.map transposeIdx
      if sym && tr.any (·.any Option.isNone) then pure "err-key"
      else
        let transp := tr.map (·.map (·.getD 0))
        let rowsD := bs.map (·.1); let colsD := bs.map (·.2)
        let blk := fun (i j : List Nat) => lookupBlk nz blocks (toSeq i rowsD) (toSeq j colsD)
        let ws := coreVecAllWrites bidx transp sym nc0 nc1 blk
        if blocked then pure (showTrip (blockedTriples bs bidx nc1 nc0 ws))
        else pure (showTrip (packedTriples bs bidx nc1 nc0 ws))
  | "precomp" => do
      let repaired ← bool; let fuel ← nat
      let lin ← list nat; let deps ← list (list nat); let upd ← list bool; let basis ← list bool
      pure (showNats (Pyiga.Layout.precompRule repaired (fun v => deps.getD v []) (fun v => upd.getD v false)
        (fun v => basis.getD v false) fuel lin))
  | "p2b" => do
      let N ← nat; let nc ← nat; let r ← nat
      if nc = 0 then failure
      pure (toString (packedToBlocked N nc r))
  | _ => failure

def handle (line : String) : String :=
  match runLine request line with
  | some s => s
  | none => "bad-request"

def main : IO Unit := mainLoop handle
