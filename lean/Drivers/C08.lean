/-
Driver for correspondence stream `cfg` (property C08).  Requests:

  chunk   n k                          -> list of chunk lengths            (chunk_tasks)
  ment    n threads                    -> order in which multi_entries returns positions 0..n-1
  wsets   n threads                    -> per worker: list of written result positions
  asm     sym L <nz> <vals>            -> canonical triples | err-assertion (assemble_entries, scalar)
  rows    <bs> <bidx> <R> <nz> <vals>  -> canonical triples                 (_assemble_partial_rows)
  vecbsr  sym L br bc <nz> <blocks>    -> canonical triples | err-assertion (packed + bsr branch)
  vecgen  sym blocked nc0 nc1 <bs> <bidx> <nz> <blocks>
                                       -> canonical triples | err-key       (generic core + reorder)
  p2b     N nc r                       -> nat                               (packed -> blocked index)
  skipset <bidx>                       -> 0/1 per data position: block skipped by the symmetric vector core
  updslots f <info: has g d sz ofs>    -> `ofs:end:deriv` of every assignment of the generated update(f=…)
  precomp repaired fuel <linear_deps> <deps> <isUpd> <basisScope> -> list     (VForm.dependency_analysis: self.precomp)
`<nz>` = the block/entry positions `S.nonzero()` (full pattern, library order) as `i j` pairs,
`<vals>` the oracle entries `asm.entry(i,j)` for them (exact rationals), `<blocks>` lists of
`nc1*nc0` rationals.  Exact zeros are dropped from the canonical output on both sides.
-/
import Pyiga.Proto
import Pyiga.Model.Assembler
import Pyiga.Model.Layout
import Std.Data.HashMap

open Pyiga Pyiga.Proto Pyiga.Index Pyiga.ML Pyiga.Asm

def pPairs : P (List (Nat × Nat)) := list (pair nat nat)

/-- `canonical` in O(n log n): stable sort by position, adjacent duplicates summed in list order
(same result as `Asm.canonical`, which is quadratic) -/
def canonicalFast (t : Triples Rat) : Triples Rat :=
  let sorted := t.mergeSort (fun a b => a.1 < b.1 || (a.1 == b.1 && a.2.1 ≤ b.2.1))
  (sorted.foldl (fun (acc : List (Nat × Nat × Rat)) x =>
    match acc with
    | y :: ys => if y.1 = x.1 ∧ y.2.1 = x.2.1 then (y.1, y.2.1, y.2.2 + x.2.2) :: ys else x :: acc
    | [] => [x]) []).reverse

def showTrip (t : Triples Rat) : String :=
  showList (fun (x : Nat × Nat × Rat) => s!"{x.1},{x.2.1},{showRat x.2.2}")
    ((canonicalFast t).filter (fun x => x.2.2 ≠ 0))

def mkBlkMap (nz : List (Nat × Nat)) (blocks : List (List Rat)) : Std.HashMap (Nat × Nat) (List Rat) :=
  (nz.zip blocks).foldl (fun m p => m.insertIfNew p.1 p.2) {}

def mkValMap (nz : List (Nat × Nat)) (vals : List Rat) : Std.HashMap (Nat × Nat) Rat :=
  (nz.zip vals).foldl (fun m p => m.insertIfNew p.1 p.2) {}

def lookupVal (nz : List (Nat × Nat)) (vals : List Rat) (i j : Nat) : Rat :=
  match (nz.zip vals).find? (fun p => p.1 = (i, j)) with
  | some p => p.2
  | none => 0

def lookupBlk (nz : List (Nat × Nat)) (blocks : List (List Rat)) (i j : Nat) : List Rat :=
  match (nz.zip blocks).find? (fun p => p.1 = (i, j)) with
  | some p => p.2
  | none => []

def request : P String := do
  let op ← tok
  match op with
  | "chunk" => do
      let n ← nat; let k ← nat
      if k = 0 then failure
      pure (showNats ((chunkTasks (List.range n) k).map List.length))
  | "ment" => do
      let n ← nat; let k ← nat
      if k = 0 then failure
      pure (showNats (multiEntries (fun i _ => i) ((List.range n).map (fun t => (t, t))) k))
  | "wsets" => do
      let n ← nat; let k ← nat
      if k = 0 then failure
      let idx := (List.range n).map (fun t => (t, t))
      pure (showList showNats ((List.range k).map (fun c => (workerWrites (fun i _ => i) idx k c).map (·.1))))
  | "asm" => do
      let sym ← bool; let L ← nat; let nz ← pPairs; let vals ← list rat
      if nz.length ≠ vals.length then failure
      if L = 1 && sym then pure "err-assertion"
      else
        let vm := mkValMap nz vals
        pure (showTrip (assembleEntries nz sym (fun i j => vm.getD (i, j) 0)))
  | "rows" => do
      let bs ← pPairs; let bidx ← list pPairs; let R ← list nat
      let nz ← pPairs; let vals ← list rat
      if nz.length ≠ vals.length || bs.length ≠ bidx.length then failure
      let vm := mkValMap nz vals
      pure (showTrip (assemblePartialRows { bs := bs, bidx := bidx } R (fun i j => vm.getD (i, j) 0)))
  | "vecbsr" => do
      let sym ← bool; let L ← nat; let br ← nat; let bc ← nat
      let nz ← pPairs; let blocks ← list (list rat)
      if nz.length ≠ blocks.length then failure
      if sym && (L = 1 || br ≠ bc) then pure "err-assertion"
      else
        let bm := mkBlkMap nz blocks
        pure (showTrip (assembleVecBsr nz sym br bc (fun i j => bm.getD (i, j) [])))
  | "vecgen" => do
      let sym ← bool; let blocked ← bool; let nc0 ← nat; let nc1 ← nat
      let bs ← pPairs; let bidx ← list pPairs
      let nz ← pPairs; let blocks ← list (list rat)
      if nz.length ≠ blocks.length || bs.length ≠ bidx.length then failure
      let tr := bidx.map transposeIdx
      if sym && tr.any (·.any Option.isNone) then pure "err-key"
      else
        let transp := tr.map (·.map (·.getD 0))
        let rowsD := bs.map (·.1); let colsD := bs.map (·.2)
        let bm := mkBlkMap nz blocks
        let blk := fun (i j : List Nat) => bm.getD (toSeq i rowsD, toSeq j colsD) []
        let ws := coreVecAllWrites bidx transp sym nc0 nc1 blk
        -- last write wins, as `readEntries`
        let rm : Std.HashMap (List Nat × Nat) Rat := ws.foldl (fun m w => m.insert w.1 w.2) {}
        let rd := fun (μ : List Nat) (s : Nat) => rm.getD (μ, s) 0
        if blocked then pure (showTrip (blockedTriplesWith bs bidx nc1 nc0 rd))
        else pure (showTrip (packedTriplesWith bs bidx nc1 nc0 rd))
  | "skipset" => do
      let bidx ← list pPairs
      pure (showList (fun (b : Bool) => if b then "1" else "0") (coreVecSkipped bidx))
  | "updslots" => do
      let f ← nat
      let info ← list (do
        let has ← bool; let g ← nat; let d ← nat; let sz ← nat; let ofs ← nat
        pure ((⟨⟨0, [], false⟩, if has then some (g, d) else none⟩ : Pyiga.Layout.GVar), sz, ofs))
      pure (showList (fun (r : Nat × Nat × Nat) => s!"{r.1}:{r.2.1}:{r.2.2}") (Pyiga.Layout.updateRanges info f))
  | "precomp" => do
      let repaired ← bool; let fuel ← nat
      let lin ← list nat; let deps ← list (list nat); let upd ← list bool; let basis ← list bool
      pure (showNats (Pyiga.Layout.precompRule repaired (fun v => deps.getD v []) (fun v => upd.getD v false)
        (fun v => basis.getD v false) fuel lin))
  | "p2b" => do
      let N ← nat; let nc ← nat; let r ← nat
      if nc = 0 then failure
      pure (toString (packedToBlocked N nc r))
  | _ => failure

def handle (line : String) : String :=
  match runLine request line with
  | some s => s
  | none => "bad-request"

def main : IO Unit := mainLoop handle
