/-
Driver for the C13 streams.  Requests:

  perm <p> <q>     -> ok | fail:dbu-left | fail:dbu-right | fail:notperm | fail:inputs
        program = length-prefixed list of statements, statement = `<lhs> <k> <read_1> … <read_k> <rhs>`
        (all tokens whitespace-free; rhs is the digest / escaped text of the right-hand side)
  dbu <inputs> <p> -> 1 | 0        (defBeforeUse)
  keyeq <table> <form> <form>      -> 1 | 0  (model's VForm cache key equality; see Drivers/C06 for <expr>)
-/
import Pyiga.Proto
import Pyiga.Model.SLP

open Pyiga Pyiga.Proto Pyiga.SLP

def pStmt : P Stmt := do
  let l ← tok; let r ← list tok; let rhs ← tok
  pure { lhs := l, reads := r, rhs := rhs }

def request : P String := do
  let op ← tok
  match op with
  | "perm" => do let p ← list pStmt; let q ← list pStmt; pure (permEquivWhy p q)
  | "dbu" => do let i ← list tok; let p ← list pStmt; pure (if defBeforeUse i p then "1" else "0")
  | _ => failure

def handle (line : String) : String :=
  match runLine request line with
  | some s => s
  | none => "bad-request"

def main : IO Unit := mainLoop handle
