/-
Driver for the C13 streams.  Requests:

  perm <p> <q>     -> ok | fail:dbu-left | fail:dbu-right | fail:notperm | fail:inputs
        program = length-prefixed list of statements, statement = `<lhs> <k> <read_1> … <read_k> <rhs>`
        (all tokens whitespace-free; rhs is the digest / escaped text of the right-hand side)
  dbu <inputs> <p> -> 1 | 0        (defBeforeUse)
  keyeq <keytable> <fkeytable> <form> <od> <form> <od> -> 1 | 0   (model's cache key equality)
  hist <keytable> <fkeytable> <preseeded forms> <requests>  -> labels of the classes returned by a history mixing compile_vform / compile_vforms
  obj <keytable> <fkeytable> <preseeded forms> <steps>     -> answers of an object history (hash / compile / add / declare on one VForm)
  compile <keytable> <fkeytable> <requests>          -> for each request the index of the first request with the same key
-/
import Pyiga.Proto
import Pyiga.Model.SLP
import Pyiga.Model.VFormIO
import Pyiga.Model.CompileHist

open Pyiga Pyiga.Proto Pyiga.SLP Pyiga.VForm

def pStmt : P Stmt := do
  let l ← tok; let r ← list tok; let rhs ← tok
  pure { lhs := l, reads := r, rhs := rhs }

def request : P String := do
  let op ← tok
  match op with
  | "perm" => do let p ← list pStmt; let q ← list pStmt; pure (permEquivWhy p q)
  | "dbu" => do let i ← list tok; let p ← list pStmt; pure (if defBeforeUse i p then "1" else "0")
  | "keyeq" => do
      let kt ← pKeyTable; let ft ← pFKeyTable
      let a ← pForm; let oa ← bool; let b ← pForm; let ob ← bool
      pure (if cacheKeyBeq kt ft (a, oa) (b, ob) then "1" else "0")
  | "compile" => do
      -- a history of requests against the model cache; `gen` = the request's index in the list of
      -- distinct requests is not available here, so the answer is, per request, the position of the
      -- first request in the history with the same cache key (what the dict lookup returns)
      let kt ← pKeyTable; let ft ← pFKeyTable
      let rs ← list (pair pForm bool)
      let keys := rs.map (cacheKey kt ft)
      let ans := keys.map fun k => (keys.findIdx? (fun k' => FVal.beq k' k)).getD 0
      pure (showNats ans)
  | "hist" => do
      -- request history against the pre-seeded cache; answer: for every request the labels of the returned classes
      -- (`P<k>` = k-th pre-seeded class, `i.j` = generated for position j of request i)
      let kt ← pKeyTable; let ft ← pFKeyTable
      let pre ← list pForm
      let reqs ← list (do
        match (← tok) with
        | "1" => do let f ← pForm; let od ← bool; pure (CompileReq.one (f, od))
        | "n" => do let fs ← list pForm; pure (CompileReq.many fs)
        | _ => failure)
      let cache : AsmCache String := (pre.zipIdx.map fun (f, k) => (cacheKey kt ft (f, false), s!"P{k}")).reverse
      let ans := compileHistoryIdx (fun i j => s!"{i}.{j}") kt ft 0 cache reqs
      pure (showList (fun l => showList id l) ans)
  | "obj" => do
      let kt ← pKeyTable; let ft ← pFKeyTable
      let rc ← bool; let rf ← bool
      let pre ← list pForm
      let steps ← list (do
        match (← tok) with
        | "H" => do let f ← pForm; pure (ObjStep.hash f)
        | "C" => do let f ← pForm; let od ← bool; pure (ObjStep.compile f od)
        | "A" => pure ObjStep.add
        | "D" => do let u ← bool; pure (ObjStep.declare u)
        | _ => failure)
      let cache : AsmCache String := (pre.zipIdx.map fun (f, k) => (cacheKey kt ft (f, false), s!"P{k}")).reverse
      pure (showList id (objHistory { recompute := rc, refuseFinal := rf } (fun _ => "new") kt ft { cache := cache } steps))
  | _ => failure

def handle (line : String) : String :=
  match runLine request line with
  | some s => s
  | none => "bad-request"

def main : IO Unit := mainLoop handle
