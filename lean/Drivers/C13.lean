/-
Driver for the C13 streams.  Requests:

  perm <p> <q>     -> ok | fail:dbu-left | fail:dbu-right | fail:notperm | fail:inputs
        program = length-prefixed list of statements, statement = `<lhs> <k> <read_1> … <read_k> <rhs>`
        (all tokens whitespace-free; rhs is the digest / escaped text of the right-hand side)
  dbu <inputs> <p> -> 1 | 0        (defBeforeUse)
  keyeq <keytable> <fkeytable> <form> <od> <form> <od> -> 1 | 0   (model's cache key equality)
  compile <keytable> <fkeytable> <requests>          -> for each request the index of the first request with the same key
-/
import Pyiga.Proto
import Pyiga.Model.SLP
import Pyiga.Model.VFormIO

open Pyiga Pyiga.Proto Pyiga.SLP Pyiga.VForm

def pStmt : P Stmt := do
  let l ← tok; let r ← list tok; let rhs ← tok
  pure { lhs := l, reads := r, rhs := rhs }

def request : P String := do
  let op ← tok
  match op with
  | "perm" => do let p ← list pStmt; let q ← list pStmt; pure (permEquivWhy p q)
  | "dbu" => do let i ← list tok; let p ← list pStmt; pure (if defBeforeUse i p then "1" else "0")
  | "keyeq" => do
      let kt ← pKeyTable; let ft ← pFKeyTable
      let a ← pForm; let oa ← bool; let b ← pForm; let ob ← bool
      pure (if cacheKeyBeq kt ft (a, oa) (b, ob) then "1" else "0")
  | "compile" => do
      -- a history of requests against the model cache; `gen` = the request's index in the list of
      -- distinct requests is not available here, so the answer is, per request, the position of the
      -- first request in the history with the same cache key (what the dict lookup returns)
      let kt ← pKeyTable; let ft ← pFKeyTable
      let rs ← list (pair pForm bool)
      let keys := rs.map (cacheKey kt ft)
      let ans := keys.map fun k => (keys.findIdx? (fun k' => FVal.beq k' k)).getD 0
      pure (showNats ans)
  | _ => failure

def handle (line : String) : String :=
  match runLine request line with
  | some s => s
  | none => "bad-request"

def main : IO Unit := mainLoop handle
