/-
Driver for correspondence stream `hier` (property C04).  One request = one refinement history:

  hist <dim> {<p> <mults>}^dim <disp> <nops> {<trunc> <marks>}^nops

`<mults>` = length-prefixed multiplicities of the distinct knots of the coarse knot vector,
`<disp>` = 0 for `np.inf`, otherwise the finite disparity, `<marks>` = length-prefixed list (by
level) of length-prefixed lists of cells, a cell being `dim` numbers.

`vsup <same arguments>` answers `vsup=<payload>`: `compute_virtual_supports` of the global/new/trunc/
func_supp/cell_supp index families (`cell_global`, `cell_new`, …) on the final space.

Answer: the observable state after the constructor and after *every* `refine`, steps joined by
` ;; `, each step a list of `name=payload` segments joined by ` | ` (see `showStep`).
-/
import Pyiga.Proto
import Pyiga.Model.Hier

open Pyiga Pyiga.Proto Pyiga.Hier

def pIdx (dim : Nat) : P Idx := do
  let rec go : Nat → List Nat → P (List Nat)
    | 0, acc => pure acc.reverse
    | k+1, acc => do let a ← nat; go k (a :: acc)
  go dim []

def showIdx (i : Idx) : String := ",".intercalate (i.map toString)
def showIdxs (l : List Idx) : String := showList showIdx l
def showLL (l : List (List Idx)) : String := showList showIdxs l
def showLLL (l : List (List (List Idx))) : String := showList showLL l
def showNN (l : List (List Nat)) : String := showList showNats l

def insNat (x : Nat) : List Nat → List Nat
  | [] => [x]
  | y :: ys => if y < x then y :: insNat x ys else x :: y :: ys
def sortNat (l : List Nat) : List Nat := l.foldr insNat []

def stripTrailingEmpty (M : Marks) : Marks :=
  (M.reverse.dropWhile (·.isEmpty)).reverse

def showMarks (M : Marks) : String :=
  showLL ((stripTrailingEmpty M).map (fun c => sortIdx (dedup c)))

def showMeshInfo (s : HSpace) : String :=
  showList (fun lv =>
    showList (fun (kv : KV) =>
      s!"{kv.numspans} {kv.numdofs} " ++
      showList (fun j => s!"{kv.ms0 j},{kv.ms1 j}") (List.range kv.numdofs) ++ " " ++
      showList (fun k => s!"{(kv.suppFunc k).1},{(kv.suppFunc k).2}") (List.range kv.numspans))
      (s.mesh lv)) (List.range s.numlevels)

def showFunChildren (s : HSpace) : String :=
  showList (fun lv =>
    showList (fun (kv : KV) => showList (fun j => showNats (kv.funChildren j)) (List.range kv.numdofs))
      (s.mesh lv)) (List.range (s.numlevels - 1))

def showFunParents (s : HSpace) : String :=
  showList (fun lv =>
    showList (fun (kv : KV) => showList (fun i => showNats (kv.funParents i)) (List.range kv.refine.numdofs))
      (s.mesh lv)) (List.range (s.numlevels - 1))

def showOptNats : Option (List Nat) → String
  | some l => showNats l
  | none => "E"

def padTo (n : Nat) (l : List (List Idx)) : List (List Idx) := l ++ List.replicate (n - l.length) []

def showSupports (s : HSpace) (fns : List (List Idx)) : String :=
  let cells := mapFrom (fun l fs => (s.mesh l).support fs) 0 fns
  showLL ((padTo s.numlevels (hmeshCells s.levels cells)).map sortIdx)

def showStep (s : HSpace) (ret : String) : String :=
  let glob := s.globalIndices
  let new := s.newIndices
  let trunc := s.truncIndices
  let fsupp := s.funcSuppIndices
  let csupp := s.cellSuppIndices
  " | ".intercalate [
    "ret=" ++ ret,
    "state=" ++ showList (fun (l : Level) =>
        showIdxs (sortIdx l.act) ++ " " ++ showIdxs (sortIdx l.deact) ++ " " ++
        showIdxs (sortIdx l.actfun) ++ " " ++ showIdxs (sortIdx l.deactfun)) s.levels,
    "flatc=" ++ showList (fun (p : Nat × Idx) => s!"{p.1}:{showIdx p.2}") s.activeCellsFlat,
    "flatf=" ++ showList (fun (p : Nat × Idx) => s!"{p.1}:{showIdx p.2}") s.activeFunctionsFlat,
    "numdofs=" ++ toString s.numdofs,
    "aidx=" ++ showNN s.activeIndices,
    "didx=" ++ showNN s.deactivatedIndices,
    "glob=" ++ showLLL glob,
    "new=" ++ showLLL new,
    "trunc=" ++ showLLL trunc,
    "fsupp=" ++ showLLL fsupp,
    "csupp=" ++ showLLL csupp,
    "smooth=" ++ showList (fun ix => showList showOptNats (s.indicesToSmooth ix)) [new, trunc, fsupp, csupp],
    "inc=" ++ showNN (s.incidence.map sortNat),
    "mesh=" ++ showMeshInfo s,
    "fch=" ++ showFunChildren s,
    "fpa=" ++ showFunParents s,
    "sup=" ++ showList (fun ix => showSupports s (ix.getLastD [])) [glob, trunc, fsupp, csupp]
  ]

def showVsup (s : HSpace) : String :=
  "vsup=" ++ showList (fun ix =>
      showList (fun (e : List (List Idx)) => showLL ((padTo s.numlevels e).map sortIdx)) (s.virtualSupports ix))
    [s.globalIndices, s.newIndices, s.truncIndices, s.funcSuppIndices, s.cellSuppIndices]

def pKV : P KV := do
  let p ← nat
  let m ← list nat
  pure { p := p, mults := m }

/-- parse `<dim> {kv}^dim <disp> <nops> {op}^nops` -/
def pHistory : P (HSpace × List (Bool × Marks)) := do
  let dim ← nat
  let rec kvs : Nat → List KV → P (List KV)
    | 0, acc => pure acc.reverse
    | k+1, acc => do let kv ← pKV; kvs k (kv :: acc)
  let mesh ← kvs dim []
  let disp ← nat
  let nops ← nat
  let rec ops : Nat → List (Bool × Marks) → P (List (Bool × Marks))
    | 0, acc => pure acc.reverse
    | k+1, acc => do
        let tr ← bool
        let M ← list (list (pIdx dim))
        ops k ((tr, M) :: acc)
  let hist ← ops nops []
  pure (HSpace.init mesh (if disp = 0 then none else some disp), hist)

def request : P String := do
  let op ← tok
  match op with
  | "hist" => do
      let (s0, hist) ← pHistory
      let rec run : HSpace → List (Bool × Marks) → List String → List String
        | _, [], acc => acc.reverse
        | s, (tr, M) :: rest, acc =>
          match s.refine M tr with
          | .ok (s', M') => run s' rest (showStep s' (showMarks M') :: acc)
          | .error e => run s rest (e :: acc)
      pure (" ;; ".intercalate (run s0 hist [showStep s0 "-"]))
  | "vsup" => do
      -- `compute_virtual_supports` of the five index families on the space reached by the history
      let (s0, hist) ← pHistory
      let final := hist.foldl (fun (s : HSpace) (o : Bool × Marks) =>
        match s.refine o.2 o.1 with
        | .ok (s', _) => s'
        | .error _ => s) s0
      pure (showVsup final)
  | _ => failure

def handle (line : String) : String :=
  match runLine request line with
  | some s => s
  | none => "bad-request"

def main : IO Unit := mainLoop handle
