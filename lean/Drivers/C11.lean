/-
Driver for correspondence streams `relax` and `mg` (property C11).  Requests (lists are
length-prefixed; matrices row-major as one list; `sweep` = 0 forward, 1 backward, 2 symmetric):

  gs   n <indptr> <indices> <data> <b> <x> hasidx [<idx>] iterations sweep   -> <x>   (CSR kernel)
  gsd  n <A n*n> <b> <x> hasidx [<idx>] iterations sweep                     -> <x>   (dense branch)
  mg   L <sizes> <A> <P_0> .. <P_{L-2}> <ind_0> .. <ind_{L-1}> smoother steps <x> <f>  -> <x>
       smoother: 0 gs, 1 forward_gs, 2 backward_gs, 3 symmetric_gs, 4 exact   (one V-cycle of local_mg_step)
  mgsolve  (same as mg without <x>) <active> tol maxiter
       -> <x> ; k or inf ; <res²/res0² after every step>        (solve_hmultigrid glue: iterative_solve ∘ local_mg_step)
  isolve <c> <d> <a> <f> hasx0 [x0] tol maxiter        scalar step x ↦ c·x + d, residual f − a·x
       -> x ; k or inf        (initial residual zero: returns x0 ; 0)
  isolvev n <A> <f> <B> <c> hasx0 [<x0>] <active> tol maxiter     vector step x ↦ B·x + c, residual on `active`
       -> <x> ; k or inf ; <res²/res0² after every step>
  twogrid n nc <A> <P n*nc> <f> hasu0 [<u0>] tol smooth_steps maxiter gsiters sweep
       -> <u> ; numiter ; exit ; <res²/res0² judged in every round>
  smooth numlevels useExtra disparity(-1 = inf) <act_l>.. <deact_l>.. <dir[lv][i]>.. <extra[lv][i]>.. <avail[lv][l]>..
       -> per level: canonical index list or `err-ValueError`, separated by ` ; `
-/
import Pyiga.Proto
import Pyiga.Model.Relax
import Pyiga.Model.LocalMG
import Pyiga.Model.RatVec

open Pyiga Pyiga.Proto Pyiga.Relax Pyiga.RatVec

def toMat (n : Nat) (l : List Rat) : Mat :=
  (List.range (l.length / (if n = 0 then 1 else n))).map (fun i => (l.drop (i * n)).take n)

def fnOf (l : List Rat) : Nat → Rat := fun i => l.getD i 0
def listOf (n : Nat) (x : Nat → Rat) : List Rat := (List.range n).map x

def pSweep : P Sweep := do
  let k ← nat
  match k with
  | 0 => pure .forward
  | 1 => pure .backward
  | 2 => pure .symmetric
  | _ => failure

def pOptIdx : P (Option (List Nat)) := do
  let h ← bool
  if h then (do let l ← list nat; pure (some l)) else pure none

def relaxCSR (_n : Nat) (A : CSR Rat) (b : Nat → Rat) (idx : List Nat) (x : List Rat) : List Rat :=
  gsSweep A b idx x

def relaxDense (n : Nat) (A : Mat) (b : Nat → Rat) (idx : List Nat) (x : List Rat) : List Rat :=
  denseSweep n (fun i j => (A.getD i []).getD j 0) b idx x

/-- dense matrix -> CSR with every entry stored (explicit zeros included; harmless for the kernel) -/
def csrOfDense (A : Mat) : CSR Rat :=
  let n := (A.headD []).length
  { indptr := (List.range (A.length + 1)).map (· * n),
    indices := A.flatMap (fun _ => List.range n),
    data := A.flatMap id }

def doGs : P String := do
  let n ← nat
  let indptr ← list nat; let indices ← list nat; let data ← list rat
  let b ← list rat; let x ← list rat
  let idx ← pOptIdx; let its ← nat; let sw ← pSweep
  let A : CSR Rat := { indptr := indptr, indices := indices, data := data }
  pure (showRats (gaussSeidel (relaxCSR n A (fnOf b)) n idx its sw x))

def doGsd : P String := do
  let n ← nat
  let A ← list rat; let b ← list rat; let x ← list rat
  let idx ← pOptIdx; let its ← nat; let sw ← pSweep
  pure (showRats (gaussSeidel (relaxDense n (toMat n A) (fnOf b)) n idx its sw x))

/-! ### local multigrid -/

structure MGData where
  L : Nat
  sizes : List Nat
  As : List Mat          -- As[0..L-1]
  Ps : List Mat          -- Ps[l] : n_{l+1} × n_l
  inds : List (List Nat)
  smoother : Nat
  steps : Nat

/-- `As = [A]; for P in reversed(Ps): As.append(P.T @ As[-1] @ P); As.reverse()` (model: `galerkinChain`) -/
def galerkin (A : Mat) (Ps : List Mat) (sizes : List Nat) : List Mat :=
  galerkinChain (fun l => sizes.getD l 0) (fun l => Ps.getD l []) A (sizes.length - 1)

def subMat (A : Mat) (ind : List Nat) : Mat := ind.map (fun i => ind.map (fun j => (A.getD i []).getD j 0))
def gather (v : Vec) (ind : List Nat) : List Rat := ind.map (fun i => v.d.getD i 0)
def pad (n : Nat) (v : Vec) : List Rat := (List.range n).map (fun i => v.d.getD i 0)
def scatter (n : Nat) (v : Vec) (ind : List Nat) (vals : List Rat) (add : Bool) : Vec :=
  ⟨(List.range n).map (fun i =>
    match ind.idxOf? i with
    | some k => (if add then v.d.getD i 0 else 0) + vals.getD k 0
    | none => v.d.getD i 0)⟩

/-- the modelled `local_mg_step` (`Model/LocalMG.lean`) over `Rat`; `Bs[lv]` = exact Gauss-Jordan -/
def mgSetup (D : MGData) : MGSetup Rat :=
  { top := D.L - 1,
    size := fun lv => D.sizes.getD lv 0,
    A := fun lv => matFn (D.As.getD lv []),
    P := fun lv => matFn (D.Ps.getD lv []),
    ind := fun lv => D.inds.getD lv [],
    smoother := D.smoother,
    steps := D.steps,
    subSolve := fun lv rhs =>
      (solve (subMat (D.As.getD lv []) (D.inds.getD lv [])) rhs).getD (rhs.map (fun _ => 0)) }

def mgCycle (D : MGData) (x f : Vec) : Vec :=
  ⟨(localMgStep (mgSetup D) ⟨x.d⟩ ⟨f.d⟩).d⟩

def mgSingular (D : MGData) : Bool :=
  let lvls := if D.smoother == 4 then List.range D.L else [0]
  lvls.any (fun lv => !(nonsingular (subMat (D.As.getD lv []) (D.inds.getD lv []))))

def pMG : P MGData := do
  let L ← nat
  let sizes ← list nat
  if sizes.length ≠ L || L = 0 then failure
  let A ← list rat
  let nTop := sizes.getD (L - 1) 0
  let rec readPs (l : Nat) (k : Nat) (acc : List Mat) : P (List Mat) :=
    match k with
    | 0 => pure acc.reverse
    | k + 1 => do
      let p ← list rat
      readPs (l + 1) k (toMat (sizes.getD l 0) p :: acc)
  let Ps ← readPs 0 (L - 1) []
  let rec readInds (k : Nat) (acc : List (List Nat)) : P (List (List Nat)) :=
    match k with
    | 0 => pure acc.reverse
    | k + 1 => do let i ← list nat; readInds k (i :: acc)
  let inds ← readInds L []
  let sm ← nat; let steps ← nat
  let Atop := toMat nTop A
  pure { L := L, sizes := sizes, As := galerkin Atop Ps sizes, Ps := Ps, inds := inds, smoother := sm, steps := steps }

def doMg : P String := do
  let D ← pMG
  let x ← list rat; let f ← list rat
  if mgSingular D then pure "err-singular" else
  pure (showRats (mgCycle D ⟨x⟩ ⟨f⟩).d)

/-- `res/res0 < tol` via squares; `res0 = 0` never converges (division by zero gives inf/nan). -/
def convSq (res0sq tol : Rat) (ressq : Rat) : Bool := res0sq != 0 && decide (ressq < tol * tol * res0sq)

def doMgSolve : P String := do
  let D ← pMG
  let f ← list rat
  let active ← list nat
  let tol ← rat; let maxiter ← nat
  if mgSingular D then pure "err-singular" else
  let n := D.sizes.getD (D.L - 1) 0
  let A := D.As.getD (D.L - 1) []
  let fv : Vec := ⟨f⟩
  let ressq (x : Vec) : Rat := let r := fv - matVec A ⟨pad n x⟩; dot (gather r active) (gather r active)
  let res0 := dot (gather fv active) (gather fv active)
  let x0 : Vec := ⟨(List.range n).map (fun _ => 0)⟩
  let (x, k) := iterativeSolveNow (res0 == 0) (fun x => mgCycle D x fv) (fun x => convSq res0 tol (ressq x)) maxiter x0
  -- replay for the ratios
  let kk := match k with | some k => k | none => (if maxiter = 0 then 1 else maxiter)
  let _ := kk
  let ratios := ((List.range kk).foldl (fun (st : Vec × List Rat) _ =>
      let x' := mgCycle D st.1 fv
      (x', st.2 ++ [if res0 = 0 then -1 else ressq x' / res0])) (x0, [])).2
  pure s!"{showRats x.d} ; {match k with | some k => toString k | none => "inf"} ; {showRats ratios}"

def doISolve : P String := do
  let c ← rat; let d ← rat; let a ← rat; let f ← rat
  let hx ← bool
  let x0 ← if hx then rat else pure 0
  let tol ← rat; let maxiter ← nat
  let res0sq := if hx then (f - a * x0) * (f - a * x0) else f * f
  let (x, k) := iterativeSolveNow (res0sq == 0) (fun x => c * x + d) (fun x => convSq res0sq tol ((f - a * x) * (f - a * x))) maxiter x0
  pure s!"{showRat x} ; {match k with | some k => toString k | none => "inf"}"

/-- `iterative_solve(lambda x: B@x + c, A, f, x0, active_dofs=active, tol, maxiter)`: both the initial and the
running residual are restricted to `active_dofs` (lines 264-285). -/
def doISolveV : P String := do
  let n ← nat
  let A ← list rat; let f ← list rat; let B ← list rat; let c ← list rat
  let hx ← bool
  let x0 ← if hx then list rat else pure ((List.range n).map (fun _ => 0))
  let active ← list nat
  let tol ← rat; let maxiter ← nat
  let A := toMat n A; let B := toMat n B
  let fv : Vec := ⟨f⟩
  let ressq (x : Vec) : Rat := let r := fv - matVec A ⟨pad n x⟩; dot (gather r active) (gather r active)
  -- `x0 is None`: `res0 = f` (x = 0), else `f - A @ x0`; then restricted to the active dofs
  let res0 := ressq ⟨x0⟩
  let step (x : Vec) : Vec := matVec B ⟨pad n x⟩ + ⟨c⟩
  let (x, k) := iterativeSolveNow (res0 == 0) step (fun x => convSq res0 tol (ressq x)) maxiter ⟨x0⟩
  let kk := match k with | some k => k | none => (if maxiter = 0 then 1 else maxiter)
  let ratios := ((List.range kk).foldl (fun (st : Vec × List Rat) _ =>
      let x' := step st.1
      (x', st.2 ++ [if res0 = 0 then -1 else ressq x' / res0])) ((⟨x0⟩ : Vec), [])).2
  pure s!"{showRats (pad n x)} ; {match k with | some k => toString k | none => "inf"} ; {showRats ratios}"

def doTwogrid : P String := do
  let n ← nat; let nc ← nat
  let A ← list rat; let Pm ← list rat; let f ← list rat
  let hu ← bool
  let u0 ← if hu then list rat else pure ((List.range n).map (fun _ => 0))
  let tol ← rat; let steps ← nat; let maxiter ← nat; let gsits ← nat; let sw ← pSweep
  let A := toMat n A; let Pm := toMat nc Pm
  let Ac := matMul (transpose nc Pm) (matMul A Pm nc) nc
  if !(nonsingular Ac) then pure "err-singular" else
  let fv : Vec := ⟨f⟩
  let resid (u : Vec) : Vec := fv - matVec A u
  let res0 := nsq (resid ⟨u0⟩)
  let smooth (u : Vec) : Vec := ⟨gaussSeidel (relaxCSR n (csrOfDense A) (fnOf f)) n none gsits sw (pad n u)⟩
  let corr (u : Vec) : Vec :=
    let r := resid u
    u + matVec Pm (solveD Ac (matVec (transpose nc Pm) r))
  -- `res < tol*res0`, `res > 20*res0` for non-negative quantities via squares
  let small (u : Vec) : Bool := decide (nsq (resid u) < tol * tol * res0)
  let large (u : Vec) : Bool := decide (nsq (resid u) > 400 * res0)
  let (u, k, e) := twogrid smooth corr small large steps maxiter ⟨u0⟩
  let ratios := ((List.range k).foldl (fun (st : Vec × List Rat) _ =>
      let us := iter smooth steps st.1
      (corr us, st.2 ++ [if res0 = 0 then -1 else nsq (resid us) / res0])) ((⟨u0⟩ : Vec), [])).2
  let es := match e with
    | .converged => "converged" | .diverged => "diverged" | .tooMany => "toomany" | .outOfFuel => "outoffuel"
  pure s!"{showRats (pad n u)} ; {k} ; {es} ; {showRats ratios}"

def doSmooth : P String := do
  let nl ← nat; let useExtra ← bool; let disp ← int
  let rec readL (k : Nat) (acc : List (List Nat)) : P (List (List Nat)) :=
    match k with
    | 0 => pure acc.reverse
    | k + 1 => do let i ← list nat; readL k (i :: acc)
  let act ← readL nl []; let deact ← readL nl []
  let dir ← readL (nl * nl) []; let extra ← readL (nl * nl) []; let avail ← readL (nl * nl) []
  let g1 (t : List (List Nat)) : Nat → List Nat := fun i => t.getD i []
  let g2 (t : List (List Nat)) : Nat → Nat → List Nat := fun lv i => t.getD (lv * nl + i) []
  let disparity : Option Nat := if disp < 0 then none else some disp.toNat
  let outs := (List.range nl).map (fun lv =>
    match toCanonical nl (g2 avail lv) (smoothIndices useExtra disparity (g1 act) (g1 deact) (g2 dir) (g2 extra) lv) with
    | some l => showNats l
    | none => "err-ValueError")
  pure (" ; ".intercalate outs)

def request : P String := do
  let op ← tok
  match op with
  | "gs" => doGs
  | "gsd" => doGsd
  | "mg" => doMg
  | "mgsolve" => doMgSolve
  | "isolve" => doISolve
  | "isolvev" => doISolveV
  | "twogrid" => doTwogrid
  | "smooth" => doSmooth
  | _ => failure

def handle (line : String) : String :=
  match runLine request line with
  | some s => s
  | none => "bad-request"

def main : IO Unit := mainLoop handle
