/-
Layer L-proto (DESIGN §5, §6/C20): the on-disk compile cache of `pyiga/compile.py`
as a small-step machine over a shared directory.  No Mathlib; executable.

What is modelled (line references of the in-place build are to pyiga/compile.py before fix commit
bd865f5; since that commit /repo implements the *repaired* protocol below — `_build_cython_module`
is the old body writing into `builddir`, `_compile_cython_module_nocache` is mkdtemp / build /
`os.replace` / rmtree / import):

* the directory  `Dir : Path → FileState`  with  `absent | part | complete src` (`part` = partial: truncated, half-written or garbage);
  paths are either *shared* (`MODDIR/mod<name>.{pyx,c,o,so}`; `shared n .so` is the
  **final path** that `importlib.import_module('mod<name>')` loads) or *private*
  (`MODDIR/build-<t>/…`, the directory returned by `tempfile.mkdtemp`);
* a process = one call of `compile_cython_module(src)` (l.58-73): `import_module`
  first, on `ImportError` the build of `_compile_cython_module_nocache` (l.25-55):
  write `.pyx` (`open(...,'w+')` truncates, then writes), `cythonize` → `.c`,
  compile → `.o`, link → `.so`, `import_module` again;
  every write is two steps (`…0` opens/truncates: the file becomes `partial`;
  `…1` finishes: `complete s`), so that a crash *inside* a write is a `kill` between them;
* **current protocol** (`Proto.current`, the code before the fix, kept for the negation
  witnesses): all four files are written *in place* in
  MODDIR (`w = none`), in particular the linker writes the final path;
* **repaired protocol** (`Proto.repaired` = /repo now, fixes/C20-atomic-publish.patch): `mkdtemp`
  (fresh id from `nextTmp`), the same four writes inside the private directory
  (`w = some t`), one atomic `os.replace` of the finished `.so` onto the final path
  (`pub`), `rmtree` of the private directory (`clean`), import from the final path;
* loader: importing a `complete s` file yields the module for `s`; an `absent` file
  is an `ImportError`; a `partial` file **either kills the interpreter (SIGBUS in
  dlopen — reproduced on the real code) or raises ImportError** — the `crash` flag of
  the `run` event resolves this nondeterminism, both are explored;
* tools (Cython, gcc, ld): given a `complete s` input they produce a `complete s`
  output (toolchain contract, assumed); given anything else they fail with a
  non-ImportError exception, which ends the request (`failed`);
* a scheduler: `exec` folds an arbitrary list of events `spawn | run | kill | fault`
  over the state; any number of processes (slots `Nat → Proc`), any interleaving at
  step granularity, kills at any step boundary, restarts = spawns in fresh slots.

Not modelled: timestamp-based skipping inside `cythonize` / distutils `newer_group`
(a lone process has just rewritten the `.pyx`, so it always regenerates; with several
processes skipping only adds further ways of consuming another process's partial file);
kernel rename/dlopen semantics; real scheduling.
-/

namespace Pyiga.CompileCache

/-- identity of a Cython source text -/
abbrev Src := Nat

inductive FileState where
  | absent
  | part
  | complete (s : Src)
  deriving DecidableEq, Repr, Inhabited

inductive Kind where
  | pyx | c | o | so
  deriving DecidableEq, Repr

inductive Path where
  /-- `MODDIR/mod<name>.<kind>`; kind `so` is the path that is imported -/
  | shared (name : Nat) (k : Kind)
  /-- `MODDIR/build-<tmp>/mod<name>.<kind>` -/
  | priv (tmp : Nat) (k : Kind)
  deriving DecidableEq, Repr

abbrev Dir := Path → FileState

def Dir.empty : Dir := fun _ => .absent

def Dir.set (d : Dir) (p : Path) (v : FileState) : Dir :=
  fun q => if q = p then v else d q

/-- `shutil.rmtree(builddir)` -/
def Dir.rmtree (d : Dir) (t : Nat) : Dir :=
  fun q => match q with
    | .priv t' _ => if t' = t then .absent else d q
    | _ => d q

/-- where a build writes: `none` = in place in MODDIR, `some t` = private directory `t` -/
abbrev Where := Option Nat

def fileAt (n : Nat) : Where → Kind → Path
  | none, k => .shared n k
  | some t, k => .priv t k

/-- the path `import_module('mod<n>')` resolves to -/
def final (n : Nat) : Path := .shared n .so

inductive PC where
  | unborn
  /-- l.69 `importlib.import_module(modname)` -/
  | imp
  /-- `tempfile.mkdtemp(dir=MODDIR)` (repaired only) -/
  | mk
  /-- l.26-28 `open(modfile,'w+')` / `f.write(src)` -/
  | pyx0 (w : Where) | pyx1 (w : Where)
  /-- l.46 `cythonize` reads `.pyx`, writes `.c` -/
  | cy0 (w : Where) | cy1 (w : Where) (s : Src)
  /-- l.54 `build_extension.run()`: compile reads `.c`, writes `.o` -/
  | cc0 (w : Where) | cc1 (w : Where) (s : Src)
  /-- … link reads `.o`, writes `.so` -/
  | ld0 (w : Where) | ld1 (w : Where) (s : Src)
  /-- `os.replace(build-t/mod.so, MODDIR/mod.so)` (repaired only) -/
  | pub (t : Nat)
  /-- second half of a non-atomic publish (`Proto.copyPublish` only) -/
  | pub1 (t : Nat)
  /-- `shutil.rmtree(builddir)` (repaired only) -/
  | clean (t : Nat)
  /-- l.55 `return importlib.import_module(modname)` -/
  | imp2
  /-- terminal: the request returned the module built from source `s` -/
  | loaded (s : Src)
  /-- terminal: the request raised (tool error, or ImportError out of the build) -/
  | failed
  /-- terminal, the bad event: the interpreter died while importing -/
  | crashed
  /-- terminal: killed from outside (SIGKILL, power loss) -/
  | killed
  deriving DecidableEq, Repr

inductive Proto where
  /-- `pyiga/compile.py` before fix bd865f5: every file written in place in MODDIR -/
  | current
  /-- /repo since fix bd865f5: private `mkdtemp` directory + one atomic rename -/
  | repaired
  /-- a tempting wrong repair (kept as a negative example): build in a directory with a
  *fixed* name shared by all processes, then publish by rename -/
  | sharedTmp
  /-- another wrong repair (negative example): private directory, but the finished `.so` is
  *copied* onto the final path (`shutil.copy`) instead of renamed — publishing is two steps -/
  | copyPublish
  deriving DecidableEq, Repr

structure Proc where
  src : Src
  pc : PC
  deriving Repr

structure State where
  dir : Dir
  procs : Nat → Proc
  nextTmp : Nat

def State.init : State := { dir := Dir.empty, procs := fun _ => ⟨0, .unborn⟩, nextTmp := 0 }

/-- `import_module` on the final path; `onErr` is where an `ImportError` leads. -/
def importStep (d : Dir) (n : Nat) (crash : Bool) (onErr : PC) : PC :=
  match d (final n) with
  | .complete s => .loaded s
  | .absent => onErr
  | .part => if crash then .crashed else onErr

/-- a tool reading its input file: proceeds only on a complete file -/
def readSrc (d : Dir) (p : Path) : Option Src :=
  match d p with
  | .complete s => some s
  | _ => none

/-- One step of one process: new directory, new temp counter, new program counter.
`n = digest src` is the module name. -/
def pstep (proto : Proto) (n : Nat) (d : Dir) (nt : Nat) (src : Src) (crash : Bool) :
    PC → Dir × Nat × PC
  | .imp => (d, nt, importStep d n crash
      (match proto with
        | .current => .pyx0 none | .repaired => .mk | .sharedTmp => .pyx0 (some 0) | .copyPublish => .mk))
  | .mk => (d, nt + 1, .pyx0 (some nt))
  | .pyx0 w => (d.set (fileAt n w .pyx) .part, nt, .pyx1 w)
  | .pyx1 w => (d.set (fileAt n w .pyx) (.complete src), nt, .cy0 w)
  | .cy0 w =>
      match readSrc d (fileAt n w .pyx) with
      | some s => (d.set (fileAt n w .c) .part, nt, .cy1 w s)
      | none => (d, nt, .failed)
  | .cy1 w s => (d.set (fileAt n w .c) (.complete s), nt, .cc0 w)
  | .cc0 w =>
      match readSrc d (fileAt n w .c) with
      | some s => (d.set (fileAt n w .o) .part, nt, .cc1 w s)
      | none => (d, nt, .failed)
  | .cc1 w s => (d.set (fileAt n w .o) (.complete s), nt, .ld0 w)
  | .ld0 w =>
      match readSrc d (fileAt n w .o) with
      | some s => (d.set (fileAt n w .so) .part, nt, .ld1 w s)
      | none => (d, nt, .failed)
  | .ld1 w s => (d.set (fileAt n w .so) (.complete s), nt,
      match w with | none => .imp2 | some t => .pub t)
  | .pub t =>
      match proto with
      | .copyPublish => (d.set (final n) .part, nt, .pub1 t)
      | _ => ((d.set (final n) (d (.priv t .so))).set (.priv t .so) .absent, nt, .clean t)
  | .pub1 t => (d.set (final n) (d (.priv t .so)), nt, .clean t)
  | .clean t => (d.rmtree t, nt, .imp2)
  | .imp2 => (d, nt, importStep d n crash .failed)
  | pc => (d, nt, pc)

/-- a process that can still take steps (and can be killed) -/
def PC.live : PC → Bool
  | .unborn | .loaded _ | .failed | .crashed | .killed => false
  | _ => true

inductive Event where
  /-- start a request for source `s` in slot `i` (a fresh process; a restart is a spawn) -/
  | spawn (i : Nat) (s : Src)
  /-- process `i` takes one step; `crash` = how the loader reacts if it meets a partial file -/
  | run (i : Nat) (crash : Bool)
  /-- SIGKILL of process `i` -/
  | kill (i : Nat)
  /-- external corruption of a file (fault injection; stale-temporary garbage) -/
  | fault (p : Path) (v : FileState)
  deriving Repr

def State.setProc (σ : State) (i : Nat) (p : Proc) : State :=
  { σ with procs := fun j => if j = i then p else σ.procs j }

def step (proto : Proto) (digest : Src → Nat) (σ : State) : Event → State
  | .spawn i s => if (σ.procs i).pc = .unborn then σ.setProc i ⟨s, .imp⟩ else σ
  | .run i crash =>
      let p := σ.procs i
      let r := pstep proto (digest p.src) σ.dir σ.nextTmp p.src crash p.pc
      { dir := r.1, nextTmp := r.2.1,
        procs := fun j => if j = i then ⟨p.src, r.2.2⟩ else σ.procs j }
  | .kill i => if (σ.procs i).pc.live then σ.setProc i ⟨(σ.procs i).src, .killed⟩ else σ
  | .fault p v => { σ with dir := σ.dir.set p v }

/-- the scheduler: any list of events -/
def exec (proto : Proto) (digest : Src → Nat) (σ : State) (tr : List Event) : State :=
  tr.foldl (step proto digest) σ

/-- External cache wipe: `scripts/clear-cache.py` (or any `rm -rf` of the modules directory)
run by another process.  The whole directory — shared entries and every build directory —
is gone; processes and the `mkdtemp` counter are untouched. -/
def State.wipe (σ : State) : State := { σ with dir := Dir.empty }

/-- no request is in progress (the state *between* the requests of long-lived processes) -/
def State.Quiescent (σ : State) : Prop := ∀ i, (σ.procs i).pc.live = false

/-- `k` consecutive steps of process `i` -/
def runs (i : Nat) (crash : Bool) (k : Nat) : List Event := List.replicate k (Event.run i crash)

end Pyiga.CompileCache
