/-
L-idx (faces): `assemble.slice_indices`, `boundary_dofs`, `boundary_cells`
transliterated (no Mathlib).  Shared by C10 (boundary dofs are enumerated exactly once)
and C14 (`join_boundaries` pairs the k-th dofs of two faces).

pyiga/assemble.py:346-385
```
def slice_indices(ax, idx, shape, ravel=False, flip=None):
    shape = tuple(shape)
    if idx < 0:
        idx += shape[ax]     # wrap around
    axdofs = [range(n) for n in shape]
    if flip is not None:
        flip = tuple(flip)
        flip = flip[:ax] + (False,) + flip[ax:]     # insert trivial axis
        for i, flp in enumerate(flip):
            if flp:
                axdofs[i] = reversed(axdofs[i])
    axdofs[ax] = [idx]
    multi_indices = np.array(list(itertools.product(*axdofs)))
    if ravel:
        multi_indices = np.ravel_multi_index(multi_indices.T, shape)
    return multi_indices
```
-/
import Pyiga.Model.Index

namespace Pyiga.Slice
open Pyiga.Index

/-- `itertools.product(*lists)`: the last factor varies fastest. -/
def product : List (List Nat) → List (List Nat)
  | [] => [[]]
  | l :: ls => l.flatMap (fun a => (product ls).map (a :: ·))

/-- `flip[:ax] + (False,) + flip[ax:]` -/
def insertFalse (ax : Nat) (flip : List Bool) : List Bool :=
  flip.take ax ++ false :: flip.drop ax

/-- the loop `for i, flp in enumerate(flip): if flp: axdofs[i] = reversed(axdofs[i])`,
for a flip tuple not longer than `axdofs` (a longer one with a `True` beyond the end raises
`IndexError` in Python; the driver answers that case separately). -/
def applyFlip : List (List Nat) → List Bool → List (List Nat)
  | d :: ds, f :: fs => (if f then d.reverse else d) :: applyFlip ds fs
  | ds, _ => ds

/-- Python index wrap `if idx < 0: idx += n` followed by use as a coordinate;
`none` when the result is not a valid coordinate (`np.ravel_multi_index` raises then). -/
def wrapIdx (idx : Int) (n : Nat) : Option Nat :=
  let i := if idx < 0 then idx + n else idx
  if 0 ≤ i ∧ i < n then some i.toNat else none

/-- the per-axis candidate lists after flipping and fixing axis `ax` to `[i]` -/
def axDofs (ax i : Nat) (shape : List Nat) (flip : Option (List Bool)) : List (List Nat) :=
  let axdofs := shape.map List.range
  let axdofs := match flip with
    | none => axdofs
    | some fl => applyFlip axdofs (insertFalse ax fl)
  axdofs.set ax [i]

/-- `slice_indices(ax, idx, shape, ravel=False, flip)` for a valid axis and an index already
wrapped into range: the list of multi-indices in `itertools.product` order. -/
def sliceMulti (ax i : Nat) (shape : List Nat) (flip : Option (List Bool)) : List (List Nat) :=
  product (axDofs ax i shape flip)

/-- `slice_indices(..., ravel=True)`: `np.ravel_multi_index` = `to_seq` per row. -/
def sliceRavel (ax i : Nat) (shape : List Nat) (flip : Option (List Bool)) : List Nat :=
  (sliceMulti ax i shape flip).map (fun I => toSeq I shape)

inductive Err | index | value
  deriving DecidableEq, Repr

/-- full entry point with Python's error behaviour for the cases the library can meet:
`ax ≥ len(shape)` → `IndexError`; a `True` flip flag beyond the last axis → `IndexError`;
a wrapped index outside `[0, shape[ax])` → `ValueError` (from `ravel_multi_index`). -/
def sliceIndices (ax : Nat) (idx : Int) (shape : List Nat) (flip : Option (List Bool)) :
    Except Err (List Nat) :=
  if h : ax < shape.length then
    let bad := match flip with
      | none => false
      | some fl => ((insertFalse ax fl).drop shape.length).any id
    if bad then .error .index else
    match wrapIdx idx shape[ax] with
    | some i => .ok (sliceRavel ax i shape flip)
    | none => .error .value
  else .error .index

/-- `boundary_dofs(kvs, (bdax, bdside), ravel=True, flip)` on the dof counts `N`:
`idx = 0 if bdside == 0 else -1`. -/
def boundaryDofs (N : List Nat) (bdax : Nat) (bdside : Nat) (flip : Option (List Bool)) :
    Except Err (List Nat) :=
  sliceIndices bdax (if bdside = 0 then 0 else -1) N flip

end Pyiga.Slice
