/-
L-sol (time integration part): `newton`, `dirk_step`, `rosenbrock_step`,
`_constant_step_method`, `_adaptive_step_method` of `pyiga/solvers.py`,
transliterated (no Mathlib).

The code is generic in the scalar type `α` and the vector type `V`: it uses
only `+ - * •`, a zero vector (Python's scalar `0` that starts every `sum(…)`),
comparison of scalars, and the *parameters* that stand for numerical kernels
which are not pyiga's own logic (DESIGN §3):

  * `M : V → V`          application of the mass matrix (`M @ z`),
  * `Minv : V → V`       `make_solver(M, spd=True)` applied to a vector,
  * `F : V → V`          the right-hand side,
  * `jsolve c z r`       `make_solver(M - c*J(z)).dot(r)`   (DIRK/Newton),
  * `jac`, `csolve c r`  `J(x).dot(·)` and `make_solver(M - c*J(x)).dot(r)` (Rosenbrock),
  * `conv res0 res`      the test `norm(res) < max(atol, rtol*norm(res0))`,
  * `ratio`, `powf`      the scaled error norm and `r ↦ r**(-1/err_order)`.

The same definitions are executed by the driver over `Rat` (steps, Newton,
constant driver) resp. `Float` (adaptive controller) and are the subject of
the theorems in `Props/C12.lean` over an arbitrary field / ordered field.
-/

namespace Pyiga.ODE

/-- Python `sum(f(j) for j in range(n))`: left fold starting from the scalar `0`. -/
def sumRange {V : Type} [Zero V] [Add V] (n : Nat) (f : Nat → V) : V :=
  (List.range n).foldl (fun acc j => acc + f j) 0

/-! ### `newton` (solvers.py:335-361) -/

inductive NewtonResult (V : Type) where
  /-- `return x` after `updates` Newton updates -/
  | converged (x : V) (updates : Nat)
  /-- `raise NoConvergenceError('newton', maxiter, x)` -/
  | noConvergence (last : V) (updates : Nat)
  deriving Repr

section newton
variable {V : Type} [Sub V]

/-- The `for num_it in range(maxiter)` loop.  `fuel` = iterations left, `k` = `num_it`,
`res = F(x)`, `xJ` = the point at which the frozen Jacobian was last evaluated.
The convergence test comes *before* each update (line 354), the Jacobian is
re-evaluated iff `num_it % freeze_jac == 0` (line 356). -/
def newtonLoop (G : V → V) (jsolve : V → V → V) (conv : V → Bool) (freeze : Nat) :
    Nat → Nat → V → V → V → NewtonResult V
  | 0, k, x, _, _ => .noConvergence x k
  | fuel + 1, k, x, res, xJ =>
    if conv res then .converged x k
    else
      let xJ' := if k % freeze == 0 then x else xJ
      let x' := x - jsolve xJ' res
      newtonLoop G jsolve conv freeze fuel (k + 1) x' (G x') xJ'

/-- `newton(F, J, x0, atol, rtol, maxiter, freeze_jac)`; `convOf res0 res` is
`norm(res) < max(atol, rtol*norm(res0))`. -/
def newton (G : V → V) (jsolve : V → V → V) (convOf : V → V → Bool)
    (maxiter freeze : Nat) (x0 : V) : NewtonResult V :=
  let res0 := G x0
  newtonLoop G jsolve (convOf res0) freeze maxiter 0 x0 res0 x0

end newton

/-! ### `dirk_step` (solvers.py:366-435) -/

inductive StepErr where
  | noConvergence   -- NoConvergenceError raised by `newton`
  | assertion       -- `assert i == 0`
  deriving Repr, DecidableEq

structure StageState (V : Type) where
  ys : List V
  Fy : List V
  /-- number of evaluations of `F` so far (observable through a counting wrapper) -/
  fcalls : Nat

structure DirkOut (V : Type) where
  xnew : V
  /-- `x_est`, present iff the tableau has `s+2` rows -/
  xest : Option V
  /-- `F_x_new` (`None` unless the stiffly accurate shortcut was taken) -/
  Fxnew : Option V
  ys : List V
  Fy : List V
  fcalls : Nat

section dirk
variable {α V : Type} [Zero V] [Add V] [Sub V] [SMul α V] [Mul α] [Zero α] [BEq α]

/-- Newton parameters hard-wired in `dirk_step` line 409: `maxiter=100` (default), `freeze_jac=2`. -/
def dirkMaxiter : Nat := 100
def dirkFreeze : Nat := 2

/-- body of `for i in range(s)` (lines 381-411). -/
def dirkStage (A : Nat → Nat → α) (M F : V → V) (jsolve : α → V → V → V)
    (convOf : V → V → Bool) (x : V) (tau : α) (Fx : Option V)
    (i : Nat) (st : StageState V) : Except StepErr (StageState V) :=
  let aii := A i i
  if aii == 0 then
    -- explicit stage: `assert i == 0`, `ys.append(x)`, `Fy.append(Fx or F(x))`
    if i != 0 then .error .assertion
    else match Fx with
      | some v => .ok { ys := st.ys ++ [x], Fy := st.Fy ++ [v], fcalls := st.fcalls }
      | none => .ok { ys := st.ys ++ [x], Fy := st.Fy ++ [F x], fcalls := st.fcalls + 1 }
  else
    let terms := tau • sumRange i (fun j => A i j • st.Fy.getD j 0)
    let rhs := M x + terms
    let G := fun z => M z - (tau * aii) • F z - rhs
    let xstart := if i == 0 then x else st.ys.getLastD x
    match newton G (jsolve (tau * aii)) convOf dirkMaxiter dirkFreeze xstart with
    | .converged y k =>
      -- `last_Fz` is `F` at the last point `newton_F` was called with, i.e. at the returned `y`
      .ok { ys := st.ys ++ [y], Fy := st.Fy ++ [F y], fcalls := st.fcalls + k + 1 }
    | .noConvergence _ _ => .error .noConvergence

/-- the stage loop run for `i = 0 … n-1`. -/
def dirkStages (A : Nat → Nat → α) (M F : V → V) (jsolve : α → V → V → V)
    (convOf : V → V → Bool) (x : V) (tau : α) (Fx : Option V) :
    Nat → Except StepErr (StageState V)
  | 0 => .ok { ys := [], Fy := [], fcalls := 0 }
  | n + 1 =>
    match dirkStages A M F jsolve convOf x tau Fx n with
    | .error e => .error e
    | .ok st => dirkStage A M F jsolve convOf x tau Fx n st

/-- `get_Minv() @ (M @ x + tau * sum(w[i] * Fy[i] for i in range(s)))` (lines 427, 432). -/
def dirkCombine (s : Nat) (M Minv : V → V) (x : V) (tau : α) (Fy : List V) (w : Nat → α) : V :=
  Minv (M x + tau • sumRange s (fun i => w i • Fy.getD i 0))

/-- `dirk_step(A, M, F, J, x, tau, data, Fx)`.  `A i j` is the `s × s` coefficient
block, `b` row `s`, `bhat` row `s+1` if the array has `s+2` rows, `isSA` the value of
`np.allclose(b, A[s-1, :])`. -/
def dirkStep (s : Nat) (A : Nat → Nat → α) (b : Nat → α) (bhat : Option (Nat → α)) (isSA : Bool)
    (M Minv F : V → V) (jsolve : α → V → V → V) (convOf : V → V → Bool)
    (x : V) (tau : α) (Fx : Option V) : Except StepErr (DirkOut V) :=
  match dirkStages A M F jsolve convOf x tau Fx s with
  | .error e => .error e
  | .ok st =>
    let xnew := if isSA then st.ys.getD (s - 1) x else dirkCombine s M Minv x tau st.Fy b
    let Fxnew := if isSA then some (st.Fy.getD (s - 1) 0) else none
    .ok { xnew := xnew, xest := bhat.map (dirkCombine s M Minv x tau st.Fy), Fxnew := Fxnew,
          ys := st.ys, Fy := st.Fy, fcalls := st.fcalls }

end dirk

/-! ### `rosenbrock_step` (solvers.py:684-707) -/

structure RosOut (V : Type) where
  xnew : V
  xest : Option V
  ks : List V

section ros
variable {α V : Type} [Zero V] [Add V] [SMul α V] [Mul α]

/-- `k_i` given `k_0 … k_{i-1}` (lines 694-699).  `jac` is `J(x).dot`, `csolve c` is
`make_solver(M - c*J(x)).dot` and is called with `c = tau * Gamma[0,0]`. -/
def rosStage (A G : Nat → Nat → α) (F jac : V → V) (csolve : α → V → V) (x : V) (tau : α)
    (i : Nat) (ks : List V) : V :=
  let gamma := G 0 0
  let y := x + tau • sumRange i (fun j => A i j • ks.getD j 0)
  let rhs0 := F y
  let rhs := if i > 0 then rhs0 + tau • jac (sumRange i (fun j => G i j • ks.getD j 0)) else rhs0
  csolve (tau * gamma) rhs

def rosStages (A G : Nat → Nat → α) (F jac : V → V) (csolve : α → V → V) (x : V) (tau : α) :
    Nat → List V
  | 0 => []
  | n + 1 =>
    let ks := rosStages A G F jac csolve x tau n
    ks ++ [rosStage A G F jac csolve x tau n ks]

def rosStep (s : Nat) (A G : Nat → Nat → α) (b : Nat → α) (bhat : Option (Nat → α))
    (F jac : V → V) (csolve : α → V → V) (x : V) (tau : α) : RosOut V :=
  let ks := rosStages A G F jac csolve x tau s
  let comb := fun (w : Nat → α) => x + tau • sumRange s (fun i => w i • ks.getD i 0)
  { xnew := comb b, xest := bhat.map comb, ks := ks }

end ros

/-! ### `_constant_step_method` (solvers.py:437-473) -/

section constDriver
variable {α V : Type} [Add α] [Mul α] [NatCast α]

/-- `for i in range(num_iter)`: `fuel` iterations left, `i` the loop index.  A
`NoConvergenceError` returns the partial lists; any other exception propagates. -/
def constLoop (step : V → Option V → Except StepErr (V × Option V)) (t0 tau : α) :
    Nat → Nat → V → Option V → List α → List V → Except StepErr (List α × List V)
  | 0, _, _, _, ts, xs => .ok (ts, xs)
  | fuel + 1, i, x, Fx, ts, xs =>
    match step x Fx with
    | .error .noConvergence => .ok (ts, xs)
    | .error e => .error e
    | .ok (x', Fx') =>
      constLoop step t0 tau fuel (i + 1) x' Fx' (ts ++ [t0 + ((i + 1 : Nat) : α) * tau]) (xs ++ [x'])

def constDriver (step : V → Option V → Except StepErr (V × Option V)) (x0 : V) (tau t0 : α)
    (numIter : Nat) : Except StepErr (List α × List V) :=
  constLoop step t0 tau numIter 0 x0 none [t0] [x0]

end constDriver

/-- `num_iter = int(ceil((t_end - t0) / tau))` for exact rationals; `range` of a
non-positive number is empty. -/
def numIterRat (t0 tEnd tau : Rat) : Nat := ((tEnd - t0) / tau).ceil.toNat

/-! ### `_adaptive_step_method` (solvers.py:475-534) -/

/-- Python `max(a, b)` / `min(a, b)` for two arguments: the first is returned unless the
second is strictly larger / smaller. -/
def pmax {α : Type} [LT α] [DecidableLT α] (a b : α) : α := if a < b then b else a
def pmin {α : Type} [LT α] [DecidableLT α] (a b : α) : α := if b < a then b else a

/-- constants of the step-size controller as they appear in the source. -/
structure Ctl (α : Type) where
  one : α     -- 1      (accept iff r <= 1)
  tiny : α    -- 1e-15  (replacement for r == 0)
  lo : α      -- 0.2
  hi : α      -- 5.0
  half : α    -- 0.5    (after NoConvergenceError)
  stepFactor : α

inductive Event (α : Type) where
  /-- a step was computed: scaled error `r`, accepted?, factor applied to `tau` -/
  | stepped (r : α) (accepted : Bool) (fac : α)
  /-- Newton failed: `tau *= 0.5` -/
  | newtonFailed
  deriving Repr

structure AdaptOut (α V : Type) where
  times : List α
  sols : List V
  tau : α
  t : α
  log : List (Event α)
  /-- the model's fuel ran out before `t >= t_end` (the Python loop would still be running) -/
  outOfFuel : Bool

section adapt
variable {α V : Type} [Add α] [Mul α] [LT α] [LE α] [DecidableLT α] [DecidableLE α] [BEq α] [Zero α]

/-- the `while t < t_end` loop.  `step x tau Fx` is `stepper(M, F, J, x, tau, data, Fx=Fx)`,
`ratio x xnew xhat` is `norm((xhat-xnew)/(tol+tol*abs(x)))/sqrt(len(x))`,
`powf r` is `r**(-1/err_order)`. -/
def adaptLoop (step : V → α → Option V → Except StepErr (V × V × Option V))
    (ratio : V → V → V → α) (powf : α → α) (c : Ctl α) (tEnd : α) :
    Nat → α → α → V → Option V → List α → List V → List (Event α) →
      Except StepErr (AdaptOut α V)
  | 0, t, tau, _, _, ts, xs, log =>
    .ok { times := ts, sols := xs, tau := tau, t := t, log := log, outOfFuel := decide (t < tEnd) }
  | fuel + 1, t, tau, x, Fx, ts, xs, log =>
    if t < tEnd then
      match step x tau Fx with
      | .error .noConvergence =>
        adaptLoop step ratio powf c tEnd fuel t (tau * c.half) x Fx ts xs (log ++ [.newtonFailed])
      | .error e => .error e
      | .ok (xnew, xhat, Fxnew) =>
        let r0 := ratio x xnew xhat
        let r := if r0 == 0 then c.tiny else r0
        let fac := pmin c.hi (pmax c.lo (c.stepFactor * powf r))
        if r ≤ c.one then
          adaptLoop step ratio powf c tEnd fuel (t + tau) (tau * fac) xnew Fxnew
            (ts ++ [t + tau]) (xs ++ [xnew]) (log ++ [.stepped r true fac])
        else
          adaptLoop step ratio powf c tEnd fuel t (tau * fac) x Fx ts xs
            (log ++ [.stepped r false fac])
    else
      .ok { times := ts, sols := xs, tau := tau, t := t, log := log, outOfFuel := false }

def adaptDriver (step : V → α → Option V → Except StepErr (V × V × Option V))
    (ratio : V → V → V → α) (powf : α → α) (c : Ctl α) (x0 : V) (tau0 tEnd t0 : α) (fuel : Nat) :
    Except StepErr (AdaptOut α V) :=
  adaptLoop step ratio powf c tEnd fuel t0 tau0 x0 none [t0] [x0] []

end adapt

/-! ### tableaux and algebraic order conditions (exact rationals of the doubles in use) -/

structure RKTab where
  name : String
  s : Nat
  /-- the `s × s` block -/
  A : List (List Rat)
  /-- row `s` -/
  b : List Rat
  /-- row `s+1` of adaptive methods -/
  bhat : Option (List Rat)
  deriving Repr

structure RosTab where
  name : String
  s : Nat
  A : List (List Rat)
  G : List (List Rat)
  b : List Rat
  bhat : Option (List Rat)
  deriving Repr

def sumL (l : List Rat) : Rat := l.foldl (· + ·) 0
def dotL (u v : List Rat) : Rat := sumL (List.zipWith (· * ·) u v)
def hadL (u v : List Rat) : List Rat := List.zipWith (· * ·) u v
def matVecL (A : List (List Rat)) (v : List Rat) : List Rat := A.map (fun r => dotL r v)
def absQ (q : Rat) : Rat := if q < 0 then -q else q

/-- Residuals of the rooted-tree order conditions of a Runge-Kutta tableau `(A, w)`,
grouped by order 1..4 (Hairer-Nørsett-Wanner II.2; `c = A·1`):
`Σw−1 | Σwc−½ | Σwc²−⅓, ΣwAc−⅙ | Σwc³−¼, Σw c∘Ac−⅛, ΣwAc²−1/12, ΣwAAc−1/24`. -/
def rkResiduals (A : List (List Rat)) (w : List Rat) : List (List Rat) :=
  let c := A.map sumL
  let c2 := hadL c c
  let Ac := matVecL A c
  [ [sumL w - 1],
    [dotL w c - 1/2],
    [dotL w c2 - 1/3, dotL w Ac - 1/6],
    [dotL w (hadL c c2) - 1/4, dotL w (hadL c Ac) - 1/8, dotL w (matVecL A c2) - 1/12,
     dotL w (matVecL A Ac) - 1/24] ]

/-- strictly lower triangular part of `A + Γ` (`β_ij`, Hairer-Wanner IV.7) -/
def betaL (A G : List (List Rat)) : List (List Rat) :=
  (List.zipWith (fun ra rg => List.zipWith (· + ·) ra rg) A G).zipIdx.map
    (fun (r, i) => r.zipIdx.map (fun (v, j) => if j < i then v else 0))

/-- Residuals of the Rosenbrock order conditions (Hairer-Wanner IV.7, Table 7.1) for
`(α, Γ, w)` with `γ = Γ₀₀`, `β = strict lower part of α+Γ`, `α_i = Σ_j α_ij`, `β_i' = Σ_j β_ij`:
`Σw−1 | Σwβ'−(½−γ) | Σwα²−⅓, Σwββ'−(⅙−γ+γ²) |
 Σwα³−¼, Σw α∘(αβ')−(⅛−γ/3), Σwβα²−(1/12−γ/3), Σwβββ'−(1/24−γ/2+3γ²/2−γ³)`. -/
def rosResiduals (A G : List (List Rat)) (w : List Rat) : List (List Rat) :=
  let g := (G.headD []).headD 0
  let B := betaL A G
  let al := A.map sumL
  let be := B.map sumL
  let al2 := hadL al al
  let Bbe := matVecL B be
  [ [sumL w - 1],
    [dotL w be - (1/2 - g)],
    [dotL w al2 - 1/3, dotL w Bbe - (1/6 - g + g*g)],
    [dotL w (hadL al al2) - 1/4, dotL w (hadL al (matVecL A be)) - (1/8 - g/3),
     dotL w (matVecL B al2) - (1/12 - g/3),
     dotL w (matVecL B Bbe) - (1/24 - g/2 + 3/2*g*g - g*g*g)] ]

/-- all residuals of orders `1..q` are bounded by the corresponding `eps` entry
(`false` if a tolerance is missing). -/
def withinTol (res eps : List (List Rat)) (q : Nat) : Bool :=
  (List.range q).all fun k =>
    let r := res.getD k []
    let e := eps.getD k []
    r.length == e.length && k < res.length && (List.zipWith (fun x t => decide (absQ x ≤ t)) r e).all id

/-- `Γ` has a constant diagonal and `α`,`Γ` are lower triangular (what `rosenbrock_step`
silently assumes by taking `gamma = Gamma[0,0]` and summing `j < i` only). -/
def constDiag (T : RosTab) : Bool :=
  let g := (T.G.headD []).headD 0
  T.G.zipIdx.all (fun (r, i) => r.zipIdx.all (fun (v, j) => if j == i then v == g else if j > i then v == 0 else true))
  && T.A.zipIdx.all (fun (r, i) => r.zipIdx.all (fun (v, j) => if j ≥ i then v == 0 else true))

/-- `np.allclose(b, a)` with the default `rtol=1e-5`, `atol=1e-8` given as the exact
values of those doubles: `|b - a| <= atol + rtol*|a|` elementwise. -/
def allcloseQ (rtol atol : Rat) (b a : List Rat) : Bool :=
  b.length == a.length && (List.zipWith (fun x y => decide (absQ (x - y) ≤ atol + rtol * absQ y)) b a).all id

/-- the doubles `1e-5` and `1e-8` -/
def rtolDefault : Rat := mkRat 5902958103587057 590295810358705651712
def atolDefault : Rat := mkRat 3022314549036573 302231454903657293676544

end Pyiga.ODE
