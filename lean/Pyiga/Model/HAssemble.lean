/-
C03 model (no Mathlib): the bookkeeping of `HDiscretization.assemble_matrix` /
`assemble_functional` (`pyiga/_hdiscr.py`) over *abstract* level matrices.

Inputs: the per-level data of the `HSpace` (`HSp`: numbers of TP functions, raveled
active / deactivated indices, TP prolongations), the disparity, the neighbour sets
`hs.cell_supp_indices(remove_dirichlet=False)` in raveled form (a mesh query that belongs
to the refinement model), and for every level `k` the *full* tensor-product matrix `A k`
(resp. vector `b k`) of the form on that level.

  children / grandchildren — `HMesh.function_children / function_grandchildren`
                             (CSC column patterns of the prolongation factors = nonzero
                             rows of a column of the Kronecker product)
  interlevelIx, toAssemble — lines 88-102
  neighborsCan             — line 105 (`raveled_to_virtual_canonical_indices`)
  levelBlocks              — lines 125-152: diagonal block, `A_hb_interlevel`,
                             `A_hb_interlevel2` (or its transpose if `symmetric`)
  scatterGet / hbEntry     — value the COO → CSR conversion (duplicates summed) gives at `(i,j)`
  assembleHB / assemble    — the HB matrix, and `Tᵀ A_hb T` if `truncate`
  functionalHB / functional — `assemble_functional`
-/
import Pyiga.Model.Transfer

namespace Pyiga.HAsm
open Pyiga.Transfer

/-- inputs of the bookkeeping -/
structure Input (α : Type) where
  H : HSp α
  disparity : Option Nat            -- `none` = `np.inf`
  nbr : List (List (List Nat))      -- `cell_supp_indices(remove_dirichlet=False)[k][lv]`, raveled
  A : List (Mat α)                  -- full TP matrix of the form on every level
  symmetric : Bool

section
variable {α : Type} [Zero α] [One α] [Add α] [Sub α] [Mul α] [DecidableEq α]

namespace Input

def Ak (X : Input α) (k : Nat) : Mat α := X.A.getD k (Mat.zero 0 0)

/-- `neighbors[k][lv]` after `neighbors[k][k] = []` (lines 81-82) -/
def nbrs (X : Input α) (k lv : Nat) : List Nat :=
  if lv = k then [] else (X.nbr.getD k []).getD lv []

/-- `function_children(lv, funcs)`: union of the column patterns, as a sorted list -/
def children (X : Input α) (lv : Nat) (funcs : List Nat) : List Nat :=
  let T := X.H.Tl lv
  (List.range (X.H.Nl (lv + 1))).filter fun s => funcs.any fun r => T.f s r ≠ 0

/-- `function_grandchildren(lv, funcs, k)` for `lv < k`: `k - lv` child steps (fuel = number of steps) -/
def grandchildren (X : Input α) : Nat → Nat → List Nat → List Nat
  | 0, _, funcs => funcs
  | steps + 1, lv, funcs => grandchildren X steps (lv + 1) (children X lv funcs)

/-- first level of `range(max(0, k - disparity), k)` -/
def firstLevel (X : Input α) (k : Nat) : Nat :=
  match X.disparity with
  | none => 0
  | some d => k - d

/-- `interlevel_ix[k]` (sorted raveled indices): union over `lv in range(max(0,k-d), k)` of the
grandchildren on level `k` of `neighbors[k][lv]` -/
def interlevelIx (X : Input α) (k : Nat) : List Nat :=
  let lvs := (List.range k).filter fun lv => X.firstLevel k ≤ lv
  let all : List Nat := lvs.flatMap fun lv => X.grandchildren (k - lv) lv (X.nbrs k lv)
  let inv := invArr (X.H.Nl k) all
  (List.range (X.H.Nl k)).filter fun s => (pos? inv s).isSome

/-- `to_assemble[k] = interlevel_ix[k] | actfun[k]` (sorted raveled) -/
def toAssemble (X : Input α) (k : Nat) : List Nat :=
  let i1 := invArr (X.H.Nl k) (X.interlevelIx k)
  let i2 := invArr (X.H.Nl k) (X.H.ia k)
  (List.range (X.H.Nl k)).filter fun s => (pos? i1 s).isSome || (pos? i2 s).isSome

/-- canonical offset of level `l` -/
def off (X : Input α) (l : Nat) : Nat := if l = 0 then 0 else X.H.nt (l - 1)

/-- `neighbors[k]` as matrix indices (`raveled_to_virtual_canonical_indices(k, …)`) -/
def neighborsCan (X : Input α) (k : Nat) : List Nat :=
  (List.range k).flatMap fun l => (positionIndex (X.H.ia l) (X.nbrs k l)).map (· + X.off l)

/-- `new[k]` -/
def newCan (X : Input α) (k : Nat) : List Nat := (List.range (X.H.ia k).length).map (· + X.off k)

/-- the three blocks of level `k` with their (row, column) matrix index lists, for a given tabulated
representation matrix `I` (= `I_hb_k`) -/
def levelBlocksWith (X : Input α) (k : Nat) (I : Mat α) : List (Mat α × List Nat × List Nat) :=
  let ta := X.toAssemble k
  let Ak := ((X.Ak k).keepRows ta).freeze                 -- `_assemble_level(k, rows=to_assemble[k], …)`
  let ilx := X.interlevelIx k
  let newLoc := X.H.ia k
  let nb := X.neighborsCan k
  let nw := X.newCan k
  let D := (Ak.selRows newLoc).selCols newLoc
  let Inb := ((I.selRows ilx).selCols nb).freeze           -- I_hb_k[interlevel_ix][:, neighbors[k]]
  let Inew := ((I.selRows newLoc).selCols nw).freeze       -- I_hb_k[new_loc][:, new[k]]
  let E := ((Inb.transpose.mul ((Ak.selRows ilx).selCols newLoc).freeze).freeze.mul Inew).freeze
  let E2 := if X.symmetric then E.transpose
            else ((Inew.transpose.mul ((Ak.selRows newLoc).selCols ilx).freeze).freeze.mul Inb).freeze
  [(D, nw, nw), (E, nb, nw), (E2, nw, nb)]

/-- the three blocks of level `k`: `I_hb_k = hs.represent_fine(lv=k, truncate=False, rows=to_assemble[k])` -/
def levelBlocks (X : Input α) (k : Nat) : List (Mat α × List Nat × List Nat) :=
  X.levelBlocksWith k (X.H.representFine k false (some (X.toAssemble k)) false).freeze

/-- value contributed at `(i,j)` by the COO triples `(rows[a], cols[b], B[a,b])` after duplicate summation -/
def scatterGet (B : Mat α) (rows cols : List Nat) (i j : Nat) : α :=
  sumRange B.m fun a => sumRange B.n fun b =>
    if rows.getD a 0 = i ∧ cols.getD b 0 = j then B.f a b else 0

/-- entry `(i,j)` of the assembled HB matrix: sum over all levels and all three blocks -/
def hbEntry (X : Input α) (i j : Nat) : α :=
  sumRange X.H.numlevels fun k =>
    ((X.levelBlocks k).map fun (B, r, c) => scatterGet B r c i j).foldl (· + ·) 0

/-- the COO triples of a list of blocks -/
def triplesOf (blocks : List (Mat α × List Nat × List Nat)) : List (Nat × Nat × α) :=
  blocks.flatMap fun (B, r, c) =>
    (List.range B.m).flatMap fun a => (List.range B.n).filterMap fun b =>
      let v := B.f a b
      if v = 0 then none else some (r.getD a 0, c.getD b 0, v)

/-- the COO triples themselves (what the driver sums) -/
def cooTriples (X : Input α) : List (Nat × Nat × α) :=
  (List.range X.H.numlevels).flatMap fun k => triplesOf (X.levelBlocks k)

/-- the same with the per-level representation matrices supplied (execution device of the driver:
`Is k` is a tabulation of `represent_fine(lv=k, rows=to_assemble[k])` obtained by a sparse product and
cross-checked against `representFine` entry by entry on moderate sizes) -/
def cooTriplesWith (X : Input α) (Is : Nat → Mat α) : List (Nat × Nat × α) :=
  (List.range X.H.numlevels).flatMap fun k => triplesOf (X.levelBlocksWith k (Is k))

/-- the assembled HB matrix as a `Mat` (specification form; the driver sums `cooTriples` instead) -/
def assembleHB (X : Input α) : Mat α := ⟨X.H.numdofs, X.H.numdofs, X.hbEntry⟩

/-- `assemble_matrix`: for a THB space the HB matrix is transformed by `T = thb_to_hb()`:
`(T.T @ A_hb @ T)` (lines 66-75) -/
def assembleWith (X : Input α) (Ahb : Mat α) (truncate : Bool) : Mat α :=
  if truncate then
    let T := X.H.thbToHb
    ((T.transpose.mul Ahb).freeze.mul T).freeze
  else Ahb

def assemble (X : Input α) (truncate : Bool) : Mat α := X.assembleWith X.assembleHB truncate

/-- `assemble_functional`: HB vector from the full level vectors `b k` -/
def functionalHB (X : Input α) (b : List (List α)) : List α :=
  (List.range X.H.numlevels).flatMap fun k =>
    let bk := (b.getD k []).toArray
    (X.H.ia k).map fun r => bk.getD r 0

/-- `rhs = thb_to_hb().T @ rhs` for THB spaces (lines 220-223) -/
def functional (X : Input α) (b : List (List α)) (truncate : Bool) : List α :=
  let v := (X.functionalHB b).toArray
  if truncate then
    let T := X.H.thbToHb
    (List.range T.n).map fun j => sumRange T.m fun i => T.f i j * v.getD i 0
  else v.toList

end Input
end

end Pyiga.HAsm
