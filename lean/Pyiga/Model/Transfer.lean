/-
C05 model, part 2 (no Mathlib): matrix-level transliteration of the transfer operators of
`pyiga/hierarchical.py`.

Inputs (taken from the real `HSpace` by the harness; the refinement algorithm itself is
modelled elsewhere): per level the number of tensor-product functions `N ℓ`, the raveled
indices of active / deactivated functions `IA ℓ`, `ID ℓ` (as returned by
`active_indices()/deactivated_indices()`, i.e. sorted), and the tensor-product prolongation
`T ℓ : level ℓ → ℓ+1` (`utils.multi_kron_sparse(hmesh.P[ℓ])`).

Matrices are *functions with dimensions* (`Mat`), so every operation is a one-line
definition that is reasoned about entrywise; `Mat.freeze` tabulates a matrix into an array
(execution only; `freeze` does not change any in-range entry).

  representFine   — `HSpace.represent_fine(lv, truncate, rows, restrict)` (lines 1059-1146;
                    the `needed_rows`/`kron_partial` bookkeeping is an optimisation that only
                    skips rows multiplied by structural zeros and is not modelled)
  truncOneLevel   — `HSpace.truncate_one_level(k, num_rows, inverse)` (1148-1173)
  thbToHb/hbToThb — `thb_to_hb`, `hb_to_thb` (1175-1199)
  virtualProlongators — `virtual_hierarchy_prolongators(truncate)` (1294-1324)
  prolongateTo    — `HSpace.prolongate_to(fine)` (976-1058), loop bounds as coded (repaired; old bounds behind a flag)
  levelwiseCoeffs — `coeffs_to_levelwise_funcs` (1326-1346): `split_coeffs` + `_reindex`
  boundaryMap     — index array returned by `HSpace.boundary(bdspec)` (540-580)
-/
import Pyiga.Model.TransferKnots

namespace Pyiga.Transfer

/-- a matrix as a function with dimensions; only entries `i < m`, `j < n` are meaningful -/
structure Mat (α : Type) where
  m : Nat
  n : Nat
  f : Nat → Nat → α

section Ops
variable {α : Type} [Zero α] [One α] [Add α] [Sub α] [Mul α] [DecidableEq α]

/-- `Σ_{k<n} g k` (left to right) -/
def sumRange : Nat → (Nat → α) → α
  | 0, _ => 0
  | n + 1, g => sumRange n g + g n

/-- inverse index array of a list of naturals: `pos? (invArr n l) i = l.idxOf? i` for `i < n`
(first occurrence wins); execution device replacing repeated linear searches -/
def invArr (n : Nat) (l : List Nat) : Array (Option Nat) :=
  l.zipIdx.foldr (fun (xq : Nat × Nat) a => a.setIfInBounds xq.1 (some xq.2)) (Array.replicate n none)

def pos? (inv : Array (Option Nat)) (i : Nat) : Option Nat := inv.getD i none

namespace Mat

/-- tabulate (execution only) -/
def freeze (A : Mat α) : Mat α :=
  let arr : Array α := Array.ofFn (n := A.m * A.n) fun idx => A.f (idx.val / A.n) (idx.val % A.n)
  ⟨A.m, A.n, fun i j => if i < A.m ∧ j < A.n then arr.getD (i * A.n + j) 0 else 0⟩

def zero (m n : Nat) : Mat α := ⟨m, n, fun _ _ => 0⟩
def id (n : Nat) : Mat α := ⟨n, n, fun i j => if i = j then 1 else 0⟩

/-- product; a zero left factor is skipped (as a sparse product does) -/
def mul (A B : Mat α) : Mat α :=
  ⟨A.m, B.n, fun i j => sumRange A.n fun k => if A.f i k = 0 then 0 else A.f i k * B.f k j⟩

def add (A B : Mat α) : Mat α := ⟨A.m, A.n, fun i j => A.f i j + B.f i j⟩
def sub (A B : Mat α) : Mat α := ⟨A.m, A.n, fun i j => A.f i j - B.f i j⟩
def transpose (A : Mat α) : Mat α := ⟨A.n, A.m, fun i j => A.f j i⟩

/-- `A[:, cols]` -/
def selCols (A : Mat α) (cols : List Nat) : Mat α :=
  ⟨A.m, cols.length, fun i j => A.f i (cols.getD j 0)⟩

/-- `A[rows, :]` -/
def selRows (A : Mat α) (rows : List Nat) : Mat α :=
  ⟨rows.length, A.n, fun i j => A.f (rows.getD i 0) j⟩

/-- only the given rows kept, shape unchanged (`kron_partial(..., restrict=False)`,
partial identity of `represent_fine(rows=..., restrict=False)`) -/
def keepRows (A : Mat α) (rows : List Nat) : Mat α :=
  let inv := invArr A.m rows
  ⟨A.m, A.n, fun i j => if (pos? inv i).isSome then A.f i j else 0⟩

/-- `A[rows, :] = 0` -/
def zeroRows (A : Mat α) (rows : List Nat) : Mat α :=
  let inv := invArr A.m rows
  ⟨A.m, A.n, fun i j => if (pos? inv i).isSome then 0 else A.f i j⟩

/-- `[A | B]` -/
def hcat (A B : Mat α) : Mat α :=
  ⟨A.m, A.n + B.n, fun i j => if j < A.n then A.f i j else B.f i (j - A.n)⟩

/-- `[A ; B]` -/
def vcat (A B : Mat α) : Mat α :=
  ⟨A.m + B.m, A.n, fun i j => if i < A.m then A.f i j else B.f (i - A.m) j⟩

/-- `bmat([[A, None], [None, B]])` -/
def blockDiag (A B : Mat α) : Mat α :=
  ⟨A.m + B.m, A.n + B.n, fun i j =>
    if i < A.m then (if j < A.n then A.f i j else 0)
    else (if j < A.n then 0 else B.f (i - A.m) (j - A.n))⟩

/-- sparse `resize(m', n')`: entries outside are dropped, new entries are zero -/
def resize (A : Mat α) (m' n' : Nat) : Mat α :=
  ⟨m', n', fun i j => if i < A.m ∧ j < A.n then A.f i j else 0⟩

/-- Kronecker product (`scipy.sparse.kron`) -/
def kron (A B : Mat α) : Mat α :=
  ⟨A.m * B.m, A.n * B.n, fun i j => A.f (i / B.m) (j / B.n) * B.f (i % B.m) (j % B.n)⟩

/-- `utils.multi_kron_sparse` -/
def multiKron : List (Mat α) → Mat α
  | [] => Mat.id 1
  | [A] => A
  | A :: As => (kron A (multiKron As)).freeze

def hcatList (m : Nat) : List (Mat α) → Mat α
  | [] => Mat.zero m 0
  | [A] => A
  | A :: As => hcat A (hcatList m As)

/-- dense rows (for printing) -/
def toRows (A : Mat α) : List (List α) :=
  (List.range A.m).map fun i => (List.range A.n).map fun j => A.f i j

def ofRows (rows : List (List α)) (n : Nat) : Mat α :=
  let arr : Array (Array α) := (rows.map List.toArray).toArray
  ⟨rows.length, n, fun i j => (arr.getD i #[]).getD j 0⟩

end Mat
end Ops

/-! ## hierarchical space data -/

/-- per-level data of an `HSpace` (inputs of the model) -/
structure HSp (α : Type) where
  N : List Nat
  IA : List (List Nat)
  ID : List (List Nat)
  T : List (Mat α)

section Hier
variable {α : Type} [Zero α] [One α] [Add α] [Sub α] [Mul α] [DecidableEq α]

namespace HSp

def numlevels (H : HSp α) : Nat := H.N.length
def Nl (H : HSp α) (l : Nat) : Nat := H.N.getD l 0
def ia (H : HSp α) (l : Nat) : List Nat := H.IA.getD l []
def idl (H : HSp α) (l : Nat) : List Nat := H.ID.getD l []
/-- `IR[l] = concatenate(IA[l], ID[l])` -/
def ir (H : HSp α) (l : Nat) : List Nat := H.ia l ++ H.idl l
def Tl (H : HSp α) (l : Nat) : Mat α := H.T.getD l (Mat.zero 0 0)
/-- `nt[l] = cumsum(numactive)[l]` = number of active functions on levels `≤ l` -/
def nt (H : HSp α) : Nat → Nat
  | 0 => (H.ia 0).length
  | l + 1 => nt H l + (H.ia (l + 1)).length
def numdofs (H : HSp α) : Nat := if H.numlevels = 0 then 0 else H.nt (H.numlevels - 1)

/-- `act_indices[k]` inside `represent_fine(lv)`: level `lv` also lists its deactivated functions -/
def actv (H : HSp α) (lv k : Nat) : List Nat := if k = lv then H.ir k else H.ia k

/-- the downward loop `for k in reversed(range(lv))` of `represent_fine`: carries `P` and the
list of blocks (already in increasing level order) -/
def repLoop (H : HSp α) (lv : Nat) (trunc : Bool) : Nat → Mat α → List (Mat α) → List (Mat α)
  | 0, _, blocks => blocks
  | k + 1, P, blocks =>
      let Pj := if trunc then ((H.Tl k).zeroRows (H.actv lv (k + 1))).freeze else H.Tl k
      let P' := (P.mul Pj).freeze
      repLoop H lv trunc k P' (P'.selCols (H.actv lv k) :: blocks)

/-- `represent_fine(lv, truncate, rows, restrict)` -/
def representFine (H : HSp α) (lv : Nat) (trunc : Bool) (rows : Option (List Nat)) (restrict : Bool) : Mat α :=
  let Nj := H.Nl lv
  let P0 : Mat α := match rows with
    | none => Mat.id Nj
    | some r => if restrict then (Mat.id Nj).selRows r else (Mat.id Nj).keepRows r
  Mat.hcatList P0.m (repLoop H lv trunc lv P0 [P0.selCols (H.actv lv lv)])

/-- `truncate_one_level(k, num_rows, inverse)` -/
def truncOneLevel (H : HSp α) (k numRows : Nat) (inverse : Bool) : Mat α :=
  let A := (representFine H (k + 1) false (some (H.ia (k + 1))) true).freeze
  let nA := A.m
  let A1 := (A.resize nA (H.nt k)).resize nA numRows
  let A2 := (Mat.vcat (Mat.zero (H.nt k) numRows) A1).resize numRows numRows
  if inverse then (Mat.id numRows).add A2 else (Mat.id numRows).sub A2

/-- `thb_to_hb()` -/
def thbToHb (H : HSp α) : Mat α :=
  if H.numlevels ≤ 1 then Mat.id H.numdofs
  else
    (List.range (H.numlevels - 2)).foldl
      (fun T k => ((truncOneLevel H (k + 1) H.numdofs false).mul T).freeze)
      (truncOneLevel H 0 H.numdofs false).freeze

/-- `hb_to_thb()` -/
def hbToThb (H : HSp α) : Mat α :=
  if H.numlevels ≤ 1 then Mat.id H.numdofs
  else
    (List.range (H.numlevels - 2)).foldl
      (fun T k => (T.mul (truncOneLevel H (k + 1) H.numdofs true)).freeze)
      (truncOneLevel H 0 H.numdofs true).freeze

/-- HB block form of one virtual prolongator: `bmat(((eye(nt[lv]), None), (None, P_rd)))`,
`P_rd = kron_partial(Ps[lv], rows=IR[lv+1], restrict=True)[:, ID[lv]]` -/
def virtualProlongatorHB (H : HSp α) (lv : Nat) : Mat α :=
  Mat.blockDiag (Mat.id (H.nt lv)) (((H.Tl lv).selRows (H.ir (lv + 1))).selCols (H.idl lv))

/-- `virtual_hierarchy_prolongators(truncate)` -/
def virtualProlongators (H : HSp α) (trunc : Bool) : List (Mat α) :=
  (List.range (H.numlevels - 1)).map fun lv =>
    let P := (virtualProlongatorHB H lv).freeze
    if trunc then ((truncOneLevel H lv P.m true).mul P).freeze else P

/-- `coeffs_to_levelwise_funcs` up to the `BSplineFunc` constructor: per level the
tensor-product coefficient vector `_reindex(n_tp[lv], IA[lv], u_lv)`; `c` are the
(HB) coefficients as a function of the canonical index -/
def levelwiseCoeffs (H : HSp α) (c : Nat → α) : List (List α) :=
  (List.range H.numlevels).map fun lv =>
    let off := if lv = 0 then 0 else H.nt (lv - 1)
    let inv := invArr (H.Nl lv) (H.ia lv)
    (List.range (H.Nl lv)).map fun r =>
      match pos? inv r with
      | some q => c (off + q)
      | none => 0

end HSp

/-! ## `prolongate_to` -/

/-- position of every element of `sub` in `sup` (`_position_index`) -/
def positionIndex (sup sub : List Nat) : List Nat := sub.map fun x => sup.idxOf x

/-- sorted difference / intersection of sorted index lists (sets of raveled indices) -/
def ldiff (a b : List Nat) : List Nat := a.filter fun x => !b.contains x
def linter (a b : List Nat) : List Nat := a.filter fun x => b.contains x

/-- state of the double loop of `prolongate_to`: output matrix, `P_current`, `fd_lm1` -/
structure PState (α : Type) where
  out : Mat α
  pcur : Mat α
  fdlm1 : List Nat

/-- `out[np.ix_(rows, cols)] += B` -/
def addBlock (out : Mat α) (rows cols : List Nat) (B : Mat α) : Mat α :=
  let ir := invArr out.m rows
  let ic := invArr out.n cols
  ⟨out.m, out.n, fun i j =>
    match pos? ir i, pos? ic j with
    | some a, some b => out.f i j + B.f a b
    | _, _ => out.f i j⟩

/-- inner loop `for l in range(lv+1, bound)` of `prolongate_to` with the `break` on empty `fd_l`;
`P l` is the (partially computed) TP prolongator to level `l`, `repl = replaced_rav[lv]`,
`fCan l = f_actfun_can[l]`, `cCan = c_replaced_can[lv]`. -/
def prolInner (F : HSp α) (P : Nat → Mat α) (fCan : Nat → List Nat) (lv bound : Nat)
    (repl cCan : List Nat) : Nat → Nat → PState α → PState α
  | 0, _, st => st
  | fuel + 1, l, st =>
      if l < bound then
        let fa := F.ia l
        let fd := F.idl l
        let Pl := P (l - 1)
        let Pact := if l = lv + 1 then (Pl.selRows fa).selCols repl
                    else (((Pl.selRows fa).selCols st.fdlm1).mul st.pcur).freeze
        let Pdeact := if l = lv + 1 then (Pl.selRows fd).selCols repl
                    else (((Pl.selRows fd).selCols st.fdlm1).mul st.pcur).freeze
        let out' := (addBlock st.out (fCan l) cCan Pact).freeze
        if fd.length = 0 then { st with out := out' }
        else prolInner F P fCan lv bound repl cCan fuel (l + 1) ⟨out', Pdeact.freeze, fd⟩
      else st

/-- `self.prolongate_to(fine)`; `C`/`F` are the coarse/fine spaces (`F.T` the fine space's TP
prolongations).  Both loops run up to `f_numlevels` (the inner one ends early through the `break`
on an empty `fd_l`), as in the code since the repair of D13 (commit 6ce171d).
`asCoded_D13 = true` reproduces the bounds `min(f_numlevels, · + disparity + 1)` of the earlier
source with `disparity = max(self.disparity, fine.disparity)` (`none` = `np.inf`); it is used only by
the negation witness `Props.C05.prolongate_to_finite_disparity_wrong`. -/
def prolongateTo (C F : HSp α) (disparity : Option Nat := none) (asCoded_D13 : Bool := false) : Mat α :=
  let Lc := C.numlevels
  let Lf := F.numlevels
  let bound (x : Nat) : Nat :=
    if asCoded_D13 then (match disparity with
      | none => Lf
      | some d => min Lf (x + d + 1)) else Lf
  let offC (lv : Nat) : Nat := if lv = 0 then 0 else C.nt (lv - 1)
  let offF (lv : Nat) : Nat := if lv = 0 then 0 else F.nt (lv - 1)
  let replaced (lv : Nat) : List Nat := ldiff (C.ia lv) (F.ia lv)
  let cReplacedCan (lv : Nat) : List Nat := (positionIndex (C.ia lv) (replaced lv)).map (· + offC lv)
  let fCan (l : Nat) : List Nat := (List.range (F.ia l).length).map (· + offF l)
  -- common functions: `out[np.ix_(common_f, common_c)] = eye`
  let commonF : List Nat := (List.range Lc).flatMap fun lv =>
      (linter (C.ia lv) (F.ia lv)).map fun x => (F.ia lv).idxOf x + offF lv
  let commonC : List Nat := (List.range Lc).flatMap fun lv =>
      (linter (C.ia lv) (F.ia lv)).map fun x => (C.ia lv).idxOf x + offC lv
  let invF := invArr F.numdofs commonF
  let out0 : Mat α := ⟨F.numdofs, C.numdofs, fun i j =>
      match pos? invF i with
      | some q => if commonC.getD q 0 = j then 1 else 0
      | none => 0⟩
  let coarseLevels := if Lc < Lf then Lc else Lc - 1
  -- rows of the TP prolongators that are computed at all (`needed_P_rows`)
  let Ps : List (Mat α) := (List.range (Lf - 1)).map fun lv =>
    if lv + 1 < bound coarseLevels then ((F.Tl lv).keepRows (F.ir (lv + 1))).freeze
    else Mat.zero (F.Nl (lv + 1)) (F.Nl lv)
  let P (lv : Nat) : Mat α := Ps.getD lv (Mat.zero 0 0)
  let st0 : PState α := ⟨out0.freeze, Mat.zero 0 0, []⟩
  let st := (List.range coarseLevels).foldl (fun (st : PState α) lv =>
      prolInner F P fCan lv (bound lv) (replaced lv) (cReplacedCan lv) Lf (lv + 1) st) st0
  st.out

/-! ## boundary index map -/

/-- `HSpace.boundary(bdspec)[1]`: canonical indices of the active functions whose multi-index
has `0` (`side = 0`) or `n_axis - 1` (`side = 1`) on `axis`; `dims l` = per-axis numdofs of level `l`;
raveling is C-order. -/
def boundaryMap (IA : List (List Nat)) (dims : List (List Nat)) (axis side : Nat) : List Nat :=
  let rec go (l : Nat) (off : Nat) (IAs : List (List Nat)) (ds : List (List Nat)) : List Nat :=
    match IAs, ds with
    | ia :: IAs', d :: ds' =>
        let stride := (d.drop (axis + 1)).foldl (· * ·) 1
        let nax := d.getD axis 1
        let want := if side = 0 then 0 else nax - 1
        let hits := (List.range ia.length).filter fun q => (ia.getD q 0 / stride) % nax = want
        hits.map (· + off) ++ go (l + 1) (off + ia.length) IAs' ds'
    | _, _ => []
  go 0 0 IA dims

end Hier

end Pyiga.Transfer
