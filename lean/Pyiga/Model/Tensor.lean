/-
L-ten: low-rank tensor formats of `pyiga/tensor.py`, `pyiga/lowrank.py`, `pyiga/lowrank_cy.pyx`
and the helpers of `pyiga/utils.py` they use (no Mathlib).

Representation.  A full tensor (`numpy.ndarray`) is a shape together with an entry
function on multi-indices (`Full`); every operation on full tensors builds its result with
`Full.ofFn`, which is `0` outside the index box, so two results are *equal* as soon as they
agree on the box.  Factor matrices (`Mat`) are a row/column count with an entry function.
Everything is generic in the scalar type `α` (executed over `Rat` by the driver; the
theorems are over an arbitrary commutative ring / ordered field).

What is transliterated (Python line numbers of /repo/pyiga/tensor.py unless stated):
  * `_normalize_indices` (66-94) with CPython's `PySlice_Unpack/AdjustIndices`, `range.__getitem__`
    and `np.arange(n)[list]`                                   → `sliceRange`, `normAxis`, `normalizeIndices`
  * `apply_tprod` on ndarrays (97-128), `matricize`, `modek_tprod`, `outer`, `array_outer`, `pad`
  * `find_truncation_rank` / `_find_best_truncation_axis` (186-207) on squared norms
  * `CanonicalTensor` (689-844), `TuckerTensor` (847-1027, `orthogonalize/compress/norm` are
    SVD/QR based and are parameters, not modelled), `join_tucker_bases` (1030-1046),
    `TensorSum` (1049-1094), `TensorProd` (1097-1152), `CanonicalOperator` (1158-1254)
  * `lowrank.TensorGenerator` (12-80), `utils.cartesian_product` (103-114),
    `lowrank.aca` (87-139), `lowrank.aca_lr` (141-189), `lowrank_cy.rank_1_update`.
Python exceptions are the `Err` values (their kind is part of the compared output).
-/
import Pyiga.Model.Index

namespace Pyiga.Tensor
open Pyiga.Index

/-- exception kinds (the class name of the Python exception) -/
inductive Err where
  | index | type | value | assertion | attribute | unsupported | stream
  deriving DecidableEq, Repr, Inhabited

def Err.name : Err → String
  | .index => "IndexError" | .type => "TypeError" | .value => "ValueError"
  | .assertion => "AssertionError" | .attribute => "AttributeError"
  | .unsupported => "unsupported" | .stream => "stream-exhausted"

section Basic
variable {α : Type}

/-- right fold sum / product (the order is irrelevant in a commutative ring; exact on the
integer data of the correspondence runs) -/
def sumL [Add α] [Zero α] (l : List α) : α := l.foldr (· + ·) 0
def prodL [Mul α] [One α] (l : List α) : α := l.foldr (· * ·) 1
/-- `Σ_{i<n} f i` -/
def sumN [Add α] [Zero α] (n : Nat) (f : Nat → α) : α := sumL ((List.range n).map f)

/-- all multi-indices of a box in C order (`np.ndindex(*shape)`) -/
def box : List Nat → List (List Nat)
  | [] => [[]]
  | n :: s => (List.range n).flatMap (fun i => (box s).map (i :: ·))

/-- `I` is a multi-index of the box `s` -/
def inBox : List Nat → List Nat → Bool
  | [], [] => true
  | i :: I, n :: s => decide (i < n) && inBox I s
  | _, _ => false

/-- `Σ_{I ∈ box s} f I`, axis by axis -/
def boxSum [Add α] [Zero α] : List Nat → (List Nat → α) → α
  | [], f => f []
  | n :: s, f => sumN n (fun i => boxSum s (fun I => f (i :: I)))

/-! ### full tensors and matrices -/

/-- `numpy.ndarray`: shape and entries -/
structure Full (α : Type) where
  shape : List Nat
  get : List Nat → α

/-- the tensor with entries `f I` on the box, `0` outside (normal form) -/
def Full.ofFn [Zero α] (s : List Nat) (f : List Nat → α) : Full α :=
  ⟨s, fun I => if inBox I s then f I else 0⟩

def Full.ndim (A : Full α) : Nat := A.shape.length
/-- `A.ravel()` (C order) -/
def Full.toList (A : Full α) : List α := (box A.shape).map A.get
/-- `A.size` -/
def Full.size (A : Full α) : Nat := prod A.shape

/-- `np.array(data).reshape(shape)` -/
def Full.ofList [Zero α] (s : List Nat) (d : List α) : Full α :=
  Full.ofFn s (fun I => d.getD (toSeq I s) 0)

/-- a dense matrix / 2-D array -/
structure Mat (α : Type) where
  rows : Nat
  cols : Nat
  get : Nat → Nat → α

def Mat.ofList [Zero α] (r c : Nat) (d : List α) : Mat α :=
  ⟨r, c, fun i j => if i < r ∧ j < c then d.getD (i * c + j) 0 else 0⟩
def Mat.toList (A : Mat α) : List α :=
  (List.range A.rows).flatMap (fun i => (List.range A.cols).map (fun j => A.get i j))
def Mat.toFull [Zero α] (A : Mat α) : Full α :=
  Full.ofFn [A.rows, A.cols] (fun I => A.get (I.getD 0 0) (I.getD 1 0))
/-- `-A` -/
def Mat.neg [Neg α] (A : Mat α) : Mat α := ⟨A.rows, A.cols, fun i j => - A.get i j⟩
/-- `np.hstack((A, B))` -/
def Mat.hstack (A B : Mat α) : Mat α :=
  ⟨A.rows, A.cols + B.cols, fun i j => if j < A.cols then A.get i j else B.get i (j - A.cols)⟩
/-- `A[rows]` for a list of row positions (`range` object or integer array) -/
def Mat.takeRows (A : Mat α) (r : List Nat) : Mat α :=
  ⟨r.length, A.cols, fun i j => A.get (r.getD i 0) j⟩
/-- `A[:, :k]` -/
def Mat.takeCols (A : Mat α) (k : Nat) : Mat α := ⟨A.rows, min k A.cols, A.get⟩
/-- `B.dot(A)` -/
def Mat.mul [Add α] [Mul α] [Zero α] (B A : Mat α) : Mat α :=
  ⟨B.rows, A.cols, fun i j => sumN B.cols (fun k => B.get i k * A.get k j)⟩
def Mat.transpose (A : Mat α) : Mat α := ⟨A.cols, A.rows, fun i j => A.get j i⟩
/-- `A * f` with `f` of shape `1 × R` broadcast over the rows -/
def Mat.mulRow [Mul α] (A : Mat α) (f : Nat → α) : Mat α := ⟨A.rows, A.cols, fun i j => A.get i j * f j⟩
/-- `scipy.sparse.kron(A, B)` / `np.kron` -/
def Mat.kron [Mul α] (A B : Mat α) : Mat α :=
  ⟨A.rows * B.rows, A.cols * B.cols,
   fun i j => A.get (i / B.rows) (j / B.cols) * B.get (i % B.rows) (j % B.cols)⟩
def Mat.add [Add α] (A B : Mat α) : Mat α := ⟨A.rows, A.cols, fun i j => A.get i j + B.get i j⟩
def Mat.zeros [Zero α] (r c : Nat) : Mat α := ⟨r, c, fun _ _ => 0⟩
def Mat.ones [One α] (r c : Nat) : Mat α := ⟨r, c, fun _ _ => 1⟩
def Mat.eye [Zero α] [One α] (n : Nat) : Mat α := ⟨n, n, fun i j => if i = j then 1 else 0⟩
/-- `A.dot(x)` for a vector -/
def Mat.mulVec [Add α] [Mul α] [Zero α] (A : Mat α) (x : Nat → α) : Nat → α :=
  fun i => sumN A.cols (fun j => A.get i j * x j)

/-! ### Python index expressions (`_normalize_indices`, tensor.py 66-94) -/

/-- one component of an index tuple -/
inductive PyIndex where
  | int (i : Int)
  | slice (start stop step : Option Int)
  | list (l : List Int)
  deriving Repr, DecidableEq

/-- `range(n)[slice(start, stop, step)]` as the list of positions: CPython
`PySlice_Unpack` (defaults), `PySlice_AdjustIndices` (wrap negative, clamp, length), and
`range.__getitem__` (`start + k*step`, `k < length`).  Step 0 is a `ValueError`. -/
def sliceRange (n : Nat) (start stop step : Option Int) : Except Err (List Nat) :=
  let st : Int := step.getD 1
  if st = 0 then .error .value else
  let len : Int := n
  -- PySlice_AdjustIndices
  let adj (x : Int) : Int :=
    if x < 0 then
      (if x + len < 0 then (if st < 0 then -1 else 0) else x + len)
    else if x ≥ len then (if st < 0 then len - 1 else len)
    else x
  -- PySlice_Unpack defaults (PY_SSIZE_T_MAX / MIN) followed by the adjustment
  let s : Int := match start with
    | none => if st < 0 then len - 1 else 0
    | some x => adj x
  let e : Int := match stop with
    | none => if st < 0 then -1 else len
    | some x => adj x
  let cnt : Nat :=
    if st < 0 then (if e < s then ((s - e - 1) / (-st) + 1).toNat else 0)
    else (if s < e then ((e - s - 1) / st + 1).toNat else 0)
  .ok ((List.range cnt).map (fun (k : Nat) => (s + Int.ofNat k * st).toNat))

/-- `range(n)[i]` / `np.arange(n)[i]` for an integer: wrap negative, `IndexError` outside -/
def intIndex (n : Nat) (i : Int) : Except Err Nat :=
  let j := if i < 0 then i + (n : Int) else i
  if 0 ≤ j ∧ j < (n : Int) then .ok j.toNat else .error .index

def listIndex (n : Nat) : List Int → Except Err (List Nat)
  | [] => .ok []
  | i :: l => do
      let a ← intIndex n i
      let r ← listIndex n l
      pure (a :: r)

/-- one pass of the loop body of `_normalize_indices`: positions and "is a scalar index" -/
def normAxis (n : Nat) : PyIndex → Except Err (List Nat × Bool)
  | .int i => do let a ← intIndex n i; pure ([a], true)
  | .slice a b c => do let r ← sliceRange n a b c; pure (r, false)
  | .list l => do let r ← listIndex n l; pure (r, false)

structure NormIdx where
  idx : List (List Nat)
  shape : List Nat
  singl : List Nat
  deriving Repr, DecidableEq

def normGo : Nat → List PyIndex → List Nat → Except Err NormIdx
  | k, ik :: I, n :: s => do
      let r ← normAxis n ik
      let rest ← normGo (k + 1) I s
      pure ⟨r.1 :: rest.idx, r.1.length :: rest.shape, if r.2 then k :: rest.singl else rest.singl⟩
  | _, _, _ => .ok ⟨[], [], []⟩

/-- `_normalize_indices(I, shape)` (`I` already a tuple) -/
def normalizeIndices (I : List PyIndex) (shape : List Nat) : Except Err NormIdx :=
  let d := shape.length
  if I.length > d then .error .value
  else normGo 0 (I ++ List.replicate (d - I.length) (PyIndex.slice none none none)) shape

/-! ### operations on full tensors (numpy) -/
section FullOps
variable [Zero α]

def Full.neg [Neg α] (A : Full α) : Full α := Full.ofFn A.shape (fun I => - A.get I)
/-- `A + B` for equal shapes (broadcasting is not used by the library here) -/
def Full.add [Add α] (A B : Full α) : Except Err (Full α) :=
  if A.shape = B.shape then .ok (Full.ofFn A.shape (fun I => A.get I + B.get I)) else .error .value
def Full.sub [Sub α] (A B : Full α) : Except Err (Full α) :=
  if A.shape = B.shape then .ok (Full.ofFn A.shape (fun I => A.get I - B.get I)) else .error .value

/-- positions selected by per-axis index lists -/
def pick : List (List Nat) → List Nat → List Nat
  | r :: idx, i :: I => r.getD i 0 :: pick idx I
  | _, _ => []

/-- `A[np.ix_(*idx)]`: per-axis selection -/
def Full.take (A : Full α) (idx : List (List Nat)) : Full α :=
  Full.ofFn (idx.map List.length) (fun I => A.get (pick idx I))

/-- put a `0` at every (sorted, distinct) axis of `ax`; inverse of dropping those axes -/
def unsqueezeGo : Nat → List Nat → Nat → List Nat → List Nat
  | 0, _, _, _ => []
  | d + 1, ax, k, I =>
      if ax.contains k then 0 :: unsqueezeGo d ax (k + 1) I
      else match I with
        | [] => 0 :: unsqueezeGo d ax (k + 1) []
        | i :: I => i :: unsqueezeGo d ax (k + 1) I
def unsqueeze (d : Nat) (ax : List Nat) (I : List Nat) : List Nat := unsqueezeGo d ax 0 I

/-- the entries of `l` whose position is not in `ax` -/
def dropAxesGo {β : Type} : Nat → List Nat → List β → List β
  | _, _, [] => []
  | k, ax, x :: l => if ax.contains k then dropAxesGo (k + 1) ax l else x :: dropAxesGo (k + 1) ax l
def dropAxes {β : Type} (ax : List Nat) (l : List β) : List β := dropAxesGo 0 ax l

/-- `np.squeeze(A, axis=ax)` for in-range axes (`ValueError` if one is not a singleton) -/
def Full.squeeze (A : Full α) (ax : List Nat) : Except Err (Full α) :=
  if ax.all (fun k => A.shape.getD k 0 = 1) then
    .ok (Full.ofFn (dropAxes ax A.shape) (fun I => A.get (unsqueeze A.ndim ax I)))
  else .error .value

/-- entry of `apply_tprod(ops, A)` at `I`; `x` reads `A`.  `None` = identity, trailing axes
of `A` beyond `len(ops)` are kept. -/
def nwayEntry [Add α] [Mul α] : List (Option (Mat α)) → List Nat → (List Nat → α) → α
  | [], I, x => x I
  | none :: Bs, i :: I, x => nwayEntry Bs I (fun J => x (i :: J))
  | some B :: Bs, i :: I, x => sumN B.cols (fun j => B.get i j * nwayEntry Bs I (fun J => x (j :: J)))
  | _ :: _, [], _ => 0

/-- result shape of `apply_tprod`; `none` = incompatible (`np.tensordot` raises `ValueError`) -/
def nwayShape : List (Option (Mat α)) → List Nat → Option (List Nat)
  | [], s => some s
  | none :: Bs, n :: s => (nwayShape Bs s).map (n :: ·)
  | some B :: Bs, n :: s => if B.cols = n then (nwayShape Bs s).map (B.rows :: ·) else none
  | _ :: _, [] => none

/-- `apply_tprod(ops, A)` for an ndarray `A` (tensor.py 119-128) -/
def Full.nway [Add α] [Mul α] (ops : List (Option (Mat α))) (A : Full α) : Except Err (Full α) :=
  match nwayShape ops A.shape with
  | some s => .ok (Full.ofFn s (fun I => nwayEntry ops I A.get))
  | none => .error .value

/-- `np.pad(A, [(b_k, a_k)], 'constant')` -/
def padEntry : List (Nat × Nat) → List Nat → List Nat → (List Nat → α) → α
  | [], [], [], x => x []
  | (b, _) :: pw, n :: s, j :: J, x =>
      if b ≤ j ∧ j < b + n then padEntry pw s J (fun K => x ((j - b) :: K)) else 0
  | _, _, _, _ => 0
def padShape : List (Nat × Nat) → List Nat → List Nat
  | (b, a) :: pw, n :: s => (b + n + a) :: padShape pw s
  | _, _ => []
def Full.pad (A : Full α) (pw : List (Nat × Nat)) : Except Err (Full α) :=
  if pw.length = A.ndim then .ok (Full.ofFn (padShape pw A.shape) (fun J => padEntry pw A.shape J A.get))
  else .error .value

/-- `A[:k_0, :k_1, …]` -/
def Full.restrict (A : Full α) (k : List Nat) : Full α :=
  Full.ofFn ((k.zip A.shape).map (fun p => min p.1 p.2)) A.get

/-- `np.multiply.outer(A, B)` -/
def Full.outer [Mul α] (A B : Full α) : Full α :=
  Full.ofFn (A.shape ++ B.shape) (fun I => A.get (I.take A.ndim) * B.get (I.drop A.ndim))

/-- `array_outer(*xs)` (235) -/
def arrayOuter [Mul α] [One α] : List (Full α) → Full α
  | [] => Full.ofFn [] (fun _ => 1)
  | [A] => A
  | A :: As => Full.outer A (arrayOuter As)

/-- `matricize(X, k)` (145-148): swap axes 0 and k, reshape to `(n_k, -1)` in C order -/
def swap0k (k : Nat) (l : List Nat) : List Nat :=
  (l.set 0 (l.getD k 0)).set k (l.getD 0 0)
def Full.matricize (A : Full α) (k : Nat) : Except Err (Mat α) :=
  if k < A.ndim then
    let s' := swap0k k A.shape
    let nk := A.shape.getD k 0
    let rest := s'.drop 1
    .ok ⟨nk, prod rest, fun i j => A.get (swap0k k (i :: fromSeq j rest))⟩
  else .error .index

/-- `modek_tprod(B, k, X)` (150-167) -/
def Full.modek [Add α] [Mul α] (B : Mat α) (k : Nat) (A : Full α) : Except Err (Full α) :=
  if k < A.ndim then
    Full.nway (List.replicate k none ++ [some B]) A
  else .error .value

/-- squared Frobenius norm -/
def Full.sqnorm [Add α] [Mul α] (A : Full α) : α := boxSum A.shape (fun I => A.get I * A.get I)
end FullOps

/-! ### find_truncation_rank (tensor.py 186-207), on squared norms -/
section Trunc
variable [Zero α] [Add α] [Mul α]

/-- squared norm of the last slice of the leading sub-box `s` along axis `ax`
(`np.linalg.norm(np.swapaxes(X, ax, 0)[-1].ravel())**2`) -/
def lastSliceSq (get : List Nat → α) (s : List Nat) (ax : Nat) : α :=
  boxSum (s.set ax 1) (fun I => let J := I.set ax (s.getD ax 0 - 1); get J * get J)

/-- `np.argmin`: first index of the smallest entry -/
def argminGo [LT α] [DecidableLT α] : List α → Nat → Nat → α → Nat
  | [], _, best, _ => best
  | x :: l, k, best, bv => if x < bv then argminGo l (k + 1) k x else argminGo l (k + 1) best bv
def argmin [LT α] [DecidableLT α] : List α → Nat
  | [] => 0
  | x :: l => argminGo l 1 0 x

/-- the `while X.size > 0` loop; `s` is the shape of the current leading sub-box, `total`
is `total_err_squ`.  Fuel bounds the iteration count (`Σ s + 1` suffices). -/
def findTruncLoop [LT α] [DecidableLT α] (get : List Nat → α) (tolsq : α) :
    Nat → List Nat → α → List Nat
  | 0, s, _ => s
  | fuel + 1, s, total =>
      if prod s = 0 then s else
      let errs := (List.range s.length).map (lastSliceSq get s)
      let ax := argmin errs
      let total' := total + errs.getD ax 0
      if tolsq < total' then s
      else findTruncLoop get tolsq fuel (s.set ax (s.getD ax 0 - 1)) total'

/-- `find_truncation_rank(X, tol)` with `tolsq = tol**2` (0-dimensional input: `ValueError`
from `np.argmin([])`) -/
def findTruncationRank [LT α] [DecidableLT α] (X : Full α) (tolsq : α) : Except Err (List Nat) :=
  if X.shape = [] then .error .value
  else .ok (findTruncLoop X.get tolsq (X.shape.foldl (· + ·) 0 + 1) X.shape 0)
end Trunc

/-! ### the tensor classes -/

/-- any tensor object: `ndarray`, `CanonicalTensor(Xs)`, `TuckerTensor(Us, X)`,
`TensorSum(*Xs)`, `TensorProd(*Xs)` (the last two store `shape` at construction, as the
Python classes do) -/
inductive Ten (α : Type) where
  | full (A : Full α)
  | can (Xs : List (Mat α))
  | tucker (Us : List (Mat α)) (X : Full α)
  | sum (shape : List Nat) (Xs : List (Ten α))
  | prod (shape : List Nat) (Xs : List (Ten α))

/-- result of an indexing / squeeze operation: a tensor or a scalar entry -/
inductive Res (α : Type) where
  | t (T : Ten α)
  | s (a : α)

def Ten.shape : Ten α → List Nat
  | .full A => A.shape
  | .can Xs => Xs.map (·.rows)
  | .tucker Us _ => Us.map (·.rows)
  | .sum s _ => s
  | .prod s _ => s
def Ten.ndim (T : Ten α) : Nat := T.shape.length

/-- `CanonicalTensor.R` (`Xs[0].shape[1]`) -/
def canR (Xs : List (Mat α)) : Nat := match Xs with | [] => 0 | X :: _ => X.cols

/-- `CanonicalTensor.__init__` (700-706): `Xs[0]` needs a factor, all column counts equal -/
def mkCan (Xs : List (Mat α)) : Except Err (Ten α) :=
  match Xs with
  | [] => .error .index
  | X :: _ => if Xs.all (fun Y => Y.cols = X.cols) then .ok (.can Xs) else .error .assertion

/-- `TuckerTensor.__init__` (869-875) -/
def mkTucker (Us : List (Mat α)) (X : Full α) : Except Err (Ten α) :=
  if Us.length = X.ndim then .ok (.tucker Us X) else .error .assertion

/-- `TensorSum.__init__` (1051-1056) -/
def mkSum (Xs : List (Ten α)) : Except Err (Ten α) :=
  match Xs with
  | [] => .error .assertion
  | X :: _ => if Xs.all (fun Y => Y.shape = X.shape) then .ok (.sum X.shape Xs) else .error .assertion

/-- `TensorProd.__init__` (1099-1109) -/
def mkProd (Xs : List (Ten α)) : Ten α := .prod (Xs.flatMap Ten.shape) Xs

section Entries
variable [Zero α] [One α] [Add α] [Mul α]

/-- entry of `CanonicalTensor.asarray()` (753-758): `Σ_r Π_k Xs[k][I_k, r]` -/
def canEntry (Xs : List (Mat α)) (I : List Nat) : α :=
  sumN (canR Xs) (fun r => prodL ((Xs.zip I).map (fun p => p.1.get p.2 r)))

/-- entry of `TuckerTensor.asarray()` = `apply_tprod(Us, X)` (908-910) -/
def tuckerEntry (Us : List (Mat α)) (X : Full α) (I : List Nat) : α :=
  nwayEntry (Us.map some) I X.get

mutual
/-- entry of `asarray(T)` at a multi-index -/
def Ten.entry : Ten α → List Nat → α
  | .full A, I => A.get I
  | .can Xs, I => canEntry Xs I
  | .tucker Us X, I => tuckerEntry Us X I
  | .sum _ Xs, I => entrySum Xs I
  | .prod _ Xs, I => entryProd Xs I
/-- `TensorSum.asarray` (1061-1066) -/
def entrySum : List (Ten α) → List Nat → α
  | [], _ => 0
  | X :: Xs, I => X.entry I + entrySum Xs I
/-- `TensorProd.asarray` (1114-1117): `array_outer` of the factors -/
def entryProd : List (Ten α) → List Nat → α
  | [], _ => 1
  | X :: Xs, I => X.entry (I.take X.ndim) * entryProd Xs (I.drop X.ndim)
end

/-- `tensor.asarray(T)` -/
def Ten.asarray (T : Ten α) : Full α := Full.ofFn T.shape T.entry

def Res.asarray : Res α → Full α
  | .t T => T.asarray
  | .s a => Full.ofFn [] (fun _ => a)
end Entries

section Ops
variable [Zero α] [One α] [Add α] [Mul α] [Neg α] [Sub α]

/-! #### constructors / conversions -/

/-- `CanonicalTensor.zeros(shape)` / `ones(shape)` (711-719) -/
def canZeros (shape : List Nat) : Except Err (Ten α) := mkCan (shape.map (fun n => Mat.zeros n 0))
def canOnes (shape : List Nat) : Except Err (Ten α) := mkCan (shape.map (fun n => Mat.ones n 1))

/-- the identity core built in `TuckerTensor.from_tensor` (895-899, after fix 9307d65):
`X[:] = 1.0` for one axis, `np.fill_diagonal(np.zeros(d*(R,)), 1.0)` for `d ≥ 2`
(0-dimensional: `ValueError` from `fill_diagonal`) -/
def diagCore (d R : Nat) : Except Err (Full α) :=
  if d = 0 then .error .value
  else if d = 1 then .ok (Full.ofFn [R] (fun _ => 1))
  else .ok (Full.ofFn (List.replicate d R) (fun I => if I.all (fun i => i = I.headD 0) then 1 else 0))

/-- the core as coded before fix 9307d65: `np.fill_diagonal` needs `d ≥ 2` (`ValueError` otherwise).
Only used by the negation witness `from_tensor_order1_raises`. -/
def diagCoreAsCoded (d R : Nat) : Except Err (Full α) :=
  if d < 2 then .error .value
  else .ok (Full.ofFn (List.replicate d R) (fun I => if I.all (fun i => i = I.headD 0) then 1 else 0))

/-- Canonical → Tucker as coded before fix 9307d65 -/
def tuckerFromCanAsCoded (Xs : List (Mat α)) : Except Err (Ten α) := do
  let X ← diagCoreAsCoded Xs.length (canR Xs); mkTucker Xs X

/-- `TuckerTensor.from_tensor(A)` (890-902) -/
def tuckerFromTensor : Ten α → Except Err (Ten α)
  | .can Xs => do let X ← diagCore Xs.length (canR Xs); mkTucker Xs X
  | .tucker Us X => .ok (.tucker Us X)
  | T => mkTucker (T.shape.map Mat.eye) T.asarray

/-- `CanonicalTensor.from_tensor(A)` (732-747): one term per non-zero core entry -/
def canFromTensor [DecidableEq α] : Ten α → Except Err (Ten α)
  | .tucker Us X =>
      let terms := (box X.shape).filter (fun J => X.get J ≠ 0)
      if terms.isEmpty then canZeros (Us.map (·.rows))
      else
        let R := terms.length
        mkCan (Us.zipIdx.map (fun (U, k) =>
          (⟨U.rows, R, fun i t =>
              let J := terms.getD t []
              if k = 0 then X.get J * U.get i (J.getD k 0) else U.get i (J.getD k 0)⟩ : Mat α)))
  | _ => .error .type

/-! #### arithmetic -/

/-- `join_tucker_bases(T1, T2)` (1030-1046) followed by `X1 ± X2` -/
def tuckerJoin (sub : Bool) (U1 : List (Mat α)) (X1 : Full α) (U2 : List (Mat α)) (X2 : Full α) :
    Except Err (Ten α) := do
  let U := (U1.zip U2).map (fun p => Mat.hstack p.1 p.2)
  let P1 ← X1.pad (X2.shape.map (fun n => (0, n)))
  let P2 ← X2.pad (X1.shape.map (fun n => (n, 0)))
  let X ← if sub then P1.sub P2 else P1.add P2
  mkTucker U X

mutual
/-- unary minus of every class (797-799, 999-1000, 1086-1087, 1138-1139) -/
def Ten.neg : Ten α → Except Err (Ten α)
  | .full A => .ok (.full A.neg)
  | .can Xs => match Xs with
      | [] => .error .index
      | X :: Xs => mkCan (X.neg :: Xs)
  | .tucker Us X => mkTucker Us X.neg
  | .sum _ Xs => do let Ys ← negList Xs; mkSum Ys
  | .prod _ Xs => do let Ys ← negHead Xs; pure (mkProd Ys)
def negList : List (Ten α) → Except Err (List (Ten α))
  | [] => .ok []
  | X :: Xs => do let Y ← X.neg; let Ys ← negList Xs; pure (Y :: Ys)
def negHead : List (Ten α) → Except Err (List (Ten α))
  | [] => .error .index
  | X :: Xs => do let Y ← X.neg; pure (Y :: Xs)
end

/-- `T1 + T2` (`__add__` of the class of `T1`: 801-811, 979-989, 1080-1081, 1132-1133) -/
def Ten.add : Ten α → Ten α → Except Err (Ten α)
  | .can X1, T2 =>
      if (Ten.can X1).shape ≠ T2.shape then .error .assertion else
      match T2 with
      | .can X2 => mkCan ((X1.zip X2).map (fun p => Mat.hstack p.1 p.2))
      | .tucker U2 C2 => do
          let T1 ← tuckerFromTensor (.can X1)
          match T1 with
          | .tucker U1 C1 => tuckerJoin false U1 C1 U2 C2
          | _ => .error .type
      | .full B => do let R ← (Ten.can X1).asarray.add B; pure (.full R)
      | _ => .error .type
  | .tucker U1 C1, T2 =>
      if T2.shape ≠ (Ten.tucker U1 C1).shape then .error .assertion else
      match T2 with
      | .tucker U2 C2 => tuckerJoin false U1 C1 U2 C2
      | .can X2 => do
          let T2' ← tuckerFromTensor (.can X2)
          match T2' with
          | .tucker U2 C2 => tuckerJoin false U1 C1 U2 C2
          | _ => .error .type
      | .full B => do let R ← (Ten.tucker U1 C1).asarray.add B; pure (.full R)
      | _ => .error .type
  | .sum _ Xs, T2 => mkSum (Xs ++ [T2])
  | .prod s Xs, T2 => mkSum [.prod s Xs, T2]
  | .full A, .full B => do let R ← A.add B; pure (.full R)
  | .full _, _ => .error .unsupported

/-- `T1 - T2` (813-814, 991-997, 1083-1084, 1135-1136) -/
def Ten.sub : Ten α → Ten α → Except Err (Ten α)
  | .can X1, T2 => do let N ← T2.neg; (Ten.can X1).add N
  | .tucker U1 C1, T2 =>
      if T2.shape ≠ (Ten.tucker U1 C1).shape then .error .assertion else
      match T2 with
      | .tucker U2 C2 => tuckerJoin true U1 C1 U2 C2
      | _ => do let N ← T2.neg; (Ten.tucker U1 C1).add N
  | .sum _ Xs, T2 => do let N ← T2.neg; mkSum (Xs ++ [N])
  | .prod s Xs, T2 => do let N ← T2.neg; mkSum [.prod s Xs, N]
  | .full A, .full B => do let R ← A.sub B; pure (.full R)
  | .full _, _ => .error .unsupported

/-! #### squeeze / getitem -/

/-- Python `seq[i]` position for a possibly negative `i` -/
def pyPos (n : Nat) (i : Int) : Except Err Nat := intIndex n i

/-- the common prologue of both `squeeze` methods (816-825 / 1006-1015): default axes, or
normalise the given axes with `range(ndim)[i]` (fix 303a07a; `IndexError` when out of range) and
check that each is a singleton.  `asCoded = true` is the behaviour before the fix: the raw,
possibly negative, axis values are used further on (negation witness only). -/
def squeezeAxes (asCoded : Bool) (shape : List Nat) (axis : Option (List Int)) : Except Err (List Int) :=
  match axis with
  | none => .ok ((List.range shape.length).filter (fun i => shape.getD i 0 = 1) |>.map Int.ofNat)
  | some ax => do
      let pos ← ax.mapM (pyPos shape.length)
      if pos.all (fun p => shape.getD p 0 = 1) then .ok (if asCoded then ax else pos.map Int.ofNat)
      else .error .value

/-- `CanonicalTensor.squeeze` (816-839), literally: `remaining` is computed from the axis
values returned by the prologue, the factors are fetched with Python (wrapping) indexing -/
def canSqueeze (Xs : List (Mat α)) (axis : Option (List Int)) (asCoded : Bool := false) : Except Err (Res α) := do
  let shape := Xs.map (·.rows)
  let d := Xs.length
  let ax ← squeezeAxes asCoded shape axis
  if ax.length = 0 then pure (.t (.can Xs))
  else if ax.length = d then pure (.s (canEntry Xs (List.replicate d 0)))
  else
    let remaining := (List.range d).filter (fun k => !(ax.contains (Int.ofNat k)))
    let Ys := remaining.map (fun k => Xs.getD k (Mat.zeros 0 0))
    let pos ← ax.mapM (pyPos d)
    let factors : Nat → α := fun r => prodL (pos.map (fun p => (Xs.getD p (Mat.zeros 0 0)).get 0 r))
    match Ys with
    | [] => .error .index
    | Y :: Ys => do let T ← mkCan (Y.mulRow factors :: Ys); pure (.t T)

/-- `CanonicalTensor.__getitem__` (840-844) -/
def canGetitem (Xs : List (Mat α)) (I : List PyIndex) : Except Err (Res α) := do
  let n ← normalizeIndices I (Xs.map (·.rows))
  let A ← mkCan ((Xs.zip n.idx).map (fun p => p.1.takeRows p.2))
  if A.shape ≠ n.shape then .error .assertion else
  match A with
  | .can Ys => canSqueeze Ys (some (n.singl.map Int.ofNat))
  | _ => .error .type

/-- `TuckerTensor.squeeze` (1002-1021) -/
def tuckerSqueeze (Us : List (Mat α)) (X : Full α) (axis : Option (List Int)) (asCoded : Bool := false) : Except Err (Res α) := do
  let shape := Us.map (·.rows)
  let d := Us.length
  let ax ← squeezeAxes asCoded shape axis
  if ax.length = 0 then pure (.t (.tucker Us X))
  else if ax.length = d then pure (.s (tuckerEntry Us X (List.replicate d 0)))
  else
    let remaining := (List.range d).filter (fun k => !(ax.contains (Int.ofNat k)))
    let pos ← ax.mapM (pyPos d)
    let factors : List (Option (Mat α)) :=
      (List.range d).map (fun k => if pos.contains k then some (Us.getD k (Mat.zeros 0 0)) else none)
    let Y ← X.nway factors
    -- `ndarray.squeeze(axis)`: repeated axes are a ValueError
    if pos.eraseDups.length ≠ pos.length then .error .value else
    let Z ← Y.squeeze pos
    let T ← mkTucker (remaining.map (fun k => Us.getD k (Mat.zeros 0 0))) Z
    pure (.t T)

/-- `TuckerTensor.__getitem__` (1023-1027) -/
def tuckerGetitem (Us : List (Mat α)) (X : Full α) (I : List PyIndex) : Except Err (Res α) := do
  let n ← normalizeIndices I (Us.map (·.rows))
  let T ← mkTucker ((Us.zip n.idx).map (fun p => p.1.takeRows p.2)) X
  if T.shape ≠ n.shape then .error .assertion else
  match T with
  | .tucker Vs Y => tuckerSqueeze Vs Y (some (n.singl.map Int.ofNat))
  | _ => .error .type

/-- `ndarray.__getitem__` for tuples of ints / slices / at most one index list (with two or
more lists numpy pairs them instead of forming the outer selection: not used) -/
def fullGetitem (A : Full α) (I : List PyIndex) : Except Err (Res α) := do
  if I.length > A.ndim then .error .index else
  let nlists := (I.filter (fun i => match i with | .list _ => true | _ => false)).length
  let nints := (I.filter (fun i => match i with | .int _ => true | _ => false)).length
  if nlists > 1 ∨ (nlists = 1 ∧ nints > 0) then .error .unsupported else
  let n ← normalizeIndices I A.shape
  let B ← (A.take n.idx).squeeze n.singl
  if n.singl.length = A.ndim then pure (.s (B.get [])) else pure (.t (.full B))

def Res.isScalar : Res α → Bool
  | .s _ => true
  | .t _ => false

def resTensors : List (Res α) → List (Ten α)
  | [] => []
  | .t T :: l => T :: resTensors l
  | .s a :: l => Ten.full (Full.ofFn [] (fun _ => a)) :: resTensors l
def resScalars : List (Res α) → List α
  | [] => []
  | .s a :: l => a :: resScalars l
  | .t _ :: l => resScalars l

mutual
/-- `T[I]` -/
def Ten.getitem : Ten α → List PyIndex → Except Err (Res α)
  | .full A, I => fullGetitem A I
  | .can Xs, I => canGetitem Xs I
  | .tucker Us X, I => tuckerGetitem Us X I
  | .sum _ Xs, I => do          -- 1089-1094
      let Ys ← getitemList Xs I
      if Ys.all Res.isScalar then pure (.s (sumL (resScalars Ys)))
      else do let T ← mkSum (resTensors Ys); pure (.t T)
  | .prod s Xs, I => do         -- 1141-1152
      if I.length > s.length then .error .value else
      let I' := I ++ List.replicate (s.length - I.length) (PyIndex.slice none none none)
      let Ys ← getitemProd Xs I'
      if Ys.all Res.isScalar then pure (.s (prodL (resScalars Ys)))
      else pure (.t (mkProd (resTensors Ys)))
def getitemList : List (Ten α) → List PyIndex → Except Err (List (Res α))
  | [], _ => .ok []
  | X :: Xs, I => do let y ← X.getitem I; let ys ← getitemList Xs I; pure (y :: ys)
def getitemProd : List (Ten α) → List PyIndex → Except Err (List (Res α))
  | [], _ => .ok []
  | X :: Xs, I => do
      let y ← X.getitem (I.take X.ndim)
      let ys ← getitemProd Xs (I.drop X.ndim)
      pure (y :: ys)
end

/-- public `squeeze(axis)` of the two classes that have it -/
def Ten.squeeze : Ten α → Option (List Int) → Except Err (Res α)
  | .can Xs, ax => canSqueeze Xs ax
  | .tucker Us X, ax => tuckerSqueeze Us X ax
  | _, _ => .error .attribute

/-! #### apply_tprod / nway_prod, pad, truncate -/

/-- `B.dot(X)` with the shape check of numpy (`ValueError`) -/
def dotChecked (B X : Mat α) : Except Err (Mat α) :=
  if B.cols = X.rows then .ok (B.mul X) else .error .value

/-- the loop of `CanonicalTensor.nway_prod` / `TuckerTensor.nway_prod` (772-791, 954-973) -/
def nwayFactors : List (Option (Mat α)) → List (Mat α) → Except Err (List (Mat α))
  | _, [] => .ok []
  | [], X :: Xs => do let r ← nwayFactors [] Xs; pure (X :: r)
  | none :: Bs, X :: Xs => do let r ← nwayFactors Bs Xs; pure (X :: r)
  | some B :: Bs, X :: Xs => do let Y ← dotChecked B X; let r ← nwayFactors Bs Xs; pure (Y :: r)

/-- before fix 5dd70f0 `_modek_tensordot_sparse` (48-64) reshaped to `(nk, -1)`, which numpy refuses
when `nk = 0`; now the second dimension is explicit and nothing fails -/
def sparseReshapeFails : List (Option (Mat α)) → List Nat → Bool
  | some _ :: Bs, n :: s => n = 0 || sparseReshapeFails Bs s
  | none :: Bs, _ :: s => sparseReshapeFails Bs s
  | _, _ => false

mutual
/-- `apply_tprod(ops, T)` (97-128 and the `nway_prod` methods).  `sparse = true` reproduces the
ndarray branch for scipy sparse operators as coded before fix 5dd70f0 (negation witness only);
the current code behaves identically for dense and sparse operators (`sparse = false`). -/
def Ten.nway (sparse : Bool) : Ten α → List (Option (Mat α)) → Except Err (Ten α)
  | .full A, ops =>
      if sparse && sparseReshapeFails ops A.shape then .error .value
      else do let R ← A.nway ops; pure (.full R)
  | .can Xs, ops =>
      if ops.length > Xs.length then .error .value
      else do let Ys ← nwayFactors ops Xs; mkCan Ys
  | .tucker Us X, ops =>
      if ops.length > Us.length then .error .value
      else do let Vs ← nwayFactors ops Us; mkTucker Vs X
  | .sum _ Xs, ops => do let Ys ← nwayList sparse Xs ops; mkSum Ys          -- 1072-1078
  | .prod _ Xs, ops => do let Ys ← nwayProd sparse Xs ops; pure (mkProd Ys)  -- 1123-1130
def nwayList (sparse : Bool) : List (Ten α) → List (Option (Mat α)) → Except Err (List (Ten α))
  | [], _ => .ok []
  | X :: Xs, ops => do let Y ← X.nway sparse ops; let Ys ← nwayList sparse Xs ops; pure (Y :: Ys)
def nwayProd (sparse : Bool) : List (Ten α) → List (Option (Mat α)) → Except Err (List (Ten α))
  | [], _ => .ok []
  | X :: Xs, ops => do
      let Y ← X.nway sparse (ops.take X.ndim)
      let Ys ← nwayProd sparse Xs (ops.drop X.ndim)
      pure (Y :: Ys)
end

/-- the matrix `B` built in `pad` (248-257): `(b + n + a) × n`, identity in rows `b … b+n-1` -/
def padMat (n b a : Nat) : Mat α := ⟨b + n + a, n, fun i j => if i = b + j then 1 else 0⟩

/-- `pad(X, pad_width)` (237-258) -/
def Ten.pad (T : Ten α) (pw : List (Option (Nat × Nat))) (asCoded : Bool := false) : Except Err (Ten α) :=
  if pw.length ≠ T.ndim then .error .assertion
  else T.nway asCoded ((pw.zip T.shape).map (fun p => p.1.map (fun ba => padMat p.2 ba.1 ba.2)))

/-- `TuckerTensor.truncate(k)` (929-937), `k` a tuple of non-negative ranks -/
def Ten.truncate : Ten α → List Nat → Except Err (Ten α)
  | .tucker Us X, k =>
      if k.length ≠ Us.length then .error .assertion
      else mkTucker ((Us.zip k).map (fun p => p.1.takeCols p.2)) (X.restrict k)
  | _, _ => .error .attribute
end Ops

/-! ### CanonicalOperator (tensor.py 1158-1254) -/
section Operator
variable [Zero α] [One α] [Add α] [Mul α] [Neg α] [Sub α]

structure COp (α : Type) where
  terms : List (List (Mat α))

def COp.shapeOut (A : COp α) : List Nat := (A.terms.headD []).map (·.rows)
def COp.shapeIn (A : COp α) : List Nat := (A.terms.headD []).map (·.cols)

/-- `__init__` (1175-1185) -/
def mkCOp (terms : List (List (Mat α))) : Except Err (COp α) :=
  match terms with
  | [] => .error .index
  | t0 :: _ =>
      if terms.any (fun t => t.length < t0.length) then .error .index
      else if terms.all (fun t => (t.zip t0).all (fun p => p.1.rows = p.2.rows ∧ p.1.cols = p.2.cols)) then .ok ⟨terms⟩
      else .error .assertion

/-- `utils.multi_kron_sparse` (utils.py 62-67) -/
def multiKron : List (Mat α) → Mat α
  | [] => ⟨1, 1, fun _ _ => 1⟩
  | [A] => A
  | A :: As => A.kron (multiKron As)

/-- `asmatrix` (1197-1202) -/
def COp.asmatrix (A : COp α) : Mat α :=
  match A.terms with
  | [] => Mat.zeros 0 0
  | t :: ts => ts.foldl (fun X t' => X.add (multiKron t')) (multiKron t)

def COp.T (A : COp α) : Except Err (COp α) := mkCOp (A.terms.map (fun t => t.map Mat.transpose))
def COp.add (A B : COp α) : Except Err (COp α) :=
  if A.shapeOut = B.shapeOut ∧ A.shapeIn = B.shapeIn then mkCOp (A.terms ++ B.terms) else .error .assertion
def COp.neg (A : COp α) : Except Err (COp α) :=
  if A.terms.any (fun t => t.isEmpty) then .error .index else
  mkCOp (A.terms.map (fun t => match t with | [] => [] | X :: r => X.neg :: r))
def COp.sub (A B : COp α) : Except Err (COp α) := do let N ← B.neg; A.add N
def COp.mul (A B : COp α) : Except Err (COp α) :=
  if A.shapeIn = B.shapeOut then
    mkCOp (A.terms.flatMap (fun t1 => B.terms.map (fun t2 => (t1.zip t2).map (fun p => p.1.mul p.2))))
  else .error .assertion
def COp.kron (A B : COp α) : Except Err (COp α) :=
  mkCOp (A.terms.flatMap (fun t1 => B.terms.map (fun t2 => t1 ++ t2)))

/-- `apply` (1239-1242): `reduce(operator.add, (apply_tprod(t, X) for t in terms))` -/
def COp.apply (A : COp α) (X : Ten α) : Except Err (Ten α) :=
  if X.shape ≠ A.shapeIn then .error .assertion else
  match A.terms with
  | [] => .error .type
  | t :: ts => do
      let Y0 ← X.nway false (t.map some)
      ts.foldlM (fun Y t' => do let Z ← X.nway false (t'.map some); Y.add Z) Y0

/-- `A[l0:l1, l0:l1]` -/
def Mat.sliceSq (A : Mat α) (l0 l1 : Int) : Except Err (Mat α) := do
  let r ← sliceRange A.rows (some l0) (some l1) none
  let c ← sliceRange A.cols (some l0) (some l1) none
  pure ⟨r.length, c.length, fun i j => A.get (r.getD i 0) (c.getD j 0)⟩

/-- `slice(limits)` (1250-1254) -/
def COp.slice (A : COp α) (limits : List (Int × Int)) : Except Err (COp α) := do
  let ts ← A.terms.mapM (fun t => (t.zip limits).mapM (fun p => p.1.sliceSq p.2.1 p.2.2))
  mkCOp ts
end Operator

/-! ### TensorGenerator (lowrank.py 12-80) -/
section Generator
variable [Zero α]

/-- `utils.cartesian_product(arrays)` reshaped to `(-1, L)`: rows in C order -/
def cartesianProduct : List (List Nat) → List (List Nat)
  | [] => [[]]
  | r :: rs => r.flatMap (fun i => (cartesianProduct rs).map (i :: ·))

structure Gen (α : Type) where
  shape : List Nat
  entry : List Nat → α

/-- `TensorGenerator.from_array(X)` -/
def Gen.fromArray (X : Full α) : Gen α := ⟨X.shape, X.get⟩

/-- `TensorGenerator.__getitem__` (38-45): entries of the Cartesian product of the
normalised index ranges, reshaped to `shp` (C order), singleton axes squeezed -/
def Gen.getitem (G : Gen α) (I : List PyIndex) : Except Err (Full α) := do
  let n ← normalizeIndices I G.shape
  let vals := (cartesianProduct n.idx).map G.entry
  (Full.ofList n.shape vals).squeeze n.singl

/-- `TensorGenerator.asarray` (77-80) -/
def Gen.asarray (G : Gen α) : Full α :=
  Full.ofList G.shape ((cartesianProduct (G.shape.map List.range)).map G.entry)

/-- `matrix_at(I, axes)` (60-75) -/
def Gen.matrixAt (G : Gen α) (I : List Nat) (a0 a1 : Nat) : Except Err (Gen α) :=
  if I.length ≠ G.shape.length then .error .assertion
  else .ok ⟨[G.shape.getD a0 0, G.shape.getD a1 0],
            fun ij => G.entry ((I.set a0 (ij.getD 0 0)).set a1 (ij.getD 1 0))⟩
end Generator

/-! ### adaptive cross approximation (lowrank.py 87-189) -/
section ACA
variable [Zero α] [One α] [Add α] [Sub α] [Mul α] [Div α] [Neg α] [LT α] [DecidableLT α]

def absv (x : α) : α := if x < 0 then -x else x

/-- `abs(v).argmax()`: first index of the largest modulus -/
def argmaxAbsGo : List α → Nat → Nat → α → Nat
  | [], _, best, _ => best
  | x :: l, k, best, bv => if bv < absv x then argmaxAbsGo l (k + 1) k (absv x) else argmaxAbsGo l (k + 1) best bv
def argmaxAbs : List α → Nat
  | [] => 0
  | x :: l => argmaxAbsGo l 1 0 (absv x)

/-- `rank_1_update(X, alpha, u, v)` (lowrank_cy.pyx 5-18): `X[i,j] += (alpha*u[i]) * v[j]` -/
def rank1Update (X : Mat α) (alpha : α) (u v : List α) : Mat α :=
  ⟨X.rows, X.cols, fun i j => X.get i j + (alpha * u.getD i 0) * v.getD j 0⟩

structure AcaState (α : Type) where
  X : Mat α
  i : Nat
  k : Nat
  skip : Nat
  tolc : Nat
  rnd : List Nat
  /-- log of the iterations: `(i, j0, kind)`, kind 0 = skipped row, 1 = cross step -/
  log : List (Nat × Nat × Nat)
  /-- pivot values `E_row[j0]` of the cross steps (most recent first) -/
  piv : List α

/-- one pass of the `while True` body of `aca` (102-138); `.inr` = the loop was left -/
def acaBody (A : Mat α) (eps tol : α) (maxiter maxskip maxtol : Nat) (s : AcaState α) :
    Except Err (AcaState α ⊕ AcaState α) :=
  let Erow := (List.range A.cols).map (fun j => s.X.get s.i j - A.get s.i j)
  let j0 := argmaxAbs Erow
  let e := absv (Erow.getD j0 0)
  if e < eps then
    match s.rnd with
    | [] => .error .stream
    | r :: rnd =>
      let s' := { s with i := r % A.rows, skip := s.skip + 1, rnd := rnd, log := (s.i, j0, 0) :: s.log }
      if s'.skip ≥ maxskip then .ok (.inr s') else .ok (.inl s')
  else
    let cnt : Option (Nat × Nat) :=
      if e < tol then (if s.tolc + 1 ≥ maxtol then none else some (s.skip, s.tolc + 1))
      else some (0, 0)
    match cnt with
    | none => .ok (.inr { s with tolc := s.tolc + 1 })
    | some (sk, tc) =>
      let col := (List.range A.rows).map (fun a => A.get a j0 - s.X.get a j0)
      let X' := rank1Update s.X (1 / Erow.getD j0 0) col Erow
      let col' := col.set s.i 0
      let i' := argmaxAbs col'
      let s' : AcaState α := { X := X', i := i', k := s.k + 1, skip := sk, tolc := tc, rnd := s.rnd,
                               log := (s.i, j0, 1) :: s.log, piv := Erow.getD j0 0 :: s.piv }
      if s'.k ≥ maxiter then .ok (.inr s') else .ok (.inl s')

def acaLoop (A : Mat α) (eps tol : α) (maxiter maxskip maxtol : Nat) :
    Nat → AcaState α → Except Err (AcaState α)
  | 0, s => .ok s
  | fuel + 1, s => do
      match (← acaBody A eps tol maxiter maxskip maxtol s) with
      | .inl s' => acaLoop A eps tol maxiter maxskip maxtol fuel s'
      | .inr s' => pure s'

/-- `aca(A, tol, maxiter, skipcount, tolcount, startval)`; `eps` is the literal `1e-15`,
`rnd` the values `np.random.randint` will return -/
def aca (A : Mat α) (X0 : Mat α) (eps tol : α) (maxiter maxskip maxtol : Nat) (rnd : List Nat) :
    Except Err (AcaState α) :=
  if X0.rows ≠ A.rows ∨ X0.cols ≠ A.cols then .error .assertion else
  acaLoop A eps tol maxiter maxskip maxtol ((maxiter + 1) * (maxskip + 1) + 1)
    { X := X0, i := A.rows / 2, k := 0, skip := 0, tolc := 0, rnd := rnd, log := [], piv := [] }

/-- state of `aca_lr`: the crosses `(c, r)` in order of creation -/
structure AcaLrState (α : Type) where
  crosses : List (List α × List α)
  i : Nat
  k : Nat
  skip : Nat
  tolc : Nat
  rnd : List Nat
  log : List (Nat × Nat × Nat)
  piv : List α

def crossesAt (cr : List (List α × List α)) (a b : Nat) : α :=
  sumL (cr.map (fun p => p.1.getD a 0 * p.2.getD b 0))

/-- body of the `while k < maxiter` loop of `aca_lr` (158-188) -/
def acaLrBody (A : Mat α) (eps tol : α) (s : AcaLrState α) : Except Err (AcaLrState α ⊕ AcaLrState α) :=
  let err := (List.range A.cols).map (fun j => crossesAt s.crosses s.i j - A.get s.i j)
  let j0 := argmaxAbs err
  let e := absv (err.getD j0 0)
  if e < eps then
    match s.rnd with
    | [] => .error .stream
    | r :: rnd =>
      let s' := { s with i := r % A.rows, skip := s.skip + 1, rnd := rnd, log := (s.i, j0, 0) :: s.log }
      if s'.skip ≥ 3 then .ok (.inr s') else .ok (.inl s')
  else
    let cnt : Option (Nat × Nat) :=
      if e < tol then (if s.tolc + 1 ≥ 3 then none else some (s.skip, s.tolc + 1))
      else some (0, 0)
    match cnt with
    | none => .ok (.inr { s with tolc := s.tolc + 1 })
    | some (sk, tc) =>
      let c := (List.range A.rows).map (fun a => (A.get a j0 - crossesAt s.crosses a j0) / err.getD j0 0)
      .ok (.inl { crosses := s.crosses ++ [(c, err)], i := argmaxAbs c, k := s.k + 1, skip := sk, tolc := tc,
                  rnd := s.rnd, log := (s.i, j0, 1) :: s.log, piv := err.getD j0 0 :: s.piv })

def acaLrLoop (A : Mat α) (eps tol : α) (maxiter : Nat) : Nat → AcaLrState α → Except Err (AcaLrState α)
  | 0, s => .ok s
  | fuel + 1, s =>
      if s.k < maxiter then do
        match (← acaLrBody A eps tol s) with
        | .inl s' => acaLrLoop A eps tol maxiter fuel s'
        | .inr s' => pure s'
      else .ok s

def acaLr (A : Mat α) (eps tol : α) (maxiter : Nat) (rnd : List Nat) : Except Err (AcaLrState α) :=
  acaLrLoop A eps tol maxiter ((maxiter + 1) * 4 + 1)
    { crosses := [], i := A.rows / 2, k := 0, skip := 0, tolc := 0, rnd := rnd, log := [], piv := [] }
end ACA

/-! ### basis extension of the greedy Tucker approximation (tensor.py `gta`, 562-570) -/
section Greedy
variable [Zero α] [Add α] [Sub α] [Mul α] [Div α] [LT α] [DecidableLT α]

/-- `y = v - U.dot(U.T.dot(v))` -/
def gsResidual (U : Mat α) (v : Nat → α) : Nat → α :=
  fun i => v i - sumN U.cols (fun c => U.get i c * sumN U.rows (fun k => U.get k c * v k))

/-- which "skip" test the basis extension uses -/
inductive SkipRule (α : Type) where
  /-- the code since fix 2f34e7d (both `gta` and `gta_ls`): `ny <= c * ||v||` or the basis is already complete -/
  | relative (c : α)
  /-- `gta` as coded before 2f34e7d: `ny < t` with the literal `t = 1e-14` (negation witnesses only) -/
  | absolute (t : α)
  /-- `gta_ls` as coded before 2f34e7d: no test at all (negation witnesses only) -/
  | never

/-- one pass of the loop body `for j in range(d)` of `gta` (564-571) and `gta_ls` (676-683):
```
y = vs[j] - U[j].dot(U[j].T.dot(vs[j])); ny = np.linalg.norm(y)
if ny <= 1e-10 * np.linalg.norm(vs[j]) or U[j].shape[1] >= U[j].shape[0]: continue
U[j] = np.column_stack((U[j], y / ny))
```
The norms `ny = ||y||`, `nv = ||vs[j]||` (square roots) are inputs of the model; `c` is the literal `1e-10`. -/
def gtaExtend (rule : SkipRule α) (U : Mat α) (v : Nat → α) (ny nv : α) : Mat α :=
  let skip := match rule with
    | .relative c => !(decide (c * nv < ny)) || decide (U.rows ≤ U.cols)
    | .absolute t => decide (ny < t)
    | .never => false
  if skip then U
  else ⟨U.rows, U.cols + 1, fun i c => if c < U.cols then U.get i c else gsResidual U v i / ny⟩
end Greedy

end Basic
end Pyiga.Tensor
