/-
L-mp: the shared-dof bookkeeping of `pyiga.assemble.Multipatch` transliterated (no Mathlib).

Python state                                   model
  self.shared_per_patch : list of dict           `spp : Nat → Nat → Option Nat`   (patch, local dof ↦ shared id;
       local dof -> shared id                      a dict is a finite partial map; `d[k] = v` is a point update)
  self.shared_dofs      : list of set            `nsd : Nat`, `sd : Nat → List Dof`  (a Python list is its length and
       of (patch, local dof)                       its lookup; `append(set())` is `nsd + 1`; a set is a list
                                                   without repetitions, compared up to order by the driver)
  self.N                                         `N : Nat → Nat` (dofs per patch), `P` patches

`len(self.shared_per_patch[p])` is modelled as the number of keys in `range(N[p])`; this is Python's
`len` for every history that joins existing dofs only (`i < N[p]`; an out-of-range key makes the real
`patch_to_global_idx` raise `IndexError`, and is excluded by the `Valid` hypothesis of the theorems).

Two switches in `Cfg` (like `asCoded` in C15).  /repo now contains both repairs (ddfa3af, 4c8c872), so
`Cfg.repaired` is the model of the code as it is; `Cfg.asCoded` is the original source, kept for the negation
witness (`glue_spec_asCoded_false`), for `glue_spec_partial` and for recognising a regression in the harness:
  * `merge = true`   : `join_dofs` merges the two classes when both dofs are already shared with different ids,
                       `finalize` drops emptied classes and renumbers (/verif/fixes/C14-join-merge.patch);
    `merge = false`  : the original three-case loop — **no merge** in that situation (defect D10).
  * `unshared = true` : `patch_to_global_idx` builds `sdofs` with `.reshape((-1, 2))`
                       (/verif/fixes/C14-unshared-patch.patch);
    `unshared = false`: the original raised `IndexError` for a patch without shared dofs (`np.array([])[:,0]`, D18).
-/
import Pyiga.Model.Index
import Pyiga.Model.Slice

namespace Pyiga.MP
open Pyiga.Index

/-- a local dof: (patch, local tensor-product index) -/
abbrev Dof := Nat × Nat

structure Cfg where
  merge : Bool
  unshared : Bool
  deriving DecidableEq, Repr

/-- the original source (before ddfa3af / 4c8c872) -/
def Cfg.asCoded : Cfg := ⟨false, false⟩
/-- the code as it is now: both repairs applied -/
def Cfg.repaired : Cfg := ⟨true, true⟩

structure State where
  spp : Nat → Nat → Option Nat
  nsd : Nat
  sd : Nat → List Dof

/-- `__init__`: `shared_per_patch = [dict() …]`, `shared_dofs = []` -/
def State.init : State := ⟨fun _ _ => none, 0, fun _ => []⟩

/-- `self.shared_per_patch[p][i] = s` -/
def sppSet (f : Nat → Nat → Option Nat) (p i s : Nat) : Nat → Nat → Option Nat :=
  fun q j => if q = p ∧ j = i then some s else f q j

/-- `set.add` -/
def setAdd (x : Dof) (l : List Dof) : List Dof := if x ∈ l then l else l ++ [x]

/-- `a |= b` -/
def setUnion (a b : List Dof) : List Dof := b.foldl (fun acc x => setAdd x acc) a

/-- `self.shared_dofs[s] = v` -/
def sdSet (f : Nat → List Dof) (s : Nat) (v : List Dof) : Nat → List Dof :=
  fun t => if t = s then v else f t

/-- ```
def add_to_shared(sd, p, i):
    self.shared_per_patch[p][i] = sd
    self.shared_dofs[sd].add((p, i))
``` -/
def addToShared (st : State) (s p i : Nat) : State :=
  { st with spp := sppSet st.spp p i s, sd := sdSet st.sd s (setAdd (p, i) (st.sd s)) }

/-- `_new_shared_dof`: `i = len(self.shared_dofs); self.shared_dofs.append(set()); return i` -/
def newSharedDof (st : State) : State × Nat :=
  ({ st with nsd := st.nsd + 1, sd := sdSet st.sd st.nsd [] }, st.nsd)

/-- repaired branch (fixes/C14-join-merge.patch):
```
for (p, i) in self.shared_dofs[sd2]:
    self.shared_per_patch[p][i] = sd1
self.shared_dofs[sd1] |= self.shared_dofs[sd2]
self.shared_dofs[sd2] = set()
``` -/
def mergeClasses (st : State) (s1 s2 : Nat) : State :=
  let mem := st.sd s2
  { st with
    spp := mem.foldl (fun f x => sppSet f x.1 x.2 s1) st.spp,
    sd := sdSet (sdSet st.sd s1 (setUnion (st.sd s1) mem)) s2 [] }

/-- one iteration of the loop of `join_dofs` (pyiga/assemble.py:1245-1256):
```
if i1 in self.shared_per_patch[p1]:
    sd = self.shared_per_patch[p1][i1]
    add_to_shared(sd, p2, i2)              # as coded: also when i2 is shared with another id
elif i2 in self.shared_per_patch[p2]:
    sd = self.shared_per_patch[p2][i2]
    add_to_shared(sd, p1, i1)
else:
    sd = self._new_shared_dof()
    add_to_shared(sd, p1, i1)
    add_to_shared(sd, p2, i2)
```
With `cfg.merge` the first branch first looks up `i2` and merges the two classes when both
dofs are shared with different ids. -/
def joinOne (cfg : Cfg) (st : State) (a b : Dof) : State :=
  match st.spp a.1 a.2 with
  | some s1 =>
    if cfg.merge then
      match st.spp b.1 b.2 with
      | some s2 => if s2 = s1 then addToShared st s1 b.1 b.2 else mergeClasses st s1 s2
      | none => addToShared st s1 b.1 b.2
    else addToShared st s1 b.1 b.2
  | none =>
    match st.spp b.1 b.2 with
    | some s2 => addToShared st s2 a.1 a.2
    | none =>
      let (st', s) := newSharedDof st
      addToShared (addToShared st' s a.1 a.2) s b.1 b.2

/-- the loop `for (i1, i2) in zip(I1, I2)` over already paired dofs -/
def runPairs (cfg : Cfg) (st : State) (pairs : List (Dof × Dof)) : State :=
  pairs.foldl (fun st ab => joinOne cfg st ab.1 ab.2) st

/-- the identifications declared by `join_dofs(p1, I1, p2, I2)` -/
def pairsOf (p1 : Nat) (I1 : List Nat) (p2 : Nat) (I2 : List Nat) : List (Dof × Dof) :=
  (I1.zip I2).map (fun ii => ((p1, ii.1), (p2, ii.2)))

inductive Err | assertion | index | value
  deriving DecidableEq, Repr

/-- `join_dofs` with its two assertions -/
def joinDofs (cfg : Cfg) (st : State) (p1 : Nat) (I1 : List Nat) (p2 : Nat) (I2 : List Nat) :
    Except Err State :=
  if I1.length ≠ I2.length then .error .assertion
  else if p1 = p2 then .error .assertion
  else .ok (runPairs cfg st (pairsOf p1 I1 p2 I2))

def liftSlice : Except Slice.Err α → Except Err α
  | .ok a => .ok a
  | .error .index => .error .index
  | .error .value => .error .value

/-- `join_boundaries(p1, bdspec1, p2, bdspec2, flip)` with `bdspec = (axis, side)`;
`shapes[p]` = per-axis dof counts of patch `p` (`kv.numdofs for kv in kvs`):
```
dofs1 = boundary_dofs(P1[0], bdspec1, ravel=True)
dofs2 = boundary_dofs(P2[0], bdspec2, ravel=True, flip=flip)
self.join_dofs(p1, dofs1, p2, dofs2)
``` -/
def joinBoundaries (cfg : Cfg) (shapes : List (List Nat)) (st : State)
    (p1 ax1 side1 p2 ax2 side2 : Nat) (flip : Option (List Bool)) : Except Err State :=
  match shapes[p1]?, shapes[p2]? with
  | some sh1, some sh2 =>
    match liftSlice (Slice.boundaryDofs sh1 ax1 side1 none) with
    | .error e => .error e
    | .ok d1 =>
      match liftSlice (Slice.boundaryDofs sh2 ax2 side2 flip) with
      | .error e => .error e
      | .ok d2 => joinDofs cfg st p1 d1 p2 d2
  | _, _ => .error .index

/-- a call of the public joining API -/
inductive Call
  | jd (p1 : Nat) (I1 : List Nat) (p2 : Nat) (I2 : List Nat)
  | jb (p1 ax1 side1 p2 ax2 side2 : Nat) (flip : Option (List Bool))

def stepCall (cfg : Cfg) (shapes : List (List Nat)) (st : State) : Call → Except Err State
  | .jd p1 I1 p2 I2 => joinDofs cfg st p1 I1 p2 I2
  | .jb p1 ax1 s1 p2 ax2 s2 fl => joinBoundaries cfg shapes st p1 ax1 s1 p2 ax2 s2 fl

/-- a history of calls; a call that raises leaves the object unchanged (both assertions and the
face enumeration precede the loop) and the caller may go on -/
def okOr (st : State) : Except Err State → State
  | .ok st' => st'
  | .error _ => st

def applyCall (cfg : Cfg) (shapes : List (List Nat)) (st : State) (c : Call) : State :=
  okOr st (stepCall cfg shapes st c)

def runCalls (cfg : Cfg) (shapes : List (List Nat)) (st : State) (calls : List Call) : State :=
  calls.foldl (applyCall cfg shapes) st

/-! ### finalize -/

/-- repaired `finalize` (fixes/C14-join-merge.patch), run before `M`/`M_ofs` are computed:
```
keep = [sd for sd, dofs in enumerate(self.shared_dofs) if dofs]
if len(keep) < len(self.shared_dofs):
    renumber = {old: new for new, old in enumerate(keep)}
    self.shared_dofs = [self.shared_dofs[old] for old in keep]
    for spp in self.shared_per_patch:
        for i in spp: spp[i] = renumber[spp[i]]
```
(when nothing is empty, `keep = range(len)` and the three assignments are the identity, so the
model applies them unconditionally). -/
def keepList (st : State) : List Nat := (List.range st.nsd).filter (fun s => !(st.sd s).isEmpty)

def compact (st : State) : State :=
  let keep := keepList st
  { spp := fun p i => (st.spp p i).map (fun s => keep.idxOf s),
    nsd := keep.length,
    sd := fun k => match keep[k]? with | some s => st.sd s | none => [] }

def finalize (cfg : Cfg) (st : State) : State := if cfg.merge then compact st else st

/-! ### numbering (after `finalize`) -/

/-- a finalized multipatch: `P` patches, `N p` dofs in patch `p` -/
structure Glob where
  P : Nat
  N : Nat → Nat
  st : State

namespace Glob
variable (G : Glob)

/-- `len(self.shared_per_patch[p])` -/
def numShared (p : Nat) : Nat := ((List.range (G.N p)).filter (fun i => (G.st.spp p i).isSome)).length

/-- `self.M = [n - s for (n, s) in zip(self.N, num_shared)]` -/
def M (p : Nat) : Nat := G.N p - G.numShared p

/-- `self.M_ofs = np.concatenate(([0], np.cumsum(self.M)))` -/
def Mofs : Nat → Nat
  | 0 => 0
  | p + 1 => Mofs p + G.M p

/-- `self.M_ofs[-1] + len(self.shared_dofs)` -/
def numdofs : Nat := G.Mofs G.P + G.st.nsd

/-- `local_dofs = np.setdiff1d(tpdofs, sdofs[:,0], assume_unique=True)` (increasing) -/
def localDofs (p : Nat) : List Nat := (List.range (G.N p)).filter (fun i => (G.st.spp p i).isNone)

/-- entry `i` of `patch_to_global_idx(p)`:
```
tpdofs[local_dofs] = np.arange(m_ofs, m_ofs + local_dofs.shape[0])
tpdofs[sdofs[:,0]] = self.M_ofs[-1] + sdofs[:,1]
``` -/
def globalIdx (p i : Nat) : Nat :=
  match G.st.spp p i with
  | some s => G.Mofs G.P + s
  | none => G.Mofs p + (G.localDofs p).idxOf i

/-- `patch_to_global_idx(p)`; as coded it raises `IndexError` when the dict of patch `p` is empty -/
def p2gIdx (cfg : Cfg) (p : Nat) : Except Err (List Nat) :=
  if p ≥ G.P then .error .index
  else if !cfg.unshared && G.numShared p == 0 then .error .index
  else .ok ((List.range (G.N p)).map (G.globalIdx p))

/-- `self.N_ofs` -/
def Nofs : Nat → Nat
  | 0 => 0
  | p + 1 => Nofs p + G.N p

end Glob

/-! ### matrices as (dimension, entry function) pairs: `patch_to_global`, `assemble_system` -/

structure Mat (α : Type) where
  m : Nat
  n : Nat
  e : Nat → Nat → α

namespace Mat
variable {α : Type} [Zero α] [Add α] [Mul α]

def sumList (l : List α) : α := l.foldr (· + ·) 0

def mul (A B : Mat α) : Mat α := ⟨A.m, B.n, fun i j => sumList ((List.range A.n).map (fun k => A.e i k * B.e k j))⟩
def transpose (A : Mat α) : Mat α := ⟨A.n, A.m, fun i j => A.e j i⟩
def add (A B : Mat α) : Mat α := ⟨A.m, A.n, fun i j => A.e i j + B.e i j⟩
def zero (m n : Nat) : Mat α := ⟨m, n, fun _ _ => 0⟩
def mulVec (A : Mat α) (x : Nat → α) : Nat → α := fun i => sumList ((List.range A.n).map (fun k => A.e i k * x k))
def toLists (A : Mat α) : List (List α) := (List.range A.m).map (fun i => (List.range A.n).map (A.e i))
end Mat

/-- `patch_to_global(p)` (`j_global=False`): `I = self.patch_to_global_idx(p)`, COO entries `(I[k], k, 1.0)`,
duplicates summed by `tocsr()`; column `k` has its single entry in row `I[k]`. -/
def Glob.patchToGlobal {α : Type} [Zero α] [One α] (G : Glob) (p : Nat) : Mat α :=
  let I := (List.range (G.N p)).map (G.globalIdx p)
  ⟨G.numdofs, G.N p, fun g j => if I[j]? = some g then 1 else 0⟩

/-- `assemble_system` accumulation over patches `0..P-1` given the patch matrices / vectors:
```
A = zeros(n, n); b = zeros(n)
for p in range(self.numpatches):
    X = self.patch_to_global(p)
    A += X @ A_p @ X.T
    b += X @ b_p
``` -/
def Glob.assembleA {α : Type} [Zero α] [One α] [Add α] [Mul α] (G : Glob) (Ap : Nat → Mat α) : Mat α :=
  (List.range G.P).foldl (fun A p =>
    let X : Mat α := G.patchToGlobal p
    A.add ((X.mul (Ap p)).mul X.transpose)) (Mat.zero G.numdofs G.numdofs)

def Glob.assembleB {α : Type} [Zero α] [One α] [Add α] [Mul α] (G : Glob) (bp : Nat → Nat → α) : Nat → α :=
  (List.range G.P).foldl (fun b p =>
    let X : Mat α := G.patchToGlobal p
    fun g => b g + X.mulVec (bp p) g) (fun _ => 0)

end Pyiga.MP
