/-
Second-order truncated jets (value, gradient, symmetric Hessian) over an arbitrary
carrier with `+ - * /` (no Mathlib; executable over core `Rat`).

A jet is the list of Taylor coefficients of a function of `n` variables up to order two at
one point; variables are numbered by `Nat` (the caller decides how many are meaningful).
Multiplication is the Leibniz rule, `inv` the reciprocal rule, `div a b = a * inv b`.
Used by C07 (`nurbs_jet`): the formulas of `geometry._nurbs_jacobian` and
`NurbsFunc.grid_hessian` are compared against `jet(V) / jet(W)`.
-/

namespace Pyiga.Jet

structure Jet (α : Type) where
  /-- value -/
  v : α
  /-- first partial derivatives -/
  g : Nat → α
  /-- second partial derivatives (`h i j` = ∂ᵢ∂ⱼ) -/
  h : Nat → Nat → α

variable {α : Type} [Zero α] [One α] [Add α] [Mul α] [Sub α] [Neg α] [Div α]

/-- jet of a constant -/
def const (a : α) : Jet α := ⟨a, fun _ => 0, fun _ _ => 0⟩

/-- jet of the `k`-th coordinate function at a point whose `k`-th coordinate is `x` -/
def var (x : α) (k : Nat) : Jet α := ⟨x, fun i => if i = k then 1 else 0, fun _ _ => 0⟩

def add (a b : Jet α) : Jet α :=
  ⟨a.v + b.v, fun i => a.g i + b.g i, fun i j => a.h i j + b.h i j⟩

def sub (a b : Jet α) : Jet α :=
  ⟨a.v - b.v, fun i => a.g i - b.g i, fun i j => a.h i j - b.h i j⟩

def neg (a : Jet α) : Jet α := ⟨-a.v, fun i => -a.g i, fun i j => -a.h i j⟩

/-- scalar multiple -/
def smul (s : α) (a : Jet α) : Jet α := ⟨s * a.v, fun i => s * a.g i, fun i j => s * a.h i j⟩

/-- Leibniz product: `(ab)ᵢ = aᵢ b + a bᵢ`, `(ab)ᵢⱼ = aᵢⱼ b + aᵢ bⱼ + aⱼ bᵢ + a bᵢⱼ`. -/
def mul (a b : Jet α) : Jet α :=
  ⟨a.v * b.v,
   fun i => a.g i * b.v + a.v * b.g i,
   fun i j => a.h i j * b.v + a.g i * b.g j + a.g j * b.g i + a.v * b.h i j⟩

/-- reciprocal: `(1/b)ᵢ = -bᵢ/b²`, `(1/b)ᵢⱼ = (bᵢbⱼ + bᵢbⱼ)/b³ - bᵢⱼ/b²`. -/
def inv (b : Jet α) : Jet α :=
  ⟨1 / b.v,
   fun i => -(b.g i) / (b.v * b.v),
   fun i j => (b.g i * b.g j + b.g i * b.g j) / (b.v * b.v * b.v) - b.h i j / (b.v * b.v)⟩

/-- quotient in the jet algebra -/
def div (a b : Jet α) : Jet α := mul a (inv b)

/-- the symmetric Hessian of a jet is symmetric -/
def IsSymm (a : Jet α) : Prop := ∀ i j, a.h i j = a.h j i

/-! ### rational expressions: the outer map of a composition `geo2 ∘ geo1`

A piece of a spline is a polynomial, a piece of a NURBS a quotient of polynomials in the
coordinates `y₀, y₁, …`; `RExpr` is that class of functions, closed under `+ · /`. -/

inductive RExpr (α : Type) where
  | const : α → RExpr α
  | var : Nat → RExpr α
  | add : RExpr α → RExpr α → RExpr α
  | mul : RExpr α → RExpr α → RExpr α
  | div : RExpr α → RExpr α → RExpr α

/-- value at the point `y` -/
def RExpr.eval (y : Nat → α) : RExpr α → α
  | .const c => c
  | .var k => y k
  | .add p q => p.eval y + q.eval y
  | .mul p q => p.eval y * q.eval y
  | .div p q => p.eval y / q.eval y

/-- formal partial derivative `∂/∂y_e` at the point `y` -/
def RExpr.deriv (y : Nat → α) (e : Nat) : RExpr α → α
  | .const _ => 0
  | .var k => if k = e then 1 else 0
  | .add p q => p.deriv y e + q.deriv y e
  | .mul p q => p.deriv y e * q.eval y + p.eval y * q.deriv y e
  | .div p q => (p.deriv y e * q.eval y - p.eval y * q.deriv y e) / (q.eval y * q.eval y)

/-- the jet of the composition `p ∘ (u₀, u₁, …)`: evaluate `p` in the jet algebra -/
def RExpr.jet (u : Nat → Jet α) : RExpr α → Jet α
  | .const c => Jet.const c
  | .var k => u k
  | .add p q => Jet.add (p.jet u) (q.jet u)
  | .mul p q => Jet.mul (p.jet u) (q.jet u)
  | .div p q => Jet.div (p.jet u) (q.jet u)

/-- no denominator vanishes at `y` -/
def RExpr.Defined (y : Nat → α) : RExpr α → Prop
  | .const _ => True
  | .var _ => True
  | .add p q => p.Defined y ∧ q.Defined y
  | .mul p q => p.Defined y ∧ q.Defined y
  | .div p q => p.Defined y ∧ q.Defined y ∧ q.eval y ≠ 0

/-- only the variables `y_e`, `e < n`, occur -/
def RExpr.VarsBelow (n : Nat) : RExpr α → Prop
  | .const _ => True
  | .var k => k < n
  | .add p q => p.VarsBelow n ∧ q.VarsBelow n
  | .mul p q => p.VarsBelow n ∧ q.VarsBelow n
  | .div p q => p.VarsBelow n ∧ q.VarsBelow n

end Pyiga.Jet
