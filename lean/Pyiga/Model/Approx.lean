/-
Interpolation and L2 projection (pyiga/approx.py, pyiga/bspline.py), executable, no Mathlib.

Transliterates
  * `bspline_cy.pyx_findspan` (l.13-27), the value part of `bspline_active_deriv_single` (NURBS book A2.2:
    `left/right/saved` recurrences, l.64-80), `bspline.collocation_info / collocation` (l.591-627)
  * `KnotVector.greville` (bspline.py l.164-174): running average over `p` knots, then `np.clip`
  * `approx.interpolate` (l.14-51): `Cinvs = [make_solver(collocation(kv_i, nodes_i))]`,
    `apply_tprod(Cinvs, rhs)`; `bspline.interpolate` (l.662-671) is the 1-D instance with `spsolve`
  * `approx.project_L2` without geometry (l.84-89): `Minvs = [make_solver(mass(kv), spd=True)]`,
    `rhs = inner_products(kvs, f)` = `apply_tprod([C_kᵀ·diag(w_k)], f(grid))`, `apply_tprod(Minvs, rhs)`
    with `mass(kv) = CᵀWC` for the `(p+1)`-point Gauss rule per span (nodes/weights are parameters).
`make_solver` is a parameter (contract `B · solve(x) = x`); here it is instantiated by exact
Gauss-Jordan elimination over `Rat`, `none` when the matrix is singular (non-unisolvent nodes).
-/
import Pyiga.Model.LinAlg

namespace Pyiga.Approx
open Pyiga.Index Pyiga.LA

instance : Zero Rat := ⟨0⟩

/-- `pyx_findspan(kv, p, u)` -/
def findspan (kv : Array Rat) (p : Nat) (u : Rat) : Nat :=
  let n := kv.size
  if u ≥ kv.getD (n - p - 1) 0 then n - p - 2 else
  let rec go (fuel a b : Nat) : Nat :=
    match fuel with
    | 0 => a
    | fuel + 1 =>
      if b - a > 1 then
        let c := a + (b - a) / 2
        if kv.getD c 0 > u then go fuel a c else go fuel c b
      else a
  go n 0 (n - 1)

/-- values of the `p+1` active B-splines at `u` in span `span` (A2.2 as coded) -/
def basisFuns (kv : Array Rat) (p span : Nat) (u : Rat) : Array Rat := Id.run do
  let mut N : Array Rat := Array.replicate (p + 1) 0
  N := N.set! 0 1
  let mut left : Array Rat := Array.replicate (p + 1) 0
  let mut right : Array Rat := Array.replicate (p + 1) 0
  for j in [1:p+1] do
    left := left.set! (j - 1) (u - kv.getD (span + 1 - j) 0)
    right := right.set! (j - 1) (kv.getD (span + j) 0 - u)
    let mut saved : Rat := 0
    for r in [0:j] do
      let denom := right.getD r 0 + left.getD (j - r - 1) 0
      let temp := N.getD r 0 / denom
      N := N.set! r (saved + right.getD r 0 * temp)
      saved := left.getD (j - r - 1) 0 * temp
    N := N.set! j saved
  return N

/-- dense collocation matrix: entry `(i, j)` = `j`-th B-spline at `nodes[i]`
(`indices = findspans - p`, `J = indices[:,None] + arange(p+1)`) -/
def collocation (kv : Array Rat) (p : Nat) (nodes : Array Rat) : Op Rat :=
  let ndofs := kv.size - p - 1
  let rows : Array (Nat × Array Rat) := nodes.map (fun u =>
    let span := findspan kv p u
    (span - p, basisFuns kv p span u))
  { kind := .csr, m := nodes.size, n := ndofs,
    ent := fun i j =>
      let r := rows.getD i (0, #[])
      if r.1 ≤ j ∧ j < r.1 + (p + 1) ∧ i < nodes.size ∧ j < ndofs then r.2.getD (j - r.1) 0 else 0 }

/-- `KnotVector.greville()` with exact arithmetic -/
def greville (kv : Array Rat) (p : Nat) : List Rat :=
  let n := kv.size
  if p = 0 then (List.range (n - 1)).map (fun i => (kv.getD (i + 1) 0 + kv.getD i 0) / 2)
  else
    let lo := kv.getD 0 0
    let hi := kv.getD (n - 1) 0
    (List.range (n - 1 - p)).map (fun j =>
      let g := ((List.range p).foldl (fun acc i => acc + kv.getD (j + 1 + i) 0) 0) / (p : Rat)
      -- np.clip(g, kv[0], kv[-1])
      if g < lo then lo else if g > hi then hi else g)

/-- exact inverse by Gauss-Jordan elimination; `none` for a singular matrix -/
def gaussInverse (n : Nat) (ent : Nat → Nat → Rat) : Option (Array (Array Rat)) := Id.run do
  let mut a : Array (Array Rat) := Array.ofFn (n := n) (fun i =>
    Array.ofFn (n := 2 * n) (fun j => if j.val < n then ent i.val j.val else if j.val - n = i.val then 1 else 0))
  for c in [0:n] do
    let mut piv := n
    for r in [c:n] do
      if piv = n ∧ (a.getD r #[]).getD c 0 ≠ 0 then piv := r
    if piv = n then return none
    let rp := a.getD piv #[]
    let rc := a.getD c #[]
    a := (a.set! piv rc).set! c rp
    let pv := rp.getD c 0
    let rowc := rp.map (· / pv)
    a := a.set! c rowc
    for r in [0:n] do
      if r ≠ c then
        let f := (a.getD r #[]).getD c 0
        if f ≠ 0 then
          let rr := a.getD r #[]
          a := a.set! r (Array.ofFn (n := 2 * n) (fun j => rr.getD j.val 0 - f * rowc.getD j.val 0))
  return some (a.map (fun row => row.extract n (2 * n)))

/-- the solver parameter: `make_solver(B)` as a square `LinearOperator` -/
def makeSolver (B : Op Rat) : Option (Op Rat) :=
  if B.m ≠ B.n then none else
  (gaussInverse B.n B.ent).map (fun a =>
    { kind := .linop, m := B.n, n := B.n, ent := fun i j => (a.getD i #[]).getD j 0 })

/-- a 1-D space with its nodes: `(p, kv, nodes)` -/
structure Axis where
  p : Nat
  kv : Array Rat
  nodes : Array Rat

inductive Res where
  | ok (T : Tensor Rat)
  | singular          -- a collocation / mass matrix is not invertible (LU breaks down)
  | err (e : Err)

/-- `approx.interpolate(kvs, rhs_array, nodes=nodes)`; the shape test of l.38-40 → ValueError -/
def interpolate (axes : List Axis) (rhs : Tensor Rat) : Res :=
  let ndofs := axes.map (fun a => a.kv.size - a.p - 1)
  if rhs.shape.take axes.length ≠ ndofs then .err .value else
  let Cs := axes.map (fun a => collocation a.kv a.p a.nodes)
  let inv := Cs.map makeSolver
  if inv.any Option.isNone then .singular else
  match applyTprod (inv.map (fun o => o)) rhs with
  | .ok T => .ok T
  | .error e => .err e

/-- values of `Σ c_I N_I` on the node grid: `apply_tprod` of the collocation matrices -/
def evalGrid (axes : List Axis) (c : Tensor Rat) : Res :=
  match applyTprod (axes.map (fun a => some (collocation a.kv a.p a.nodes))) c with
  | .ok T => .ok T
  | .error e => .err e

/-- `Cᵀ · diag(w)` as an operand -/
def weightedT (C : Op Rat) (w : Array Rat) : Op Rat :=
  { kind := .dense, m := C.n, n := C.m, ent := fun i q => C.ent q i * w.getD q 0 }

/-- `CᵀWC` -/
def massOf (C : Op Rat) (w : Array Rat) : Op Rat :=
  { kind := .dense, m := C.n, n := C.n, ent := fun i j => sumRange C.m (fun q => C.ent q i * w.getD q 0 * C.ent q j) }

/-- `approx.project_L2(kvs, f)` without geometry; `axes[k].nodes` are the Gauss nodes of axis `k`,
`ws[k]` the weights, `fvals` = `f` on the tensor Gauss grid (with trailing component axes) -/
def projectL2 (axes : List Axis) (ws : List (Array Rat)) (fvals : Tensor Rat) : Res :=
  let Cs := axes.map (fun a => collocation a.kv a.p a.nodes)
  let CW := (Cs.zip ws).map (fun p => weightedT p.1 p.2)
  let Ms := (Cs.zip ws).map (fun p => massOf p.1 p.2)
  let inv := Ms.map makeSolver
  if inv.any Option.isNone then .singular else
  match applyTprod (CW.map some) fvals with
  | .error e => .err e
  | .ok rhs =>
    match applyTprod inv rhs with
    | .ok T => .ok T
    | .error e => .err e

end Pyiga.Approx
