/-
L-la: dense tensors / matrices and the tensor-product application routines of pyiga
(no Mathlib; executable; generic in the scalar type).

Transliterates
  * `pyiga/tensor.py`   : `apply_tprod` (l.97-128), `_modek_tensordot_sparse` (l.48-64),
                           `modek_tprod` (l.150-167), `matricize`
  * `pyiga/kronecker.py`: `_apply_kronecker_dense` (l.58-69), `_apply_kronecker_linops` (l.15-55),
                           `apply_kronecker` (l.6-12)
numpy primitives are modelled by their documented index semantics:
`np.tensordot(B, A, axes=([1],[k]))`, `np.rollaxis / moveaxis`, C-order `reshape` (identity on the
row-major data), F-order `reshape` of 2-D arrays (identity on the column-major data), `B.dot(X)`.

A tensor is `(shape, row-major data)`; `get`/`ofFn` go through `Index.toSeq/fromSeq`
(= `np.ravel_multi_index / unravel_index`, round trips proved in `Proofs/Index.lean`).
-/
import Pyiga.Model.Index

namespace Pyiga.LA
open Pyiga.Index

/-- `Σ_{j<n} f j`, accumulated left to right like the Python loops / BLAS reference order -/
def sumRange {α : Type} [Zero α] [Add α] (n : Nat) (f : Nat → α) : α :=
  (List.range n).foldl (fun acc j => acc + f j) 0

/-- insert `j` so that it ends up at position `k` (`k ≥ length`: appended) -/
def insertAt : Nat → Nat → List Nat → List Nat
  | 0, j, l => j :: l
  | _+1, j, [] => [j]
  | k+1, j, x :: l => x :: insertAt k j l

/-- error kinds raised by the modelled code -/
inductive Err where
  | value | assertion | index | type
  deriving DecidableEq, Repr

def Err.show : Err → String
  | .value => "err-ValueError"
  | .assertion => "err-AssertionError"
  | .index => "err-IndexError"
  | .type => "err-TypeError"

/-- dense ndarray: shape and C-ordered (row-major) data -/
structure Tensor (α : Type) where
  shape : List Nat
  data : Array α

namespace Tensor
variable {α : Type} [Zero α]

/-- `T[idx]` -/
def get (T : Tensor α) (idx : List Nat) : α := T.data.getD (toSeq idx T.shape) 0

/-- the array with entries `f idx` (C order) -/
def ofFn (shape : List Nat) (f : List Nat → α) : Tensor α :=
  { shape := shape, data := Array.ofFn (n := prod shape) (fun s => f (fromSeq s.val shape)) }

/-- `T.reshape(shape)` in C order: the row-major data is unchanged -/
def reshape (T : Tensor α) (shape : List Nat) : Tensor α := { shape := shape, data := T.data }

def size (T : Tensor α) : Nat := prod T.shape
def ndim (T : Tensor α) : Nat := T.shape.length

end Tensor

/-- storage kind of a factor; only the dispatch looks at it -/
inductive Kind where
  | dense   -- numpy.ndarray
  | csr | csc  -- scipy.sparse
  | linop   -- scipy.sparse.linalg.LinearOperator (aslinearoperator / make_solver result)
  deriving DecidableEq, Repr

/-- a matrix-like operand: kind, `shape = (m, n)` and its entries -/
structure Op (α : Type) where
  kind : Kind
  m : Nat
  n : Nat
  ent : Nat → Nat → α

namespace Op
variable {α : Type}
/-- `B.T` -/
def T (B : Op α) : Op α := { kind := B.kind, m := B.n, n := B.m, ent := fun i j => B.ent j i }
def isSquare (B : Op α) : Bool := B.m == B.n
end Op

section
variable {α : Type} [Zero α] [Add α] [Mul α]

/-- one contraction step: contract axis `src` of `T` with the columns of `ent` (`nj` of them) and
put the new axis (length `m`) at position 0.
`np.tensordot(B, T, axes=([1],[src]))`: result axes = `[B rows] ++ [axes of T except src]`. -/
def contractFront (ent : Nat → Nat → α) (m nj : Nat) (src : Nat) (T : Tensor α) : Tensor α :=
  Tensor.ofFn (m :: T.shape.eraseIdx src) (fun idx =>
    sumRange nj (fun j => ent (idx.headD 0) j * T.get (insertAt src j idx.tail)))

/-- `np.rollaxis(T, k, 0)`: axis `k` first, the others keep their order -/
def rollToFront (k : Nat) (T : Tensor α) : Tensor α :=
  Tensor.ofFn (T.shape.getD k 0 :: T.shape.eraseIdx k) (fun idx =>
    T.get (insertAt k (idx.headD 0) idx.tail))

/-- `np.moveaxis(T, 0, k)` / `np.rollaxis(Y, -1, k)` are expressed through `moveAxis src dst`:
result axes = axes of `T` with axis `src` removed and re-inserted at position `dst`. -/
def moveAxis (src dst : Nat) (T : Tensor α) : Tensor α :=
  Tensor.ofFn (insertAt dst (T.shape.getD src 0) (T.shape.eraseIdx src)) (fun idx =>
    T.get (insertAt src (idx.getD dst 0) (idx.eraseIdx dst)))

/-- `B.dot(X)` for a 2-D `X` of shape `(B.n, R)` (sparse matrix / LinearOperator `matmat`) -/
def matmat (B : Op α) (X : Tensor α) : Tensor α :=
  let R := X.shape.getD 1 0
  Tensor.ofFn [B.m, R] (fun idx =>
    sumRange B.n (fun j => B.ent (idx.getD 0 0) j * X.get [j, idx.getD 1 0]))

/-- `_modek_tensordot_sparse(B, X, k)` (tensor.py l.48-64): roll axis `k` to the front, matricize
to `(nk, -1)`, apply `B`, reshape back with the new leading extent. -/
def modekTensordotSparse (B : Op α) (X : Tensor α) (k : Nat) : Except Err (Tensor α) :=
  let nk := X.shape.getD k 0
  if nk ≠ B.n then .error .assertion else
  let Xk := rollToFront k X
  let shp := Xk.shape
  let R := prod shp.tail
  let Xk2 := Xk.reshape [nk, R]
  let Yk := matmat B Xk2
  .ok (Yk.reshape (B.m :: shp.tail))

/-- one iteration of the `apply_tprod` loop body at axis position `pos = n-1` -/
def tprodStep (pos : Nat) (op : Option (Op α)) (A : Tensor α) : Except Err (Tensor α) :=
  match op with
  | some B =>
    if B.kind = Kind.dense then
      -- np.tensordot(ops[i], A, axes=([1],[n-1])) raises ValueError("shape-mismatch for sum")
      if A.shape.getD pos 0 ≠ B.n then .error .value
      else .ok (contractFront B.ent B.m B.n pos A)
    else modekTensordotSparse B A pos
  | none => .ok (rollToFront pos A)

/-- `apply_tprod(ops, A)` for an ndarray `A` (tensor.py l.119-128):
`for i in reversed(range(n)): A = step(ops[i], A)` — `foldr` applies the last factor first.
`A` must have at least `n` axes (numpy raises for an out-of-range axis). -/
def applyTprod (ops : List (Option (Op α))) (A : Tensor α) : Except Err (Tensor α) :=
  let n := ops.length
  if A.shape.length < n then .error .value else
  ops.foldr (fun op acc => acc.bind (tprodStep (n - 1) op)) (.ok A)

/-- `modek_tprod(B, k, X)` (tensor.py l.150-167) -/
def modekTprod (B : Op α) (k : Nat) (X : Tensor α) : Except Err (Tensor α) :=
  if X.shape.length ≤ k then .error .value else
  if B.kind = Kind.dense then
    -- Y = np.tensordot(X, B, axes=((k,1))): axes of X without k, then B's rows last;
    -- np.rollaxis(Y, -1, k)
    if X.shape.getD k 0 ≠ B.n then .error .value else
    .ok (Tensor.ofFn (insertAt k B.m (X.shape.eraseIdx k)) (fun idx =>
      sumRange B.n (fun j => X.get (insertAt k j (idx.eraseIdx k)) * B.ent (idx.getD k 0) j)))
  else do
    let Y ← modekTensordotSparse B X k
    pure (moveAxis 0 k Y)

/-! ### `_apply_kronecker_dense` -/

/-- kronecker.py l.58-69.  `x` has shape `(N,)`, `(N,1)` or `(N,m)`; the `x.shape[1] > 1` test makes
`(N,1)` take the vector path (no trailing axis in `shape_in`, but `shape_out` keeps the `1`). -/
def applyKroneckerDense (ops : List (Op α)) (x : Tensor α) : Except Err (Tensor α) :=
  let shapeIn := ops.map (·.n)
  let shapeOut := prod (ops.map (·.m)) :: x.shape.tail
  if ¬ (x.shape.length = 1 ∨ x.shape.length = 2) then .error .assertion else
  let shapeIn := if x.shape.length = 2 ∧ x.shape.getD 1 0 > 1 then shapeIn ++ [x.shape.getD 1 0] else shapeIn
  -- x.reshape(shape_in): ValueError when the sizes differ
  if prod shapeIn ≠ prod x.shape then .error .value else do
  let Y ← applyTprod (ops.map some) (x.reshape shapeIn)
  if prod shapeOut ≠ prod Y.shape then .error .value else
  pure (Y.reshape shapeOut)

/-! ### `_apply_kronecker_linops` (column-major sweeps) -/

/-- `B.dot(x)` as scipy defines it for a sparse matrix / LinearOperator / ndarray and a 1-D or 2-D
argument: ValueError on dimension mismatch. -/
def dot (B : Op α) (x : Tensor α) : Except Err (Tensor α) :=
  match x.shape with
  | [N] => if N ≠ B.n then .error .value else
      .ok (Tensor.ofFn [B.m] (fun idx => sumRange B.n (fun j => B.ent (idx.getD 0 0) j * x.get [j])))
  | [N, _] => if N ≠ B.n then .error .value else .ok (matmat B x)
  | _ => .error .value

/-- a 2-D array held by its column-major (Fortran-order) data: `q[i,j] = data[i + r*j]`;
`q.reshape(.., order='F')` and the in-place `resize` keep `data` and change `(r, c)` only. -/
structure FMat (α : Type) where
  r : Nat
  c : Nat
  data : Array α

def FMat.get (q : FMat α) (i j : Nat) : α := q.data.getD (i + q.r * j) 0

/-- one sweep of the loop (kronecker.py l.38-53) for factor `B`, `n` right-hand sides, total size `sz`:
```
sz_i = B.shape[1]; r_i = sz // sz_i
q0 = q0.reshape((sz_i, n*r_i), order='F'); q1.resize((r_i, n*sz_i))
if n == 1: q1[:] = B.dot(q0).T
else: for k in range(n): q1[:, k*sz_i:(k+1)*sz_i] = B.dot(q0[:, k*r_i:(k+1)*r_i]).T
```
returns the new `q0` (= `q1` after the swap). -/
def linopsSweep (B : Op α) (n sz : Nat) (q0 : FMat α) : FMat α :=
  let szi := B.n
  let ri := sz / szi
  let q0' : FMat α := { r := szi, c := n * ri, data := q0.data }
  -- q1 has shape (ri, n*szi); column index = k*szi + b, row index a
  { r := ri, c := n * szi,
    data := Array.ofFn (n := ri * (n * szi)) (fun f =>
      let a := f.val % ri
      let col := f.val / ri
      if n = 1 then
        -- q1[a, b] = (B.dot(q0))[b, a]
        sumRange szi (fun j => B.ent col j * q0'.get j a)
      else
        let k := col / szi
        let b := col % szi
        sumRange szi (fun j => B.ent b j * q0'.get j (k * ri + a))) }

/-- `_apply_kronecker_linops(ops, x)` (kronecker.py l.15-55) -/
def applyKroneckerLinops (ops : List (Op α)) (x : Tensor α) : Except Err (Tensor α) :=
  match ops with
  | [] => .error .assertion
  | [B] => dot B x
  | _ =>
    let sz := prod (ops.map (·.m))
    match x.shape with
    | [] => .error .index
    | N :: rest =>
      if sz ≠ N then .error .assertion else
      if rest.length > 1 then .error .value else
      let n := rest.headD 1
      -- q0[:] = x  (x as (N, n)); column-major data of q0
      let q0 : FMat α := { r := N, c := n, data := Array.ofFn (n := N * n) (fun f =>
          x.data.getD ((f.val % N) * n + f.val / N) 0) }
      -- a non-square factor makes `q1[:] = …` / the slice assignment fail to broadcast
      if ops.any (fun B => B.m ≠ B.n) then .error .value else
      let q := ops.foldr (fun B q => linopsSweep B n sz q) q0
      -- q0.reshape(orig_shape, order='F'), returned as C-ordered (shape, data)
      .ok (Tensor.ofFn x.shape (fun idx =>
        let i := idx.getD 0 0
        let k := idx.getD 1 0
        q.data.getD (i + N * k) 0))

/-- `apply_kronecker(ops, x)` (kronecker.py l.6-12) -/
def applyKronecker (ops : List (Op α)) (x : Tensor α) : Except Err (Tensor α) :=
  if ops.all (fun B => B.kind = Kind.dense) then applyKroneckerDense ops x
  else applyKroneckerLinops ops x

end

/-! ### dense reference definitions (specification side; used by the driver for the `spec` request) -/

section
variable {α : Type} [Zero α] [Add α] [Mul α] [One α]

/-- entry of `ops₀ ⊗ … ⊗ ops_{n-1}` at multi-indices `(I, J)` -/
def kronEntry : List (Nat → Nat → α) → List Nat → List Nat → α
  | [], _, _ => 1
  | e :: es, I, J => e (I.headD 0) (J.headD 0) * kronEntry es I.tail J.tail

/-- `Σ_{j ∈ box(dims)} f j` (nested, first index outermost) -/
def boxSum : List Nat → (List Nat → α) → α
  | [], f => f []
  | d :: ds, f => sumRange d (fun j => boxSum ds (fun js => f (j :: js)))

/-- entries of the product `A·B` with inner extent `d` -/
def mulEnt (a b : Nat → Nat → α) (d : Nat) : Nat → Nat → α :=
  fun i k => sumRange d (fun j => a i j * b j k)

/-- identity placeholder entries -/
def delta (i j : Nat) : α := if i = j then 1 else 0

def entOf : Option (Op α) → (Nat → Nat → α)
  | some B => B.ent
  | none => delta

end

end Pyiga.LA
