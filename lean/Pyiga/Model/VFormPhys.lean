/-
First-order branch of `VForm.replace_physical_derivs` for a basis function (vform.py:588-592):

    (k,) = _D_to_indices(e.D)
    return inner(self.JacInv[:, k], grad(e.without_derivs(), parametric=True))

`self.JacInv[:, k]` is `LiteralVectorExpr(VarRefExpr(JacInv, (i,k)) …)` (D = 0, parametric=False),
`grad(…, parametric=True)` is the vector of `PartialDerivExpr(bf, e_i, physical=False)`, and `inner`
is the left-associated sum of the products.  No Mathlib.
-/
import Pyiga.Model.VForm

namespace Pyiga.VForm
open Expr

def physToPara1 (dim : Nat) (b : BFun) (k : Nat) : Expr :=
  reduceAdd ((List.range dim).map fun i =>
    sop .mul (varref "JacInv" [i, k] (List.replicate dim 0) false)
             (pderiv b (bump (List.replicate dim 0) i 1) false))

end Pyiga.VForm
