/-
First-order branch of `VForm.replace_physical_derivs` for a basis function (vform.py:588-592):

    (k,) = _D_to_indices(e.D)
    return inner(self.JacInv[:, k], grad(e.without_derivs(), parametric=True))

`self.JacInv[:, k]` is `LiteralVectorExpr(VarRefExpr(JacInv, (i,k)) …)` (D = 0, parametric=False),
`grad(…, parametric=True)` is the vector of `PartialDerivExpr(bf, e_i, physical=False)`, and `inner`
is the left-associated sum of the products.  No Mathlib.
-/
import Pyiga.Model.VForm
import Pyiga.Model.SLP

namespace Pyiga.VForm
open Expr

def physToPara1 (dim : Nat) (b : BFun) (k : Nat) : Expr :=
  reduceAdd ((List.range dim).map fun i =>
    sop .mul (varref "JacInv" [i, k] (List.replicate dim 0) false)
             (pderiv b (bump (List.replicate dim 0) i 1) false))

/-! ## The remaining branches of `replace_physical_derivs`, `_geo_hess_trf`, `insert_input_field_derivs`,
and the measure / normal definitions (vform.py:197-239, 554-646, 1666-1698) -/

def zerosD (dim : Nat) : List Nat := List.replicate dim 0
def unitD (dim i : Nat) : List Nat := bump (zerosD dim) i 1
/-- `Dx(Dx(·, r), c)` on order 0 -/
def unit2D (dim r c : Nat) : List Nat := bump (bump (zerosD dim) r 1) c 1
/-- an entry of `self.JacInv` (the variable's `as_expr`): `VarRefExpr(JacInv, (r,c))` -/
def jinvRef (dim r c : Nat) : Expr := varref "JacInv" [r, c] (zerosD dim) false

/-- `_D_to_indices(D)` (vform.py:18) -/
def dToIndicesAux : List Nat → Nat → List Nat
  | [], _ => []
  | n :: rest, k => List.replicate n k ++ dToIndicesAux rest (k + 1)
def dToIndices (D : List Nat) : List Nat := dToIndicesAux D 0

/-- the atoms a physical derivative is taken of: a basis function (`PartialDerivExpr(bf, D, physical=False)`)
or an entry of a parametric input field (`VarRefExpr(var, I, D, parametric=True)`), as functions of the
parametric multi-index `D` (`e.without_derivs()` followed by `Dx(·, parametric=True)`) -/
def bfAtom (b : BFun) : List Nat → Expr := fun D => pderiv b D false
def varAtom (v : String) (I : List Nat) : List Nat → Expr := fun D => varref v I D true

/-- order 1 (vform.py:590-592): `inner(self.JacInv[:, k], grad(e.without_derivs(), parametric=True))` -/
def physToPara1G (dim : Nat) (atom : List Nat → Expr) (k : Nat) : Expr :=
  reduceAdd ((List.range dim).map fun i => sop .mul (jinvRef dim i k) (atom (unitD dim i)))

def geoHessTrfName (a i j : Nat) : String := s!"_geo_hess_trf_{a}_{i}_{j}"

/-- order 2 (vform.py:594-605):
    H_ij = self.JacInv[:,i].dot(Hp.dot(self.JacInv[:,j]));  for k: H_ij = H_ij + gp[k] * self._geo_hess_trf(k, i, j) -/
def physToPara2G (dim : Nat) (atom : List Nat → Expr) (i j : Nat) : Expr :=
  let h0 := reduceAdd ((List.range dim).map fun r =>
    sop .mul (jinvRef dim r i)
      (reduceAdd ((List.range dim).map fun c => sop .mul (atom (unit2D dim r c)) (jinvRef dim c j))))
  (List.range dim).foldl (fun acc k =>
    sop .add acc (sop .mul (atom (unitD dim k)) (varref (geoHessTrfName k i j) [] (zerosD dim) false))) h0

/-- the variable `_geo_hess_trf_a_i_j` (vform.py:620-624):
    -sum(hess(self.Geo[m], parametric=True)[e,u] * J[a,m] * J[e,i] * J[u,j] for m for e for u)
(`sum` starts from the integer 0, i.e. `ConstExpr(0) + t0 + t1 + …`) -/
def geoHessTrfDef (dim a i j : Nat) : Expr :=
  neg (((List.range dim).flatMap fun m => (List.range dim).flatMap fun e => (List.range dim).map fun u =>
      sop .mul (sop .mul (sop .mul (varref "geo_a" [m] (unit2D dim e u) true) (jinvRef dim a m)) (jinvRef dim e i)) (jinvRef dim u j))
    |>.foldl (fun acc t => sop .add acc t) (const 0))

/-- the whole non-space-time branch for a physical derivative `D` (orders 0,1,2) of an atom -/
def physToParaG (dim : Nat) (atom : List Nat → Expr) (D : List Nat) : Option Expr :=
  match dToIndices D with
  | [] => some (atom D)                      -- `make_parametric()`
  | [k] => some (physToPara1G dim atom k)
  | [i, j] => some (physToPara2G dim atom i j)
  | _ => none                                -- AssertionError('higher order physical derivatives not implemented')

/-! ### space-time branch (vform.py:574-586); `dim` counts the time axis, which is last -/

def digitsD (D : List Nat) : String := String.join (D.map toString)
/-- `pderiv_as_var`: name of the variable holding a parametric derivative of a basis function -/
def pderivVarName (b : BFun) (D : List Nat) : String := "_d" ++ b.name ++ "_" ++ digitsD D
/-- `indices_to_D((i,) + a*(timedim,))` -/
def stD (dim i a : Nat) : List Nat := bump (bump (zerosD dim) i 1) (dim - 1) a

def physToParaST (dim : Nat) (b : BFun) (D : List Nat) : Option Expr :=
  let Dx := D.take (dim - 1)
  if dsum Dx == 0 then some (varref (pderivVarName b D) [] (zerosD dim) false)
  else if dsum Dx == 1 then
    let k := Dx.findIdx (· == 1)
    let a := D.getD (dim - 1) 0
    some (reduceAdd ((List.range (dim - 1)).map fun i =>
      sop .mul (jinvRef dim i k) (varref (pderivVarName b (stD dim i a)) [] (zerosD dim) false)))
  else none

/-! ### `insert_input_field_derivs` (vform.py:626-646) and `sym_index_to_seq` (vform.py:28) -/

def symIndexToSeq (n i j : Nat) : Nat :=
  let a := min i j
  let b := max i j
  ((List.range a).map fun k => n - k).foldl (· + ·) 0 + (b - a)

/-- `inName` is the `InputField`'s name (the variable is `inName_a`, its gradient / packed Hessian arrays
`inName_grad_a` / `inName_hess_a` with the derivative index appended to `I`) -/
def insertInputDeriv (dim : Nat) (inName : String) (I D : List Nat) : Option Expr :=
  match dToIndices D with
  | [] => none
  | [k] => some (varref (inName ++ "_grad_a") (I ++ [k]) (zerosD dim) false)
  | [i, j] => some (varref (inName ++ "_hess_a") (I ++ [symIndexToSeq D.length i j]) (zerosD dim) false)
  | _ => none

/-! ### `det`, `minor`, `inv` on literal matrices (vform.py:1666-1698), the predefined variables -/

def pmOne (k : Nat) : Rat := if k % 2 == 0 then 1 else -1

def minorRows (A : List (List Expr)) (i j : Nat) : List (List Expr) := (A.eraseIdx i).map (·.eraseIdx j)

/-- `det(A)`; the first argument is `n = A.shape[0]` -/
def detL : Nat → List (List Expr) → Expr
  | 0, _ => const 1
  | 1, A => (A.headD []).headD (const 0)
  | n + 2, A => reduceAdd ((List.range (n + 2)).map fun j =>
      sop .mul (const (pmOne j)) (sop .mul ((A.headD []).getD j (const 0)) (detL (n + 1) (minorRows A 0 j))))

/-- `inv(A)` -/
def invL (n : Nat) (A : List (List Expr)) : Expr :=
  let invdet := sop .div (const 1) (detL n A)
  if n == 1 then litmat 1 1 [invdet]
  else
    let cofacs := litmat n n ((List.range (n * n)).map fun k =>
      sop .mul (const (pmOne (k % n + k / n))) (detL (n - 1) (minorRows A (k % n) (k / n))))
    top .mul (broadcast invdet [n, n]) cofacs

def varMat (name : String) (dim m n : Nat) : List (List Expr) :=
  (List.range m).map fun i => (List.range n).map fun j => varref name [i, j] (zerosD dim) false

/-- `Jac = grad(self.Geo, parametric=True)` -/
def jacDef (dim geoDim : Nat) : Expr :=
  litmat geoDim dim ((List.range (geoDim * dim)).map fun k => varref "geo_a" [k / dim] (unitD dim (k % dim)) true)
/-- `JacInv = inv(self.Jac)` -/
def jacInvDef (dim : Nat) : Expr := invL dim (varMat "Jac" dim dim dim)
/-- `GaussWeight = reduce(operator.mul, [GaussWeightExpr(i) …])` -/
def gaussWeightDef (dim : Nat) : Expr :=
  match (List.range dim).map gw with
  | [] => const 0
  | g :: gs => gs.foldl (fun a b => sop .mul a b) g
/-- `W = self.GaussWeight * abs(det(self.Jac))` -/
def volumeWeightDef (dim : Nat) : Expr :=
  sop .mul (varref "GaussWeight" [] (zerosD dim) false) (builtin "abs" (detL dim (varMat "Jac" dim dim dim)))

/-- `_jac_to_unscaled_normal(self.BJac)` on the variable `jname` (`Jac` for surfaces, `BJac` for boundaries) -/
def unscaledNormal (dim : Nat) (jname : String) (rows cols : Nat) : Expr :=
  let r := fun i j => varref jname [i, j] (zerosD dim) false
  if rows == 2 && cols == 1 then litvec [neg (r 1 0), r 0 0]
  else cross (litvec [r 0 0, r 1 0, r 2 0]) (litvec [r 0 1, r 1 1, r 2 1])
/-- `norm(x) = sqrt(inner(x, x))` -/
def normE (x : Expr) : Expr := builtin "sqrt" (innerE x x)
/-- `SW = self.GaussWeight * norm(_jac_to_unscaled_normal(self.BJac))` -/
def surfaceWeightDef (dim : Nat) (jname : String) (rows cols : Nat) : Expr :=
  sop .mul (varref "GaussWeight" [] (zerosD dim) false) (normE (unscaledNormal dim jname rows cols))
/-- `normal = un / norm(un)` -/
def normalDef (dim : Nat) (jname : String) (rows cols : Nat) : Expr :=
  let un := unscaledNormal dim jname rows cols
  operExpr .div un (normE un)
/-- `BJac = self.Jac @ self.Jac_to_boundary` (boundary integrals) -/
def bjacDef (dim : Nat) : Expr :=
  matmat (litmat dim dim ((varMat "Jac" dim dim dim).flatten)) (litmat dim (dim - 1) ((varMat "Jac_to_boundary" dim dim (dim - 1)).flatten))

/-! ### the pass itself: `vf.transform(self.replace_physical_derivs, type=PartialDerivExpr)` followed by
`vf.transform(self.replace_physical_derivs, type=VarRefExpr)` (vform.py:715-716), non-space-time forms.
`physIn`: names of the variables whose source is a *physical* input field. -/

/-- apply `f` to every leaf (`PartialDerivExpr` and `VarRefExpr` are leaves); `VForm.transform` with a `type=` filter -/
def mapLeaves (f : Expr → Expr) : Expr → Expr
  | litvec es => litvec (es.map (mapLeaves f))
  | litmat m n es => litmat m n (es.map (mapLeaves f))
  | neg x => neg (mapLeaves f x)
  | builtin g x => builtin g (mapLeaves f x)
  | sop o x y => sop o (mapLeaves f x) (mapLeaves f y)
  | top o x y => top o (mapLeaves f x) (mapLeaves f y)
  | cross x y => cross (mapLeaves f x) (mapLeaves f y)
  | outer x y => outer (mapLeaves f x) (mapLeaves f y)
  | matvec x y => matvec (mapLeaves f x) (mapLeaves f y)
  | matmat x y => matmat (mapLeaves f x) (mapLeaves f y)
  | e => f e

/-- `replace_physical_derivs(e)` for a `PartialDerivExpr` node (vform.py:554-607) -/
def replacePhysBf (dim : Nat) : Expr → Expr
  | pderiv b D ph =>
      if dsum D == 0 then pderiv b D false                         -- e.make_parametric()
      else if !ph then pderiv b D ph                               -- parametric derivative: no transformation
      else (physToParaG dim (bfAtom b) D).getD (pderiv b D ph)
  | e => e

/-- `replace_physical_derivs(e)` for a `VarRefExpr` node -/
def replacePhysVar (dim : Nat) (physIn : List String) : Expr → Expr
  | varref v I D par =>
      if dsum D == 0 then varref v I D true                        -- e.make_parametric()
      else if physIn.contains v then varref v I D par              -- physical field (parametric derivative of it raises)
      else if par then varref v I D par                            -- parametric derivative of parametric field
      else (physToParaG dim (varAtom v I) D).getD (varref v I D par)
  | e => e

/-- the two `transform` calls: first all `PartialDerivExpr` nodes, then all `VarRefExpr` nodes *of the result*
(so the `JacInv` / `_geo_hess_trf` references introduced by the first call are made parametric by the second) -/
def replacePhysAll (dim : Nat) (physIn : List String) (e : Expr) : Expr :=
  mapLeaves (replacePhysVar dim physIn) (mapLeaves (replacePhysBf dim) e)

/-- Python raises here: parametric derivative of a physical field (RuntimeError) or order ≥ 3 (AssertionError) -/
def replacePhysRaises (dim : Nat) (physIn : List String) : Expr → Option String
  | pderiv b D ph =>
      if dsum D != 0 && ph && (physToParaG dim (bfAtom b) D).isNone then some "err-assertion" else none
  | varref v I D par =>
      if dsum D == 0 then none
      else if physIn.contains v then (if par then some "err-RuntimeError" else none)
      else if par then none
      else if (physToParaG dim (varAtom v I) D).isNone then some "err-assertion" else none
  | _ => none

/-! ### the pass on space-time forms (`dim` counts the time axis, last) -/

/-- `replace_physical_derivs(e)` for a `PartialDerivExpr` node of a space-time form (vform.py:574-586) -/
def replacePhysBfST (dim : Nat) : Expr → Expr
  | pderiv b D ph =>
      if dsum D == 0 then pderiv b D false
      else if !ph then pderiv b D ph
      else (physToParaST dim b D).getD (pderiv b D ph)
  | e => e

/-- … for a `VarRefExpr` node: the code reads `e.basisfun`, so a physical derivative of a parametric input field raises
`AttributeError` in space-time forms (`replacePhysRaisesST`); all other cases are as in the stationary pass -/
def replacePhysVarST (physIn : List String) : Expr → Expr
  | varref v I D par => if dsum D == 0 then varref v I D true else varref v I D par
  | e => e

def replacePhysAllST (dim : Nat) (physIn : List String) (e : Expr) : Expr :=
  mapLeaves (replacePhysVarST physIn) (mapLeaves (replacePhysBfST dim) e)

def replacePhysRaisesST (dim : Nat) (physIn : List String) : Expr → Option String
  | pderiv b D ph =>
      if dsum D != 0 && ph && (physToParaST dim b D).isNone then some "err-assertion" else none
  | varref v _ D par =>
      if dsum D == 0 then none
      else if physIn.contains v then (if par then some "err-RuntimeError" else none)
      else if par then none
      else some "err-AttributeError"
  | _ => none

/-! ### the derived variables the pass introduces, as a program (`vf.vars` after the pass; `linear_deps` order) -/

def ghtIndices (dim : Nat) : List (Nat × Nat × Nat) :=
  (List.range dim).flatMap fun k => (List.range dim).flatMap fun i => (List.range dim).map fun j => (k, i, j)

/-- name ↦ defining expression: `Jac`, `JacInv`, and every `_geo_hess_trf_k_i_j` (the pass creates the ones it needs; the
list has all of them) -/
def physVarDefs (dim : Nat) : List (String × Expr) :=
  [("Jac", jacDef dim dim), ("JacInv", jacInvDef dim)] ++
    (ghtIndices dim).map fun (k, i, j) => (geoHessTrfName k i j, geoHessTrfDef dim k i j)

/-- the same as a straight-line program over whole (tensor-valued) variables: `Jac` reads only the geometry input,
`JacInv` reads `Jac`, every `_geo_hess_trf_*` reads `JacInv` (and the geometry input; `Jac` is listed too — reads may be
over-approximated) -/
def physVarProg (dim : Nat) : SLP.Prog :=
  [⟨"Jac", [], "Jac"⟩, ⟨"JacInv", ["Jac"], "JacInv"⟩] ++
    (ghtIndices dim).map fun (k, i, j) => ⟨geoHessTrfName k i j, ["JacInv", "Jac"], geoHessTrfName k i j⟩

end Pyiga.VForm
