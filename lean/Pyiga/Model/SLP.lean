/-
Straight-line programs (layer used by C06 `schedule_sound` and C13 `slp_perm_sound`).  No Mathlib.

A statement `lhs := rhs` is kept syntactically: the assigned name, the names the
right-hand side reads, and the right-hand side itself as an opaque token (its text / digest).
This is what the harness dumps

  * from `VForm.linear_deps / precomp / kernel_deps` after `finalize()` (vform.py:509-533):
    one statement per expression-defined `AsmVar` in the emitted order, reads = `var.expr.depends()`;
  * from the generated Cython text (codegen/cython.py `gen_assign`): one statement per
    assignment line of a straight-line run, reads = identifiers / array cells occurring in the rhs.

`defBeforeUse` and `permEquiv` are the *checkers* that are run on those dumps; they are proved
sound in `Pyiga/Proofs/SLP.lean`.
-/

namespace Pyiga.SLP

structure Stmt where
  lhs : String
  reads : List String
  rhs : String
deriving DecidableEq, Repr, Inhabited

abbrev Prog := List Stmt

/-- names assigned by a program, in order -/
def defs (p : Prog) : List String := p.map (·.lhs)

/-- Single assignment + definition before use, relative to the names `known` that are already
available (inputs and earlier definitions): every statement reads only known names, assigns a
name that is not yet known, and the assigned name becomes known for the rest. -/
def defBeforeUse : List String → Prog → Bool
  | _, [] => true
  | known, s :: p =>
      s.reads.all (fun v => known.contains v) && !(known.contains s.lhs) && defBeforeUse (s.lhs :: known) p

/-- the free names of a program: read somewhere, assigned nowhere -/
def freeNames (p : Prog) : List String :=
  (p.flatMap (·.reads)).filter (fun v => !((defs p).contains v))

/-- executable checker for "the same program up to the order of independent statements":
both are single-assignment and def-before-use over the same inputs, and they are permutations
of each other as lists of (syntactic) statements. -/
def permEquiv (inputs : List String) (p q : Prog) : Bool :=
  defBeforeUse inputs p && defBeforeUse inputs q && p.isPerm q

/-- Why a pair is rejected (for the driver's answer line). -/
def permEquivWhy (p q : Prog) : String :=
  let ip := freeNames p
  let iq := freeNames q
  if !defBeforeUse ip p then "fail:dbu-left"
  else if !defBeforeUse iq q then "fail:dbu-right"
  else if !p.isPerm q then "fail:notperm"
  else if !permEquiv ip p q then "fail:inputs"
  else "ok"

/-! ### semantics -/

/-- store -/
abbrev Store (α : Type) := String → α

def upd (σ : Store α) (x : String) (v : α) : Store α := fun y => if y = x then v else σ y

/-- `sem rhs σ` = value of the right-hand side token in store `σ`. -/
def run (sem : String → Store α → α) : Prog → Store α → Store α
  | [], σ => σ
  | s :: p, σ => run sem p (upd σ s.lhs (sem s.rhs σ))

/-! ### schedule check of a finalized VForm (T-ir)

`vars`: the statements in `linear_deps` order (expression-defined variables only; reads are the
variables / basis functions of `var.expr.depends()`), `sources`: names available from the start
(input-field and parameter variables, basis functions).  `scopes`: name ↦ 0/1/2 (CONSTANT, FIELD, BASISFUN).
-/
structure Sched where
  sources : List String          -- sourced vars (inputs, parameters)
  params : List String           -- the parameter-sourced ones among them
  bfuns : List String
  linear : Prog                  -- expression vars in linear_deps order
  precomp : List String          -- names, in order
  kernel : List String           -- kernel_deps names, in order
  globals : List String          -- kernel_deps with is_global
  exprReads : List String        -- union of expr.depends() of the kernel expressions
  basisScope : List String       -- names of vars with scope BASISFUN
deriving Repr

def lookupStmt (p : Prog) (n : String) : Option Stmt := p.find? (·.lhs == n)

/-- The conditions under which the emitted code evaluates every variable after its dependencies:
 1. `linear_deps` is def-before-use over sources+bfuns;
 2. the precompute function (sources, then `precomp` in order) is def-before-use and contains no
    variable of scope BASISFUN and reads no basis function;
 3. the kernel (globals + parameters + bfuns known; then the non-global kernel_deps in order; then the
    expressions) is def-before-use;
 4. every global that is expression-defined is computed by precompute. -/
def schedCheck (s : Sched) : String :=
  let sub (names : List String) : Prog := names.filterMap (lookupStmt s.linear)
  let pre := sub s.precomp
  let kerLocal := sub (s.kernel.filter (fun v => !(s.globals.contains v)))
  let result : Stmt := { lhs := "#result", reads := s.exprReads, rhs := "" }
  if !defBeforeUse (s.sources ++ s.bfuns) s.linear then "fail:linear"
  else if s.precomp.any (fun v => s.basisScope.contains v) then "fail:precomp-basisfun"
  else if !defBeforeUse s.sources pre then "fail:precomp-order"
  else if !defBeforeUse (s.globals ++ s.params ++ s.bfuns) (kerLocal ++ [result]) then "fail:kernel-order"
  else if s.globals.any (fun v => (lookupStmt s.linear v).isSome && !(s.precomp.contains v)) then "fail:global-not-precomputed"
  else "ok"

end Pyiga.SLP
