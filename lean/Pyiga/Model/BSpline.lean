/-
L-bsp: B-spline basis evaluation, transliterated from `pyiga/bspline_cy.pyx`
(`bspline_active_deriv_single` = NURBS-book algorithm A2.3, `active_deriv`) and
`pyiga/bspline.py` (`active_ev`, `_bspline_single_ev_single`, `collocation(_derivs)_info`).
No Mathlib.  Generic in the number type (see `Model/Knots.lean`).

Representation of the `NDU` table of A2.3 (a `(p+1)×(p+1)` array in the C code):
  * upper triangle incl. diagonal `NDU[r, j]`, `r ≤ j` (basis function values of degree `j`):
    column `j` is the list `nduCol j` of length `j+1`, computed from column `j-1` by the
    inner `for r in range(j)` loop with the running variable `saved` — same operations, same
    order;
  * strict lower triangle `NDU[j, r]`, `r < j` (knot differences) `= right[r] + left[j-r-1]`:
    written once, never modified, so it is the *function* `R r + L (j-r-1)` of its indices;
  * `left[k] = u - kv[span-k]`, `right[k] = kv[span+1+k] - u` likewise (`left[j-1] = u - kv[span+1-j]`).
The derivative part keeps the two row buffers `a1`, `a2` as lists that are threaded through
*both* loops (they are not re-initialised per basis function in the C code either), swaps
them after every `k`, and carries the integer `fac` exactly as written (`fac *= pk` after use).
Uninitialised buffer cells are `0` in the model (never read for `k ≤ p`, theorem
`Pyiga.Props.C02.ders_high_zero` shows nothing at all is read for `k > p`).
`fac` is an unbounded `Int` in the model.  (The C code kept it in a 32-bit `int` until /repo commit
434e774 — found by this model: orders ≥ 11 at degree ≥ 13 were wrong — and keeps it in a `double`
now: exact below 2⁵³, correctly rounded beyond, which the error bound absorbs.)
-/
import Pyiga.Model.Knots

namespace Pyiga.BSpline
open Pyiga.Knots

variable {α : Type}

section Basis
variable [Add α] [Sub α] [Mul α] [Div α] [Zero α] [One α]

/-- `left[k]` after the loop over `j`: `left[j-1] = u - kv[span+1-j]` -/
def leftK (t : Nat → α) (span : Nat) (u : α) (k : Nat) : α := u - t (span - k)

/-- `right[k]`: `right[j-1] = kv[span+j] - u` -/
def rightK (t : Nat → α) (span : Nat) (u : α) (k : Nat) : α := t (span + k + 1) - u

/-- inner loop `for r in range(j)` of the table construction; arguments: current `r`,
`saved`, and the not yet consumed part `NDU[r.., j-1]` of the previous column.
```
NDU[j, r] = right[r] + left[j-r-1]
temp = NDU[r, j-1] / NDU[j, r]
NDU[r, j] = saved + right[r] * temp
saved = left[j-r-1] * temp
```
and finally `NDU[j, j] = saved`. -/
def nduInner (L R : Nat → α) (j : Nat) : Nat → α → List α → List α
  | _, saved, [] => [saved]
  | r, saved, x :: xs =>
      let d := R r + L (j - r - 1)
      let temp := x / d
      (saved + R r * temp) :: nduInner L R j (r + 1) (L (j - r - 1) * temp) xs

/-- column `j` of the upper triangle: `NDU[0..j, j]` -/
def nduCol (L R : Nat → α) : Nat → List α
  | 0 => [1]
  | j + 1 => nduInner L R (j + 1) 0 0 (nduCol L R j)

/-- all columns `p, p-1, …, 0` (head = column `p`), each computed once from its predecessor
(this is the loop `for j in range(1, p+1)`) -/
def nduTable (L R : Nat → α) : Nat → List (List α)
  | 0 => [[1]]
  | j + 1 =>
    match nduTable L R j with
    | [] => []
    | c :: cs => nduInner L R (j + 1) 0 0 c :: c :: cs

/-- `NDU[i, j]` read through the representation above; `cols[j]` = column `j`. -/
def nduAt (cols : Array (List α)) (L R : Nat → α) (i j : Nat) : α :=
  if i ≤ j then (cols.getD j []).getD i 0 else R j + L (i - j - 1)

end Basis

section Ders
variable [Add α] [Sub α] [Mul α] [Div α] [Neg α] [Zero α] [One α] [IntCast α]

/-- state of the derivative loops: the two row buffers (current `a1`, `a2`), `fac` -/
structure DState (α : Type) where
  a1 : List α
  a2 : List α
  fac : Int

/-- the `for j in range(j1, j2+1)` loop: `a2[j] = (a1[j] - a1[j-1]) / NDU[pk+1, rk+j]`,
`d += a2[j] * NDU[rk+j, pk]`.  `cnt` = number of remaining iterations. -/
def dersMid (ndu : Nat → Nat → α) (a1 : List α) (pk rk : Int) : Nat → Int → List α → α → List α × α
  | 0, _, a2, d => (a2, d)
  | cnt + 1, j, a2, d =>
      let v := (a1.getD j.toNat 0 - a1.getD (j - 1).toNat 0) / ndu (pk + 1).toNat (rk + j).toNat
      dersMid ndu a1 pk rk cnt (j + 1) (a2.set j.toNat v) (d + v * ndu (rk + j).toNat pk.toNat)

/-- body of `for k in range(1, numderiv+1)` for basis function `r`; returns the new state
(buffers swapped, `fac` updated) and `result[k, r] = d * fac`. -/
def dersStep (ndu : Nat → Nat → α) (p r k : Nat) (st : DState α) : DState α × α :=
  let rk : Int := (r : Int) - k
  let pk : Int := (p : Int) - k
  let a1 := st.a1
  -- if r >= k: a2[0] = a1[0] / NDU[pk+1, rk]; d = a2[0] * NDU[rk, pk]
  let s0 : List α × α :=
    if r ≥ k then
      let v := a1.getD 0 0 / ndu (pk + 1).toNat rk.toNat
      (st.a2.set 0 v, v * ndu rk.toNat pk.toNat)
    else (st.a2, 0)
  let j1 : Int := if rk ≥ -1 then 1 else -rk
  let j2 : Int := if (r : Int) - 1 ≤ pk then (k : Int) - 1 else (p : Int) - r
  let s1 := dersMid ndu a1 pk rk (j2 + 1 - j1).toNat j1 s0.1 s0.2
  -- if r <= pk: a2[k] = -a1[k-1] / NDU[pk+1, r]; d += a2[k] * NDU[r, pk]
  let s2 : List α × α :=
    if (r : Int) ≤ pk then
      let v := -(a1.getD (k - 1) 0) / ndu (pk + 1).toNat r
      (s1.1.set k v, s1.2 + v * ndu r pk.toNat)
    else s1
  ({ a1 := s2.1, a2 := a1, fac := st.fac * pk }, s2.2 * ((st.fac : Int) : α))

/-- `for k in range(1, numderiv+1)` -/
def dersK (ndu : Nat → Nat → α) (p r : Nat) : Nat → Nat → DState α → DState α × List α
  | 0, _, st => (st, [])
  | cnt + 1, k, st =>
      let (st', v) := dersStep ndu p r k st
      let (st'', vs) := dersK ndu p r cnt (k + 1) st'
      (st'', v :: vs)

/-- `for r in range(p+1)`: `a1[0] = 1.0; fac = p; …`; returns for every `r` the list
`[result[1, r], …, result[numderiv, r]]` -/
def dersR (ndu : Nat → Nat → α) (p numderiv : Nat) : Nat → Nat → List α → List α → List (List α)
  | 0, _, _, _ => []
  | cnt + 1, r, a1, a2 =>
      let (st, vs) := dersK ndu p r numderiv 1 { a1 := a1.set 0 1, a2 := a2, fac := p }
      vs :: dersR ndu p numderiv cnt (r + 1) st.a1 st.a2

/-- `bspline_active_deriv_single(knotvec, u, numderiv)`: returns `result` as the list of its
rows `k = 0..numderiv`, each of length `p+1`. -/
def activeDeriv [LT α] [LE α] [DecidableLT α] [DecidableLE α]
    (t : Nat → α) (n p : Nat) (u : α) (numderiv : Nat) : List (List α) :=
  let span := findspan t n p u
  let L := leftK t span u
  let R := rightK t span u
  let tab := nduTable L R p
  let cols := tab.reverse.toArray
  let ndu := nduAt cols L R
  let row0 := tab.headD []
  let perR := dersR ndu p numderiv (p + 1) 0 (List.replicate (p + 1) 0) (List.replicate (p + 1) 0)
  row0 :: (List.range numderiv).map (fun k => perR.map (fun vs => vs.getD k 0))

/-- `active_ev(knotvec, u)` = `active_deriv(knotvec, u, 0)[0]` -/
def activeEv [LT α] [LE α] [DecidableLT α] [DecidableLE α]
    (t : Nat → α) (n p : Nat) (u : α) : List α :=
  (activeDeriv t n p u 0).headD []

end Ders

/-! ## `_bspline_single_ev_single` (bspline.py:385-424) -/

section Single
variable [Add α] [Sub α] [Mul α] [Div α] [Zero α] [One α] [LT α] [LE α]
  [DecidableLT α] [DecidableLE α] [DecidableEq α]

/-- inner loop `for j in range(0, p-k+1)`; state `(N, saved)` -/
def singleInner (t : Nat → α) (i k : Nat) (u : α) : Nat → Nat → List α → α → List α
  | 0, _, N, _ => N
  | cnt + 1, j, N, saved =>
      let kleft := t (i + j + 1)
      let kright := t (i + j + k + 1)
      if N.getD (j + 1) 0 = 0 then
        singleInner t i k u cnt (j + 1) (N.set j saved) 0
      else
        let temp := N.getD (j + 1) 0 / (kright - kleft)
        singleInner t i k u cnt (j + 1) (N.set j (saved + (kright - u) * temp)) ((u - kleft) * temp)

/-- outer loop `for k in range(1, p+1)` -/
def singleOuter (t : Nat → α) (i p : Nat) (u : α) : Nat → Nat → List α → List α
  | 0, _, N => N
  | cnt + 1, k, N =>
      let saved := if N.getD 0 0 = 0 then 0 else ((u - t i) * N.getD 0 0) / (t (i + k) - t i)
      singleOuter t i p u cnt (k + 1) (singleInner t i k u (p - k + 1) 0 N saved)

/-- `_bspline_single_ev_single(knotvec, i, u)`; `m = kv.size` -/
def singleEv (t : Nat → α) (m p i : Nat) (u : α) : α :=
  if (i = 0 ∧ u = t 0) ∨ (i = m - p - 2 ∧ u = t (m - 1)) then 1
  else if u < t i ∨ u ≥ t (i + p + 1) then 0
  else
    let N0 := (List.range (p + 1)).map (fun j => if u ≥ t (i + j) ∧ u < t (i + j + 1) then (1 : α) else 0)
    (singleOuter t i p u p 1 N0).getD 0 0

end Single

/-! ## specification side, executable: Cox-de Boor with the degree-0 indicator of span `s`
(the same recursion the theorems are about; used by the driver to decide, per request, that
the A2.3 output equals the recursion for *all* derivative orders) -/

section Spec
variable [Add α] [Sub α] [Mul α] [Div α] [Zero α] [One α] [NatCast α]

/-- `N_{i,p}` with `N_{i,0} = [i = s]` -/
def coxS (t : Nat → α) (s : Nat) (u : α) : Nat → Nat → α
  | 0, i => if i = s then 1 else 0
  | p + 1, i =>
      (u - t i) / (t (i + p + 1) - t i) * coxS t s u p i
        + (t (i + p + 2) - u) / (t (i + p + 2) - t (i + 1)) * coxS t s u p (i + 1)

/-- `k`-th derivative by the derivative recursion
`N⁽ᵏ⁾_{i,p} = p (N⁽ᵏ⁻¹⁾_{i,p-1}/(t_{i+p}-t_i) − N⁽ᵏ⁻¹⁾_{i+1,p-1}/(t_{i+p+1}-t_{i+1}))` -/
def dcoxS (t : Nat → α) (s : Nat) (u : α) : Nat → Nat → Nat → α
  | 0, p, i => coxS t s u p i
  | _ + 1, 0, _ => 0
  | k + 1, p + 1, i =>
      ((p + 1 : Nat) : α) * (dcoxS t s u k p i / (t (i + p + 1) - t i)
        - dcoxS t s u k p (i + 1) / (t (i + p + 2) - t (i + 1)))

end Spec

/-! ## running forward error bound (executable only; this is the *tolerance rule*, part of
the trusted harness, not of the theorems).

`RE` carries the exact value `v` of an expression and a bound `e ≥ |fl − v|` on the distance
of the double-precision evaluation of the same expression, assuming every operation rounds
with relative error ≤ `reU` (we take 2⁻⁵¹, four times the unit roundoff, to cover
`-ffast-math` liberties: `x/y → x·(1/y)`, contraction, reassociation of two-term sums) plus an
absolute `reEta` for underflow.  Instantiating the *same* generic recursion at `RE` yields
the bound belonging to that recursion ("absolute-value twin"). -/

structure RE where
  v : Rat
  e : Rat
  /-- set when a divisor's error radius reaches its magnitude: no finite bound -/
  bad : Bool := false
deriving DecidableEq

namespace RE

def reU : Rat := 1 / (2 ^ 51 : Nat)
def reEta : Rat := 1 / (2 ^ 1000 : Nat)

def abs (x : Rat) : Rat := if x < 0 then -x else x

def exact (q : Rat) : RE := { v := q, e := 0 }

/-- an upper bound of `x ≥ 0` with a ~40-bit numerator and a power-of-two denominator (keeps the
error component small; rounding *up* keeps it a bound) -/
def roundUp (x : Rat) : Rat :=
  if x.num ≤ 0 then 0 else
  let ln := x.num.natAbs.log2
  let ld := x.den.log2
  -- x ≈ 2^(ln-ld); keep 40 bits: scale by 2^sh with sh = 40 + ld - ln
  if 40 + ld ≥ ln then
    let sh := 40 + ld - ln
    let m := (x.num.natAbs * 2 ^ sh) / x.den + 1
    mkRat m (2 ^ sh)
  else
    let sh := ln - (40 + ld)
    let m := x.num.natAbs / (x.den * 2 ^ sh) + 1
    ((m * 2 ^ sh : Nat) : Rat)

/-- one rounded operation whose exact-operand result is `v` and whose propagated input error is `pe` -/
def rnd (v pe : Rat) (bad : Bool) : RE :=
  if v == 0 && pe == 0 then { v := 0, e := 0, bad := bad }
  else { v := v, e := roundUp (pe + reU * (abs v + pe) + reEta), bad := bad }

instance : Zero RE := ⟨exact 0⟩
instance : One RE := ⟨exact 1⟩
instance : NatCast RE := ⟨fun n => exact n⟩
instance : IntCast RE := ⟨fun n => exact n⟩
instance : Add RE := ⟨fun a b => rnd (a.v + b.v) (a.e + b.e) (a.bad || b.bad)⟩
instance : Sub RE := ⟨fun a b => rnd (a.v - b.v) (a.e + b.e) (a.bad || b.bad)⟩
instance : Neg RE := ⟨fun a => { v := -a.v, e := a.e, bad := a.bad }⟩
instance : Mul RE := ⟨fun a b =>
  rnd (a.v * b.v) (abs a.v * b.e + abs b.v * a.e + a.e * b.e) (a.bad || b.bad)⟩
instance : Div RE := ⟨fun a b =>
  if abs b.v ≤ b.e then { v := a.v / b.v, e := 0, bad := true }
  else
    -- |â/b̂ − a/b| ≤ (ea + |a/b|·eb) / (|b| − eb)
    rnd (a.v / b.v) ((a.e + abs (a.v / b.v) * b.e) / (abs b.v - b.e)) (a.bad || b.bad)⟩
/-- order decisions are taken on the exact values (inputs are exact doubles) -/
instance : LT RE := ⟨fun a b => a.v < b.v⟩
instance : LE RE := ⟨fun a b => a.v ≤ b.v⟩
instance : DecidableLT RE := fun a b => inferInstanceAs (Decidable (a.v < b.v))
instance : DecidableLE RE := fun a b => inferInstanceAs (Decidable (a.v ≤ b.v))

/-- is the double `x` (exact rational) within the bound? -/
def accepts (m : RE) (x : Rat) : Bool := !m.bad && abs (x - m.v) ≤ m.e

end RE

end Pyiga.BSpline
