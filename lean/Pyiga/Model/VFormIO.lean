/-
Wire format of expression trees / variable tables / forms / key tables for the C06 and C13
drivers (prefix notation, one token per field; see harness/vfser.py for the Python twin).

  C <rat> | LV <n> e* | LM <m> <n> e* | V <name> <I> <D> <par> | N e | F <fname> e | S <op> e e
  T <op> e e | X e e | O e e | P <bf> <D> <phys> | MV e e | MM e e | G <axis> | DX | DS
  <op> ∈ + - * /      <bf> = <name> <numcomp|_> <component|_> <space>     <I>,<D> = length-prefixed nat lists
-/
import Pyiga.Proto
import Pyiga.Model.VForm

namespace Pyiga.VForm
open Pyiga.Proto Expr

def pOp : P Op := do
  match (← tok) with
  | "+" => pure .add | "-" => pure .sub | "*" => pure .mul | "/" => pure .div
  | _ => failure

def pONat : P (Option Nat) := do
  let t ← tok
  if t == "_" then pure none else
  match t.toNat? with
  | some n => pure (some n)
  | none => failure

def pBFun : P BFun := do
  let n ← tok; let nc ← pONat; let c ← pONat; let s ← nat
  pure { name := n, numcomp := nc, component := c, space := s }

def repeatP (p : P α) : Nat → List α → P (List α)
  | 0, acc => pure acc.reverse
  | k + 1, acc => do let a ← p; repeatP p k (a :: acc)

partial def pExpr : P Expr := do
  match (← tok) with
  | "C" => do let v ← rat; pure (const v)
  | "LV" => do let n ← nat; let es ← repeatP pExpr n []; pure (litvec es)
  | "LM" => do let m ← nat; let n ← nat; let es ← repeatP pExpr (m * n) []; pure (litmat m n es)
  | "V" => do let v ← tok; let I ← list nat; let D ← list nat; let p ← bool; pure (varref v I D p)
  | "N" => do let x ← pExpr; pure (neg x)
  | "F" => do let f ← tok; let x ← pExpr; pure (builtin f x)
  | "S" => do let o ← pOp; let x ← pExpr; let y ← pExpr; pure (sop o x y)
  | "T" => do let o ← pOp; let x ← pExpr; let y ← pExpr; pure (top o x y)
  | "X" => do let x ← pExpr; let y ← pExpr; pure (cross x y)
  | "O" => do let x ← pExpr; let y ← pExpr; pure (outer x y)
  | "P" => do let b ← pBFun; let D ← list nat; let p ← bool; pure (pderiv b D p)
  | "MV" => do let x ← pExpr; let y ← pExpr; pure (matvec x y)
  | "MM" => do let x ← pExpr; let y ← pExpr; pure (matmat x y)
  | "G" => do let a ← nat; pure (gw a)
  | "DX" => pure dx
  | "DS" => pure ds
  | _ => failure

def showOp : Op → String
  | .add => "+" | .sub => "-" | .mul => "*" | .div => "/"

def showONat : Option Nat → String
  | none => "_" | some n => toString n

def showB (b : Bool) : String := if b then "1" else "0"

def showBFun (b : BFun) : String := s!"{b.name} {showONat b.numcomp} {showONat b.component} {b.space}"

partial def showExpr : Expr → String
  | const v => "C " ++ showRat v
  | litvec es => " ".intercalate (["LV", toString es.length] ++ es.map showExpr)
  | litmat m n es => " ".intercalate (["LM", toString m, toString n] ++ es.map showExpr)
  | varref v I D p => s!"V {v} {showNats I} {showNats D} {showB p}"
  | neg x => "N " ++ showExpr x
  | builtin f x => s!"F {f} " ++ showExpr x
  | sop o x y => s!"S {showOp o} " ++ showExpr x ++ " " ++ showExpr y
  | top o x y => s!"T {showOp o} " ++ showExpr x ++ " " ++ showExpr y
  | cross x y => "X " ++ showExpr x ++ " " ++ showExpr y
  | outer x y => "O " ++ showExpr x ++ " " ++ showExpr y
  | pderiv b D p => s!"P {showBFun b} {showNats D} {showB p}"
  | matvec x y => "MV " ++ showExpr x ++ " " ++ showExpr y
  | matmat x y => "MM " ++ showExpr x ++ " " ++ showExpr y
  | gw a => s!"G {a}"
  | dx => "DX"
  | ds => "DS"

def pInput : P InputField := do
  let n ← tok; let s ← list nat; let p ← bool; let u ← bool
  pure { name := n, shape := s, physical := p, updatable := u }

def pParam : P Parameter := do
  let n ← tok; let s ← list nat
  pure { name := n, shape := s }

/-- `<name> <shape> <symmetric> <deriv|_> (E <expr> | I <input> | R <param>)` -/
def pVar : P AsmVar := do
  let n ← tok; let s ← list nat; let sym ← bool; let d ← pONat
  let src ← (do
    match (← tok) with
    | "E" => do let e ← pExpr; pure (Src.expr e)
    | "I" => do let f ← pInput; pure (Src.input f)
    | "R" => do let p ← pParam; pure (Src.param p)
    | _ => failure)
  pure { name := n, src := src, shape := s, symmetric := sym, deriv := d }

def pForm : P Form := do
  let dim ← nat; let gd ← nat; let bd ← bool; let ar ← nat; let vec ← nat; let st ← bool
  let bfs ← list pBFun; let ins ← list pInput; let vars ← list pVar; let exprs ← list pExpr
  pure { dim := dim, geoDim := gd, isBoundary := bd, arity := ar, vec := vec, spacetime := st,
         basisFuns := bfs, inputs := ins, vars := vars, exprs := exprs }

def pCls : P Cls := do
  match (← tok) with
  | "ConstExpr" => pure .Const | "LiteralVectorExpr" => pure .LitVec | "LiteralMatrixExpr" => pure .LitMat
  | "VarRefExpr" => pure .VarRef | "NegExpr" => pure .Neg | "BuiltinFuncExpr" => pure .Builtin
  | "ScalarOperExpr" => pure .ScalarOper | "TensorOperExpr" => pure .TensorOper
  | "VectorCrossExpr" => pure .Cross | "OuterProdExpr" => pure .Outer | "PartialDerivExpr" => pure .PartialDeriv
  | "MatVecExpr" => pure .MatVec | "MatMatExpr" => pure .MatMat | "GaussWeightExpr" => pure .GaussWeight
  | "VolumeMeasureExpr" => pure .VolumeMeasure | "SurfaceMeasureExpr" => pure .SurfaceMeasure
  | _ => failure

def pAttr : P Attr := do
  match (← tok) with
  | "value" => pure .value | "varName" => pure .varName | "I" => pure .I | "D" => pure .D
  | "parametric" => pure .parametric | "funcname" => pure .funcname | "oper" => pure .oper
  | "bfName" => pure .bfName | "bfNumcomp" => pure .bfNumcomp | "bfComponent" => pure .bfComponent
  | "bfSpace" => pure .bfSpace | "physical" => pure .physical | "axis" => pure .axis
  | _ => failure

def pKeyTable : P KeyTable := list (pair pCls (list pAttr))

def pFAttr : P FAttr := do
  match (← tok) with
  | "dim" => pure .dim | "geoDim" => pure .geoDim | "isBoundary" => pure .isBoundary | "arity" => pure .arity
  | "vec" => pure .vec | "spacetime" => pure .spacetime | "basisFuns" => pure .basisFuns | "inputs" => pure .inputs
  | "vars" => pure .vars | "exprs" => pure .exprs
  | "bfName" => pure .bfName | "bfNumcomp" => pure .bfNumcomp | "bfComponent" => pure .bfComponent | "bfSpace" => pure .bfSpace
  | "inName" => pure .inName | "inShape" => pure .inShape | "inPhysical" => pure .inPhysical | "inUpdatable" => pure .inUpdatable
  | "parName" => pure .parName | "parShape" => pure .parShape
  | "varName" => pure .varName | "varSrc" => pure .varSrc | "varShape" => pure .varShape
  | "varSymmetric" => pure .varSymmetric | "varDeriv" => pure .varDeriv | "onDemand" => pure .onDemand
  | _ => failure

def pFKeyTable : P FKeyTable := list pFAttr

end Pyiga.VForm
