/-
C09 model: 1-D Galerkin assembly bookkeeping, Kronecker fast paths, quadrature rules
(no Mathlib; generic in the scalar type, executed over core `Rat`).

Transliterates (file /repo/pyiga/...):
  * quadrature.py   `gauss_rule`, `make_iterated_quadrature`, `make_tensor_quadrature`,
                    `make_boundary_quadrature`
  * assemble.py     `_assemble_element_matrices`, `_create_coo_1d_from_kv`,
                    `_create_coo_1d_custom`, `_assemble_matrix_custom`,
                    `bsp_mixed_deriv_biform_1d`, `bsp_mixed_deriv_biform_1d_asym`,
                    `bsp_mass_2d/3d`, `bsp_stiffness_2d/3d` (geo=None), `inner_products`,
                    `integrate`;  bspline.py `load_vector`, `KnotVector.mesh`,
                    `mesh_span_indices`, `first_active`, `first_active_at`;
                    bspline_cy.pyx `pyx_findspan`
INPUTS of the model (not modelled here): the Gauss-Legendre nodes/weights on [-1,1]
(`leggauss`), the values/derivatives of the active B-splines at the quadrature nodes
(`active_deriv`, `collocation` — verified in C02), function values at the nodes.
`scipy.sparse.coo_matrix(...).tocsr()` is modelled by its documented behaviour
(duplicates are summed: `cooEntry`), `scipy.sparse.kron` by the Kronecker product.
-/

namespace Pyiga.Galerkin

/-! ### small array helpers -/

section Helpers
variable {β : Type}

/-- `np.repeat(l, n)` -/
def repeatEach (l : List β) (n : Nat) : List β := l.flatMap (List.replicate n)

/-- `np.tile(l, n)` -/
def tile (l : List β) (n : Nat) : List β := (List.replicate n l).flatten

end Helpers

/-- `np.mgrid[:n1,:n2][0].ravel()`: slowly varying index -/
def mgridI (n1 n2 : Nat) : List Nat := repeatEach (List.range n1) n2
/-- `np.mgrid[:n1,:n2][1].ravel()`: fast varying index -/
def mgridJ (n1 n2 : Nat) : List Nat := tile (List.range n2) n1

/-- `_create_coo_1d_custom(nspans, n_act1, n_act2, first_act1, first_act2)` -/
def cooCustom (nspans n1 n2 : Nat) (fa1 fa2 : List Nat) : List Nat × List Nat :=
  (List.zipWith (· + ·) (repeatEach fa1 (n1 * n2)) (tile (mgridI n1 n2) nspans),
   List.zipWith (· + ·) (repeatEach fa2 (n1 * n2)) (tile (mgridJ n1 n2) nspans))

/-- `_create_coo_1d_from_kv(kv)`: `first_act = kv.first_active(kv.mesh_span_indices())`
(`first_active(k) = k - p`; open knot vectors have `p ≤ k` for every span index, the driver
rejects other inputs), `n_act1 = n_act2 = p+1`. -/
def cooFromKv (p nspans : Nat) (spanIdx : List Nat) : List Nat × List Nat :=
  let n := p + 1
  let fa := repeatEach (spanIdx.map (· - p)) (n * n)
  (List.zipWith (· + ·) fa (tile (mgridI n n) nspans),
   List.zipWith (· + ·) fa (tile (mgridJ n n) nspans))

section Scalar
variable {α : Type} [Zero α] [Add α] [Mul α]

/-- `m[i][j]` of a 2-D array stored as list of rows (0 outside) -/
def get2 (m : List (List α)) (i j : Nat) : α := (m.getD i []).getD j 0

/-- `Σ_{t<n} f t` in increasing order of `t` -/
def sumRange (n : Nat) (f : Nat → α) : α := ((List.range n).map f).sum

/-- `_assemble_element_matrices`: entry `(a,b)` of `elMats[k]`,
`np.dot(f1, (f2 * w).transpose())` with `f1 = vals1[:, nqp*k:nqp*(k+1)]` etc.
(slices are views: indexing with offset `nqp*k`). -/
def elMat (nqp : Nat) (vals1 vals2 : List (List α)) (w : List α) (k a b : Nat) : α :=
  sumRange nqp fun t => get2 vals1 a (nqp * k + t) * (get2 vals2 b (nqp * k + t) * w.getD (nqp * k + t) 0)

/-- `elMats.ravel()` (C order: span, row, column) -/
def elMatsRavel (nspans nqp : Nat) (vals1 vals2 : List (List α)) (w : List α) : List α :=
  (List.range nspans).flatMap fun k =>
    (List.range vals1.length).flatMap fun a =>
      (List.range vals2.length).map fun b => elMat nqp vals1 vals2 w k a b

/-- COO data `(data, (I, J))` as a list of triples -/
def cooTriples (I J : List Nat) (d : List α) : List (Nat × Nat × α) := I.zip (J.zip d)

/-- `_assemble_matrix_custom`: the COO triples handed to `scipy.sparse.coo_matrix` -/
def assembleCustom (nspans nqp : Nat) (vals1 vals2 : List (List α)) (I J : List Nat) (w : List α) :
    List (Nat × Nat × α) :=
  cooTriples I J (elMatsRavel nspans nqp vals1 vals2 w)

/-- entry `(i,j)` of `coo_matrix(...).tocsr()`: duplicates are summed -/
def cooEntry (t : List (Nat × Nat × α)) (i j : Nat) : α :=
  (t.map fun e => if e.1 = i ∧ e.2.1 = j then e.2.2 else 0).sum

/-- shape inferred by `coo_matrix((data,(I,J)))` when none is given: `(max I + 1, max J + 1)` -/
def cooShape (t : List (Nat × Nat × α)) : Nat × Nat :=
  (t.foldl (fun m e => max m (e.1 + 1)) 0, t.foldl (fun m e => max m (e.2.1 + 1)) 0)

/-- dense form of the assembled sparse matrix -/
def cooDense (t : List (Nat × Nat × α)) : List (List α) :=
  let s := cooShape t
  (List.range s.1).map fun i => (List.range s.2).map fun j => cooEntry t i j

/-! ### Kronecker paths (`scipy.sparse.kron`, documented behaviour) -/

/-- `kron(A, B)[i, j] = A[i / mB, j / nB] * B[i % mB, j % nB]` -/
def kronEntry (A B : Nat → Nat → α) (mB nB : Nat) (i j : Nat) : α :=
  A (i / mB) (j / nB) * B (i % mB) (j % nB)

def matRows (A : List (List α)) : Nat := A.length
def matCols (A : List (List α)) : Nat := (A.getD 0 []).length

/-- dense `kron(A,B)` -/
def kron (A B : List (List α)) : List (List α) :=
  (List.range (matRows A * matRows B)).map fun i =>
    (List.range (matCols A * matCols B)).map fun j => kronEntry (get2 A) (get2 B) (matRows B) (matCols B) i j

def matAdd (A B : List (List α)) : List (List α) :=
  List.zipWith (List.zipWith (· + ·)) A B

/-- `bsp_mass_2d(geo=None)`: `kron(M1, M2)` -/
def mass2d (M1 M2 : List (List α)) : List (List α) := kron M1 M2
/-- `bsp_stiffness_2d(geo=None)`: `kron(K1, M2) + kron(M1, K2)` -/
def stiffness2d (M1 K1 M2 K2 : List (List α)) : List (List α) := matAdd (kron K1 M2) (kron M1 K2)
/-- `bsp_mass_3d(geo=None)`: `k(M[0], k(M[1], M[2]))` -/
def mass3d (M0 M1 M2 : List (List α)) : List (List α) := kron M0 (kron M1 M2)
/-- `bsp_stiffness_3d(geo=None)`: `k(K0, M12) + k(M0, K12)`, `M12 = k(M1,M2)`,
`K12 = k(K1,M2) + k(M1,K2)` -/
def stiffness3d (M0 K0 M1 K1 M2 K2 : List (List α)) : List (List α) :=
  let M12 := kron M1 M2
  let K12 := matAdd (kron K1 M2) (kron M1 K2)
  matAdd (kron K0 M12) (kron M0 K12)

/-! ### load vectors / inner products / integrals

`C` = dense collocation matrix (`nodes × dofs`), `f` = weighted function values. -/

/-- `C.T.dot(fvals)` -/
def colT (C : List (List α)) (f : List α) : List α :=
  (List.range (matCols C)).map fun i => sumRange C.length fun q => get2 C q i * f.getD q 0

/-- `bspline.load_vector`: `C.T.dot(q[1] * f(q[0]))` -/
def loadVector (C : List (List α)) (w fv : List α) : List α :=
  colT C (List.zipWith (· * ·) w fv)

/-- weighted function values of `inner_products` / `integrate` in 1-3 dimensions, C order:
`apply_tprod([Diag(w_k)], fvals)` then optional `*= |det J|`.  `ws` = per-axis weights,
`fv` = raveled values on the tensor grid, `det` = raveled `|det J|` (or `none`). -/
def tensorWeights : List (List α) → List α
  | [] => []
  | [w] => w
  | w :: ws => w.flatMap fun a => (tensorWeights ws).map fun b => a * b

def weightedVals (ws : List (List α)) (fv : List α) (det : Option (List α)) : List α :=
  let wf := List.zipWith (· * ·) (tensorWeights ws) fv
  match det with
  | none => wf
  | some d => List.zipWith (· * ·) wf d

/-- `integrate`: `fvals.sum(axis=all)` -/
def integrate (ws : List (List α)) (fv : List α) (det : Option (List α)) : α :=
  (weightedVals ws fv det).sum

/-- apply `Cᵀ` along the leading axis of a C-ordered tensor whose leading axis has `C.length`
entries and whose trailing block has `blk` entries -/
def applyTLeading (C : List (List α)) (blk : Nat) (x : List α) : List α :=
  (List.range (matCols C)).flatMap fun i =>
    (List.range blk).map fun r => sumRange C.length fun q => get2 C q i * x.getD (q * blk + r) 0

/-- `tensor.apply_tprod([C_0ᵀ, C_1ᵀ, ...], X)` for a C-ordered tensor `X` with shape
`(nodes_0, nodes_1, ...)`: the result in C order with shape `(dofs_0, dofs_1, ...)`.
Applied axis by axis from the last axis to the first. -/
def applyTprodT : List (List (List α)) → List α → List α
  | [], x => x
  | C :: Cs, x =>
      -- first transform the trailing axes inside every leading slice, then the leading axis
      let nodesRest := (Cs.map List.length).foldl (· * ·) 1
      let dofsRest := (Cs.map matCols).foldl (· * ·) 1
      let inner := (List.range C.length).flatMap fun q =>
        applyTprodT Cs ((x.drop (q * nodesRest)).take nodesRest)
      applyTLeading C dofsRest inner

/-- `inner_products(kvs, f, geo)` (scalar `f`): `apply_tprod(Cᵀ, w ⊙ f ⊙ |det J|)` -/
def innerProducts (Cs : List (List (List α))) (ws : List (List α)) (fv : List α) (det : Option (List α)) : List α :=
  applyTprodT Cs (weightedVals ws fv det)

end Scalar

/-! ### `|det J|` (`geo_det = np.abs(assemble_tools.determinants(geo_jac))`) -/

section Abs
variable {α : Type} [Zero α] [Add α] [Mul α] [Neg α] [LT α] [DecidableLT α]

/-- `np.abs` -/
def absVal (x : α) : α := if x < 0 then -x else x

/-- `inner_products(kvs, f, geo=geo)`: the **signed** determinants `dets` of the Jacobian at the
tensor-grid nodes go through `np.abs` before they multiply the weighted function values. -/
def innerProductsGeo (Cs : List (List (List α))) (ws : List (List α)) (fv dets : List α) : List α :=
  innerProducts Cs ws fv (some (dets.map absVal))

/-- `integrate(kvs, f, geo=geo)` with signed determinants `dets` -/
def integrateGeo (ws : List (List α)) (fv dets : List α) : α :=
  integrate ws fv (some (dets.map absVal))

end Abs

/-! ### quadrature rules -/

section Quad
variable {α : Type} [Add α] [Sub α] [Mul α]

/-- `gauss_rule(deg, a, b)` with `x, w = leggauss(deg)` given; `half` is the literal `0.5`.
`m = 0.5*(a+b); h = 0.5*(b-a); nodes = outer(h,x) + m[:,None]; weights = outer(h,w)`, raveled. -/
def gaussRule (half : α) (x w a b : List α) : List α × List α :=
  let m := List.zipWith (fun ai bi => half * (ai + bi)) a b
  let h := List.zipWith (fun ai bi => half * (bi - ai)) a b
  ((h.zip m).flatMap (fun hm => x.map fun xj => hm.1 * xj + hm.2),
   h.flatMap (fun hi => w.map fun wj => hi * wj))

/-- `make_iterated_quadrature(intervals, nqp)`: `gauss_rule(nqp, intervals[:-1], intervals[1:])` -/
def iteratedQuadrature (half : α) (x w intervals : List α) : List α × List α :=
  gaussRule half x w intervals.dropLast intervals.tail

/-- `make_tensor_quadrature(meshes, nqp)` -/
def tensorQuadrature (half : α) (x w : List α) (meshes : List (List α)) : List (List α) × List (List α) :=
  let g := meshes.map (iteratedQuadrature half x w)
  (g.map (·.1), g.map (·.2))

/-- `make_boundary_quadrature(meshes, nqp, (bdax, bdside))`: axis `bdax` is replaced by the
single node `meshes[bdax][0 or -1]` with weight `one`. -/
def boundaryQuadrature (half one : α) (x w : List α) (meshes : List (List α)) (bdax : Nat) (bdside : Nat)
    (dflt : α) : List (List α) × List (List α) :=
  let mesh := meshes.getD bdax []
  let bdcoord := if bdside = 0 then mesh.getD 0 dflt else mesh.getLastD dflt
  let g := meshes.map (iteratedQuadrature half x w)
  let g := g.set bdax ([bdcoord], [one])
  (g.map (·.1), g.map (·.2))

end Quad

/-! ### knot-vector bookkeeping used by the 1-D assemblers -/

section Knots
variable {α : Type} [DecidableEq α]

/-- `np.unique(kv)` of a nondecreasing array: consecutive duplicates removed -/
def uniqueSorted : List α → List α
  | [] => []
  | [a] => [a]
  | a :: b :: l => if a = b then uniqueSorted (b :: l) else a :: uniqueSorted (b :: l)

/-- positions `i ≥ start` (counted from `start`) with `l[i] != l[i+1]` -/
def spanIndicesFrom : Nat → List α → List Nat
  | _, [] => []
  | _, [_] => []
  | i, a :: b :: l => if a = b then spanIndicesFrom (i + 1) (b :: l) else i :: spanIndicesFrom (i + 1) (b :: l)

/-- `KnotVector.mesh_span_indices`: indices `i` with `kv[i] != kv[i+1]`
(`np.where(k2m[1:] != k2m[:-1])[0]` on the `np.unique` inverse map of a nondecreasing array) -/
def spanIndices (kv : List α) : List Nat := spanIndicesFrom 0 kv

variable [LT α] [DecidableLT α] [LE α] [DecidableLE α]

/-- the bisection loop of `pyx_findspan` (`while b - a > 1`), with fuel -/
def bisect (kv : List α) (u : α) (dflt : α) : Nat → Nat → Nat → Nat
  | 0, a, _ => a
  | fuel + 1, a, b =>
      if b - a > 1 then
        let c := a + (b - a) / 2
        if kv.getD c dflt > u then bisect kv u dflt fuel a c else bisect kv u dflt fuel c b
      else a

/-- `pyx_findspan(kv, p, u)` -/
def findspan (kv : List α) (p : Nat) (u : α) (dflt : α) : Nat :=
  let n := kv.length
  if u ≥ kv.getD (n - p - 1) dflt then n - p - 2
  else bisect kv u dflt n 0 (n - 1)

end Knots

/-- `q[0][::nqp]` -/
def everyNth {β : Type} (l : List β) (n : Nat) : List β :=
  if n = 0 then [] else
  ((List.range ((l.length + n - 1) / n)).filterMap fun s => l[s * n]?)

/-! ### the 1-D drivers -/

section Drivers1D
variable {α : Type} [Zero α] [Add α] [Sub α] [Mul α] [DecidableEq α]

/-- `bsp_mixed_deriv_biform_1d(knotvec, du, dv, nqp, weightfunc)`.
`derivDv`, `derivDu` are `derivs[dv,:,:]`, `derivs[du,:,:]` (inputs, from `active_deriv` at the
nodes `q[0]`), `wf` the values of the weight function at the nodes (or `none`).
Returns the nodes (for the comparison of `q[0]`), the weights after `qweights *= wf`, and the
COO triples `(elMats.ravel(), (I, J))`. -/
def biform1d (half : α) (kv : List α) (p nqp : Nat) (xg wg : List α)
    (derivDv derivDu : List (List α)) (wf : Option (List α)) :
    List α × List α × List (Nat × Nat × α) :=
  let mesh := uniqueSorted kv
  let nspans := mesh.length - 1
  let q := iteratedQuadrature half xg wg mesh
  let qw := match wf with
    | none => q.2
    | some f => List.zipWith (· * ·) q.2 f
  let IJ := cooFromKv p nspans (spanIndices kv)
  (q.1, qw, assembleCustom nspans nqp derivDv derivDu IJ.1 IJ.2 qw)

variable [LT α] [DecidableLT α] [LE α] [DecidableLE α]

/-- `bsp_mixed_deriv_biform_1d_asym(knotvec1, knotvec2, du, dv, quadgrid, nqp)`.
`derivs1 = active_deriv(kv1, q[0], du)[du]` (trial), `derivs2 = active_deriv(kv2, q[0], dv)[dv]`
(test) are inputs.  `first_act*` come from `first_active_at` of the **first** node of every
quadrature cell. -/
def biform1dAsym (half : α) (kv1 : List α) (p1 : Nat) (kv2 : List α) (p2 : Nat) (quadgrid : List α)
    (nqp : Nat) (xg wg : List α) (derivs1 derivs2 : List (List α)) :
    List α × List α × List (Nat × Nat × α) :=
  let nspans := quadgrid.length - 1
  let q := iteratedQuadrature half xg wg quadgrid
  let firstPoints := everyNth q.1 nqp
  let fa1 := firstPoints.map fun u => findspan kv1 p1 u 0 - p1
  let fa2 := firstPoints.map fun u => findspan kv2 p2 u 0 - p2
  let IJ := cooCustom nspans derivs2.length derivs1.length fa2 fa1
  (q.1, q.2, assembleCustom nspans nqp derivs2 derivs1 IJ.1 IJ.2 q.2)

end Drivers1D

end Pyiga.Galerkin
