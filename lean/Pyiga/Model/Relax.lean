/-
L-sol (relaxation / multigrid part): `relaxation_cy.gauss_seidel(_indexed)`, the dense
branch and the sweep dispatch of `solvers.gauss_seidel`, `local_mg_step`,
`iterative_solve`, `twogrid`, and the shape of `HSpace.indices_to_smooth`,
transliterated (no Mathlib).

The iterate `x` is a `List α` (in-place updates become `List.set`), a CSR matrix is the
triple scipy stores (`indptr`, `indices`, `data`) and is *not* assumed canonical:
duplicates, explicit zeros and unsorted column indices are all representable.
The multigrid cycle and the drivers are generic in the vector type `V`; the linear
solvers behind `make_solver` are parameters (DESIGN §3).
-/

namespace Pyiga.Relax

/-! ### CSR storage -/

structure CSR (α : Type) where
  indptr : List Nat
  indices : List Nat
  data : List α
  deriving Repr

/-- stored entries `(column, value)` of row `i` in storage order:
`jj in range(row_ptr[i], row_ptr[i+1])`. -/
def CSR.row {α : Type} (A : CSR α) (i : Nat) : List (Nat × α) :=
  let start := A.indptr.getD i 0
  let stop := A.indptr.getD (i + 1) 0
  ((A.indices.zip A.data).drop start).take (stop - start)

section gs
variable {α : Type} [Zero α] [Add α] [Sub α] [Mul α] [Div α] [BEq α]

/-- inner loop of `relaxation_cy.gauss_seidel(_indexed)` (lines 21-26 / 55-60): returns
`(rsum, diag)`.  NB `diag` is *overwritten* by every stored `(i,i)` entry (the last one
wins), off-diagonal duplicates are all accumulated.  `x` is the array that is updated in
place (`x.getD j 0` = `x[j]`). -/
def gsRowAcc (i : Nat) (x : List α) : List (Nat × α) → α × α → α × α
  | [], acc => acc
  | (j, a) :: es, (rsum, diag) =>
    if i = j then gsRowAcc i x es (rsum, a) else gsRowAcc i x es (rsum + a * x.getD j 0, diag)

/-- one row update (lines 14-29): rows whose `diag` is `0.0` are skipped silently;
otherwise `x[i] = (b[i] - rsum) / diag`. -/
def gsUpdate (entries : List (Nat × α)) (b : Nat → α) (x : List α) (i : Nat) : List α :=
  let acc := gsRowAcc i x entries (0, 0)
  if acc.2 != 0 then x.set i ((b i - acc.1) / acc.2) else x

/-- a whole call of `gauss_seidel_indexed` (`reverse=False`) on the index array `idx`;
`gauss_seidel(…, row_start, row_stop, row_step)` is the same loop over
`range(row_start, row_stop, row_step)`. -/
def gsSweep (A : CSR α) (b : Nat → α) (idx : List Nat) (x : List α) : List α :=
  idx.foldl (fun x i => gsUpdate (A.row i) b x i) x

/-- dense branch of `solvers.gauss_seidel` (lines 92-96): `z = A[i].dot(x); a = A[i,i];
z -= a*x[i]; x[i] = (b[i] - z)/a` — no test for a zero diagonal. -/
def denseDot (n : Nat) (r : Nat → α) (x : List α) : α :=
  (List.range n).foldl (fun acc j => acc + r j * x.getD j 0) 0

def denseUpdate (n : Nat) (A : Nat → Nat → α) (b : Nat → α) (x : List α) (i : Nat) : List α :=
  let z := denseDot n (A i) x
  let a := A i i
  x.set i ((b i - (z - a * x.getD i 0)) / a)

def denseSweep (n : Nat) (A : Nat → Nat → α) (b : Nat → α) (idx : List Nat) (x : List α) : List α :=
  idx.foldl (fun x i => denseUpdate n A b x i) x

end gs

/-! ### sweep dispatch of `solvers.gauss_seidel` (lines 47-96) -/

inductive Sweep where
  | forward | backward | symmetric
  deriving Repr, DecidableEq

/-- Python `for _ in range(k): x = f(x)` -/
def iter {β : Type} (f : β → β) : Nat → β → β
  | 0, x => x
  | k + 1, x => iter f k (f x)

/-- `gauss_seidel(A, x, b, iterations, indices, sweep)`: `relax idx x` is one pass of the
sparse or dense kernel over the list `idx`; `N = A.shape[0]`.
forward = the index list (or `range(N)`), backward = the reversed list,
symmetric = `iterations` × (one forward pass, one backward pass). -/
def gaussSeidel {β : Type} (relax : List Nat → β → β) (N : Nat) (indices : Option (List Nat))
    (iterations : Nat) (sweep : Sweep) (x : β) : β :=
  let idx := indices.getD (List.range N)
  match sweep with
  | .forward => iter (relax idx) iterations x
  | .backward => iter (relax idx.reverse) iterations x
  | .symmetric => iter (fun x => relax idx.reverse (relax idx x)) iterations x

/-! ### `local_mg_step` (lines 174-241) -/

section mg
variable {V : Type} [Zero V] [Add V] [Sub V]

/-- the recursive `step(lv, x, f)`.  `A lv` applies `As[lv]`, `P lv` / `PT lv` apply
`Ps[lv]` / `Ps[lv].T` (so level `lv+1` uses `Ps[lv]`), `pre lv x f` / `post lv x f` are the
pre- and post-smoothers on `lv_inds[lv]`, `solve0 x f` is the level-0 branch
(`x1[lv_ind] = Bs[0].dot(f[lv_ind])`).  The coarse problem starts from the zero vector. -/
def mgStep (A P PT : Nat → V → V) (pre post : Nat → V → V → V) (solve0 : V → V → V) :
    Nat → V → V → V
  | 0, x, f => solve0 x f
  | lv + 1, x, f =>
    let x1 := pre (lv + 1) x f
    let r := f - A (lv + 1) x1
    let rc := PT lv r
    let x2 := x1 + P lv (mgStep A P PT pre post solve0 lv 0 rc)
    post (lv + 1) x2 f

end mg

/-! ### `iterative_solve` (lines 243-283) and `twogrid` (lines 129-172) -/

section drivers
variable {V : Type}

/-- the `while True` loop of `iterative_solve`: `conv x` is `norm((f - A@x)[active]) / res0 < tol`.
Result `some k` = `(x, k)`, `none` = `(x, np.inf)`.  The body runs at least once. -/
def iterLoop (step : V → V) (conv : V → Bool) (maxiter : Nat) : Nat → Nat → V → V × Option Nat
  | 0, it, x =>
    let x' := step x
    if conv x' then (x', some (it + 1)) else (x', none)
  | fuel + 1, it, x =>
    let x' := step x
    if conv x' then (x', some (it + 1))
    else if it + 1 ≥ maxiter then (x', none)
    else iterLoop step conv maxiter fuel (it + 1) x'

/-- the loop of `iterative_solve` (the code before fix 507ca7d entered it unconditionally and
raised `ZeroDivisionError` at the first test when `res0 == 0`). -/
def iterativeSolve (step : V → V) (conv : V → Bool) (maxiter : Nat) (x0 : V) : V × Option Nat :=
  iterLoop step conv maxiter (maxiter - 1) 0 x0

/-- `iterative_solve` as it is now (lines 264-285): `if res0 == 0: return x, 0` — a starting
vector that already solves the system on the active dofs is returned unchanged with
iteration count 0 — otherwise the loop above. -/
def iterativeSolveNow (res0IsZero : Bool) (step : V → V) (conv : V → Bool) (maxiter : Nat)
    (x0 : V) : V × Option Nat :=
  if res0IsZero then (x0, some 0) else iterativeSolve step conv maxiter x0

inductive TGExit where
  | converged     -- `res < tol * res0`
  | diverged      -- `res > 20 * res0`  ("Diverged")
  | tooMany       -- `numiter > maxiter` ("too many iterations")
  | outOfFuel     -- model only (never with fuel = maxiter + 1)
  deriving Repr, DecidableEq

/-- the three exits of `twogrid` in the order they are tested. -/
def tgJudge (small large : V → Bool) (maxiter : Nat) (us : V) (numiter : Nat) : Option TGExit :=
  if small us then some .converged
  else if large us then some .diverged
  else if numiter > maxiter then some .tooMany
  else none

/-- the `while True` loop of `twogrid`: `smooth` is `smoother(A, u, f)`, `corr u` is
`u + P·A_c⁻¹·Pᵀ(f − A u)`; the residual is judged *before* the correction is applied
and the correction is applied in every iteration, also the last. -/
def twogridLoop (smooth corr : V → V) (small large : V → Bool) (smoothSteps maxiter : Nat) :
    Nat → Nat → V → V × Nat × TGExit
  | 0, k, u => (u, k, .outOfFuel)
  | fuel + 1, k, u =>
    let us := iter smooth smoothSteps u
    let u' := corr us
    match tgJudge small large maxiter us (k + 1) with
    | some e => (u', k + 1, e)
    | none => twogridLoop smooth corr small large smoothSteps maxiter fuel (k + 1) u'

def twogrid (smooth corr : V → V) (small large : V → Bool) (smoothSteps maxiter : Nat) (u0 : V) :
    V × Nat × TGExit :=
  twogridLoop smooth corr small large smoothSteps maxiter (maxiter + 1) 0 u0

end drivers

/-! ### smoothing sets (`hierarchical.py` 671-757) -/

section smoothing
variable {ι : Type} [DecidableEq ι]

def sdiff (a d : List ι) : List ι := a.filter (fun e => !d.contains e)

/-- `new_indices()[lv][i]`: the active then the deactivated functions of level `lv`
(each already sorted) minus `index_dirichlet[lv][i]`, empty for `i ≠ lv`. -/
def newIndices (act deact : Nat → List ι) (dir : Nat → Nat → List ι) (lv i : Nat) : List ι :=
  if i = lv then sdiff (act i) (dir lv i) ++ sdiff (deact i) (dir lv i) else []

/-- common shape of `trunc_indices / func_supp_indices / cell_supp_indices`: start from
`new_indices()`, then for `lv - disparity ≤ i < lv` overwrite entry `[lv][i]` by
`extra lv i` minus `index_dirichlet[lv][i]` (`disparity = none` is `np.inf`).
The strategy `new` is `extra`-independent (`useExtra = false`). -/
def smoothIndices (useExtra : Bool) (disparity : Option Nat) (act deact : Nat → List ι)
    (dir extra : Nat → Nat → List ι) (lv i : Nat) : List ι :=
  let inWindow := match disparity with
    | none => true
    | some d => decide (lv ≤ i + d)
  if useExtra && decide (i < lv) && inWindow then sdiff (extra lv i) (dir lv i)
  else newIndices act deact dir lv i

/-- `_position_index(suplist, sublist)`: `k = suplist.index(candidate, k)` searches from the
previous hit onwards; `none` is Python's `ValueError` (candidate not found from `k` on). -/
def positionIndex (avail idx : List ι) : Option (List Nat) :=
  (idx.foldl (fun (st : Option (List Nat × Nat)) e =>
    match st with
    | none => none
    | some (out, k) =>
      let rest := avail.drop k
      if rest.contains e then let k' := k + rest.idxOf e; some (out ++ [k'], k') else none)
    (some ([], 0))).map (·.1)

/-- `raveled_to_virtual_canonical_indices(lv, indices)` with `avail l = ravel_global[lv][l]`. -/
def toCanonical (numlevels : Nat) (avail chosen : Nat → List ι) : Option (List Nat) :=
  ((List.range numlevels).foldl
    (fun (st : Option (List Nat × Nat)) l =>
      match st, positionIndex (avail l) (chosen l) with
      | some (out, n), some pos => some (out ++ pos.map (n + ·), n + (avail l).length)
      | _, _ => none)
    (some ([], 0))).map (·.1)

end smoothing

end Pyiga.Relax
