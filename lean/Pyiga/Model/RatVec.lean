/-
Exact rational vectors / dense matrices used by the C11 and C12 drivers to
instantiate the generic models of `Model/ODE.lean` and `Model/Relax.lean`
(no Mathlib).  The empty vector plays the role of Python's scalar `0` that
starts every `sum(...)` (it broadcasts: `[] + v = v`).

`solve` is an exact Gauss-Jordan elimination: it stands for the LAPACK/SuperLU
solvers behind `make_solver` (DESIGN §3: a solver is a parameter with contract
`A * solve b = b`; here the contract holds exactly, the implementation's
residuals are checked by the harness).
-/

namespace Pyiga.RatVec

structure Vec where
  d : List Rat
  deriving Repr, BEq

def addL : List Rat → List Rat → List Rat
  | [], v => v
  | u, [] => u
  | a :: u, b :: v => (a + b) :: addL u v

def subL : List Rat → List Rat → List Rat
  | [], v => v.map (fun b => -b)
  | u, [] => u
  | a :: u, b :: v => (a - b) :: subL u v

instance : Zero Vec := ⟨⟨[]⟩⟩
instance : Add Vec := ⟨fun u v => ⟨addL u.d v.d⟩⟩
instance : Sub Vec := ⟨fun u v => ⟨subL u.d v.d⟩⟩
instance : SMul Rat Vec := ⟨fun c v => ⟨v.d.map (c * ·)⟩⟩

abbrev Mat := List (List Rat)

def sumQ (l : List Rat) : Rat := l.foldl (· + ·) 0
def dot (u v : List Rat) : Rat := sumQ (List.zipWith (· * ·) u v)
def matVec (A : Mat) (v : Vec) : Vec := ⟨A.map (fun r => dot r v.d)⟩
def nsq (v : Vec) : Rat := dot v.d v.d
def ident (n : Nat) : Mat := (List.range n).map (fun i => (List.range n).map (fun j => if i = j then 1 else 0))
def matSub (A B : Mat) : Mat := List.zipWith (fun r s => List.zipWith (· - ·) r s) A B
def matScale (c : Rat) (A : Mat) : Mat := A.map (·.map (c * ·))
def transpose (n : Nat) (A : Mat) : Mat := (List.range n).map (fun j => A.map (fun r => r.getD j 0))
def matMul (A B : Mat) (ncolsB : Nat) : Mat :=
  let Bt := transpose ncolsB B
  A.map (fun r => Bt.map (fun c => dot r c))

/-- Gauss-Jordan on the augmented matrix `[A | b]`; `none` iff `A` is singular. -/
def solve (A : Mat) (b : List Rat) : Option (List Rat) :=
  let n := A.length
  let aug : Mat := List.zipWith (fun r x => r ++ [x]) A b
  let step (rows : Mat) (k : Nat) : Option Mat :=
    match (List.range n).find? (fun p => decide (k ≤ p) && (rows.getD p []).getD k 0 != 0) with
    | none => none
    | some p =>
      let rk := rows.getD k []
      let rp := rows.getD p []
      let rows := (rows.set k rp).set p (if p = k then rp else rk)
      let pv := rp.getD k 0
      let pivN := rp.map (· / pv)
      some (rows.zipIdx.map (fun (r, i) =>
        if i = k then pivN else
          let f := r.getD k 0
          List.zipWith (fun a c => a - f * c) r pivN))
  match (List.range n).foldlM step aug with
  | none => none
  | some rows => some (rows.map (fun r => r.getD n 0))

def solveD (A : Mat) (b : Vec) : Vec := ⟨(solve A b.d).getD (b.d.map (fun _ => 0))⟩
def nonsingular (A : Mat) : Bool := (solve A (A.map (fun _ => 0))).isSome

end Pyiga.RatVec
