/-
L-asm: the driver part of the generated assemblers, transliterated (no Mathlib) from

  * `pyiga/codegen/cython.py:389-463`  generated `entry_impl` (support intersection in units of
    `nqp`, early return, bbox shift, pointer offsets) and `:325-387` `combine` (loop nest, `r +=`)
  * `pyiga/codegen/cython.py:853-969` = `pyiga/genericasm.pxi`  `entry`, `entry1`,
    `multi_entries(_chunk)`, `multi_blocks`, `assemble_vector`
  * `pyiga/assemble_tools_cy.pyx:30-49` `from_seq1/2/3`, `:149-188` `make_intv`,
    `intersect_intervals`, `next_lexicographic1/2/3`, `:387-391` `chunk_tasks`
  * `pyiga/assemble.py:706-813` `assemble_entries`, `_coo_to_csr_indices`, `assemble_entries_vec`
  * `pyiga/codegen/cython.py:1062-1141` `generic_assemble_core_vec_*` / `_asm_core_vec_*_kernel`
  * `pyiga/_hdiscr.py:5-11` `_assemble_partial_rows`

The integrand is an abstract function of the quadrature node (the harness feeds the per-node
values; the theorems take it as a function of the jets).  Values live in any type with `0`
and `+` (`Rat` in the driver, an arbitrary commutative monoid/ring in the proofs).
-/
import Pyiga.Model.Index
import Pyiga.Model.MLMatrix

namespace Pyiga.Asm
open Pyiga.Index Pyiga.ML

/-! ## `from_seq{1,2,3}` of `assemble_tools_cy.pyx` (first digit is *not* reduced) -/

/-- `out[d-1] = i % n[d-1]; i /= n[d-1]; …; out[0] = i` -/
def fromSeqC (i : Nat) : List Nat → List Nat
  | [] => []
  | _ :: rest => (i / prod rest) :: fromSeq i rest

/-! ## `entry_impl` and `combine` -/

/-- `IntInterval` -/
structure Intv where
  a : Nat
  b : Nat
  deriving Repr, DecidableEq

/-- `intersect_intervals(intva, intvb) = make_intv(max(a.a, b.a), min(a.b, b.b))` -/
def intersect (x y : Intv) : Intv := ⟨max x.a y.a, min x.b y.b⟩

/-- the loop nest `for i0 in range(n0): for i1 in range(n1): …` as the list of `(i0,i1,…)`
in execution order -/
def loopNest : List Nat → List (List Nat)
  | [] => [[]]
  | n :: ns => (List.range n).flatMap (fun i => (loopNest ns).map (i :: ·))

/-- generated `combine`: `r = 0.0; for …: r += <kernel at node>; result[0] = r`.
`kernel q` is the value of the summand at local node `q` (relative to the pointers passed). -/
def combine [Zero α] [Add α] (n : List Nat) (kernel : List Nat → α) : α :=
  (loopNest n).foldl (fun r q => r + kernel q) 0

/-- the per-axis header of the generated `entry_impl` for a bilinear form: for each axis `k`
```
intv = intersect_intervals(make_intv(S{u.space}_meshsupp{k}[j[k],0], …[j[k],1]),
                           make_intv(S{v.space}_meshsupp{k}[i[k],0], …[i[k],1]))
if intv.a >= intv.b: return   # no intersection of support
g_sta[k] = intv.a - self.bbox_ofs[k];  g_end[k] = intv.b - self.bbox_ofs[k]
```
`none` = the early `return` (result untouched).  `suppU`/`suppV` are the rows
`meshsupp{k}[j[k]]`, `meshsupp{k}[i[k]]` already looked up; `ofs = bbox_ofs` (zeros unless on-demand). -/
def gaussRange2 : List Intv → List Intv → List Nat → Option (List (Nat × Nat))
  | su :: sus, sv :: svs, o :: os =>
      let intv := intersect su sv
      if intv.a ≥ intv.b then none
      else (gaussRange2 sus svs os).map ((intv.a - o, intv.b - o) :: ·)
  | _, _, _ => some []

/-- arity 1: `intv = make_intv(meshsupp[i[k],0], meshsupp[i[k],1])`, no emptiness test -/
def gaussRange1 : List Intv → List Nat → List (Nat × Nat)
  | s :: ss, o :: os => (s.a - o, s.b - o) :: gaussRange1 ss os
  | _, _ => []

/-- call of `combine` from `entry_impl`: sizes `g_end[k]-g_sta[k]`, every array pointer advanced
by `g_sta[k]` along axis `k`, so local node `q` is node `g_sta + q` of the assembler's arrays. -/
def runCombine [Zero α] [Add α] (g : List (Nat × Nat)) (kernel : List Nat → α) : α :=
  combine (g.map (fun p => p.2 - p.1)) (fun q => kernel (List.zipWith (· + ·) (g.map (·.1)) q))

/-- `entry_impl(i, j, result)` for arity 2 with `result` pre-initialised to `0` by every caller -/
def entryImpl2 [Zero α] [Add α] (suppU suppV : List Intv) (ofs : List Nat) (kernel : List Nat → α) : α :=
  match gaussRange2 suppU suppV ofs with
  | none => 0
  | some g => runCombine g kernel

/-- `entry_impl(i, NULL, result)` for arity 1 -/
def entryImpl1 [Zero α] [Add α] (supp : List Intv) (ofs : List Nat) (kernel : List Nat → α) : α :=
  runCombine (gaussRange1 supp ofs) kernel

/-- tables of one space: per axis the `nqp * mesh_support_idx_all()` rows -/
abbrev SuppTable := List (List Intv)

/-- `S_meshsupp{k}[I[k]]` for every axis -/
def lookupSupp (tab : SuppTable) (I : List Nat) : List Intv :=
  List.zipWith (fun (t : List Intv) (i : Nat) => t.getD i ⟨0, 0⟩) tab I

/-- a scalar assembler instance as the base class sees it -/
structure Asm (α : Type) where
  S0ndofs : List Nat
  S1ndofs : List Nat
  suppU : SuppTable          -- tables of the space of the trial function `u` (indexed by `j`)
  suppV : SuppTable          -- tables of the space of the test function `v` (indexed by `i`)
  ofs : List Nat
  /-- summand at (multi-index of v, multi-index of u, local node) -/
  kernel : List Nat → List Nat → List Nat → α

/-- `BaseAssembler.entry(i, j)`:
`from_seq(i, self.S1_ndofs, I); from_seq(j, self.S0_ndofs, J); self.entry_impl(I, J, &result)` -/
def Asm.entry [Zero α] [Add α] (A : Asm α) (i j : Nat) : α :=
  let I := fromSeqC i A.S1ndofs
  let J := fromSeqC j A.S0ndofs
  entryImpl2 (lookupSupp A.suppU J) (lookupSupp A.suppV I) A.ofs (A.kernel I J)

/-- `BaseAssembler.entry1(i)`: `from_seq(i, self.S0_ndofs, I); self.entry_impl(I, NULL, &result)` -/
def Asm.entry1 [Zero α] [Add α] (A : Asm α) (i : Nat) : α :=
  let I := fromSeqC i A.S0ndofs
  entryImpl1 (lookupSupp A.suppV I) A.ofs (A.kernel I [])

/-! ## `next_lexicographic` and `assemble_vector` -/

/-- `next_lexicographic{d}` on reversed lists (last axis first):
```
for i in reversed(range(d)):
    cur[i] += 1
    if cur[i] == end[i]:
        if i == 0: return 0
        else: cur[i] = start[i]
    else: return 1
```
`none` = `return 0`. -/
def nextLexRev : List Nat → List Nat → List Nat → Option (List Nat)
  | [c], [_], [e] => if c + 1 = e then none else some [c + 1]
  | c :: cs, s :: ss, e :: es =>
      if c + 1 = e then (nextLexRev cs ss es).map (s :: ·) else some ((c + 1) :: cs)
  | _, _, _ => none

def nextLex (cur start stop : List Nat) : Option (List Nat) :=
  (nextLexRev cur.reverse start.reverse stop.reverse).map List.reverse

/-- the `while True:` loop of `assemble_vector`: multi-indices passed to `entry_impl`, in order;
output position `m` (the pointer `out` advanced `m` times) receives the `m`-th of them. -/
def vectorVisits (ndofs : List Nat) : Nat → List Nat → List (List Nat)
  | 0, _ => []
  | fuel + 1, I => I :: (match nextLex I (ndofs.map (fun _ => 0)) ndofs with
      | none => []
      | some I' => vectorVisits ndofs fuel I')

/-- `assemble_vector()` raveled in C order: `out[m] = entry_impl(I_m)` -/
def assembleVector (ndofs : List Nat) (e : List Nat → α) : List α :=
  (vectorVisits ndofs (prod ndofs) (ndofs.map (fun _ => 0))).map e

/-! ## thread chunking -/

/-- `chunk_tasks(tasks, num_chunks)`:
`n = len(tasks) // num_chunks + 1; for i in range(0, len(tasks), n): yield tasks[i:i+n]` -/
def chunkTasks (tasks : List α) (numChunks : Nat) : List (List α) :=
  let n := tasks.length / numChunks + 1
  (List.range ((tasks.length + n - 1) / n)).map (fun c => (tasks.drop (c * n)).take n)

/-- `multi_entries(indices)`: with one thread the single call of `multi_entries_chunk`, otherwise
`thread_pool.map(asm_chunk, chunk_tasks(idx_arr, T), chunk_tasks(result, T))`: worker `c`
receives the `c`-th slice of both arrays and stores `entry(idx)` at the same relative position.
The returned array is the concatenation of the result slices. -/
def multiEntries (e : Nat → Nat → α) (idx : List (Nat × Nat)) (threads : Nat) : List α :=
  if threads ≤ 1 then idx.map (fun p => e p.1 p.2)
  else ((chunkTasks idx threads).map (fun ch => ch.map (fun p => e p.1 p.2))).flatten

/-- memory writes: `(position, value)` applied in list order to an array given as a function -/
def applyWrites (mem : Nat → α) (ws : List (Nat × α)) : Nat → α :=
  ws.foldl (fun m (w : Nat × α) => fun s => if s = w.1 then w.2 else m s) mem

/-- the writes worker `c` performs on the shared `result` array: its output slice starts at
`c * n` (same `n` as the index slice because both arrays have the same length). -/
def workerWrites (e : Nat → Nat → α) (idx : List (Nat × Nat)) (threads c : Nat) : List (Nat × α) :=
  let n := idx.length / threads + 1
  (((idx.drop (c * n)).take n).zipIdx).map (fun (p : (Nat × Nat) × Nat) => (c * n + p.2, e p.1.1 p.1.2))

/-! ## `assemble_entries` (scalar) -/

abbrev Triples (α : Type) := List (Nat × Nat × α)

/-- value of the matrix denoted by COO triples at `(i,j)`: duplicates are summed
(`scipy.sparse.coo_matrix(...).tocsr()`), absent positions are `0`. -/
def cooGet [Zero α] [Add α] (t : Triples α) (i j : Nat) : α :=
  (t.filter (fun x => x.1 = i ∧ x.2.1 = j)).foldl (fun acc x => acc + x.2.2) 0

/-- `assemble_entries` for a scalar bilinear form, before `asformat`:
```
IJ = S.nonzero(lower_tri=symmetric); entries = asm.multi_entries(column_stack(IJ))
A = coo_matrix((entries, IJ)).tocsr()
if symmetric:
    off_diag = nonzero(I != J)
    A += coo_matrix((entries[off_diag], (J[off_diag], I[off_diag])))
```
as the concatenated triple list (`+` of sparse matrices = union of triples with summation). -/
def assembleEntries (nz : List (Nat × Nat)) (symmetric : Bool) (e : Nat → Nat → α) : Triples α :=
  let IJ := MLStructure.lowerFilter symmetric nz
  let A := IJ.map (fun p => (p.1, p.2, e p.1 p.2))
  if symmetric then
    A ++ ((IJ.filter (fun p => p.1 ≠ p.2)).map (fun p => (p.2, p.1, e p.1 p.2)))
  else A

/-- `_assemble_partial_rows(asm, rows)` with the row-wise nonzeros of the structure -/
def assemblePartialRows (S : MLStructure) (rows : List Nat) (e : Nat → Nat → α) : Triples α :=
  (S.nonzerosForRows rows).map (fun t => (t.1, t.2.1, e t.1 t.2.1))

/-! ## vector-valued assembly -/

/-- `_coo_to_csr_indices(IJ, shape)`: position list of the blocks in CSR order (stable by row,
then column — `tocsr()` of a COO matrix without duplicates sorts by (row, col)). -/
def cooToCsrPermut (IJ : List (Nat × Nat)) : List Nat :=
  ((IJ.zipIdx).mergeSort (fun a b => a.1.1 < b.1.1 || (a.1.1 == b.1.1 && a.1.2 ≤ b.1.2))).map (·.2)

/-- scalar triples of a block `B` (row-major list of `br*bc` values) placed at block position `(I,J)` -/
def blockTriples (br bc : Nat) (I J : Nat) (B : List α) [Inhabited α] : Triples α :=
  (List.range br).flatMap (fun r => (List.range bc).map (fun c => (I * br + r, J * bc + c, B.getD (r * bc + c) default)))

/-- transposed block (`np.swapaxes(blocks, -1, -2)`) of a `br x bc` block, as a `bc x br` row-major list -/
def blockT (br bc : Nat) (B : List α) [Inhabited α] : List α :=
  (List.range bc).flatMap (fun c => (List.range br).map (fun r => B.getD (r * bc + c) default))

/-- `assemble_entries_vec`, `layout == 'packed' and format == 'bsr'` branch:
blocks of the (lower-triangular) block pattern, plus for `symmetric` the transposed strictly-lower
blocks at the mirrored block positions.  `nc = (br, bc) = num_components()[::-1]`. -/
def assembleVecBsr [Inhabited α] (nz : List (Nat × Nat)) (symmetric : Bool) (br bc : Nat)
    (blk : Nat → Nat → List α) : Triples α :=
  let IJ := MLStructure.lowerFilter symmetric nz
  let A := IJ.flatMap (fun p => blockTriples br bc p.1 p.2 (blk p.1 p.2))
  if symmetric then
    A ++ ((IJ.filter (fun p => p.1 ≠ p.2)).flatMap (fun p => blockTriples br bc p.2 p.1 (blockT br bc (blk p.1 p.2))))
  else A

/-- the skip test of `_asm_core_vec_{d}d_kernel`:
level 0: `diag0 > 0 → return`; level k: `diag0 == 0 and … and diag{k-1} == 0 and diag{k} > 0 → continue`.
Returns `true` if the block `(i, j)` (multi-indices) is skipped. -/
def vecSkip : List Nat → List Nat → Bool
  | i :: is, j :: js => if j > i then true else if j = i then vecSkip is js else false
  | _, _ => false

/-- writes of the generic vector core for one data position `μ` (per-level pattern positions),
in program order: the block from `entry_impl` into `entries[μ, :]`, then for `symmetric` and an
off-diagonal block
```
for row in range(numcomp[1]):
    for col in range(numcomp[0]):
        entries[transp(μ), col*numcomp[0] + row] = entries[μ, row*numcomp[0] + col]
```
`nc0 = numcomp[0]` (components of `u`), `nc1 = numcomp[1]` (components of `v`).
A write is `((μ', slot), value)`. -/
def coreVecWrites [Inhabited α] (bidx : List Pattern) (transp : List (List Nat)) (symmetric : Bool)
    (nc0 nc1 : Nat) (blk : List Nat → List Nat → List α) (μ : List Nat) : List ((List Nat × Nat) × α) :=
  let ij := List.zipWith (fun (pat : Pattern) (m : Nat) => pat.getD m (0, 0)) bidx μ
  let i := ij.map (·.1)
  let j := ij.map (·.2)
  if symmetric && vecSkip i j then [] else
  let B := blk i j
  let own := (List.range (nc0 * nc1)).map (fun s => ((μ, s), B.getD s default))
  if symmetric && i != j then
    let μT := List.zipWith (fun (t : List Nat) (m : Nat) => t.getD m 0) transp μ
    own ++ ((List.range nc1).flatMap (fun row => (List.range nc0).map (fun col =>
      ((μT, col * nc0 + row), B.getD (row * nc0 + col) default))))
  else own

/-- all writes of `generic_assemble_core_vec_{d}d` in sequential order (`mu0` ascending, inner
loops nested), i.e. over `loopNest (MU0, …, MU{d-1})` -/
def coreVecAllWrites [Inhabited α] (bidx : List Pattern) (transp : List (List Nat)) (symmetric : Bool)
    (nc0 nc1 : Nat) (blk : List Nat → List Nat → List α) : List ((List Nat × Nat) × α) :=
  (loopNest (bidx.map List.length)).flatMap (coreVecWrites bidx transp symmetric nc0 nc1 blk)

/-- final `entries` array (`np.zeros` initially) read at `(μ, slot)`: last write wins -/
def readEntries [Zero α] (ws : List ((List Nat × Nat) × α)) (μ : List Nat) (s : Nat) : α :=
  ws.foldl (fun acc w => if w.1 = (μ, s) then w.2 else acc) 0

/-- `X.asmatrix()` of the packed ML matrix `S_base.join(dense(nc))`, data read through `rd μ slot`
(= `entries[μ, slot]`): triples in data order. -/
def packedTriplesWith (bs : List (Nat × Nat)) (bidx : List Pattern) (nc1 nc0 : Nat)
    (rd : List Nat → Nat → α) : Triples α :=
  let S : MLStructure := { bs := bs ++ [(nc1, nc0)], bidx := bidx ++ [denseIJ nc1 nc0] }
  (loopNest (S.bidx.map List.length)).map (fun ν =>
    let p := S.entryAt ν
    (p.1, p.2, rd (ν.take bidx.length) (ν.getD bidx.length 0)))

/-- `X.reorder((dim,) + tuple(range(dim)))` then `asmatrix()`: the component level moved to the
front, data transposed accordingly (`newdata[c, μ] = data[μ, c]`). -/
def blockedTriplesWith (bs : List (Nat × Nat)) (bidx : List Pattern) (nc1 nc0 : Nat)
    (rd : List Nat → Nat → α) : Triples α :=
  let S : MLStructure := { bs := (nc1, nc0) :: bs, bidx := denseIJ nc1 nc0 :: bidx }
  (loopNest (S.bidx.map List.length)).map (fun ν =>
    let p := S.entryAt ν
    (p.1, p.2, rd (ν.drop 1) (ν.getD 0 0)))

/-- with the data of the generic core (`readEntries`: last write wins).  The driver passes a
hash-map reader built from the same write list (same last-write-wins semantics) for speed. -/
def packedTriples [Zero α] (bs : List (Nat × Nat)) (bidx : List Pattern) (nc1 nc0 : Nat)
    (ws : List ((List Nat × Nat) × α)) : Triples α :=
  packedTriplesWith bs bidx nc1 nc0 (readEntries ws)

def blockedTriples [Zero α] (bs : List (Nat × Nat)) (bidx : List Pattern) (nc1 nc0 : Nat)
    (ws : List ((List Nat × Nat) × α)) : Triples α :=
  blockedTriplesWith bs bidx nc1 nc0 (readEntries ws)

/-- the data positions `μ` (in loop order) which the symmetric vector core skips (block above the diagonal) -/
def coreVecSkipped (bidx : List Pattern) : List Bool :=
  (loopNest (bidx.map List.length)).map (fun μ =>
    let ij := List.zipWith (fun (pat : Pattern) (m : Nat) => pat.getD m (0, 0)) bidx μ
    vecSkip (ij.map (·.1)) (ij.map (·.2)))

/-- the explicit permutation between the layouts: packed index `I*nc + c` ↦ blocked index `c*N + I` -/
def packedToBlocked (N nc : Nat) (r : Nat) : Nat := (r % nc) * N + r / nc

/-- canonical form of a triple list for comparison: sorted positions, duplicates summed -/
def canonical [Zero α] [Add α] (t : Triples α) : Triples α :=
  let keys := (t.map (fun x => (x.1, x.2.1))).eraseDups
  let sorted := keys.mergeSort (fun a b => a.1 < b.1 || (a.1 == b.1 && a.2 ≤ b.2))
  sorted.map (fun k => (k.1, k.2, cooGet t k.1 k.2))

end Pyiga.Asm
