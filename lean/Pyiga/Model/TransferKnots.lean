/-
C05 model, part 1 (no Mathlib): knot insertion as coded in `pyiga/bspline.py`.

  * `findspan`        — `bspline_cy.pyx_findspan` (binary search, last-interval special case)
  * `insEntry`        — entry `(j,i)` of the matrix built by `bspline.knot_insertion(kv, u)`
                        (the three loops of lines 725-734 write disjoint positions)
  * `knotInsertion`   — the `(n+1) × n` matrix as a dense list of rows
  * `insertKnot`      — the refined knot sequence (`np.sort(np.concatenate((kv,[u])))` for
                        `kv[k] ≤ u < kv[k+1]`)
  * `prolongationExact` — composition of single insertions of the knots of `kv2` missing in
                        `kv1` (the *specification* of `bspline.prolongation`, which instead
                        solves the Greville collocation system and prunes `|x| < 1e-15`)

Everything is generic in the scalar type through core operator classes, so the same
definitions are executed over `Rat` by the driver and reasoned about over an arbitrary
linearly ordered field in `Pyiga/Proofs/Boehm.lean`.
-/

namespace Pyiga.Transfer

section Generic
variable {α : Type} [Zero α] [One α] [Add α] [Sub α] [Mul α] [Div α]

/-- Entry `(j,i)` of `knot_insertion(kv,u)` where `k = kv.findspan(u)` and `t = kv.kv`:
```
for i in range(k - p + 1):        P[i, i]   = 1.0
for i in range(k + 1, n + 1):     P[i, i-1] = 1.0
for i in reversed(range(k-p+1, k+1)):
    a = (u - knots[i]) / (knots[i+p] - knots[i]);  P[i, i-1] = 1 - a;  P[i, i] = a
```
(`k - p + 1` is `k + 1 - p` in `Nat`; the implementation always has `k ≥ p`.) -/
def insEntry (t : Nat → α) (p k : Nat) (u : α) (j i : Nat) : α :=
  if j < k + 1 - p then (if i = j then 1 else 0)
  else if k + 1 ≤ j then (if i + 1 = j then 1 else 0)
  else
    let a := (u - t j) / (t (j + p) - t j)
    if i + 1 = j then 1 - a else if i = j then a else 0

/-- knot sequence after inserting `u` behind position `k` -/
def insertKnot (t : Nat → α) (k : Nat) (u : α) : Nat → α :=
  fun j => if j ≤ k then t j else if j = k + 1 then u else t (j - 1)

/-- a knot list as a total sequence (padded with its last entry, so sortedness is kept) -/
def seqOf (kv : List α) : Nat → α :=
  fun i => kv.getD i (kv.getLastD 0)

/-- the dense `(n+1) × n` matrix of `knot_insertion` (`n = len(kv) - p - 1`), span `k` given -/
def knotInsertionAt (kv : List α) (p k : Nat) (u : α) : List (List α) :=
  let n := kv.length - p - 1
  (List.range (n + 1)).map fun j => (List.range n).map fun i => insEntry (seqOf kv) p k u j i

/-- list version of `insertKnot` -/
def insertKnotList (kv : List α) (k : Nat) (u : α) : List α :=
  kv.take (k + 1) ++ u :: kv.drop (k + 1)

end Generic

section Ordered
variable {α : Type} [LT α] [DecidableLT α] [LE α] [DecidableLE α]

/-- the `while b - a > 1` loop of `pyx_findspan` with fuel -/
def findspanLoop (t : Nat → α) (u : α) : Nat → Nat → Nat → Nat
  | 0, a, _ => a
  | fuel + 1, a, b =>
      if b - a > 1 then
        let c := a + (b - a) / 2
        if u < t c then findspanLoop t u fuel a c else findspanLoop t u fuel c b
      else a

/-- `pyx_findspan(kv, p, u)`:
`if u >= kv[n-p-1]: return n-p-2` else bisection on `[0, n-1]` with test `kv[c] > u`. -/
def findspan [Zero α] (kv : List α) (p : Nat) (u : α) : Nat :=
  let n := kv.length
  let t := seqOf kv
  if t (n - p - 1) ≤ u then n - p - 2
  else findspanLoop t u n 0 (n - 1)

end Ordered

section Exec
variable {α : Type} [Zero α] [One α] [Add α] [Sub α] [Mul α] [Div α]
  [LT α] [DecidableLT α] [LE α] [DecidableLE α] [DecidableEq α]

/-- `knot_insertion(kv, u)` -/
def knotInsertion (kv : List α) (p : Nat) (u : α) : List (List α) :=
  knotInsertionAt kv p (findspan kv p u) u

/-- dense product of row lists, skipping zero factors -/
def denseMul (A B : List (List α)) : List (List α) :=
  let nc := (B.headD []).length
  A.map fun row =>
    (row.zip B).foldl (fun acc (a, brow) =>
        if a = 0 then acc else (acc.zip brow).map fun (x, b) => x + a * b)
      (List.replicate nc 0)

/-- knots of the sorted list `fine` that are missing (with multiplicity) from sorted `coarse` -/
def missingKnots : List α → List α → List α
  | [], fine => fine
  | _, [] => []
  | c :: cs, f :: fs => if f = c then missingKnots cs fs else f :: missingKnots (c :: cs) fs

/-- exact prolongation `kv1 → kv2` as the product of the coded single-knot insertions,
inserting the missing knots one after the other (left to right).  Returns the matrix and the
final knot list (which must equal `kv2`). -/
def prolongationExact (kv1 kv2 : List α) (p : Nat) : List (List α) × List α :=
  let n := kv1.length - p - 1
  let I : List (List α) := (List.range n).map fun i => (List.range n).map fun j => if i = j then 1 else 0
  (missingKnots kv1 kv2).foldl (fun (acc : List (List α) × List α) u =>
      let kv := acc.2
      let k := findspan kv p u
      (denseMul (knotInsertionAt kv p k u) acc.1, insertKnotList kv k u))
    (I, kv1)

end Exec

end Pyiga.Transfer
