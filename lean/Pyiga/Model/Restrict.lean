/-
L-la (C10): elimination of Dirichlet dofs, transliterated from pyiga/assemble.py
(no Mathlib; generic in the scalar type so that proofs instantiate a commutative ring
and the driver instantiates `Rat`).

  * `RestrictedLinearSystem` (assemble.py:571-655): mask, `R_free = I[mask]`,
    `R_elim = I[~mask]` (rows in increasing index order), values permuted by the stable
    argsort of the indices (the D5 repair), scalar `b`/`values` broadcasting, `elim_rows`,
    `restrict / restrict_rhs / restrict_matrix / extend / complete`
  * `combine_bcs` (554-568), `_drop_nans` (387-393)
  * `compute_dirichlet_bc` / `compute_dirichlet_bcs` index bookkeeping (395-490): the
    interpolated coefficients `dircoeffs` are an *input* of the model (the interpolation
    solve is not modelled here)
  * `Multipatch.compute_dirichlet_bcs` index translation (1372-1392): `patch_to_global_idx`
    is an input
  * `compute_initial_condition_01` (492-551): index part + the 2×2 solve in closed form
  * `bspline._parse_bdspec` (bspline.py:13-33)

Selection matrices are represented by their row lists: `R = I[rows]`, so
`R.dot(u) = gather rows u` and `R.T.dot(w) = scatter n rows w`; the sparse transposed
product *sums* contributions of equal row numbers (there are none when `rows` has no
repetitions, which holds for `I[mask]`).

Assumption of the whole file: indices are natural numbers (numpy would wrap negative
indices; that is outside the property's domain `indices ⊆ [0,n)`).
-/
import Pyiga.Model.Slice

namespace Pyiga.Restrict
open Pyiga.Index Pyiga.Slice

/-- exception kinds of the Python code that the model reproduces -/
inductive Err | index | value | attr | assertion | linalg
  deriving DecidableEq, Repr

def Err.ofSlice : Slice.Err → Err
  | .index => .index
  | .value => .value

/-- a Python argument that is either a scalar or an array -/
inductive ScalarOr (α : Type) where
  | scalar (v : α)
  | array (vs : List α)
  deriving Repr

/-- the vector a scalar-or-array argument stands for after `np.broadcast_to(·, k)`
(`if np.isscalar(b): b = np.broadcast_to(b, A.shape[0])`) -/
def ScalarOr.toList {α : Type} (k : Nat) : ScalarOr α → List α
  | .scalar v => List.replicate k v
  | .array vs => vs

section algebra
variable {α : Type} [Zero α] [Add α] [Sub α] [Mul α]

/-- rows of `R_free = I[mask]`: the non-eliminated dofs in increasing order
(`mask = ones(n); mask[list(indices)] = False`). -/
def free (n : Nat) (idx : List Nat) : List Nat :=
  (List.range n).filter (fun i => !idx.contains i)

/-- rows of `R_elim = I[np.logical_not(mask)]`: the eliminated dofs in increasing order. -/
def elim (n : Nat) (idx : List Nat) : List Nat :=
  (List.range n).filter (fun i => idx.contains i)

/-- insert a pair in front of the first pair whose index is `≥` its own -/
def insertPair (p : Nat × α) : List (Nat × α) → List (Nat × α)
  | [] => [p]
  | q :: qs => if p.1 ≤ q.1 then p :: q :: qs else q :: insertPair p qs

/-- stable insertion sort of `(index, value)` pairs by index (pairs with equal indices keep
their input order, as with `kind='stable'`) -/
def sortPairs : List (Nat × α) → List (Nat × α)
  | [] => []
  | p :: ps => insertPair p (sortPairs ps)

/-- the `(index, value)` pairs in the order of `np.argsort(indices, kind='stable')` -/
def sortedPairs (idx : List Nat) (vals : List α) : List (Nat × α) :=
  sortPairs (idx.zip vals)

/-- `np.asarray(values)[np.argsort(indices, kind='stable')]` (for `len(values) ≥ len(indices)`;
surplus values are never addressed by the permutation, exactly as in numpy). -/
def sortedVals (idx : List Nat) (vals : List α) : List α :=
  (sortedPairs idx vals).map (·.2)

/-- `R.dot(u)` for the selection matrix with rows `l`. -/
def gather (l : List Nat) (u : List α) : List α := l.map (fun i => u.getD i 0)

/-- entry `i` of `R.T.dot(w)`: sum of the `w[k]` with `l[k] = i`. -/
def scatterAt (l : List Nat) (w : List α) (i : Nat) : α :=
  (((l.zip w).filter (fun p => p.1 == i)).map (·.2)).sum

/-- `R.T.dot(w)` for the selection matrix with rows `l` and `n` columns. -/
def scatter (n : Nat) (l : List Nat) (w : List α) : List α :=
  (List.range n).map (scatterAt l w)

def vadd (u v : List α) : List α := List.zipWith (· + ·) u v
def vsub (u v : List α) : List α := List.zipWith (· - ·) u v

/-- `Σ_{j<n} f j` -/
def sumRange (n : Nat) (f : Nat → α) : α := ((List.range n).map f).sum

/-- inner product of a matrix row with a vector, both of length `n` -/
def dotN (n : Nat) (row u : List α) : α := sumRange n (fun j => row.getD j 0 * u.getD j 0)

/-- `A.dot(u)` for a matrix with `n` columns given as a list of rows -/
def matVec (n : Nat) (A : List (List α)) (u : List α) : List α := A.map (fun row => dotN n row u)

/-- entry `(r, c)` of a matrix given as a list of rows -/
def entry (B : List (List α)) (r c : Nat) : α := (B.getD r []).getD c 0

/-- `R_v.dot(B).dot(R_f.T)` for selection matrices with rows `rv`, `rf`. -/
def selectMatrix (rv rf : List Nat) (B : List (List α)) : List (List α) :=
  rv.map (fun r => rf.map (fun c => entry B r c))

/-- the state of a constructed `RestrictedLinearSystem` -/
structure Sys (α : Type) where
  /-- `A.shape[0]`, `A.shape[1]` -/
  m : Nat
  n : Nat
  /-- rows of `R_free`, `R_elim`, `R_free_v`, `R_elim_v` -/
  rfree : List Nat
  relim : List Nat
  rfreeV : List Nat
  relimV : List Nat
  /-- `self.values` (in the order of `R_elim`) -/
  values : List α
  /-- `self.A` (dense rows), `self.b` -/
  A : List (List α)
  b : List α

/-- `restrict(u) = R_free.dot(u)` -/
def Sys.restrict (S : Sys α) (u : List α) : List α := gather S.rfree u
/-- `restrict_rhs(f) = R_free_v.dot(f)` -/
def Sys.restrictRhs (S : Sys α) (f : List α) : List α := gather S.rfreeV f
/-- `restrict_matrix(B) = R_free_v.dot(B).dot(R_free.T)` -/
def Sys.restrictMatrix (S : Sys α) (B : List (List α)) : List (List α) :=
  selectMatrix S.rfreeV S.rfree B
/-- `extend(u) = R_free.T.dot(u)` -/
def Sys.extend (S : Sys α) (u : List α) : List α := scatter S.n S.rfree u
/-- `complete(u) = extend(u) + R_elim.T.dot(values)` -/
def Sys.complete (S : Sys α) (u : List α) : List α :=
  vadd (S.extend u) (scatter S.n S.relim S.values)

/-- `if np.isscalar(values): values = np.broadcast_to(values, indices.shape[0])`
`else: values = np.asarray(values)[np.argsort(indices, kind='stable')]`.
A scalar needs `indices.shape` (AttributeError for a list/tuple); fancy indexing with the
permutation raises IndexError when there are fewer values than indices. -/
def valuesOf (idxIsArray : Bool) (idx : List Nat) (vals : ScalarOr α) : Except Err (List α) :=
  match vals with
  | .scalar v => if idxIsArray then .ok (List.replicate idx.length v) else .error .attr
  | .array vs => if vs.length < idx.length then .error .index else .ok (sortedVals idx vs)

/-- rows of `(R_free_v, R_elim_v)` and the column count of `R_free_v`:
`maskv[sorted(elim_rows)] = False` (a mask: order and repetitions are irrelevant) when
`elim_rows` is given, otherwise the dof matrices are reused. -/
def rowSets (m n : Nat) (idx : List Nat) (elimRows : Option (List Nat)) :
    Except Err (List Nat × List Nat × Nat) :=
  match elimRows with
  | some er =>
      if er.any (fun i => decide (m ≤ i)) then .error .index
      else .ok (free m er, elim m er, m)
  | none => .ok (free n idx, elim n idx, n)

/-- `RestrictedLinearSystem.__init__(A, b, (indices, values), elim_rows)` for an `m × n`
matrix `A`.  `idxIsArray` says whether `indices` is an ndarray.  Exceptions in the order in
which the Python statements raise them. -/
def Sys.build (m n : Nat) (A : List (List α)) (b : ScalarOr α) (idxIsArray : Bool)
    (idx : List Nat) (vals : ScalarOr α) (elimRows : Option (List Nat)) : Except Err (Sys α) :=
  -- if np.isscalar(b): b = np.broadcast_to(b, A.shape[0])
  let b := b.toList m
  match valuesOf idxIsArray idx vals with
  | .error e => .error e
  | .ok values =>
  -- mask = np.ones(A.shape[1]); mask[list(indices)] = False
  if idx.any (fun i => decide (n ≤ i)) then .error .index else
  match rowSets m n idx elimRows with
  | .error e => .error e
  | .ok (frv, elv, mv) =>
  -- self.A = R_free_v.dot(A).dot(R_free.T): R_free_v has `mv` columns, A has `m` rows
  if mv ≠ m then .error .value else
  -- R_elim.T.dot(values): R_elim has |elim| rows
  if (elim n idx).length ≠ values.length then .error .value else
  -- b - A.dot(R_elim.T.dot(values))
  if b.length ≠ m then .error .value else
  .ok { m := m, n := n, rfree := free n idx, relim := elim n idx, rfreeV := frv, relimV := elv,
        values := values, A := selectMatrix frv (free n idx) A,
        b := gather frv (vsub b (matVec n A (scatter n (elim n idx) values))) }

/-- method calls with scipy's shape check (`dimension mismatch` is a `ValueError`) -/
def Sys.restrict? (S : Sys α) (u : List α) : Except Err (List α) :=
  if u.length ≠ S.n then .error .value else .ok (S.restrict u)
def Sys.restrictRhs? (S : Sys α) (f : List α) : Except Err (List α) :=
  if f.length ≠ S.m then .error .value
  else .ok (S.restrictRhs f)
def Sys.extend? (S : Sys α) (u : List α) : Except Err (List α) :=
  if u.length ≠ S.rfree.length then .error .value else .ok (S.extend u)
def Sys.complete? (S : Sys α) (u : List α) : Except Err (List α) :=
  if u.length ≠ S.rfree.length then .error .value else .ok (S.complete u)

end algebra

/-! ### `combine_bcs`, `_drop_nans`, blocked numbering -/

/-- first output of `np.unique(indices, return_index=True)`: the distinct entries in
increasing order. -/
def unique (l : List Nat) : List Nat :=
  (List.range (l.foldl max 0 + 1)).filter (fun v => l.contains v)

/-- second output: for each distinct entry the position of its **first** occurrence. -/
def uniqueIndex (l : List Nat) : List Nat := (unique l).map (fun v => l.idxOf v)

/-- `combine_bcs(bcs)`:
```
indices = np.concatenate([ind for ind,_ in bcs]); values = np.concatenate([val for _,val in bcs])
assert indices.shape == values.shape
uidx, lookup = np.unique(indices, return_index=True); return uidx, values[lookup]
``` -/
def combineBcs {β : Type} [Inhabited β] (bcs : List (List Nat × List β)) : Except Err (List Nat × List β) :=
  let indices := bcs.flatMap (·.1)
  let values := bcs.flatMap (·.2)
  if indices.length ≠ values.length then .error .assertion
  else .ok (unique indices, (uniqueIndex indices).map (fun k => values.getD k default))

/-- `_drop_nans(indices, values)`; a NaN is `none`. -/
def dropNans {β : Type} (indices : List Nat) (values : List (Option β)) : List Nat × List (Option β) :=
  if values.any Option.isNone then
    let notnan := (List.range values.length).filter (fun k => (values.getD k none).isSome)
    (notnan.map (fun k => indices.getD k 0), notnan.map (fun k => values.getD k none))
  else (indices, values)

/-- `bspline._parse_bdspec(bdspec, dim)` -/
inductive BdSpec where
  | name (s : String)
  | pair (ax : Int) (side : Int)
  deriving Repr

def parseBdspec (bd : BdSpec) (dim : Nat) : Except Err (Nat × Nat) :=
  let p : Option (Int × Int) := match bd with
    | .name "left" => some ((dim : Int) - 1, 0)
    | .name "right" => some ((dim : Int) - 1, 1)
    | .name "bottom" => some ((dim : Int) - 2, 0)
    | .name "top" => some ((dim : Int) - 2, 1)
    | .name "front" => some ((dim : Int) - 3, 0)
    | .name "back" => some ((dim : Int) - 3, 1)
    | .name _ => none         -- `len(bd) == 2 and bd[1] in (0,1)` fails for other strings
    | .pair ax side => some (ax, side)
  match p with
  | none => .error .value
  | some (ax, side) =>
    if ¬ (side = 0 ∨ side = 1) then .error .value
    else if ax < 0 ∨ ax ≥ dim then .error .value
    else .ok (ax.toNat, side.toNat)

/-- `boundary_dofs(kvs, bdspec, ravel=True, flip)` / `boundary_cells` on the per-axis counts -/
def boundaryDofsSpec (N : List Nat) (bd : BdSpec) (flip : Option (List Bool)) : Except Err (List Nat) := do
  let (ax, side) ← parseBdspec bd N.length
  match boundaryDofs N ax side flip with
  | .ok l => pure l
  | .error e => throw (Err.ofSlice e)

/-- `slice_indices(ax, idx, shape, ravel=False, flip)`: no range check on `idx` happens
without raveling, the (wrapped once) index is simply stored in column `ax`. -/
def sliceNoRavel (ax : Nat) (idx : Int) (shape : List Nat) (flip : Option (List Bool)) :
    Except Err (List (List Int)) :=
  if h : ax < shape.length then
    let bad := match flip with
      | none => false
      | some fl => ((insertFalse ax fl).drop shape.length).any id
    if bad then .error .index else
    let i : Int := if idx < 0 then idx + shape[ax] else idx
    .ok ((sliceMulti ax 0 shape flip).map (fun I => (I.map (fun (c : Nat) => (c : Int))).set ax i))
  else .error .index

/-- `boundary_dofs(kvs, bdspec, ravel=False, flip)` -/
def boundaryDofsNoRavel (N : List Nat) (bd : BdSpec) (flip : Option (List Bool)) :
    Except Err (List (List Int)) := do
  let (ax, side) ← parseBdspec bd N.length
  sliceNoRavel ax (if side = 0 then 0 else -1) N flip

/-- component `j` of the raveled coefficient array: `dircoeffs[..., j].ravel()` -/
def component {β : Type} [Inhabited β] (numcomp j : Nat) (flat : List β) : List β :=
  (List.range (flat.length / numcomp)).map (fun k => flat.getD (k * numcomp + j) default)

/-- index/value bookkeeping of `compute_dirichlet_bc(kvs, geo, bdspec, dir_func)` given
`N = (kv.numdofs for kv in kvs)` and the interpolated coefficients `dircoeffs.ravel()`;
`numcomp = none` for scalar data (`extra_dims == 0`), `some c` for a vector function with
`c` components (blocked numbering `bdindices + j*NN`). -/
def dirichletBc {β : Type} (N : List Nat) (bd : BdSpec) (numcomp : Option Nat)
    (dircoeffs : List (Option β)) : Except Err (List Nat × List (Option β)) := do
  let (ax, side) ← parseBdspec bd N.length
  let bdindices ← match sliceIndices ax (if side = 0 then 0 else -1) N none with
    | .ok l => pure l
    | .error e => throw (Err.ofSlice e)
  match numcomp with
  | none => pure (dropNans bdindices dircoeffs)
  | some c =>
    let NN := prod N
    let (idx, val) ← combineBcs ((List.range c).map (fun j =>
      (bdindices.map (· + j * NN), component c j dircoeffs)))
    pure (dropNans idx val)

/-- the `("all", dir_func)` shorthand of `compute_dirichlet_bcs` -/
def allBdspecs (dim : Nat) : List BdSpec :=
  (List.range dim).flatMap (fun ax => [BdSpec.pair (Int.ofNat ax) 0, BdSpec.pair (Int.ofNat ax) 1])

/-- `compute_dirichlet_bcs(kvs, geo, bdconds)` -/
def dirichletBcs {β : Type} (N : List Nat)
    (conds : List (BdSpec × Option Nat × List (Option β))) : Except Err (List Nat × List (Option β)) := do
  let bcs ← conds.mapM (fun (bd, nc, co) => dirichletBc N bd nc co)
  combineBcs bcs

/-- `compute_dirichlet_bcs(kvs, geo, ("all", dir_func))`: one coefficient array per face in
the order `[(ax, bd) for ax in range(dim) for bd in (0,1)]` -/
def dirichletBcsAll {β : Type} (N : List Nat) (data : List (Option Nat × List (Option β))) :
    Except Err (List Nat × List (Option β)) :=
  dirichletBcs N ((allBdspecs N.length).zip data)

/-- `Multipatch.compute_dirichlet_bcs(bdconds)`: `p2g[p] = patch_to_global_idx(p)`;
`bcs.append((idx[bc[0]], bc[1]))`; `combine_bcs`. -/
def mpDirichletBcs {β : Type} (Ns : List (List Nat)) (p2g : List (List Nat))
    (conds : List (Nat × BdSpec × Option Nat × List (Option β))) :
    Except Err (List Nat × List (Option β)) := do
  let bcs ← conds.mapM (fun (p, bd, nc, co) => do
    if p ≥ Ns.length then throw Err.index
    let bc ← dirichletBc (Ns.getD p []) bd nc co
    let g := p2g.getD p []
    if bc.1.any (fun i => decide (g.length ≤ i)) then throw Err.index
    pure (bc.1.map (fun i => g.getD i 0), bc.2))
  combineBcs bcs

/-! ### `compute_initial_condition_01` -/

section field
variable {α : Type} [Zero α] [Add α] [Sub α] [Mul α] [Div α] [DecidableEq α]

/-- `np.linalg.solve(M, [r0; r1])` for `M = [[a, b], [c, d]]` and a `2 × K` right-hand
side, in closed form (Cramer); singular → `LinAlgError`. -/
def solve2 (a b c d : α) (r0 r1 : List α) : Except Err (List α × List α) :=
  let det := a * d - b * c
  if det = 0 then .error .linalg
  else .ok (List.zipWith (fun x y => (d * x - b * y) / det) r0 r1,
            List.zipWith (fun x y => (a * y - c * x) / det) r0 r1)

/-- `compute_initial_condition_01`: `bdcolloc = [[a,b],[c,d]]` (values / first derivatives
of the two end functions at the face), `coeffs01 = [c0; c1]` (interpolants of `g0`, `g1`).
```
coll_coeffs = np.linalg.solve(bdcolloc, coeffs01)
firstidx = (0 if bdside==0 else -2)
bdindices = concatenate(slice_indices(bdax, firstidx, N, ravel=True), slice_indices(bdax, firstidx+1, N, ravel=True))
return bdindices, coll_coeffs.ravel()
``` -/
def initialCondition01 (N : List Nat) (bd : BdSpec) (a b c d : α) (c0 c1 : List α) :
    Except Err (List Nat × List α) :=
  match parseBdspec bd N.length with
  | .error e => .error e
  | .ok (ax, side) =>
  if c0.length ≠ c1.length then .error .value else      -- np.stack
  match solve2 a b c d c0 c1 with
  | .error e => .error e
  | .ok (x0, x1) =>
  let firstidx : Int := if side = 0 then 0 else -2
  match sliceIndices ax firstidx N none with
  | .error e => .error (Err.ofSlice e)
  | .ok s0 =>
  match sliceIndices ax (firstidx + 1) N none with
  | .error e => .error (Err.ofSlice e)
  | .ok s1 => .ok (s0 ++ s1, x0 ++ x1)

end field

end Pyiga.Restrict
