/-
IEEE-double vectors / dense matrices used by the C12 driver to instantiate the generic
step models of `Model/ODE.lean` for NONLINEAR right-hand sides (no Mathlib).  Lean `Float`
is the platform's C double, so the Newton iterations make the same decisions as the
implementation except at rounding-level borderline cases; results are compared within a
tolerance and are labelled float-level evidence (DESIGN §1).  Linear problems keep using
the exact `Rat` instantiation (`Model/RatVec.lean`).

`solve` (Gaussian elimination with partial pivoting) stands for LAPACK/SuperLU behind
`make_solver`.
-/

namespace Pyiga.FloatVec

instance : Zero Float := ⟨0.0⟩

structure FVec where
  d : List Float

def addL : List Float → List Float → List Float
  | [], v => v
  | u, [] => u
  | a :: u, b :: v => (a + b) :: addL u v

def subL : List Float → List Float → List Float
  | [], v => v.map (fun b => -b)
  | u, [] => u
  | a :: u, b :: v => (a - b) :: subL u v

instance : Zero FVec := ⟨⟨[]⟩⟩
instance : Add FVec := ⟨fun u v => ⟨addL u.d v.d⟩⟩
instance : Sub FVec := ⟨fun u v => ⟨subL u.d v.d⟩⟩
instance : SMul Float FVec := ⟨fun c v => ⟨v.d.map (c * ·)⟩⟩

abbrev FMat := List (List Float)

def sumF (l : List Float) : Float := l.foldl (· + ·) 0.0
def dot (u v : List Float) : Float := sumF (List.zipWith (· * ·) u v)
def matVec (A : FMat) (v : FVec) : FVec := ⟨A.map (fun r => dot r v.d)⟩
/-- `np.linalg.norm` of a 1-D array -/
def norm (v : FVec) : Float := Float.sqrt (dot v.d v.d)
def matSub (A B : FMat) : FMat := List.zipWith (fun r s => List.zipWith (· - ·) r s) A B
def matScale (c : Float) (A : FMat) : FMat := A.map (·.map (c * ·))

/-- Gauss-Jordan with partial pivoting on `[A | b]`; a zero pivot column yields `nan`s. -/
def solve (A : FMat) (b : List Float) : List Float :=
  let n := A.length
  let aug : FMat := List.zipWith (fun r x => r ++ [x]) A b
  let step (rows : FMat) (k : Nat) : FMat :=
    -- pivot: row p ≥ k with the largest |entry| in column k
    let p := (List.range n).foldl (fun best q =>
      if k ≤ q && Float.abs ((rows.getD best []).getD k 0.0) < Float.abs ((rows.getD q []).getD k 0.0)
      then q else best) k
    let rk := rows.getD k []
    let rp := rows.getD p []
    let rows := (rows.set k rp).set p (if p = k then rp else rk)
    let pv := rp.getD k 0.0
    let pivN := rp.map (· / pv)
    rows.zipIdx.map (fun (r, i) =>
      if i = k then pivN else
        let f := r.getD k 0.0
        List.zipWith (fun a c => a - f * c) r pivN)
  ((List.range n).foldl step aug).map (fun r => r.getD n 0.0)

def solveV (A : FMat) (b : FVec) : FVec := ⟨solve A b.d⟩

end Pyiga.FloatVec
