/-
L-idx (storage layout of the generated assemblers), transliterated from
`pyiga/codegen/cython.py:105-132` (`storage_size`, `storage_index`, `allocate_array`),
`pyiga/vform.py:28-34` (`sym_index_to_seq`) and the slot writes of the generated
`__init__` / `update()` (`codegen/cython.py:620-637, 703-724`).  No Mathlib.

```
def sym_index_to_seq(n, i, j):
    if i > j: i, j = j, i
    idx = sum(n - k for k in range(0, i))   # diagonal index on row i
    return idx + (j - i)

def storage_size(var):
    if len(var.shape) == 2 and var.symmetric:
        m, n = var.shape; assert m == n
        return m * (m + 1) // 2
    else:
        return reduce(operator.mul, var.shape, 1)

def storage_index(var, I):
    if var.shape == (): assert I == (); return 0
    else:
        if len(var.shape) == 2 and var.symmetric: return vform.sym_index_to_seq(var.shape[0], *I)
        else: return np.ravel_multi_index(I, var.shape)

def allocate_array(entries):
    ofs = 0; info = {}
    for entry in entries:
        sz = storage_size(entry); info[entry.name] = (entry, sz, ofs); ofs += sz
    return info, ofs
```
-/
import Pyiga.Model.Index

namespace Pyiga.Layout
open Pyiga.Index

/-- what `storage_size/storage_index` read of an `AsmVar` / `Parameter` -/
structure Var where
  name : Nat
  shape : List Nat
  symmetric : Bool
  deriving Repr, DecidableEq

/-- `len(var.shape) == 2 and var.symmetric` -/
def Var.sym (v : Var) : Bool := v.shape.length == 2 && v.symmetric

/-- `sum(n - k for k in range(0, i))` as the running loop -/
def rowStart (n i : Nat) : Nat := (List.range i).foldl (fun acc k => acc + (n - k)) 0

/-- `sym_index_to_seq(n, i, j)` -/
def symIndexToSeq (n i j : Nat) : Nat :=
  let a := if i > j then j else i
  let b := if i > j then i else j
  rowStart n a + (b - a)

/-- `storage_size(var)` (the `assert m == n` is a precondition checked by the driver) -/
def storageSize (v : Var) : Nat :=
  if v.sym then (v.shape.getD 0 0) * (v.shape.getD 0 0 + 1) / 2 else prod v.shape

/-- `storage_index(var, I)` for an index tuple of the right length with entries in range
(`np.ravel_multi_index` raises otherwise; the driver answers that case separately). -/
def storageIndex (v : Var) (I : List Nat) : Nat :=
  if v.shape = [] then 0
  else if v.sym then symIndexToSeq (v.shape.getD 0 0) (I.getD 0 0) (I.getD 1 0)
  else toSeq I v.shape

/-- `allocate_array(entries)`: the loop, returning `info` in insertion order and the total -/
def allocateArray (entries : List Var) : List (Var × Nat × Nat) × Nat :=
  entries.foldl (fun (acc : List (Var × Nat × Nat) × Nat) e =>
    (acc.1 ++ [(e, storageSize e, acc.2)], acc.2 + storageSize e)) ([], 0)

/-- `gen_assign` for a matrix variable: the index pairs that receive an assignment statement
(`if var.symmetric and i > j: continue`) -/
def assignedPairs (v : Var) (m n : Nat) : List (Nat × Nat) :=
  ((List.range m).flatMap (fun i => (List.range n).map (fun j => (i, j)))).filter
    (fun p => !(v.symmetric && p.1 > p.2))

/-! ### slot writes of `__init__` / `update()`

The `fields` array of one quadrature node is a function `slot ↦ value`.
`self.fields.base[..., ofs:ofs+sz] = src.reshape(N + (-1,))` writes the `sz` values of the
source into the slots `ofs .. ofs+sz-1`. -/

/-- write `vals t` into slot `ofs + t` for `t < sz` -/
def writeSlots (mem : Nat → α) (ofs sz : Nat) (vals : Nat → α) : Nat → α :=
  fun s => if ofs ≤ s ∧ s < ofs + sz then vals (s - ofs) else mem s

/-- a global variable of the generated assembler: either filled from an input field
(`src = some f`) or computed by `precompute_fields` (`src = none`) -/
structure GVar where
  var : Var
  src : Option (Nat × Nat)     -- (input field, derivative order 0/1/2) as in `parse_src`
  deriving Repr, DecidableEq

/-- constructing afresh: every global gets its slots written, input-field variables from the
field array `inp f`, precomputed ones from `comp v inp` (which may read any input). -/
def fresh (info : List (GVar × Nat × Nat)) (inp : Nat × Nat → Nat → α)
    (comp : Var → (Nat × Nat → Nat → α) → Nat → α) (mem0 : Nat → α) : Nat → α :=
  info.foldl (fun mem (e : GVar × Nat × Nat) =>
    writeSlots mem e.2.2 e.2.1 (match e.1.src with
      | some f => inp f
      | none => comp e.1.var inp)) mem0

/-- generated `update(f = …)`: `for var in linear_deps: if var.src in updatable: if f: fields[..., ofs:ofs+sz] = …`
— only the variables whose source is `f` are rewritten. -/
def update (info : List (GVar × Nat × Nat)) (f : Nat) (newf : Nat → Nat → α) (mem : Nat → α) : Nat → α :=
  info.foldl (fun mem (e : GVar × Nat × Nat) =>
    match e.1.src with
    | some (g, d) => if g = f then writeSlots mem e.2.2 e.2.1 (newf d) else mem
    | none => mem) mem

/-- the slot ranges `[ofs, ofs+sz)` the generated `update(f=…)` assigns, in statement order, with the
derivative order of the source array (`grid_eval` / `grid_jacobian` / `grid_hessian` of `f`):
one assignment per global variable sourced from `f` — *every* such variable, not one per input. -/
def updateRanges (info : List (GVar × Nat × Nat)) (f : Nat) : List (Nat × Nat × Nat) :=
  info.filterMap (fun e => match e.1.src with
    | some (g, d) => if g = f then some (e.2.2, e.2.2 + e.2.1, d) else none
    | none => none)

/-- generated `update_params`: `for i in range(sz): self.constants[ofs + i] = values[i]` -/
def updateParam (mem : Nat → α) (ofs sz : Nat) (values : Nat → α) : Nat → α :=
  (List.range sz).foldl (fun m i => fun s => if s = ofs + i then values i else m s) mem

/-! ### which variables are precomputed (`VForm.dependency_analysis`, pyiga/vform.py:509-527)

```
if do_precompute:
    upd_vars = [v for v in self.linear_deps if isinstance(v, AsmVar)
            and ((isinstance(v.src, InputField) and v.src.updatable)
                or isinstance(v.src, Parameter))]
    no_precomp = set_union(networkx.descendants(dep_graph, v) for v in upd_vars)
    self.precomp = [v for v in self.linear_deps
            if v.scope != Scope.BASISFUN and v not in no_precomp]
```
(before commit 5ff56ef: `self.precomp = [v for v in self.linear_deps if v.scope != Scope.BASISFUN]`;
between 5ff56ef and dde8508 only updatable input fields were flagged, not parameters — the flag
set `isUpd` is an argument of the rule, the witnesses in Props/C08 use the narrower sets).
Variables are numbered; `deps v` = the variables `v.expr` refers to directly (edges `dep → v` of the
dependency graph); `isUpd v` = "`v` is sourced from an updatable input field or from a parameter"
(everything `update()` / `update_params()` can rewrite).  The graph is a DAG;
`fuel` bounds the depth of the traversal (any fuel ≥ number of variables is exact). -/

/-- `v ∈ networkx.descendants(dep_graph, u)` for some updatable-sourced `u`: some direct dependency
is such a `u` or is itself a descendant. -/
def descOfUpd (deps : Nat → List Nat) (isUpd : Nat → Bool) : Nat → Nat → Bool
  | 0, _ => false
  | fuel + 1, v => (deps v).any (fun w => isUpd w || descOfUpd deps isUpd fuel w)

/-- `self.precomp`; `repaired = false` is the rule before the fix (everything not depending on a
basis function). -/
def precompRule (repaired : Bool) (deps : Nat → List Nat) (isUpd : Nat → Bool) (basisScope : Nat → Bool)
    (fuel : Nat) (linearDeps : List Nat) : List Nat :=
  linearDeps.filter (fun v => !basisScope v && !(repaired && descOfUpd deps isUpd fuel v))

/-- value of a variable at one quadrature node as `precompute_fields` computes it: input-field
variables read their array, the others apply their own operation `op v` to the values of their
direct dependencies (depth bounded by `fuel`). -/
def evalVar (deps : Nat → List Nat) (srcOf : Nat → Option (Nat × Nat))
    (op : Nat → List (Nat → α) → Nat → α) (inp : Nat × Nat → Nat → α) : Nat → Nat → Nat → α
  | 0, v => match srcOf v with
      | some fd => inp fd
      | none => op v []
  | fuel + 1, v => match srcOf v with
      | some fd => inp fd
      | none => op v ((deps v).map (fun w => evalVar deps srcOf op inp fuel w))

end Pyiga.Layout
