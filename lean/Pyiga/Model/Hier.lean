/-
L-hier: executable model of `pyiga/hierarchical.py` (TPMesh, HMesh, HSpace), no Mathlib.

Sets of multi-indices are duplicate-free `List Idx`; Python's set operators become
`union / diff / inter / subset` below (order of a "set" is never observable: every
query that leaves the model sorts, exactly where the Python code calls `sorted`).

A 1-D knot vector is represented by what `TPMesh`/`HMesh` actually read from it:
the degree `p` and the multiplicities of the distinct knots (`np.unique(kv)` with
counts).  `KnotVector.refine()` inserts one midpoint per non-empty span, i.e.
intersperses multiplicity 1.  All mesh queries of `hierarchical.py` work on
cell/function index ranges derived from `_knots_to_mesh`, which is what is modelled.
-/
import Pyiga.Model.Index

namespace Pyiga.Hier

abbrev Idx := List Nat

/-! ### finite sets as duplicate-free lists -/

/-- `set(l)` -/
def dedup : List Idx → List Idx
  | [] => []
  | x :: xs => if x ∈ dedup xs then dedup xs else x :: dedup xs

/-- `a | b` (both sets) -/
def union (a b : List Idx) : List Idx := a ++ b.filter (fun x => x ∉ a)
/-- `a - b` -/
def diff (a b : List Idx) : List Idx := a.filter (fun x => x ∉ b)
/-- `a & b` -/
def inter (a b : List Idx) : List Idx := a.filter (fun x => x ∈ b)
/-- `a.issubset(b)` -/
def subset (a b : List Idx) : Bool := a.all (fun x => x ∈ b)

/-- Python tuple `<` on equal-length tuples (lexicographic) -/
def lexLt : Idx → Idx → Bool
  | [], [] => false
  | [], _ :: _ => true
  | _ :: _, [] => false
  | a :: as, b :: bs => a < b || (a == b && lexLt as bs)

def insertSorted (x : Idx) : List Idx → List Idx
  | [] => [x]
  | y :: ys => if lexLt y x then y :: insertSorted x ys else x :: y :: ys

/-- `sorted(s)` for a set of tuples -/
def sortIdx (l : List Idx) : List Idx := l.foldr insertSorted []

/-- `range(a, b)` -/
def rangeFT (a b : Nat) : List Nat := (List.range (b - a)).map (· + a)

/-- `itertools.product(*ls)` (lexicographic order) -/
def cart : List (List Nat) → List Idx
  | [] => [[]]
  | l :: ls => l.flatMap (fun x => (cart ls).map (x :: ·))

/-! ### 1-D knot vectors as (degree, multiplicities of the distinct knots) -/

structure KV where
  p : Nat
  mults : List Nat
deriving Repr, DecidableEq

namespace KV

/-- `kv.size` -/
def numknots (kv : KV) : Nat := kv.mults.sum
/-- `KnotVector.numdofs = kv.size - p - 1` -/
def numdofs (kv : KV) : Nat := kv.numknots - kv.p - 1
/-- `KnotVector.numspans = mesh.size - 1` -/
def numspans (kv : KV) : Nat := kv.mults.length - 1

/-- `_knots_to_mesh[k]` (`np.unique(kv, return_inverse=True)[1][k]`): index of the distinct
knot that knot number `k` is a copy of. -/
def k2mAt : Nat → List Nat → Nat → Nat
  | _, [], _ => 0
  | i0, m :: ms, k => if k < m then i0 else k2mAt (i0 + 1) ms (k - m)

def k2m (kv : KV) (k : Nat) : Nat := k2mAt 0 kv.mults k

/-- `mesh_support_idx(j) = (k2m[j], k2m[j+p+1])` -/
def ms0 (kv : KV) (j : Nat) : Nat := kv.k2m j
def ms1 (kv : KV) (j : Nat) : Nat := kv.k2m (j + kv.p + 1)

/-- `_compute_supported_functions(kv, meshsupp)[k]`: first and one-past-last function whose
mesh support contains cell `k` (the `j`/`k` loops interchanged: the updates of `sf[k]` only
read `sf[k]`). -/
def suppFunc (kv : KV) (k : Nat) : Nat × Nat :=
  let r := (List.range kv.numdofs).foldl
    (fun (acc : Nat × Nat) j =>
      if kv.ms0 j ≤ k ∧ k < kv.ms1 j then (min acc.1 j, max acc.2 j) else acc)
    (kv.numdofs, 0)
  (r.1, r.2 + 1)

def refineMults : List Nat → List Nat
  | [] => []
  | [m] => [m]
  | m :: m' :: rest => m :: 1 :: refineMults (m' :: rest)

/-- `KnotVector.refine()` (uniform: one new simple knot in the middle of every span) -/
def refine (kv : KV) : KV := { kv with mults := refineMults kv.mults }

def refineN : Nat → KV → KV
  | 0, kv => kv
  | n + 1, kv => refineN n kv.refine

/-- rows of the 1-D prolongation `P[lv]` (level of `kv` to its refinement) with a non-zero in
column `j`: `_function_children_1d`.  The refined local knot vector of B-spline `j` occupies
fine knot positions `j + k2m[j] .. j+p+1 + k2m[j+p+1]`. -/
def funChildren (kv : KV) (j : Nat) : List Nat := rangeFT (j + kv.ms0 j) (j + kv.ms1 j + 1)

/-- `_function_parents_1d`: columns of row `i` of `P` (ascending) -/
def funParents (kv : KV) (i : Nat) : List Nat :=
  (List.range kv.numdofs).filter (fun j => i ∈ kv.funChildren j)

end KV

/-! ### TPMesh -/

abbrev Mesh := List KV

def Mesh.refine (m : Mesh) : Mesh := m.map KV.refine
def meshAt (kvs : Mesh) (lv : Nat) : Mesh := kvs.map (KV.refineN lv)

/-- `TPMesh.cells()` -/
def Mesh.cells (m : Mesh) : List Idx := cart (m.map (fun kv => List.range kv.numspans))
/-- `TPMesh.functions()` -/
def Mesh.functions (m : Mesh) : List Idx := cart (m.map (fun kv => List.range kv.numdofs))

def Mesh.supportOne (m : Mesh) (f : Idx) : List Idx :=
  cart (List.zipWith (fun kv j => rangeFT (kv.ms0 j) (kv.ms1 j)) m f)
/-- `TPMesh.support(indices)` -/
def Mesh.support (m : Mesh) (fs : List Idx) : List Idx := dedup (fs.flatMap m.supportOne)

def Mesh.supportedInOne (m : Mesh) (c : Idx) : List Idx :=
  cart (List.zipWith (fun kv k => rangeFT (kv.suppFunc k).1 (kv.suppFunc k).2) m c)
/-- `TPMesh.supported_in(cells)` -/
def Mesh.supportedIn (m : Mesh) (cells : List Idx) : List Idx := dedup (cells.flatMap m.supportedInOne)

/-! ### HMesh index algebra -/

def childrenOne (c : Idx) : List Idx := cart (c.map (fun ci => [2 * ci, 2 * ci + 1]))
/-- `HMesh.cell_children(lv, cells)` (a list, duplicates possible) -/
def cellChildren (cells : List Idx) : List Idx := cells.flatMap childrenOne
/-- `HMesh.cell_parent(lv, cells)` (a set) -/
def cellParent (cells : List Idx) : List Idx := dedup (cells.map (fun c => c.map (· / 2)))

/-- `HMesh.cell_grandparent(lv, cells, targetlv)` for `targetlv < lv` -/
def cellGrandparent : Nat → List Idx → List Idx
  | 0, cells => cells
  | n + 1, cells => cellGrandparent n (cellParent cells)

/-- the operations of the mesh hierarchy that `refine` uses, indexed by level -/
structure Ops where
  children : Nat → List Idx → List Idx
  support : Nat → List Idx → List Idx
  supportedIn : Nat → List Idx → List Idx
  parent : Nat → List Idx → List Idx

def tpOps (kvs : Mesh) : Ops where
  children := fun _ cells => cellChildren cells
  support := fun lv fs => (meshAt kvs lv).support fs
  supportedIn := fun lv cs => (meshAt kvs lv).supportedIn cs
  parent := fun _ cells => cellParent cells

/-! ### state -/

structure Level where
  act : List Idx
  deact : List Idx
  actfun : List Idx
  deactfun : List Idx
deriving Repr, DecidableEq

def emptyLevel : Level := ⟨[], [], [], []⟩

structure HSpace where
  kvs : Mesh
  levels : List Level
  disparity : Option Nat   -- `none` = `np.inf`
deriving Repr

/-- `HSpace.__init__` -/
def HSpace.init (kvs : Mesh) (disparity : Option Nat) : HSpace :=
  { kvs := kvs, disparity := disparity,
    levels := [⟨Mesh.cells kvs, [], Mesh.functions kvs, []⟩] }

def HSpace.numlevels (s : HSpace) : Nat := s.levels.length
def HSpace.level (s : HSpace) (lv : Nat) : Level := s.levels.getD lv emptyLevel
def HSpace.mesh (s : HSpace) (lv : Nat) : Mesh := meshAt s.kvs lv
def HSpace.ops (s : HSpace) : Ops := tpOps s.kvs

/-! ### refine -/

/-- marked cells per level (`marked.get(lv, [])`; a missing key and an empty value are
indistinguishable everywhere in `hierarchical.py`) -/
abbrev Marks := List (List Idx)

def getM (M : Marks) (lv : Nat) : List Idx := M.getD lv []

def setM (M : Marks) (lv : Nat) (v : List Idx) : Marks :=
  if lv < M.length then M.set lv v else M ++ List.replicate (lv - M.length) [] ++ [v]

/-- `max(lv for (lv,cells) in marked.items() if cells)`; `none` = ValueError (empty max) -/
def maxLevel (M : Marks) : Option Nat :=
  (List.range M.length).foldl (fun acc lv => if (getM M lv).isEmpty then acc else some lv) none

/-- `_ensure_levels(L)` -/
def ensureLevels (L : Nat) (levels : List Level) : List Level :=
  levels ++ List.replicate (L - levels.length) emptyLevel

/-- `for lv in range(L-1): (x[lv], x[lv+1]) = step lv x[lv] x[lv+1]` — the level list is
traversed front to back; the head of the list is level `lv`. -/
def sweepGo {α : Type} (step : Nat → α → α → α × α) : Nat → α → List α → List α
  | _, a, [] => [a]
  | lv, a, b :: rest => (step lv a b).1 :: sweepGo step (lv + 1) (step lv a b).2 rest

def sweep {α : Type} (step : Nat → α → α → α × α) (lv : Nat) : List α → List α
  | [] => []
  | a :: rest => sweepGo step lv a rest

/-- `[h lv x[lv] for lv in range(lv0, …)]` -/
def mapFrom {α β : Type} (h : Nat → α → β) : Nat → List α → List β
  | _, [] => []
  | lv, a :: rest => h lv a :: mapFrom h (lv + 1) rest

/-- `new_cells[lv] = cell_children(lv-1, set(marked.get(lv-1, [])))` (`HMesh.refine`) -/
def newCells (O : Ops) (M : Marks) : Nat → List Idx
  | 0 => []
  | lv + 1 => O.children lv (dedup (getM M lv))

/-- `HMesh.refine`, iteration `lv`, part acting on level `lv`:
`active[lv] -= cells; deactivated[lv] |= cells` -/
def hmeshF (M : Marks) (lv : Nat) (a : Level) : Level :=
  { a with act := diff a.act (dedup (getM M lv)), deact := union a.deact (dedup (getM M lv)) }

/-- `HMesh.refine`, iteration `lv-1`, part acting on level `lv`:
`active[lv] |= set(new_cells[lv])` -/
def hmeshG (O : Ops) (M : Marks) (lv : Nat) (b : Level) : Level :=
  { b with act := union b.act (dedup (newCells O M lv)) }

/-- `HMesh.refine(marked)` on the list of levels -/
def hmeshRefine (O : Ops) (M : Marks) (levels : List Level) : List Level :=
  sweep (fun lv a b => (hmeshF M lv a, hmeshG O M (lv + 1) b)) 0 levels

/-- `_functions_to_deactivate(marked)[lv]` (evaluated on the already refined mesh) -/
def mfOf (O : Ops) (M : Marks) (lv : Nat) (l : Level) : List Idx :=
  if (getM M lv).isEmpty then []
  else (inter (O.supportedIn lv (getM M lv)) l.actfun).filter
        (fun f => (inter (O.support lv [f]) l.act).isEmpty)

/-- activation loop of `HSpace.refine`, iteration `lv`, part acting on level `lv`:
`actfun[lv] -= mf[lv]; deactfun[lv] |= mf[lv]` (`mf` = the dict computed before the loop) -/
def actF (mf : Nat → List Idx) (lv : Nat) (a : Level) : Level :=
  { a with actfun := diff a.actfun (mf lv), deactfun := union a.deactfun (mf lv) }

/-- activation loop, iteration `lv-1`, part acting on level `lv`: candidate functions are those
supported in the new cells, not yet active, whose support lies in `active ∪ deactivated`. -/
def actG (O : Ops) (M : Marks) (lv : Nat) (b : Level) : Level :=
  let cand := diff (O.supportedIn lv (newCells O M lv)) b.actfun
  let fine := union b.act b.deact
  let newf := cand.filter (fun f => subset (O.support lv [f]) fine)
  { b with actfun := union b.actfun newf }

/-- `HSpace.refine` after `_ensure_levels` and `_mark_recursive`:
`hmesh.refine(marked)`, then all of `mf = _functions_to_deactivate(marked)` (on the refined
mesh and the not yet updated `actfun`), then the activation loop. -/
def refineCore (O : Ops) (M : Marks) (levels : List Level) : List Level :=
  let l1 := hmeshRefine O M levels
  let mf := fun lv => mfOf O M lv (l1.getD lv emptyLevel)
  sweep (fun lv a b => (actF mf lv a, actG O M (lv + 1) b)) 0 l1

/-- `HSpace.refine` as coded when the caller passes the space's own live sets as marks
(`alias lv` = the container of level `lv` *is* `hmesh.active[lv]`, e.g. the return value of
`active_cells(lv)`): `HMesh.refine` works on a copy (`set(marked.get(lv))`) but mutates
`active[lv]` in place, so `_functions_to_deactivate(marked)` afterwards reads the *refined*
active set of that level instead of the marked cells.  (Defect `refine-aliased-marks`.) -/
def refineCoreAliased (O : Ops) (alias : Nat → Bool) (M : Marks) (levels : List Level) : List Level :=
  let l1 := hmeshRefine O M levels
  let mf := fun lv =>
    let l := l1.getD lv emptyLevel
    mfOf O (if alias lv then setM M lv l.act else M) lv l
  sweep (fun lv a b => (actF mf lv a, actG O M (lv + 1) b)) 0 l1

/-- `cell_support_extension(l, cells, k)`, `k ≤ l` -/
def cellSupportExtension (O : Ops) (l : Nat) (cells : List Idx) (k : Nat) : List Idx :=
  let aux := if k == l then cells else (List.range (l - k)).foldl (fun cs i => O.parent (l - i) cs) cells
  O.support k (O.supportedIn k aux)

/-- `_cell_neighborhood(l, cells, truncate)` for finite disparity `d` -/
def cellNeighborhood (O : Ops) (d : Nat) (levels : List Level) (l : Nat) (cells : List Idx)
    (trunc : Bool) : List Idx :=
  if l < d then []
  else
    let act := (levels.getD (l - d) emptyLevel).act
    if trunc then
      inter act (O.parent (l - d + 1) (cellSupportExtension O l cells (l - d + 1)))
    else
      inter act (cellSupportExtension O l cells (l - d))

/-- `_mark_recursive(l, marked, truncate)`; `fuel` bounds the recursion depth (`l` strictly
decreases for `d ≥ 1`; `l+1` is enough). -/
def markRec (O : Ops) (d : Nat) (levels : List Level) (trunc : Bool) : Nat → Nat → Marks → Marks
  | 0, _, M => M
  | fuel + 1, l, M =>
    let nb := cellNeighborhood O d levels l (getM M l) trunc
    if nb.isEmpty then M
    else markRec O d levels trunc fuel (l - d) (setM M (l - d) (union (dedup (getM M (l - d))) nb))

/-- `for l in range(numlevels): _mark_recursive(l, marked)` -/
def markAll (O : Ops) (d : Nat) (levels : List Level) (trunc : Bool) (M : Marks) : Marks :=
  (List.range levels.length).foldl (fun M l => markRec O d levels trunc (l + 1) l M) M

/-- `HSpace.refine(marked, truncate)` on the level list: `_ensure_levels(max_lv + 2)`, the
disparity-preserving marking, then `refineCore`.  Returns the new levels and the actually
refined cells. -/
def refineLevels (O : Ops) (disparity : Option Nat) (levels : List Level) (M : Marks) (trunc : Bool) :
    Except String (List Level × Marks) :=
  match maxLevel M with
  | none => .error "err-ValueError"
  | some mx =>
    let levels1 := ensureLevels (mx + 2) levels
    let M' := match disparity with
      | none => M
      | some d => if d = 0 then M else markAll O d levels1 trunc M
    .ok (refineCore O M' levels1, M')

/-- `HSpace.refine(marked, truncate)`; returns the new space and the actually refined cells. -/
def HSpace.refine (s : HSpace) (M : Marks) (trunc : Bool := false) : Except String (HSpace × Marks) :=
  match refineLevels s.ops s.disparity s.levels M trunc with
  | .error e => .error e
  | .ok (levels', M') => .ok ({ s with levels := levels' }, M')

/-! ### queries -/

/-- `active_cells(flat=True)` -/
def HSpace.activeCellsFlat (s : HSpace) : List (Nat × Idx) :=
  (mapFrom (fun lv (l : Level) => (sortIdx l.act).map (fun c => (lv, c))) 0 s.levels).flatten

/-- `active_functions(flat=True)` -/
def HSpace.activeFunctionsFlat (s : HSpace) : List (Nat × Idx) :=
  (mapFrom (fun lv (l : Level) => (sortIdx l.actfun).map (fun c => (lv, c))) 0 s.levels).flatten

def HSpace.numactive (s : HSpace) : List Nat := s.levels.map (fun l => l.actfun.length)
def HSpace.numdofs (s : HSpace) : Nat := s.numactive.sum

/-- `np.ravel_multi_index(f, mesh(lv).numdofs)` -/
def HSpace.ravel (s : HSpace) (lv : Nat) (f : Idx) : Nat :=
  Index.toSeq f ((s.mesh lv).map KV.numdofs)

/-- `ravel_indices` applied to per-level *lists* (sets are sorted by the caller) -/
def HSpace.ravelLists (s : HSpace) (ix : List (List Idx)) : List (List Nat) :=
  mapFrom (fun lv l => l.map (s.ravel lv)) 0 ix

/-- `active_indices()` -/
def HSpace.activeIndices (s : HSpace) : List (List Nat) :=
  s.ravelLists (s.levels.map (fun l => sortIdx l.actfun))
/-- `deactivated_indices()` -/
def HSpace.deactivatedIndices (s : HSpace) : List (List Nat) :=
  s.ravelLists (s.levels.map (fun l => sortIdx l.deactfun))

/-- `global_indices(vlvl)` -/
def HSpace.globalIndicesAt (s : HSpace) (v : Nat) : List (List Idx) :=
  mapFrom (fun i (l : Level) =>
    if i < v then sortIdx l.actfun
    else if i = v then sortIdx l.actfun ++ sortIdx l.deactfun else []) 0 s.levels

def HSpace.globalIndices (s : HSpace) : List (List (List Idx)) :=
  (List.range s.numlevels).map s.globalIndicesAt

/-- `new_indices()` (no Dirichlet specs) -/
def HSpace.newIndices (s : HSpace) : List (List (List Idx)) :=
  (List.range s.numlevels).map (fun lv =>
    mapFrom (fun i (l : Level) => if i = lv then sortIdx l.actfun ++ sortIdx l.deactfun else []) 0 s.levels)

def inDisp (d : Option Nat) (lv i : Nat) : Bool :=
  i < lv && (match d with | none => true | some d => lv ≤ i + d)

/-- `HMesh.function_children(lv, indices)` -/
def HSpace.functionChildren (s : HSpace) (lv : Nat) (fs : List Idx) : List Idx :=
  dedup (fs.flatMap (fun f => cart (List.zipWith (fun kv j => kv.funChildren j) (s.mesh lv) f)))

/-- `HMesh.function_parents(lv, indices)` -/
def HSpace.functionParents (s : HSpace) (lv : Nat) (fs : List Idx) : List Idx :=
  dedup (fs.flatMap (fun f => cart (List.zipWith (fun kv j => kv.funParents j) (s.mesh (lv - 1)) f)))

/-- `HMesh.function_grandparents(lv, indices, targetlv)`, `targetlv < lv` -/
def HSpace.functionGrandparents (s : HSpace) (lv : Nat) (fs : List Idx) (target : Nat) : List Idx :=
  (List.range (lv - target)).foldl (fun fs i => s.functionParents (lv - i) fs) fs

/-- `trunc_indices()`: the `aux_dict` bookkeeping, level by level.  `aux[i]` maps every
`j ∈ actfun[i]` to the set of its not-yet-absorbed descendants on the current level. -/
def HSpace.truncIndices (s : HSpace) : List (List (List Idx)) :=
  let L := s.numlevels
  let step := fun (st : List (List (Idx × List Idx)) × List (List (List Idx))) (lv : Nat) =>
    let aux := st.1
    let lev := s.level lv
    let region := union lev.actfun lev.deactfun
    -- levels i < lv within the disparity window
    let upd := mapFrom (fun i (entries : List (Idx × List Idx)) =>
      if inDisp s.disparity lv i then
        let e' := entries.map (fun (e : Idx × List Idx) =>
          let ch := s.functionChildren (lv - 1) e.2
          if (inter ch region).isEmpty then (e.1, ch, false) else (e.1, diff ch region, true))
        (e'.map (fun t => (t.1, t.2.1)), some (sortIdx (dedup ((e'.filter (·.2.2)).map (·.1)))))
      else (entries, none)) 0 aux
    let aux' := upd.map (·.1) ++ [lev.actfun.map (fun j => (j, [j]))]
    let row := mapFrom (fun i (l : Level) =>
      if i = lv then sortIdx l.actfun ++ sortIdx l.deactfun
      else match (upd.getD i ([], none)).2 with
        | some r => r
        | none => []) 0 s.levels
    (aux', st.2 ++ [row])
  ((List.range L).foldl step ([], [])).2

/-- `func_supp_indices()` -/
def HSpace.funcSuppIndices (s : HSpace) : List (List (List Idx)) :=
  (List.range s.numlevels).map (fun lv =>
    mapFrom (fun i (l : Level) =>
      if i = lv then sortIdx l.actfun ++ sortIdx l.deactfun
      else if inDisp s.disparity lv i then
        sortIdx (inter (s.functionGrandparents lv (s.level lv).actfun i) l.actfun)
      else []) 0 s.levels)

/-- `cell_supp_indices()` -/
def HSpace.cellSuppIndices (s : HSpace) : List (List (List Idx)) :=
  (List.range s.numlevels).map (fun lv =>
    mapFrom (fun i (l : Level) =>
      if i = lv then sortIdx l.actfun ++ sortIdx l.deactfun
      else if inDisp s.disparity lv i then
        sortIdx (inter ((s.mesh i).supportedIn
          (cellGrandparent (lv - i) ((s.mesh lv).support (s.level lv).actfun))) l.actfun)
      else []) 0 s.levels)

/-- `_position_index(suplist, sublist)`; `none` = ValueError -/
def positionIndex (sup : List Nat) (sub : List Nat) : Option (List Nat) :=
  let rec go : Nat → List Nat → List Nat → Option (List Nat)
    | _, _, [] => some []
    | _, [], _ :: _ => none
    | k, x :: xs, c :: cs =>
      if x = c then (go k (x :: xs) cs).map (k :: ·)   -- `index(candidate, k)` may return k again
      else go (k + 1) xs (c :: cs)
  termination_by k xs cs => xs.length + cs.length + cs.length
  decreasing_by all_goals simp_wf <;> omega
  go 0 sup sub

/-- `raveled_to_virtual_canonical_indices(lv, indices)` -/
def HSpace.raveledToCanonical (s : HSpace) (lv : Nat) (indices : List (List Nat)) : Option (List Nat) :=
  let avail := s.ravelLists (s.globalIndicesAt lv)
  let rec go : Nat → List (List Nat) → List (List Nat) → Option (List Nat)
    | _, [], _ => some []
    | n, a :: as, ixs =>
      match positionIndex a (ixs.headD []) with
      | none => none
      | some ps => (go (n + a.length) as ixs.tail).map ((ps.map (· + n)) ++ ·)
  go 0 avail indices

/-- `indices_to_smooth(strategy)` given the TP index lists of the strategy -/
def HSpace.indicesToSmooth (s : HSpace) (chosen : List (List (List Idx))) : List (Option (List Nat)) :=
  mapFrom (fun lv ch => s.raveledToCanonical lv (s.ravelLists ch)) 0 chosen

/-! ### hierarchical cell covers (`hmesh_cells` and friends) on a list of (act, deact) levels -/

/-- `_TP_to_HMesh_cells_up(lv, cells)`: result levels `lv, lv+1, …` -/
def tpUp : List Level → List Idx → List (List Idx)
  | [], _ => []
  | l :: rest, aux =>
    let out := inter aux l.act
    let aux' := diff aux l.act
    out :: (match rest with
      | [] => []
      | _ :: _ => tpUp rest (dedup (cellChildren aux')))

/-- `_TP_to_HMesh_cells_down(lv, cells)`: argument = levels `lv, lv-1, …, 0`; result in that order -/
def tpDown : List Level → List Idx → List (List Idx)
  | [], _ => []
  | l :: rest, aux =>
    let out := inter aux l.act
    let aux' := diff aux l.act
    out :: (match rest with
      | [] => []
      | _ :: _ => tpDown rest (cellParent aux'))

def unionLevels : List (List Idx) → List (List Idx) → List (List Idx)
  | [], b => b
  | a, [] => a
  | a :: as, b :: bs => union a b :: unionLevels as bs

/-- `_TP_to_HMesh_cells(lv, cells)` as a per-level list -/
def tpToH (levels : List Level) (lv : Nat) (cells : List Idx) : List (List Idx) :=
  let cells := dedup cells
  let l := levels.getD lv emptyLevel
  let ad := union l.act l.deact
  let up := tpUp (levels.drop lv) (inter cells ad)
  let down := (tpDown ((levels.take (lv + 1)).reverse) (diff cells ad)).reverse
  unionLevels down (List.replicate lv [] ++ up)

/-- `hmesh_cells(cells)` (per-level list; the dict has the non-empty entries) -/
def hmeshCells (levels : List Level) (cells : List (List Idx)) : List (List Idx) :=
  (mapFrom (fun lv c => tpToH levels lv c) 0 (cells.take levels.length)).foldl unionLevels []

/-- levels of `get_virtual_space(lv).hmesh` -/
def HSpace.virtualLevels (s : HSpace) (lv : Nat) : List Level :=
  if lv + 1 = s.numlevels then s.levels
  else mapFrom (fun i (l : Level) =>
    if i = lv then { act := union l.act l.deact, deact := [], actfun := union l.actfun l.deactfun, deactfun := [] }
    else l) 0 (s.levels.take (lv + 1))

/-- `compute_virtual_supports(tuplelistset)` -/
def HSpace.virtualSupports (s : HSpace) (ix : List (List (List Idx))) : List (List (List Idx)) :=
  mapFrom (fun lv fns =>
    let vl := s.virtualLevels lv
    hmeshCells vl (mapFrom (fun l fs => (s.mesh l).support fs) 0 (fns.take vl.length))) 0 ix

/-! ### incidence matrix (0/1 sparse matrices as rows = lists of column indices) -/

def indexOf (l : List Idx) (x : Idx) : Nat := l.findIdx (· == x)

/-- `sum(nac[:k])` -/
def nacUpTo (levels : List Level) (k : Nat) : Nat := ((levels.map (fun l => l.act.length)).take k).sum

/-- `cell_index[k]`: first the active, then the deactivated cells of level `k`, each sorted -/
def cellIndexAt (levels : List Level) (k : Nat) : List Idx :=
  sortIdx (levels.getD k emptyLevel).act ++ sortIdx (levels.getD k emptyLevel).deact

/-- column of the level-`k` cell `c` in a matrix of width `nac[:k] + nac[k] + ndc[k]` -/
def encCell (levels : List Level) (k : Nat) (c : Idx) : Nat :=
  nacUpTo levels k + indexOf (cellIndexAt levels k) c

/-- `incidence_1level(k)`: one row (list of columns) per active function of level `k` -/
def incOne (kvs : Mesh) (levels : List Level) (k : Nat) : List (List Nat) :=
  (sortIdx (levels.getD k emptyLevel).actfun).map
    (fun f => ((meshAt kvs k).support [f]).map (encCell levels k))

/-- a row times `cell_prolongation(k).T`: column `j < nac[:k+1]` stays; deactivated cell
`j - nac[:k+1]` of level `k` goes to the columns of its children on level `k+1` -/
def incProl (levels : List Level) (k : Nat) (row : List Nat) : List Nat :=
  let n0 := nacUpTo levels (k + 1)
  row.flatMap (fun j =>
    if j < n0 then [j]
    else (childrenOne ((cellIndexAt levels k).getD (j - n0 + (levels.getD k emptyLevel).act.length) [])).map
      (encCell levels (k + 1)))

/-- `incidence_matrix()`: for every active function (canonical order) the list of columns
(canonical active-cell numbers), a column repeated as often as the integer entry says. -/
def HSpace.incidence (s : HSpace) : List (List Nat) :=
  let L := s.numlevels
  let result := (List.range L).map (incOne s.kvs s.levels)
  let result := (List.range (L - 1)).foldl (fun res k =>
    mapFrom (fun j rows => if j ≤ k then rows.map (incProl s.levels k) else rows) 0 res) result
  result.flatten

end Pyiga.Hier
