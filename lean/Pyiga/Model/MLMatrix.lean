/-
L-ml: multi-level structured matrices, transliterated from
`pyiga/mlmatrix.py` and `pyiga/mlmatrix_cy.pyx` (no Mathlib).

A level pattern is the `nnz_k x 2` array `bidx[k]` *in its stored order*
(the order defines the compact data layout).  All loops are literal:
nested loops for `ml_nonzero_2d/3d`, the odometer for `ml_nonzero_nd` and
`pyx_raveled_cartesian_product`.
-/
import Pyiga.Model.Index

namespace Pyiga.ML
open Pyiga.Index

abbrev Pattern := List (Nat × Nat)

structure MLStructure where
  bs   : List (Nat × Nat)      -- ((m_1,n_1),...,(m_L,n_L))
  bidx : List Pattern
  deriving Repr, DecidableEq

namespace MLStructure

def rows (S : MLStructure) : List Nat := S.bs.map (·.1)
def cols (S : MLStructure) : List Nat := S.bs.map (·.2)
/-- `datashape`: number of stored nonzeros per level -/
def NN (S : MLStructure) : List Nat := S.bidx.map List.length
def nnz (S : MLStructure) : Nat := prod S.NN
def shape (S : MLStructure) : Nat × Nat := (prod S.rows, prod S.cols)

def transpose (S : MLStructure) : MLStructure :=
  { bs := S.bs.map (fun b => (b.2, b.1)), bidx := S.bidx.map (·.map (fun e => (e.2, e.1))) }

def join (S T : MLStructure) : MLStructure :=
  { bs := S.bs ++ T.bs, bidx := S.bidx ++ T.bidx }

def reorder (S : MLStructure) (axes : List Nat) : MLStructure :=
  { bs := axes.map (fun j => S.bs.getD j (0,0)), bidx := axes.map (fun j => S.bidx.getD j []) }

/-- `(I,J)` of the stored entry whose per-level positions are `μ`. -/
def entryAt (S : MLStructure) (μ : List Nat) : Nat × Nat :=
  let ij := List.zipWith (fun (pat : Pattern) (m : Nat) => pat.getD m (0,0)) S.bidx μ
  (toSeq (ij.map (·.1)) S.rows, toSeq (ij.map (·.2)) S.cols)

def lowerFilter (lower : Bool) (l : List (Nat × Nat)) : List (Nat × Nat) :=
  if lower then l.filter (fun p => p.2 ≤ p.1) else l

/-- SPEC: entry `m` of the C-ordered compact data tensor (shape `NN`) sits at
`entryAt (unravel m)`; `lower_tri` keeps the subsequence with `J ≤ I`. -/
def nonzeroSpec (S : MLStructure) (lower : Bool) : List (Nat × Nat) :=
  lowerFilter lower ((List.range S.nnz).map (fun m => S.entryAt (fromSeq m S.NN)))

end MLStructure

/-- `ml_nonzero_2d` (nested loops as coded) -/
def nonzero2d (b1 b2 : Pattern) (m2 n2 : Nat) (lower : Bool) : List (Nat × Nat) :=
  MLStructure.lowerFilter lower
    (b1.flatMap (fun x => b2.map (fun y => (x.1 * m2 + y.1, x.2 * n2 + y.2))))

/-- `ml_nonzero_3d` (nested loops as coded) -/
def nonzero3d (b1 b2 b3 : Pattern) (m2 n2 m3 n3 : Nat) (lower : Bool) : List (Nat × Nat) :=
  MLStructure.lowerFilter lower
    (b1.flatMap (fun x => b2.flatMap (fun y => b3.map (fun z =>
      ((x.1 * m2 + y.1) * m3 + z.1, (x.2 * n2 + y.2) * n3 + z.2)))))

/-- state of the `ml_nonzero_nd` odometer -/
structure Odo where
  cur : List Nat
  bi  : List Nat
  bj  : List Nat
  deriving Repr, DecidableEq

/-- initialisation loop of `ml_nonzero_nd`.  `asCoded = true` reproduces the
pinned source line `block_i[i], block_j[i] = bidx_ptr[i][0], bidx_ptr[0][1]`
(column cursor of *every* level read from level 0); `false` is `bidx_ptr[i][1]`. -/
def odoInit (S : MLStructure) (asCoded : Bool) : Odo :=
  { cur := S.bidx.map (fun _ => 0)
    bi  := S.bidx.map (fun pat => (pat.getD 0 (0,0)).1)
    bj  := S.bidx.map (fun pat =>
             if asCoded then ((S.bidx.getD 0 []).getD 0 (0,0)).2 else (pat.getD 0 (0,0)).2) }

/-- increment loop of `ml_nonzero_nd` on reversed lists (k = L-1 first). -/
def odoStepRev : List Nat → List Nat → List Nat → List Pattern →
    Option (List Nat × List Nat × List Nat)
  | c :: cs, _ :: is, _ :: js, pat :: pats =>
      if c + 1 < pat.length then
        let e := pat.getD (c + 1) (0,0)
        some ((c + 1) :: cs, e.1 :: is, e.2 :: js)
      else match pats with
        | [] => none                           -- k == 0: done
        | _ :: _ =>
          let e := pat.getD 0 (0,0)
          (odoStepRev cs is js pats).map (fun r => (0 :: r.1, e.1 :: r.2.1, e.2 :: r.2.2))
  | _, _, _, _ => none

def odoStep (S : MLStructure) (st : Odo) : Option Odo :=
  (odoStepRev st.cur.reverse st.bi.reverse st.bj.reverse S.bidx.reverse).map
    (fun r => { cur := r.1.reverse, bi := r.2.1.reverse, bj := r.2.2.reverse })

/-- the `while not done` loop (fuel = N): list of visited states -/
def odoStates (S : MLStructure) : Nat → Odo → List Odo
  | 0, _ => []
  | fuel + 1, st => st :: (match odoStep S st with
      | none => []
      | some st' => odoStates S fuel st')

/-- `ml_nonzero_nd` -/
def nonzeroNd (S : MLStructure) (lower asCoded : Bool) : List (Nat × Nat) :=
  if S.nnz = 0 then [] else
  MLStructure.lowerFilter lower
    ((odoStates S S.nnz (odoInit S asCoded)).map
      (fun st => (toSeq st.bi S.rows, toSeq st.bj S.cols)))

inductive Err | assertion | other deriving Repr, DecidableEq

/-- `MLStructure.nonzero` dispatch -/
def MLStructure.nonzero (S : MLStructure) (lower asCoded : Bool) : Except Err (List (Nat × Nat)) :=
  match S.bs, S.bidx with
  | [_], [b1] => if lower then .error .assertion else .ok b1
  | [_, (m2, n2)], [b1, b2] => .ok (nonzero2d b1 b2 m2 n2 lower)
  | [_, (m2, n2), (m3, n3)], [b1, b2, b3] => .ok (nonzero3d b1 b2 b3 m2 n2 m3 n3 lower)
  | _, _ => if S.bidx.length ≤ 8 then .ok (nonzeroNd S lower asCoded) else .error .assertion

/-! ### rows / columns -/

/-- `_level_rowwise_interactions(k)` -/
def rowwise (numRows : Nat) (bx : Pattern) : List (List Nat) :=
  (List.range numRows).map (fun r => (bx.filter (fun e => e.1 = r)).map (·.2))

/-- Cartesian product in lexicographic order (the spec of the odometer) -/
def cartesian : List (List Nat) → List (List Nat)
  | [] => [[]]
  | l :: ls => l.flatMap (fun a => (cartesian ls).map (a :: ·))

/-- the `for i in range(N)` odometer loop of `pyx_raveled_cartesian_product`:
multi-indices `I` visited (wrapping at the end, as coded). -/
def ravStates (shp : List Nat) : Nat → List Nat → List (List Nat)
  | 0, _ => []
  | n + 1, I => I :: ravStates shp n ((incr I shp).getD (shp.map (fun _ => 0)))

/-- `pyx_raveled_cartesian_product(arrays, dims)` -/
def ravCart (arrays : List (List Nat)) (dims : List Nat) : List Nat :=
  if arrays.any (·.isEmpty) then [] else
  let shp := arrays.map List.length
  (ravStates shp (prod shp) (shp.map (fun _ => 0))).map
    (fun I => toSeq ((arrays.zip I).map (fun (ai : List Nat × Nat) => ai.1.getD ai.2 0)) dims)

/-- `MLStructure.nonzeros_for_rows(row_indices, renumber_rows=True)` → (I, J, renumbered) -/
def MLStructure.nonzerosForRows (S : MLStructure) (R : List Nat) : List (Nat × Nat × Nat) :=
  let lvia := (S.bs.zip S.bidx).map (fun (b, bx) => rowwise b.1 bx)
  (R.zipIdx).flatMap (fun (r, idx) =>
    let ix := fromSeq r S.rows
    let ia := (lvia.zip ix).map (fun (lv, i) => lv.getD i [])
    (ravCart ia S.cols).map (fun J => (r, J, idx)))

def MLStructure.nonzerosForColumns (S : MLStructure) (C : List Nat) : List (Nat × Nat) :=
  (S.transpose.nonzerosForRows C).map (fun t => (t.2.1, t.1))

/-- `get_transpose_idx_for_bidx`: for each k the (last) position holding the swapped pair -/
def transposeIdx (bidx : Pattern) : List (Option Nat) :=
  bidx.map (fun e =>
    ((bidx.zipIdx).foldl (fun acc (f, k) => if f = (e.2, e.1) then some k else acc) none))

/-- `sequential_bidx`: the per-level patterns with ravelled indices.  `asCoded = true` reproduces the pinned
source line `self.bs[j][0] * self.bidx[j][:,0] + self.bidx[j][:,1]` (stride = number of block ROWS);
`false` is the row-major ravel `bs[j][1] * i + j` that `reindex_from_multilevel` / `reindex_from_reordered`
decode (repaired in /repo). -/
def MLStructure.sequentialBidx (S : MLStructure) (asCoded : Bool := false) : List (List Nat) :=
  (S.bs.zip S.bidx).map (fun (b, bx) => bx.map (fun e => (if asCoded then b.1 else b.2) * e.1 + e.2))

/-- matrix position requested by `ReorderedTensorGenerator(multiasm, S)` for the data-tensor index `μ`:
`Ms[k] = sparsidx[k][μ[k]]`, then `reindex_from_multilevel(Ms, bs)` -/
def MLStructure.generatorEntry (S : MLStructure) (asCoded : Bool) (μ : List Nat) : Nat × Nat :=
  reindexFromMultilevel (((S.sequentialBidx asCoded).zip μ).map (fun (sm : List Nat × Nat) => sm.1.getD sm.2 0)) S.bs

/-- matrix position requested by `ReorderedMatrixGenerator(multiasm, S)` (two levels) for entry `(i, j)`:
`reindex_from_reordered(sparsidx[0][i], sparsidx[1][j], n1, m1, n2, m2)` with `n1, m1 = bs[0]`, `n2, m2 = bs[1]` -/
def MLStructure.generatorEntry2 (S : MLStructure) (asCoded : Bool) (i j : Nat) : Nat × Nat :=
  match S.bs with
  | [(n1, m1), (n2, m2)] =>
      let sb := S.sequentialBidx asCoded
      reindexFromReordered ((sb.getD 0 []).getD i 0) ((sb.getD 1 []).getD j 0) n1 m1 n2 m2
  | _ => (0, 0)

/-! ### banded / dense / knot-vector sparsity -/

/-- `compute_banded_sparsity_ij(n, bw)` -/
def bandedIJ (n bw : Nat) : Pattern :=
  (List.range n).flatMap (fun i =>
    (List.range' (i - bw) (min n (i + bw + 1) - (i - bw))).map (fun j => (i, j)))

/-- `compute_dense_ij(m, n)` -/
def denseIJ (m n : Nat) : Pattern :=
  (List.range m).flatMap (fun i => (List.range n).map (fun j => (i, j)))

/-- `np.searchsorted(a, v, side='right')` on a non-decreasing list: #elements ≤ v
(modelled as the insertion point of the *sorted* input, by counting the prefix) -/
def searchsortedRight (a : List Nat) (v : Nat) : Nat :=
  (a.takeWhile (· ≤ v)).length

/-- `compute_sparsity_ij(kv1, kv2)` on the two `mesh_support_idx_all` tables -/
def sparsityIJ (ms1 ms2 : List (Nat × Nat)) : Pattern :=
  (ms2.zipIdx).flatMap (fun (s2, i) =>
    let j0 := searchsortedRight (ms1.map (·.2)) s2.1
    let cand := (ms1.zipIdx).drop j0
    (cand.takeWhile (fun (s1, _) => min s2.2 s1.2 > max s2.1 s1.1)).map (fun (_, j) => (i, j)))

/-! ### matvec / asmatrix on integer data -/

/-- dense result of `ml_matvec_2d/3d` resp. `asmatrix().dot(x)`:
`y[I] += X[μ] * x[J]` over all stored entries in layout order. -/
def MLStructure.matvec (S : MLStructure) (data : List Int) (x : List Int) : List Int :=
  let ent := S.nonzeroSpec false
  (List.range S.shape.1).map (fun I =>
    ((ent.zip data).filter (fun (p, _) => p.1 = I)).foldl
      (fun acc (p, d) => acc + d * x.getD p.2 0) 0)

/-- `asmatrix`: canonical COO (sorted, duplicates summed, zeros kept out) -/
def MLStructure.asmatrix (S : MLStructure) (data : List Int) : List (Nat × Nat × Int) :=
  let ent := (S.nonzeroSpec false).zip data
  let keys := (ent.map (·.1)).eraseDups
  let sorted := keys.mergeSort (fun a b => a.1 < b.1 || (a.1 == b.1 && a.2 ≤ b.2))
  (sorted.map (fun k => (k.1, k.2, ((ent.filter (fun (p, _) => p = k)).map (·.2)).foldl (· + ·) 0))).filter
    (fun t => t.2.2 ≠ 0)

/-! ### `MLMatrix._matvec` as coded -/

/-- the accumulation loop of `ml_matvec_2d/3d`: `y[I] += X[..] * x[J]` over the entries in loop
order, `data` being the C-ordered data tensor `X` (so `zip` pairs entry `(i,j[,k])` with `X[i,j[,k]]`) -/
def matvecLoop (ent : List (Nat × Nat)) (data x y0 : List Int) : List Int :=
  (ent.zip data).foldl
    (fun y (pd : (Nat × Nat) × Int) => y.modify pd.1.1 (fun a => a + pd.2 * x.getD pd.1.2 0)) y0

/-- `y = np.zeros(shape[0]); ml_matvec_2d(X, bidx, bs, x, y)` -/
def matvec2d (b1 b2 : Pattern) (m2 n2 : Nat) (data x : List Int) (M : Nat) : List Int :=
  matvecLoop (nonzero2d b1 b2 m2 n2 false) data x (List.replicate M 0)

/-- `y = np.zeros(shape[0]); ml_matvec_3d(X, bidx, bs, x, y)` -/
def matvec3d (b1 b2 b3 : Pattern) (m2 n2 m3 n3 : Nat) (data x : List Int) (M : Nat) : List Int :=
  matvecLoop (nonzero3d b1 b2 b3 m2 n2 m3 n3 false) data x (List.replicate M 0)

/-- `A.dot(x)` for a canonical COO/CSR matrix `A` with `M` rows -/
def cooMatvec (M : Nat) (ent : List (Nat × Nat × Int)) (x : List Int) : List Int :=
  (List.range M).map (fun I =>
    (ent.filter (fun t => t.1 = I)).foldl (fun acc t => acc + t.2.2 * x.getD t.2.1 0) 0)

/-- `MLMatrix._matvec`: Cython loops for 2 and 3 levels, `asmatrix().dot(x)` otherwise -/
def MLStructure.matvecImpl (S : MLStructure) (data x : List Int) : List Int :=
  match S.bs, S.bidx with
  | [_, (m2, n2)], [b1, b2] => matvec2d b1 b2 m2 n2 data x S.shape.1
  | [_, (m2, n2), (m3, n3)], [b1, b2, b3] => matvec3d b1 b2 b3 m2 n2 m3 n3 data x S.shape.1
  | _, _ => cooMatvec S.shape.1 (S.asmatrix data) x

end Pyiga.ML

/-! ### `utils.kron_partial` -/

namespace Pyiga.ML
open Pyiga.Index

/-- a sparse integer matrix as scipy reports it: shape and the stored `(i, j, value)` in
row-major order (what `A.nonzero()` / `A[i,j]` see after canonicalisation). -/
structure SpMat where
  m : Nat
  n : Nat
  ent : List (Nat × Nat × Int)
  deriving Repr, DecidableEq

def SpMat.get (A : SpMat) (i j : Nat) : Int :=
  ((A.ent.find? (fun e => e.1 = i ∧ e.2.1 = j)).map (·.2.2)).getD 0

/-- `MLStructure.from_kronecker(As)` -/
def fromKronecker (As : List SpMat) : MLStructure :=
  { bs := As.map (fun A => (A.m, A.n)), bidx := As.map (fun A => A.ent.map (fun e => (e.1, e.2.1))) }

/-- value of the Kronecker product at `(I, J)`: product of the factor entries at the digits -/
def kronValue (As : List SpMat) (I J : Nat) : Int :=
  let Ix := fromSeq I (As.map (·.m))
  let Jx := fromSeq J (As.map (·.n))
  ((As.zip (Ix.zip Jx)).map (fun (a : SpMat × Nat × Nat) => a.1.get a.2.1 a.2.2)).foldl (· * ·) 1

/-- `kron_partial(As, rows, restrict)` before the COO→CSR conversion: (row, col, value) -/
def kronPartialRaw (As : List SpMat) (rows : List Nat) (restrict : Bool) : List (Nat × Nat × Int) :=
  ((fromKronecker As).nonzerosForRows rows).map
    (fun t => ((if restrict then t.2.2 else t.1), t.2.1, kronValue As t.1 t.2.1))

/-- canonical COO: duplicates summed, sorted row-major, zeros dropped -/
def canonCOO (ent : List (Nat × Nat × Int)) : List (Nat × Nat × Int) :=
  let keys := (ent.map (fun t => (t.1, t.2.1))).eraseDups
  let sorted := keys.mergeSort (fun a b => a.1 < b.1 || (a.1 == b.1 && a.2 ≤ b.2))
  (sorted.map (fun k => (k.1, k.2,
      ((ent.filter (fun t => (t.1, t.2.1) = k)).map (·.2.2)).foldl (· + ·) 0))).filter (fun t => t.2.2 ≠ 0)

def kronPartial (As : List SpMat) (rows : List Nat) (restrict : Bool) : List (Nat × Nat × Int) :=
  canonCOO (kronPartialRaw As rows restrict)

end Pyiga.ML
