/-
L-expr (kernel fragment): the scalar expressions the back end prints into the generated `combine`
kernel (`pyiga/codegen/cython.py:60-103`, one constructor per `gencode_*` case) after
`VForm.finalize`, with basis-function-scoped local variables inlined.  No Mathlib.

  ConstExpr            -> const c
  VarRefExpr (field / constant / Gauss weight: anything not depending on a basis function) -> field k
  PartialDerivExpr(basisfun, D)  -> pderiv bf D    (`VD{bf}{k}[(nd+1)*i+D_k]` product; `D` encoded as one number)
  NegExpr              -> neg
  ScalarOperExpr + - * / -> add sub mul div
  BuiltinFuncExpr      -> fn name x

`IsLinearIn bf e` is the decidable *syntactic* predicate "e is linear in the jet of basis function bf"
(DESIGN §6/C01): the hypothesis of `entry_eq_full_sum` that the integrand vanishes with the jet.
-/
namespace Pyiga.KExpr

inductive KExpr (α : Type) where
  | const (c : α)
  | field (k : Nat)
  | pderiv (bf : Nat) (D : Nat)
  | neg (x : KExpr α)
  | add (x y : KExpr α)
  | sub (x y : KExpr α)
  | mul (x y : KExpr α)
  | div (x y : KExpr α)
  | fn (name : Nat) (x : KExpr α)

variable {α : Type}

/-- value at one quadrature node: `fields k` are the per-node field/constant/weight values,
`jet bf D` the derivative `D` of basis function `bf` at the node, `fnsem` the libm functions -/
def eval [Add α] [Sub α] [Mul α] [Neg α] [Div α] (fields : Nat → α) (jet : Nat → Nat → α)
    (fnsem : Nat → α → α) : KExpr α → α
  | .const c => c
  | .field k => fields k
  | .pderiv bf D => jet bf D
  | .neg x => - eval fields jet fnsem x
  | .add x y => eval fields jet fnsem x + eval fields jet fnsem y
  | .sub x y => eval fields jet fnsem x - eval fields jet fnsem y
  | .mul x y => eval fields jet fnsem x * eval fields jet fnsem y
  | .div x y => eval fields jet fnsem x / eval fields jet fnsem y
  | .fn name x => fnsem name (eval fields jet fnsem x)

/-- basis function `bf` does not occur -/
def free (bf : Nat) : KExpr α → Bool
  | .const _ => true
  | .field _ => true
  | .pderiv b _ => b != bf
  | .neg x => free bf x
  | .add x y => free bf x && free bf y
  | .sub x y => free bf x && free bf y
  | .mul x y => free bf x && free bf y
  | .div x y => free bf x && free bf y
  | .fn _ x => free bf x

/-- syntactically linear (homogeneous of degree one) in the jet of basis function `bf`;
the literal constant `0` counts (the zero map: components that `substitute_vec_components`
replaces by `ConstExpr(0)`). -/
def IsLinearIn [Zero α] [DecidableEq α] (bf : Nat) : KExpr α → Bool
  | .const c => c = 0
  | .field _ => false
  | .pderiv b _ => b == bf
  | .neg x => IsLinearIn bf x
  | .add x y => IsLinearIn bf x && IsLinearIn bf y
  | .sub x y => IsLinearIn bf x && IsLinearIn bf y
  | .mul x y => (IsLinearIn bf x && free bf y) || (free bf x && IsLinearIn bf y)
  | .div x y => IsLinearIn bf x && free bf y
  | .fn _ _ => false

end Pyiga.KExpr
