/-
`__getitem__` with negative indices, index lists and (after Python's own `slice.indices`) slices
(vform.py `_to_indices`, `_indices_from_slice`, `_default_vector_getitem`, `_default_matrix_getitem`).
The model is the documented numpy-style semantics: every index `i` of an axis of length `n` denotes `i` if `0 ≤ i < n`,
`i + n` if `-n ≤ i < 0`, and is an IndexError otherwise — for scalar indices *and* for the entries of index lists.
No Mathlib.
-/
import Pyiga.Model.VForm

namespace Pyiga.VForm
open Expr

/-- one index of an axis of length `n` -/
def normIdx (n : Nat) (i : Int) : Option Nat :=
  let k := if i < 0 then i + n else i
  if 0 ≤ k ∧ k < n then some k.toNat else none

/-- an axis is addressed by a scalar index or by a list of indices (slices arrive as the list `range(*sl.indices(n))`) -/
inductive AxisIdx where
  | one (i : Int)
  | many (l : List Int)
deriving Repr, Inhabited

def normMany (n : Nat) (l : List Int) : Option (List Nat) := l.mapM (normIdx n)

/-- `e[I]` for a vector expression -/
def getitemV (e : Expr) : AxisIdx → Except String Expr
  | .one i => match normIdx (len e) i with
      | some k => .ok (atE e k 0)
      | none => .error "err-IndexError"
  | .many l => match normMany (len e) l with
      | some ks => .ok (litvec (ks.map fun k => atE e k 0))
      | none => .error "err-IndexError"

/-- `e[I, J]` for a matrix expression (the four cases of `_default_matrix_getitem`) -/
def getitemM (e : Expr) (I J : AxisIdx) : Except String Expr :=
  match I, J with
  | .one i, .one j => match normIdx (len e) i, normIdx (ncols e) j with
      | some a, some b => .ok (atE e a b)
      | _, _ => .error "err-IndexError"
  | .one i, .many l => match normIdx (len e) i, normMany (ncols e) l with
      | some a, some bs => .ok (litvec (bs.map fun b => atE e a b))
      | _, _ => .error "err-IndexError"
  | .many l, .one j => match normMany (len e) l, normIdx (ncols e) j with
      | some as, some b => .ok (litvec (as.map fun a => atE e a b))
      | _, _ => .error "err-IndexError"
  | .many l, .many l' => match normMany (len e) l, normMany (ncols e) l' with
      | some as, some bs => .ok (litmat as.length bs.length (as.flatMap fun a => bs.map fun b => atE e a b))
      | _, _ => .error "err-IndexError"

end Pyiga.VForm
