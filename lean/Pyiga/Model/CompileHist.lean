/-
Request histories against the in-process assembler cache (compile.py:99-175) and the memoised hash of a
`VForm` object (vform.py:254-268, 397-400, 705-710).  No Mathlib.

* `compile_vform(vf, on_demand)`: `Pyiga.VForm.compileVform` (Model/VForm.lean).
* `compile_vforms(vfs)`: as coded, it neither consults nor fills `__vform_asm_cache`: every form of the list is
  generated (`CustomAssembler<i>` in one module) and the new classes are returned.
* a `VForm` object memoises its hash on the first `hash()` (also called by `compile_vform` and `finalize`);
  `add()` refuses once the hash is memoised; `input()`, `parameter()`, `let()` do not look at it.
-/
import Pyiga.Model.VForm

namespace Pyiga.VForm

inductive CompileReq where
  | one (r : Form × Bool)
  | many (fs : List Form)
deriving Repr, Inhabited

/-- `compile.compile_vforms` (compile.py:162-175) -/
def compileVforms {Asm : Type} (gen : Form × Bool → Asm) (c : AsmCache Asm) (fs : List Form) : AsmCache Asm × List Asm :=
  (c, fs.map fun f => gen (f, false))

def compileReq {Asm : Type} (gen : Form × Bool → Asm) (kt : KeyTable) (t : FKeyTable) (c : AsmCache Asm) :
    CompileReq → AsmCache Asm × List Asm
  | .one r => let (c', a) := compileVform gen kt t c r; (c', [a])
  | .many fs => compileVforms gen c fs

/-- a whole history; the answer to each request is the list of returned classes -/
def compileHistory {Asm : Type} (gen : Form × Bool → Asm) (kt : KeyTable) (t : FKeyTable) :
    AsmCache Asm → List CompileReq → AsmCache Asm × List (List Asm)
  | c, [] => (c, [])
  | c, q :: qs =>
      let (c1, as) := compileReq gen kt t c q
      let (c2, rest) := compileHistory gen kt t c1 qs
      (c2, as :: rest)

/-- the forms a request asks for, with their on-demand flags -/
def CompileReq.forms : CompileReq → List (Form × Bool)
  | .one r => [r]
  | .many fs => fs.map fun f => (f, false)

/-- the same with per-request generators (used by the driver to label *which* generation a class comes from) -/
def compileHistoryIdx {Asm : Type} (gen : Nat → Nat → Asm) (kt : KeyTable) (t : FKeyTable) :
    Nat → AsmCache Asm → List CompileReq → List (List Asm)
  | _, _, [] => []
  | i, c, .one r :: qs =>
      let (c', a) := compileVform (fun _ => gen i 0) kt t c r
      [a] :: compileHistoryIdx gen kt t (i + 1) c' qs
  | i, c, .many fs :: qs =>
      ((List.range fs.length).map fun j => gen i j) :: compileHistoryIdx gen kt t (i + 1) c qs

/-! ### one `VForm` object with its memoised hash -/

/-- steps of an object history; the current (not yet finalized) form state is supplied with the steps that read it -/
inductive ObjStep where
  | hash (f : Form)                 -- vf.hash()
  | compile (f : Form) (od : Bool)  -- compile_vform(vf, on_demand=od)
  | add                             -- vf.add(expr)
  | declare (unusedLet : Bool)      -- vf.input(..) / vf.parameter(..) / vf.let(..) (the flag: a `let` that nothing refers to)
deriving Repr, Inhabited

structure ObjState (Asm : Type) where
  memo : Option FVal := none        -- VForm.__hash
  finalized : Bool := false
  unusedLet : Bool := false         -- an expression variable unreachable from the kernel: computing hash() raises KeyError
  cache : AsmCache Asm := []

/-- how `VForm.hash` memoises and whether declarations are refused after `finalize()`, as read from the source by the
translator (`recompute = false`, `refuseFinal = false`: "compute only once"; both `true`: frozen by `finalize()` only). -/
structure ObjSem where
  recompute : Bool
  refuseFinal : Bool

/-- `vf.hash()` on the object: the key in use afterwards, or the KeyError of an unreachable variable -/
def objKey (sem : ObjSem) (kt : KeyTable) (t : FKeyTable) (s : ObjState String) (f : Form) : Except String FVal :=
  match s.memo with
  | some k => if sem.recompute && !s.finalized then (if s.unusedLet then .error "err-KeyError" else .ok (formKey kt t f)) else .ok k
  | none => if s.unusedLet then .error "err-KeyError" else .ok (formKey kt t f)

/-- answer of one step: `"ok"`, an error kind, or the returned class -/
def objStep (sem : ObjSem) (gen : Form × Bool → String) (kt : KeyTable) (t : FKeyTable) (s : ObjState String) :
    ObjStep → ObjState String × String
  | .hash f =>
      match objKey sem kt t s f with
      | .ok k => ({ s with memo := some k }, "ok")
      | .error e => (s, e)
  | .add => (s, if s.memo.isSome then "err-RuntimeError" else "ok")
  | .declare u =>
      if sem.refuseFinal && s.finalized then (s, "err-RuntimeError")
      else ({ s with unusedLet := s.unusedLet || u }, "ok")
  | .compile f od =>
      match objKey sem kt t s f with
      | .error e => (s, e)
      | .ok k =>
        let key := FVal.list [k, fld t .onDemand (.bool od)]
        match s.cache.find? (fun p => FVal.beq p.1 key) with
        | some p => ({ s with memo := some k }, p.2)
        | none =>
            if s.finalized then ({ s with memo := some k }, "err-RuntimeError")   -- finalize(): 'VForm has already been finalized'
            else ({ s with memo := some k, finalized := true, cache := (key, gen (f, od)) :: s.cache }, gen (f, od))

def objHistory (sem : ObjSem) (gen : Form × Bool → String) (kt : KeyTable) (t : FKeyTable) :
    ObjState String → List ObjStep → List String
  | _, [] => []
  | s, q :: qs => let (s', a) := objStep sem gen kt t s q; a :: objHistory sem gen kt t s' qs

end Pyiga.VForm
