/-
Operator classes of `pyiga/operators.py`, `CSRRowSlice/CSRRowSubset` of `pyiga/utils.py`,
`fastdiag_solver` of `pyiga/solvers.py` (no Mathlib; executable).

Sub-operators are `LA.Op` (kind + shape + entries): an ndarray, a scipy sparse matrix or an
`aslinearoperator(matrix)`; their own `dot` is numpy/scipy's (trusted, modelled by `LA.dot`).
`scipy.sparse.linalg.LinearOperator.dot` (SciPy 1.18): `x.shape == (N,)` → `matvec` (result reshaped
to `(M,)`), `x.ndim ≥ 2 ∧ x.shape[-2] == N` → `_matmat` (result returned as is), else ValueError;
a class without `_matmat` gets the default "stack `_matvec` of the columns".
Direct solvers (`make_solver`: cho_factor / lu_factor / splu) and `eigh` are *parameters*: the model
receives the operator they return as an `Op` of kind `linop` (the driver instantiates it with the
exact rational inverse resp. with the eigenpairs the implementation computed).
-/
import Pyiga.Model.LinAlg

namespace Pyiga.Ops
open Pyiga.LA Pyiga.Index

variable {α : Type} [Zero α] [Add α] [Mul α]



/-- `LinearOperator.dot(x)` for an ndarray `x` given the class's `_matvec` / `_matmat` -/
def linopDot (M N : Nat) (matvec matmat : Tensor α → Except Err (Tensor α)) (x : Tensor α) : Except Err (Tensor α) :=
  if x.shape = [N] then do
    let y ← matvec x
    if prod y.shape ≠ M then .error .value else pure (y.reshape [M])
  else if x.shape.length = 2 ∧ x.shape.getD 0 0 = N then matmat x
  else .error .value

/-- column `i` of a 2-D array, `X[:, i]` -/
def column (X : Tensor α) (i : Nat) : Tensor α :=
  Tensor.ofFn [X.shape.getD 0 0] (fun idx => X.get [idx.getD 0 0, i])

/-- default `LinearOperator._matmat`: `np.stack([self._matvec(X[:, i]) for i in range(K)], axis=-1)` -/
def defaultMatmat (M : Nat) (matvec : Tensor α → Except Err (Tensor α)) (X : Tensor α) : Except Err (Tensor α) := do
  let K := X.shape.getD 1 0
  let cols ← (List.range K).mapM (fun i => matvec (column X i))
  if cols.any (fun c => c.shape ≠ [M]) then .error .value else
  pure (Tensor.ofFn [M, K] (fun idx => (cols.getD (idx.getD 1 0) ⟨[], #[]⟩).get [idx.getD 0 0]))

/-! ### Null / Identity / Diagonal (operators.py l.15-58) -/

def nullDot (M N : Nat) (x : Tensor α) : Except Err (Tensor α) :=
  linopDot M N (fun _ => .ok (Tensor.ofFn [M] (fun _ => 0)))
    (fun X => .ok (Tensor.ofFn [M, X.shape.getD 1 0] (fun _ => 0))) x

def identDot (n : Nat) (x : Tensor α) : Except Err (Tensor α) :=
  linopDot n n (fun x => .ok x) (fun X => .ok X) x

/-- `DiagonalOperator(diag)`: `_matvec`: `diag * x` (1-D) resp. `diag[:,None] * x`; `_matmat = _matvec` -/
def diagMatvec (d : List α) (x : Tensor α) : Except Err (Tensor α) :=
  if x.shape.length = 1 then
    .ok (Tensor.ofFn x.shape (fun idx => d.getD (idx.getD 0 0) 0 * x.get idx))
  else
    .ok (Tensor.ofFn x.shape (fun idx => d.getD (idx.getD 0 0) 0 * x.get idx))

def diagDot (d : List α) (x : Tensor α) : Except Err (Tensor α) :=
  -- `diag = np.atleast_1d(np.squeeze(diag))` (fix ac6496d): a one-entry diagonal stays 1-D
  linopDot d.length d.length (diagMatvec d) (diagMatvec d) x

/-! ### KroneckerOperator (operators.py l.60-86) -/

/-- the dispatch of `__init__`: `alldense or not allsquare` → dense path, else linops path -/
def kronUsesDense (ops : List (Op α)) : Bool :=
  ops.all (fun A => A.kind = Kind.dense) || !(ops.all (fun A => A.m == A.n))

def kronApplyfunc (ops : List (Op α)) (x : Tensor α) : Except Err (Tensor α) :=
  if kronUsesDense ops then applyKroneckerDense ops x else applyKroneckerLinops ops x

def kronDot (ops : List (Op α)) (x : Tensor α) : Except Err (Tensor α) :=
  linopDot (prod (ops.map (·.m))) (prod (ops.map (·.n))) (kronApplyfunc ops) (kronApplyfunc ops) x

/-- `_transpose`: `KroneckerOperator(*(B.T for B in self.ops))`; `_adjoint` (fix 8b80f7d):
`_adjoint_of(B)` = `B.H` / `B.conj().T`, which for the real scalars modelled here is `B.T` again -/
def kronT (ops : List (Op α)) : List (Op α) := ops.map Op.T

/-! ### BaseBlockOperator / BlockDiagonalOperator / BlockOperator (operators.py l.89-178) -/

/-- a Python `range(a, b)` -/
abbrev Rng := Nat × Nat

structure BaseBlock (α : Type) where
  M : Nat
  N : Nat
  ops : List (Op α)
  ranOut : List Rng
  ranIn : List Rng

/-- `x[range(a,b)]` along axis 0 (fancy indexing with a range) -/
def takeRows (x : Tensor α) (r : Rng) : Tensor α :=
  Tensor.ofFn ((r.2 - r.1) :: x.shape.tail) (fun idx => x.get ((r.1 + idx.headD 0) :: idx.tail))

/-- `y[range(a,b)] += v` along axis 0; ValueError when `v` does not have the slice's shape -/
def addRows (y : Tensor α) (r : Rng) (v : Tensor α) : Except Err (Tensor α) :=
  if v.shape ≠ (r.2 - r.1) :: y.shape.tail then .error .value else
  .ok (Tensor.ofFn y.shape (fun idx =>
    let i := idx.headD 0
    if r.1 ≤ i ∧ i < r.2 then y.get idx + v.get ((i - r.1) :: idx.tail) else y.get idx))

/-- the accumulation loop shared by `_matvec` and `_matmat`:
`for i in range(len(ops)): y[ran_out[i]] += ops[i].dot(x[ran_in[i]])` -/
def blockAccum (B : BaseBlock α) (x y0 : Tensor α) : Except Err (Tensor α) :=
  (B.ops.zip (B.ranOut.zip B.ranIn)).foldl (fun acc (p : Op α × Rng × Rng) => do
      let y ← acc
      let v ← dot p.1 (takeRows x p.2.2)
      addRows y p.2.1 v) (.ok y0)

def BaseBlock.dot (B : BaseBlock α) (x : Tensor α) : Except Err (Tensor α) :=
  linopDot B.M B.N
    (fun x => blockAccum B x (Tensor.ofFn [B.M] (fun _ => 0)))
    (fun X => blockAccum B X (Tensor.ofFn [B.M, X.shape.getD 1 0] (fun _ => 0))) x

/-- `_transpose`: shape swapped, every block transposed, `ran_in` and `ran_out` exchanged -/
def BaseBlock.T (B : BaseBlock α) : BaseBlock α :=
  { M := B.N, N := B.M, ops := B.ops.map Op.T, ranOut := B.ranIn, ranIn := B.ranOut }

/-- `_sizes_to_ranges` -/
def sizesToRanges (sizes : List Nat) : List Rng :=
  (sizes.foldl (fun (acc : Nat × List Rng) s => (acc.1 + s, acc.2 ++ [(acc.1, acc.1 + s)])) (0, [])).2

/-- `BlockDiagonalOperator(*ops)`; `ranges_i[-1]` raises IndexError for an empty argument list -/
def blockDiagonal (ops : List (Op α)) : Except Err (BaseBlock α) :=
  let ri := sizesToRanges (ops.map (·.m))
  let rj := sizesToRanges (ops.map (·.n))
  match ri.getLast?, rj.getLast? with
  | some a, some b => .ok { M := a.2, N := b.2, ops := ops, ranOut := ri, ranIn := rj }
  | _, _ => .error .index

/-- an entry of the rectangular list passed to `BlockOperator` -/
inductive Blk (α : Type) where
  | none                       -- Python `None`
  | null (m n : Nat)           -- `NullOperator((m, n))`
  | op (B : Op α)

def Blk.shape? : Blk α → Option (Nat × Nat)
  | .none => Option.none
  | .null m n => some (m, n)
  | .op B => some (B.m, B.n)

/-- result of the `BlockOperator` factory -/
inductive BlockResult (α : Type) where
  | base (B : BaseBlock α)
  | null (M N : Nat)

/-- `BlockOperator(ops)` (operators.py l.131-178).  `ops[i][0].shape` / `ops[0][j].shape` of a `None`
entry raises AttributeError (reported as `type` here: the harness maps both to one token). -/
def blockOperator (ops : List (List (Blk α))) : Except Err (BlockResult α) := do
  let row0 ← match ops with | [] => .error .index | r :: _ => pure r
  let N := row0.length
  let hs ← ops.mapM (fun row => match row with
    | [] => .error .index
    | b :: _ => match b.shape? with | some s => pure s.1 | Option.none => .error .type)
  let ws ← row0.mapM (fun b => match b.shape? with | some s => pure s.2 | Option.none => .error .type)
  let ri := sizesToRanges hs
  let rj := sizesToRanges ws
  let (M, N') ← match ri.getLast?, rj.getLast? with
    | some a, some b => pure (a.2, b.2)
    | _, _ => .error .index
  -- row-major scan, skipping None / NullOperator, asserting shapes
  let trip ← (ops.zip ri).foldlM (fun (acc : List (Op α × Rng × Rng)) (rowr : List (Blk α) × Rng) => do
      if rowr.1.length ≠ N then .error .assertion else
      (rowr.1.zip rj).foldlM (fun (acc : List (Op α × Rng × Rng)) (br : Blk α × Rng) =>
        match br.1 with
        | .op B =>
          if B.m = rowr.2.2 - rowr.2.1 ∧ B.n = br.2.2 - br.2.1 then pure (acc ++ [(B, rowr.2, br.2)])
          else .error .assertion
        | _ => pure acc) acc) []
  if trip.isEmpty then pure (.null M N')
  else pure (.base { M := M, N := N', ops := trip.map (·.1), ranOut := trip.map (·.2.1), ranIn := trip.map (·.2.2) })

def BlockResult.dot (B : BlockResult α) (x : Tensor α) : Except Err (Tensor α) :=
  match B with
  | .base b => b.dot x
  | .null M N => nullDot M N x

def BlockResult.T : BlockResult α → BlockResult α
  | .base b => .base b.T
  | .null M N => .null N M

/-! ### SubspaceOperator (operators.py l.181-225) -/

/-- `_matvec` for a 1-D `x` (the LinearOperator front end never passes anything else):
`y = zeros(len(x)); for j: y += P_j.dot(B_j(.T).dot(P_j.T.dot(x)))` -/
def subspaceMatvec (Ps Bs : List (Op α)) (isT : Bool) (x : Tensor α) : Except Err (Tensor α) :=
  (Ps.zip Bs).foldl (fun acc (p : Op α × Op α) => do
      let y ← acc
      let t1 ← dot p.1.T x
      let t2 ← dot (if isT then p.2.T else p.2) t1
      let t3 ← dot p.1 t2
      if t3.shape ≠ y.shape then .error .value else
      pure (Tensor.ofFn y.shape (fun idx => y.get idx + t3.get idx)))
    (.ok (Tensor.ofFn [x.shape.getD 0 0] (fun _ => 0)))

def subspaceDot (Ps Bs : List (Op α)) (isT : Bool) (x : Tensor α) : Except Err (Tensor α) :=
  match Ps with
  | [] => .error .assertion
  | P0 :: _ =>
    if Ps.length ≠ Bs.length then .error .assertion else
    linopDot P0.m P0.m (subspaceMatvec Ps Bs isT) (defaultMatmat P0.m (subspaceMatvec Ps Bs isT)) x

/-- the state of a `SubspaceOperator` object: prolongations, local operators, `_is_transpose` -/
structure Subspace (α : Type) where
  Ps : List (Op α)
  Bs : List (Op α)
  isT : Bool

/-- `_transpose`: same `subspaces`, same `Bs`, `_is_transpose` negated -/
def Subspace.T (S : Subspace α) : Subspace α := { S with isT := !S.isT }

/-- `_adjoint` (fix 8b80f7d): `conj(P_j)` (= `P_j` for the real scalars modelled here), `_adjoint_of(B_j)`
(= `B_jᵀ`), and the `_is_transpose` flag is carried over -/
def Subspace.H (S : Subspace α) : Subspace α := { Ps := S.Ps, Bs := S.Bs.map Op.T, isT := S.isT }

def Subspace.dot (S : Subspace α) (x : Tensor α) : Except Err (Tensor α) := subspaceDot S.Ps S.Bs S.isT x

/-- a word over `{T, H}` applied left to right (`"TH"` = `X.T.H`); `true` = `T`, `false` = `H` -/
def Subspace.word (S : Subspace α) (w : List Bool) : Subspace α :=
  w.foldl (fun S t => if t then S.T else S.H) S

/-- KroneckerOperator: `_transpose` maps `B.T`, `_adjoint` maps `_adjoint_of(B)`; both are `B.T` for
real scalars -/
def kronWord (ops : List (Op α)) (w : List Bool) : List (Op α) := w.foldl (fun o _ => kronT o) ops

/-- BaseBlockOperator: `_transpose` and `_adjoint` both swap the ranges and transpose/adjoint the blocks -/
def BaseBlock.word (B : BaseBlock α) (w : List Bool) : BaseBlock α := w.foldl (fun b _ => b.T) B

def BlockResult.word (B : BlockResult α) (w : List Bool) : BlockResult α := w.foldl (fun b _ => b.T) B

/-! ### CSRRowSlice / CSRRowSubset (utils.py l.116-179) -/

structure CSR (α : Type) where
  nrows : Nat
  ncols : Nat
  indptr : Array Nat
  indices : Array Nat
  data : Array α

/-- one row of `csr_matvecs`: `Σ_{jj = indptr[r]}^{indptr[r+1]-1} data[jj] * x[indices[jj], v]` -/
def csrRowDot (A : CSR α) (r : Nat) (xat : Nat → α) : α :=
  let lo := A.indptr.getD r 0
  let hi := A.indptr.getD (r + 1) 0
  (List.range (hi - lo)).foldl (fun acc t =>
    acc + A.data.getD (lo + t) 0 * xat (A.indices.getD (lo + t) 0)) 0

/-- `CSRRowSlice(A, (a, b)).dot(x)`; the class keeps `indptr[a:b]` and lets `csr_matvecs` read one
entry past that view, i.e. `A.indptr[a+i]`, `A.indptr[a+i+1]` for `i < b-a`. -/
def csrRowSlice (A : CSR α) (a b : Nat) (x : Tensor α) : Except Err (Tensor α) :=
  if ¬ (a ≤ b ∧ b ≤ A.nrows) then .error .assertion else
  let M := b - a
  match x.shape with
  | [_] => .ok (Tensor.ofFn [M] (fun idx => csrRowDot A (a + idx.getD 0 0) (fun j => x.get [j])))
  | [_, K] => .ok (Tensor.ofFn [M, K] (fun idx =>
      csrRowDot A (a + idx.getD 0 0) (fun j => x.get [j, idx.getD 1 0])))
  | _ => .error .value

/-- `CSRRowSubset(A, rows).dot(x)`: `assert other.shape == (N,)`; one `csr_matvec` per listed row -/
def csrRowSubset (A : CSR α) (rows : List Nat) (x : Tensor α) : Except Err (Tensor α) :=
  if x.shape ≠ [A.ncols] then .error .assertion else
  .ok (Tensor.ofFn [rows.length] (fun idx => csrRowDot A (rows.getD (idx.getD 0 0) 0) (fun j => x.get [j])))

/-! ### solver factories -/

/-- `make_kronecker_solver(*Bs) = KroneckerOperator(*(make_solver(B) for B in Bs))`; `binvs` are the
operators `make_solver` returned (kind `linop`, square) -/
def kroneckerSolverDot (binvs : List (Op α)) (x : Tensor α) : Except Err (Tensor α) := kronDot binvs x

/-- the diagonal of `fastdiag_solver` (solvers.py l.33-38):
`diag = Σ_d kron(ones(n₀), …, λ_d, …, ones(n_{D-1}))`, i.e. `diag[I] = Σ_d λ_d[I_d]` -/
def fastdiagDiag (lams : List (List α)) : List α :=
  let dims := lams.map List.length
  (List.range (prod dims)).map (fun s =>
    let I := fromSeq s dims
    (List.range lams.length).foldl (fun acc d => acc + (lams.getD d []).getD (I.getD d 0) 0) 0)

/-- `fastdiag_solver(KM).dot(x)` = `l_op * DiagonalOperator(1/diag) * r_op` where `Us` are the
eigenvector matrices returned by `eigh` (dense ⇒ both Kronecker operators use the dense path) and
`invdiag = 1.0 / diag`.  `_ProductLinearOperator` composes `matvec`s resp. `matmat`s. -/
def fastdiagDot (Us : List (Op α)) (invdiag : List α) (x : Tensor α) : Except Err (Tensor α) := do
  let t1 ← kronDot (Us.map Op.T) x
  let t2 ← diagDot invdiag t1
  kronDot Us t2

end Pyiga.Ops
