/-
L-idx: index arithmetic transliterated from pyiga (no Mathlib).

  * `mlmatrix.to_seq / from_seq`   (also `mlmatrix_cy.to_seq/from_seq/from_seq2`,
    `np.ravel_multi_index / np.unravel_index` as used by the library)
  * `mlmatrix.reindex_from_reordered`, `reindex_to_multilevel`,
    `reindex_from_multilevel`
  * mixed-radix odometer increment (the inner `for k in reversed(range(L))`
    loop of `pyx_raveled_cartesian_product` and `ml_nonzero_nd`)
-/

namespace Pyiga.Index

/-- `to_seq(I, dims)`: `i = 0; for k in range(len(dims)): i *= dims[k]; i += I[k]`. -/
def toSeq (I dims : List Nat) : Nat :=
  (I.zip dims).foldl (fun acc p => acc * p.2 + p.1) 0

/-- digits processed last-to-first, on reversed lists (helper form of `from_seq`). -/
def fromSeqRev : Nat → List Nat → List Nat
  | _, [] => []
  | i, m :: ms => (i % m) :: fromSeqRev (i / m) ms

/-- `from_seq(i, dims)`: `for k in reversed(range(L)): I[k] = i % dims[k]; i //= dims[k]`. -/
def fromSeq (i : Nat) (dims : List Nat) : List Nat :=
  (fromSeqRev i dims.reverse).reverse

/-- value of reversed digits (least significant first) -/
def toSeqRev : List Nat → List Nat → Nat
  | i :: I, m :: ms => i + m * toSeqRev I ms
  | _, _ => 0

def prod (l : List Nat) : Nat := l.foldr (· * ·) 1

/-- `reindex_from_reordered(i, j, m1, n1, m2, n2)` -/
def reindexFromReordered (i j _m1 n1 m2 n2 : Nat) : Nat × Nat :=
  let bi0 := i / n1; let bi1 := i % n1
  let ii0 := j / n2; let ii1 := j % n2
  (bi0 * m2 + ii0, bi1 * n2 + ii1)

/-- `reindex_to_multilevel(i, j, bs)` (bs = list of (rows, cols) per level) -/
def reindexToMultilevel (i j : Nat) (bs : List (Nat × Nat)) : List Nat :=
  let I := fromSeq i (bs.map (·.1))
  let J := fromSeq j (bs.map (·.2))
  (I.zip (J.zip bs)).map (fun (ik, jk, b) => toSeq [ik, jk] [b.1, b.2])

/-- `reindex_from_multilevel(M, bs)` -/
def reindexFromMultilevel (M : List Nat) (bs : List (Nat × Nat)) : Nat × Nat :=
  let IJ := (M.zip bs).map (fun (mk, b) => fromSeq mk [b.1, b.2])
  (toSeq (IJ.map (fun d => d.getD 0 0)) (bs.map (·.1)),
   toSeq (IJ.map (fun d => d.getD 1 0)) (bs.map (·.2)))

/-- One odometer increment on reversed digit lists: the loop
```
for k in reversed(range(L)):
    I[k] += 1
    if I[k] < shp[k]: break
    else: I[k] = 0        # carry
```
`none` = ran past the first digit (the `done` exit of `ml_nonzero_nd`;
`pyx_raveled_cartesian_product` simply wraps to all zeros then, after its last output). -/
def incrRev : List Nat → List Nat → Option (List Nat)
  | c :: cs, n :: ns =>
      if c + 1 < n then some ((c + 1) :: cs)
      else (incrRev cs ns).map (0 :: ·)
  | _, _ => none

def incr (cur shp : List Nat) : Option (List Nat) :=
  (incrRev cur.reverse shp.reverse).map List.reverse

end Pyiga.Index
