/-
L-sol: `local_mg_step` (solvers.py 174-241) made concrete (no Mathlib): the abstract
recursion `mgStep` of `Model/Relax.lean` instantiated with
  * dense views of the level matrices `As[lv]` (Galerkin products `P.T·A·P`),
  * the prolongators `Ps[lv]` and their transposes as matrix-vector products,
  * the five smoothers: Gauss-Seidel sweeps of the modelled CSR kernel (`gsUpdate` on
    the stored rows) over `lv_inds[lv]` in the direction `local_mg_step` prescribes, and
    the `exact` subspace correction `x1[lv_ind] += Bs[lv].dot((f - A x1)[lv_ind])`,
  * the level-0 branch `x1[lv_ind] = Bs[0].dot(f[lv_ind])`.
The sparse direct solvers `Bs[lv] = make_solver(As[lv][lv_ind][:, lv_ind])` are the
parameter `subSolve` (DESIGN §3).  The C11 driver executes exactly `localMgStep` over `Rat`.

Vectors are `LVec` (a list; the empty list plays `np.zeros_like`: `+`/`-` pad with zeros).
-/
import Pyiga.Model.Relax

namespace Pyiga.Relax

structure LVec (α : Type) where
  d : List α

section lvec
variable {α : Type} [Zero α] [Add α] [Sub α]

def padAdd : List α → List α → List α
  | [], v => v
  | u, [] => u
  | a :: u, b :: v => (a + b) :: padAdd u v

def padSub : List α → List α → List α
  | [], v => v.map (fun b => 0 - b)
  | u, [] => u
  | a :: u, b :: v => (a - b) :: padSub u v

instance : Zero (LVec α) := ⟨⟨[]⟩⟩
instance : Add (LVec α) := ⟨fun u v => ⟨padAdd u.d v.d⟩⟩
instance : Sub (LVec α) := ⟨fun u v => ⟨padSub u.d v.d⟩⟩

/-- the first `n` entries of `l`, missing ones read as `0` -/
def padTo (n : Nat) (l : List α) : List α := (List.range n).map (fun i => l.getD i 0)

end lvec

section ops
variable {α : Type} [Zero α] [Add α] [Sub α] [Mul α] [Div α] [BEq α]

/-- `A.dot(x)` for an `n × m` matrix: entry `i` is `Σ_{j<m} A i j * x[j]`. -/
def dmv (n m : Nat) (A : Nat → Nat → α) (x : List α) : List α :=
  (List.range n).map (fun i => denseDot m (A i) x)

/-- `P.T.dot(r)` for an `n × m` matrix `P`: entry `j` is `Σ_{k<n} P k j * r[k]`. -/
def dmvT (n m : Nat) (P : Nat → Nat → α) (r : List α) : List α :=
  (List.range m).map (fun j => denseDot n (fun k => P k j) r)

/-- `Σ_{k<n} f k` (left fold from `0`) -/
def sumTo (n : Nat) (f : Nat → α) : α := (List.range n).foldl (fun acc k => acc + f k) 0

/-- entry `(i, j)` of `P.T.dot(A).dot(P)` for `A : n × n`, `P : n × m`. -/
def galerkinEntry (n : Nat) (A P : Nat → Nat → α) (i j : Nat) : α :=
  sumTo n (fun k => P k i * sumTo n (fun l => A k l * P l j))

/-- the stored row `i` of a level matrix: all `n` columns in order (explicit zeros are
harmless for the kernel, `gs_textbook`). -/
def denseRow (n : Nat) (A : Nat → Nat → α) (i : Nat) : List (Nat × α) :=
  (List.range n).map (fun j => (j, A i j))

/-- one pass of the CSR kernel over `idx` on rows given as a function (`gsSweep A = gsRowsSweep A.row`). -/
def gsRowsSweep (rows : Nat → List (Nat × α)) (b : Nat → α) (idx : List Nat) (x : List α) : List α :=
  idx.foldl (fun x i => gsUpdate (rows i) b x i) x

/-- `x[ind] += c` for an index array without repetitions -/
def scatterAdd (x : List α) (ind : List Nat) (c : List α) : List α :=
  (ind.zip c).foldl (fun x p => x.set p.1 (x.getD p.1 0 + p.2)) x

/-- `x[ind] = c` -/
def scatterSet (x : List α) (ind : List Nat) (c : List α) : List α :=
  (ind.zip c).foldl (fun x p => x.set p.1 p.2) x

/-- everything `local_mg_step(hs, A, f, Ps, lv_inds, smoother, smooth_steps)` captures. -/
structure MGSetup (α : Type) where
  /-- `hs.numlevels - 1` -/
  top : Nat
  /-- number of dofs of virtual level `lv` -/
  size : Nat → Nat
  /-- dense view of `As[lv]` -/
  A : Nat → Nat → Nat → α
  /-- dense view of `Ps[lv]` (`size (lv+1) × size lv`) -/
  P : Nat → Nat → Nat → α
  /-- `lv_inds[lv]` -/
  ind : Nat → List Nat
  /-- 0 gs, 1 forward_gs, 2 backward_gs, 3 symmetric_gs, otherwise exact -/
  smoother : Nat
  /-- `smooth_steps` -/
  steps : Nat
  /-- `Bs[lv].dot`: solver for `As[lv][lv_ind][:, lv_ind]` (parameter) -/
  subSolve : Nat → List α → List α

/-- `Σ_j A[ind[k], j] x[j]` restricted … the right-hand side `(f - A x)[lv_ind]`. -/
def gatherL (v : List α) (ind : List Nat) : List α := ind.map (fun i => v.getD i 0)

/-- pre- (`post = false`) and post-smoothing of level `lv` (lines 202-239). -/
def mgSmoothC (S : MGSetup α) (post : Bool) (lv : Nat) (x f : LVec α) : LVec α :=
  let n := S.size lv
  let xp := padTo n x.d
  let relax := gsRowsSweep (denseRow n (S.A lv)) (fun i => f.d.getD i 0)
  let run (sw : Sweep) : LVec α := ⟨gaussSeidel relax n (some (S.ind lv)) S.steps sw xp⟩
  match S.smoother with
  | 0 => run (if post then .backward else .forward)
  | 1 => run .forward
  | 2 => run .backward
  | 3 => run .symmetric
  | _ =>
    if post then ⟨xp⟩ else
      let r := padSub (padTo n f.d) (dmv n n (S.A lv) xp)
      ⟨scatterAdd xp (S.ind lv) (S.subSolve lv (gatherL r (S.ind lv)))⟩

/-- level-0 branch (lines 191-195): `x1 = x.copy(); x1[lv_ind] = Bs[0].dot(f[lv_ind])`. -/
def mgSolve0C (S : MGSetup α) (x f : LVec α) : LVec α :=
  let n := S.size 0
  ⟨scatterSet (padTo n x.d) (S.ind 0) (S.subSolve 0 (gatherL (padTo n f.d) (S.ind 0)))⟩

/-- the recursive `step(lv, x, f)` of `local_mg_step` with its concrete ingredients. -/
def localMgStepAt (S : MGSetup α) (lv : Nat) (x f : LVec α) : LVec α :=
  mgStep (fun l v => ⟨dmv (S.size l) (S.size l) (S.A l) v.d⟩)
    (fun l v => ⟨dmv (S.size (l + 1)) (S.size l) (S.P l) v.d⟩)
    (fun l v => ⟨dmvT (S.size (l + 1)) (S.size l) (S.P l) v.d⟩)
    (mgSmoothC S false) (mgSmoothC S true) (mgSolve0C S) lv x f

/-- `lambda x: step(hs.numlevels-1, x, f)` -/
def localMgStep (S : MGSetup α) (x f : LVec α) : LVec α := localMgStepAt S S.top x f

/-! executable Galerkin chain on materialised matrices
(`As = [A]; for P in reversed(Ps): As.append(P.T.dot(As[-1]).dot(P)); As.reverse()`) -/

def matFn (M : List (List α)) : Nat → Nat → α := fun i j => (M.getD i []).getD j 0

/-- `P.T·A·P` as a list of rows (`m × m`). -/
def galerkinL (n m : Nat) (A P : List (List α)) : List (List α) :=
  -- `A.dot(P)` first (n × m), then `P.T.dot(·)`; entry (i,j) is `galerkinEntry n A P i j`
  let AP : List (List α) := (List.range n).map (fun k => (List.range m).map (fun j => sumTo n (fun l => matFn A k l * matFn P l j)))
  (List.range m).map (fun i => (List.range m).map (fun j => sumTo n (fun k => matFn P k i * matFn AP k j)))

/-- `[As[0], …, As[top]]` from `As[top] = A` downwards; `size l`, `Ps l` as in `MGSetup`. -/
def galerkinChain (size : Nat → Nat) (Ps : Nat → List (List α)) (A : List (List α)) : Nat → List (List (List α))
  | 0 => [A]
  | top + 1 =>
    -- coarsen the finest matrix once, then continue below
    let Ac := galerkinL (size (top + 1)) (size top) A (Ps top)
    galerkinChain size Ps Ac top ++ [A]

end ops

end Pyiga.Relax
