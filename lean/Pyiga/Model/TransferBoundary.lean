/-
C05 model, part 3 (no Mathlib): the index bookkeeping of `HSpace.boundary(bdspec)`
(`pyiga/hierarchical.py` lines 540-580).

For every level the tensor-product functions on the face `(axis, side)` are those whose multi-index
has the end index (`0` for `side = 0`, `n_axis - 1` for `side = 1`) on `axis`
(`assemble.boundary_dofs` = `slice_indices(axis, 0 | -1, N)`); the boundary space keeps the
active / deactivated functions among them with the `axis` component dropped
(`_drop_index_in_tuples`), and the returned index array lists the canonical indices of the kept
active functions (`_levelwise_to_canonical`).  Everything is expressed on raveled (C-order)
indices: for per-axis sizes `d`, `r = hi·(stride·n_axis) + digit·stride + lo`.
-/
import Pyiga.Model.Transfer

namespace Pyiga.Transfer

/-- C-order stride of `axis` for per-axis sizes `d` -/
def strideOf (d : List Nat) (axis : Nat) : Nat := (d.drop (axis + 1)).foldl (· * ·) 1

/-- number of functions along `axis` -/
def axisSize (d : List Nat) (axis : Nat) : Nat := d.getD axis 1

/-- component `axis` of the multi-index with raveled index `r` -/
def axisDigit (d : List Nat) (axis r : Nat) : Nat := (r / strideOf d axis) % axisSize d axis

/-- the end index selected by `bdspec = (axis, side)` -/
def endIndex (d : List Nat) (axis side : Nat) : Nat := if side = 0 then 0 else axisSize d axis - 1

def onFace (d : List Nat) (axis side r : Nat) : Bool := axisDigit d axis r = endIndex d axis side

/-- raveled index (w.r.t. the sizes with `axis` removed) of the multi-index with component `axis` dropped -/
def faceIndex (d : List Nat) (axis r : Nat) : Nat :=
  (r / (strideOf d axis * axisSize d axis)) * strideOf d axis + r % strideOf d axis

/-- `Hbdspec_active_indices[lv]` / `Hbdspec_deactivated_indices[lv]` in raveled form, in the order of
the given (sorted) index list -/
def faceIndices (d : List Nat) (axis side : Nat) (idx : List Nat) : List Nat :=
  (idx.filter (onFace d axis side)).map (faceIndex d axis)

/-- positions (within the level's sorted active list) of the functions kept on the face -/
def facePositions (d : List Nat) (axis side : Nat) (ia : List Nat) : List Nat :=
  (List.range ia.length).filter fun q => onFace d axis side (ia.getD q 0)

/-- `HSpace.boundary(bdspec)[1]`: canonical indices of the kept active functions, level by level -/
def bdMapFrom (axis side : Nat) : Nat → List (List Nat) → List (List Nat) → List Nat
  | off, ia :: IAs, d :: ds =>
      (facePositions d axis side ia).map (· + off) ++ bdMapFrom axis side (off + ia.length) IAs ds
  | _, _, _ => []

def bdMap (IA : List (List Nat)) (dims : List (List Nat)) (axis side : Nat) : List Nat :=
  bdMapFrom axis side 0 IA dims

/-- per-level raveled active / deactivated indices of the boundary space -/
def bdSpaceIndices (IA ID : List (List Nat)) (dims : List (List Nat)) (axis side : Nat) :
    List (List Nat × List Nat) :=
  (IA.zip (ID.zip dims)).map fun (ia, idl, d) => (faceIndices d axis side ia, faceIndices d axis side idl)

end Pyiga.Transfer
