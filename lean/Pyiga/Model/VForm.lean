/-
Layer L-expr: the expression classes of `pyiga/vform.py` and the rewriting passes that act on
them (DESIGN §5, §6/C06, §6/C13).  No Mathlib; everything is executable and total.

One constructor per Python `Expr` subclass, carrying exactly the attributes the class stores
(`shape` is stored by Python but is a function of the other attributes for every class except
`LiteralMatrixExpr`, where it is `(m,n)`; here `shape` is that function).  `ConstExpr.value` is a
Python float; the model stores the exact rational value of the double.  A `VarRefExpr` stores a
pointer to its `AsmVar`; the model stores the variable *name* and looks the variable up in the
form's variable table (names are unique inside a `VForm`: `set_var` raises on duplicates,
vform.py:383-387).

Python exceptions: the functions below are total; where Python raises, the model function
documents the condition and the driver reports the error kind from a separate check
(`…Err` functions).  The theorems in Props/C06 are stated for the non-raising cases.
-/

namespace Pyiga.VForm

/-- `_oper_to_func` keys (vform.py:1225) -/
inductive Op where
  | add | sub | mul | div
deriving DecidableEq, Repr, Inhabited

/-- `class BasisFun` (vform.py:122): name, numcomp, component, space. -/
structure BFun where
  name : String
  numcomp : Option Nat
  component : Option Nat
  space : Nat
deriving DecidableEq, Repr, Inhabited

inductive Expr where
  /-- `ConstExpr(value)` -/
  | const (value : Rat)
  /-- `LiteralVectorExpr(entries)`; children = entries -/
  | litvec (entries : List Expr)
  /-- `LiteralMatrixExpr`, `shape = (m,n)`, children = row-major entries -/
  | litmat (m n : Nat) (entries : List Expr)
  /-- `VarRefExpr(var, I, D, parametric)` -/
  | varref (var : String) (I : List Nat) (D : List Nat) (parametric : Bool)
  /-- `NegExpr(x)` -/
  | neg (x : Expr)
  /-- `BuiltinFuncExpr(funcname, x)` -/
  | builtin (funcname : String) (x : Expr)
  /-- `ScalarOperExpr(oper, x, y)` -/
  | sop (oper : Op) (x y : Expr)
  /-- `TensorOperExpr(oper, x, y)` -/
  | top (oper : Op) (x y : Expr)
  /-- `VectorCrossExpr(x, y)` -/
  | cross (x y : Expr)
  /-- `OuterProdExpr(x, y)` -/
  | outer (x y : Expr)
  /-- `PartialDerivExpr(basisfun, D, physical)` -/
  | pderiv (bf : BFun) (D : List Nat) (physical : Bool)
  /-- `MatVecExpr(A, x)` -/
  | matvec (A x : Expr)
  /-- `MatMatExpr(A, B)` -/
  | matmat (A B : Expr)
  /-- `GaussWeightExpr(axis)` -/
  | gw (axis : Nat)
  /-- `VolumeMeasureExpr()` -/
  | dx
  /-- `SurfaceMeasureExpr()` -/
  | ds
deriving Repr, Inhabited

open Expr

/-- `Expr.shape` as stored by the constructors (vform.py: each `__init__`). -/
def shape : Expr → List Nat
  | const _ => []
  | litvec es => [es.length]
  | litmat m n _ => [m, n]
  | varref .. => []
  | neg _ => []
  | builtin .. => []
  | sop .. => []
  | top _ x _ => shape x
  | cross x _ => shape x
  | outer x y => [(shape x).headD 0, (shape y).headD 0]
  | pderiv .. => []
  | matvec A _ => [(shape A).headD 0]
  | matmat A B => [(shape A).headD 0, (shape B).getD 1 0]
  | gw _ => []
  | dx => []
  | ds => []

def isScalar (e : Expr) : Bool := shape e == []
def isVector (e : Expr) : Bool := (shape e).length == 1
def isMatrix (e : Expr) : Bool := (shape e).length == 2
/-- `len(e)` = `shape[0]` -/
def len (e : Expr) : Nat := (shape e).headD 0
def ncols (e : Expr) : Nat := (shape e).getD 1 0

/-- `reduce(operator.add, ts)` on expressions: left-nested `ScalarOperExpr('+', …)`
(Python raises `TypeError` on the empty sequence; the model returns `0`). -/
def reduceAdd : List Expr → Expr
  | [] => const 0
  | t :: ts => ts.foldl (fun a b => sop .add a b) t

/-! ### indexing: `__getitem__` with scalar indices → `at` (vform.py:852-880, 961, 980, 1242, 1258, 1270, 1360, 1373) -/

/-- `e[i]` for vectors (`j` unused) and `e[i,j]` for matrices, for in-range indices.
Scalars: Python raises `TypeError('cannot index scalar expression')`; the model returns `e`. -/
def atE : Expr → Nat → Nat → Expr
  | litvec es, i, _ => es.getD i (const 0)
  | litmat _ n es, i, j => es.getD (i * n + j) (const 0)
  | top op x y, i, j => sop op (atE x i j) (atE y i j)
  | cross x y, i, _ =>
      match i with
      | 0 => sop .sub (sop .mul (atE x 1 0) (atE y 2 0)) (sop .mul (atE x 2 0) (atE y 1 0))
      | 1 => sop .sub (sop .mul (atE x 2 0) (atE y 0 0)) (sop .mul (atE x 0 0) (atE y 2 0))
      | _ => sop .sub (sop .mul (atE x 0 0) (atE y 1 0)) (sop .mul (atE x 1 0) (atE y 0 0))
  | outer x y, i, j => sop .mul (atE x i 0) (atE y j 0)
  | matvec A x, i, _ =>
      reduceAdd ((List.range (len x)).map fun j => sop .mul (atE A i j) (atE x j 0))
  | matmat A B, i, j =>
      reduceAdd ((List.range (ncols A)).map fun k => sop .mul (atE A i k) (atE B k j))
  | e, _, _ => e

/-- in-range check of `_to_indices` (IndexError otherwise) -/
def atOk (e : Expr) (i j : Nat) : Bool :=
  match shape e with
  | [n] => i < n
  | [m, n] => i < m && j < n
  | _ => false

/-- `e[i, :]` / `e[:, j]` / `e[i]` for vectors: `LiteralVectorExpr(self.at(...) …)` -/
def rowE (e : Expr) (i : Nat) : Expr := litvec ((List.range (ncols e)).map fun j => atE e i j)
def colE (e : Expr) (j : Nat) : Expr := litvec ((List.range (len e)).map fun i => atE e i j)

/-- `broadcast_expr` (vform.py:1108) -/
def broadcast (e : Expr) (shp : List Nat) : Expr :=
  match shp with
  | [n] => litvec (List.replicate n e)
  | [m, n] => litmat m n (List.replicate (m * n) e)
  | _ => e

/-- `OperExpr(oper, x, y)` (vform.py:1137).  `TypeError` for vector∘matrix; `AssertionError` for
equal rank but different shapes (`operErr`). -/
def operExpr (op : Op) (x y : Expr) : Expr :=
  if isScalar x && isScalar y then sop op x y
  else if (shape x).length == (shape y).length then top op x y
  else if isScalar x then top op (broadcast x (shape y)) y
  else if isScalar y then top op x (broadcast y (shape x))
  else top op x y

def operErr (x y : Expr) : Option String :=
  if isScalar x && isScalar y then none
  else if (shape x).length == (shape y).length then
    (if shape x == shape y then none else some "err-assertion")
  else if isScalar x || isScalar y then none
  else some "err-TypeError"

/-- `Expr.T` (vform.py:836): `LiteralMatrixExpr([[self[j,i] for j in range(shape[0])] for i in range(shape[1])])` -/
def transposeE (e : Expr) : Expr :=
  let m := len e; let n := ncols e
  litmat n m ((List.range (n * m)).map fun k => atE e (k % m) (k / m))

/-- `Expr.ravel` (vform.py:845) -/
def ravelE (e : Expr) : Expr :=
  let n := ncols e
  litvec ((List.range (len e * n)).map fun k => atE e (k / n) (k % n))

/-- `inner` (vform.py:1625) for vectors and matrices of equal shape -/
def innerE (x y : Expr) : Expr :=
  match shape x with
  | [n] => reduceAdd ((List.range n).map fun i => sop .mul (atE x i 0) (atE y i 0))
  | [m, n] => reduceAdd ((List.range (m * n)).map fun k => sop .mul (atE x (k / n) (k % n)) (atE y (k / n) (k % n)))
  | _ => const 0

/-- `tr` (vform.py:1660) -/
def trE (A : Expr) : Expr := reduceAdd ((List.range (len A)).map fun i => atE A i i)

/-! ### `_to_literal_vec_mat` (vform.py:1497), applied post-order by `VForm.transform` -/

/-- the node-level function.  The Python comprehension `[[e[i,j] for j in range(n)] for i in range(m)]`
is written as the same row-major list indexed by `k = i*n+j`. -/
def toLit1 (e : Expr) : Expr :=
  match e with
  | varref .. => e
  | litvec _ => e
  | litmat .. => e
  | _ =>
    match shape e with
    | [n] => litvec ((List.range n).map fun i => atE e i 0)
    | [m, n] => litmat m n ((List.range (m * n)).map fun k => atE e (k / n) (k % n))
    | _ => e

/-- `mapexprs(exprs, _to_literal_vec_mat)`: children first, then the node itself. -/
def toLit : Expr → Expr
  | const v => const v
  | litvec es => litvec (es.map toLit)
  | litmat m n es => litmat m n (es.map toLit)
  | varref v I D p => varref v I D p
  | neg x => toLit1 (neg (toLit x))
  | builtin f x => toLit1 (builtin f (toLit x))
  | sop o x y => toLit1 (sop o (toLit x) (toLit y))
  | top o x y => toLit1 (top o (toLit x) (toLit y))
  | cross x y => toLit1 (cross (toLit x) (toLit y))
  | outer x y => toLit1 (outer (toLit x) (toLit y))
  | pderiv b D p => pderiv b D p
  | matvec A x => toLit1 (matvec (toLit A) (toLit x))
  | matmat A B => toLit1 (matmat (toLit A) (toLit B))
  | gw a => gw a
  | dx => dx
  | ds => ds

/-! ### `fold_constants` (vform.py:895, 1167-1208); `is_constant` is exact equality (vform.py:941) -/

def isConst (e : Expr) (v : Rat) : Bool :=
  match e with
  | const w => w == v
  | _ => false

def isZero (e : Expr) : Bool := isConst e 0

def applyOp (op : Op) (a b : Rat) : Rat :=
  match op with
  | .add => a + b | .sub => a - b | .mul => a * b | .div => a / b

/-- `ScalarOperExpr.fold_constants` on a node whose children are already folded.
Division by a constant zero raises `ZeroDivisionError` in Python (both in the all-constant
branch, through `operator.truediv`, and in the explicit check); the model returns the node
unchanged there and `foldRaises` reports it. -/
def fold1 (op : Op) (x y : Expr) : Expr :=
  match x, y with
  | const a, const b => if op == .div && b == 0 then sop op x y else const (applyOp op a b)
  | _, _ =>
    match op with
    | .add =>
        if isZero x then y
        else if isZero y then x
        else match y with
          | neg y' => sop .sub x y'
          | _ => sop op x y
    | .sub =>
        if isZero x then neg y
        else if isZero y then x
        else match y with
          | neg y' => sop .add x y'
          | _ => sop op x y
    | .mul =>
        if isZero x || isZero y then const 0
        else if isConst x 1 then y
        else if isConst x (-1) then neg y
        else if isConst y 1 then x
        else if isConst y (-1) then neg x
        else sop op x y
    | .div =>
        if isZero x then const 0
        else if isConst y 1 then x
        else if isConst y (-1) then neg x
        else sop op x y

/-- `vf.transform(lambda e: e.fold_constants())`: post-order. -/
def foldAll : Expr → Expr
  | const v => const v
  | litvec es => litvec (es.map foldAll)
  | litmat m n es => litmat m n (es.map foldAll)
  | varref v I D p => varref v I D p
  | neg x => neg (foldAll x)
  | builtin f x => builtin f (foldAll x)
  | sop o x y => fold1 o (foldAll x) (foldAll y)
  | top o x y => top o (foldAll x) (foldAll y)
  | cross x y => cross (foldAll x) (foldAll y)
  | outer x y => outer (foldAll x) (foldAll y)
  | pderiv b D p => pderiv b D p
  | matvec A x => matvec (foldAll A) (foldAll x)
  | matmat A B => matmat (foldAll A) (foldAll B)
  | gw a => gw a
  | dx => dx
  | ds => ds

/-- does `fold_constants` raise `ZeroDivisionError` somewhere in the tree?  (Exactly when some
`/` node has a folded right child that is the constant zero.) -/
def foldRaises : Expr → Bool
  | litvec es => (es.map foldRaises).any id
  | litmat _ _ es => (es.map foldRaises).any id
  | neg x => foldRaises x
  | builtin _ x => foldRaises x
  | sop o x y => foldRaises x || foldRaises y || (o == .div && isZero (foldAll y))
  | top _ x y => foldRaises x || foldRaises y
  | cross x y => foldRaises x || foldRaises y
  | outer x y => foldRaises x || foldRaises y
  | matvec A x => foldRaises A || foldRaises x
  | matmat A B => foldRaises A || foldRaises B
  | _ => false

/-! ### variables -/

/-- `InputField` (vform.py:138) -/
structure InputField where
  name : String
  shape : List Nat
  physical : Bool
  updatable : Bool
deriving DecidableEq, Repr, Inhabited

/-- `Parameter` (vform.py:151) -/
structure Parameter where
  name : String
  shape : List Nat
deriving DecidableEq, Repr, Inhabited

/-- how an `AsmVar` is defined: `expr`, or `src` ∈ InputField | Parameter -/
inductive Src where
  | expr (e : Expr)
  | input (f : InputField)
  | param (p : Parameter)
deriving Repr, Inhabited

/-- `AsmVar` (vform.py:79): name, src/expr, shape, symmetric, deriv -/
structure AsmVar where
  name : String
  src : Src
  shape : List Nat
  symmetric : Bool
  deriv : Option Nat
deriving Repr, Inhabited

abbrev VarTable := List AsmVar

def lookupVar (vt : VarTable) (n : String) : Option AsmVar := vt.find? (·.name == n)

/-- `VarRefExpr.get_underlying_expr` (vform.py:1072) -/
def underlying (e : Expr) (I : List Nat) : Expr :=
  match I with
  | [] => e
  | [i] => atE e i 0
  | i :: j :: _ => atE e i j

/-! ### `Dx` / `_dx_impl` (vform.py:1520, 945, 1082, 1210, 1315) -/

def bump (D : List Nat) (k times : Nat) : List Nat := D.set k (D.getD k 0 + times)

def dsum (D : List Nat) : Nat := D.foldl (· + ·) 0

/-- `Dx(expr, k, times, parametric)`.  `fuel` bounds the unfolding of expression-defined
variables (`VarRefExpr._dx_impl` recursing into `get_underlying_expr`); the driver supplies the
number of variables + 1. Errors are Python's exception kinds. -/
def dxE (vt : VarTable) : Nat → Expr → Nat → Nat → Bool → Except String Expr
  | _, const v, _, times, _ => .ok (if times > 0 then const 0 else const v)
  | fuel, varref v I D p, k, times, par =>
      if !(par == p || dsum D == 0) then .error "err-RuntimeError"
      else if times == 0 then .ok (varref v I D p)
      else match lookupVar vt v with
        | none => .error "err-TypeError"
        | some av =>
          match av.src with
          | .input _ => if k < D.length then .ok (varref v I (bump D k times) par) else .error "err-IndexError"
          | .param _ => .ok (const 0)
          | .expr ue =>
            match fuel with
            | 0 => .error "err-fuel"
            | fuel + 1 => dxE vt fuel (underlying ue I) k times par
  | fuel, sop op x y, k, times, par =>
      match op with
      | .add => do let a ← dxE vt fuel x k times par; let b ← dxE vt fuel y k times par; pure (sop .add a b)
      | .sub => do let a ← dxE vt fuel x k times par; let b ← dxE vt fuel y k times par; pure (sop .sub a b)
      | .mul =>
          if times != 1 then .error "err-assertion" else do
          let a ← dxE vt fuel x k times par; let b ← dxE vt fuel y k times par
          pure (sop .add (sop .mul a y) (sop .mul x b))
      | .div =>
          if times != 1 then .error "err-assertion" else do
          let a ← dxE vt fuel x k times par; let b ← dxE vt fuel y k times par
          pure (sop .div (sop .sub (sop .mul a y) (sop .mul x b)) (sop .mul y y))
  | _, pderiv b D ph, k, times, par =>
      if (par != !ph) && dsum D != 0 then .error "err-RuntimeError"
      else if k < D.length then .ok (pderiv b (bump D k times) (!par)) else .error "err-IndexError"
  | _, _, _, _, _ => .error "err-TypeError"

/-- `Dx` on a vector expression without `_dx_impl`: `LiteralVectorExpr(Dx(z, …) for z in expr)`;
matrices: `NotImplementedError`. -/
def dxTop (vt : VarTable) (fuel : Nat) (e : Expr) (k times : Nat) (par : Bool) : Except String Expr :=
  match e with
  | const _ | varref .. | sop .. | pderiv .. => dxE vt fuel e k times par
  | _ =>
    match shape e with
    | [n] => do
        let es ← (List.range n).mapM fun i => dxE vt fuel (atE e i 0) k times par
        pure (litvec es)
    | [_, _] => .error "err-NotImplementedError"
    | _ => .error "err-TypeError"

/-! ### `substitute_vec_components` / `replace_vector_bfuns` (vform.py:409-460) -/

/-- `replace_vector_bfuns(expr, name, comp)` applied by `transform_expr(…, type=PartialDerivExpr)`;
`basic` is the form's own `BasisFun` of that name. -/
def replBf (basic : BFun) (comp : Nat) : Expr → Expr
  | const v => const v
  | litvec es => litvec (es.map (replBf basic comp))
  | litmat m n es => litmat m n (es.map (replBf basic comp))
  | varref v I D p => varref v I D p
  | neg x => neg (replBf basic comp x)
  | builtin f x => builtin f (replBf basic comp x)
  | sop o x y => sop o (replBf basic comp x) (replBf basic comp y)
  | top o x y => top o (replBf basic comp x) (replBf basic comp y)
  | cross x y => cross (replBf basic comp x) (replBf basic comp y)
  | outer x y => outer (replBf basic comp x) (replBf basic comp y)
  | pderiv b D ph =>
      if b.name == basic.name && b.component.isSome then
        (if b.component == some comp then pderiv basic D ph else const 0)
      else pderiv b D ph
  | matvec A x => matvec (replBf basic comp A) (replBf basic comp x)
  | matmat A B => matmat (replBf basic comp A) (replBf basic comp B)
  | gw a => gw a
  | dx => dx
  | ds => ds

/-- `substitute_vec_components(expr)` followed by `ravel()` for arity 2 (as in `VForm.add`);
`bfs` = the form's basis functions `(u,)` or `(u, v)`. -/
def substVec (bfs : List BFun) (e : Expr) : Expr :=
  match bfs with
  | [u] => litvec ((List.range (u.numcomp.getD 0)).map fun i => replBf u i e)
  | [u, v] =>
      let nu := u.numcomp.getD 0; let nv := v.numcomp.getD 0
      litvec ((List.range (nv * nu)).map fun k => replBf u (k % nu) (replBf v (k / nu) e))
  | _ => e

/-! ### structural keys: `Expr.hash_key` / `Expr.hash` (vform.py:882-887 and the overrides)

Python: `hash((type(self), self.shape) + self.hash_key() + child_hashes)`; `hash` of a tuple is
modelled as injective, i.e. the key *is* the tree of tuples.  Which attributes `hash_key` returns
is not hard-wired: it is a table (regenerated from the source by the T-key translator). -/

inductive Cls where
  | Const | LitVec | LitMat | VarRef | Neg | Builtin | ScalarOper | TensorOper | Cross | Outer
  | PartialDeriv | MatVec | MatMat | GaussWeight | VolumeMeasure | SurfaceMeasure
deriving DecidableEq, Repr, Inhabited

inductive Attr where
  | value | varName | I | D | parametric | funcname | oper
  | bfName | bfNumcomp | bfComponent | bfSpace | physical | axis
deriving DecidableEq, Repr, Inhabited

inductive AVal where
  | rat (q : Rat) | str (s : String) | nats (l : List Nat) | bool (b : Bool)
  | onat (o : Option Nat) | nat (n : Nat) | op (o : Op) | na
deriving DecidableEq, Repr, Inhabited

def cls : Expr → Cls
  | const _ => .Const | litvec _ => .LitVec | litmat .. => .LitMat | varref .. => .VarRef
  | neg _ => .Neg | builtin .. => .Builtin | sop .. => .ScalarOper | top .. => .TensorOper
  | cross .. => .Cross | outer .. => .Outer | pderiv .. => .PartialDeriv | matvec .. => .MatVec
  | matmat .. => .MatMat | gw _ => .GaussWeight | dx => .VolumeMeasure | ds => .SurfaceMeasure

def children : Expr → List Expr
  | litvec es => es
  | litmat _ _ es => es
  | neg x => [x]
  | builtin _ x => [x]
  | sop _ x y => [x, y]
  | top _ x y => [x, y]
  | cross x y => [x, y]
  | outer x y => [x, y]
  | matvec A x => [A, x]
  | matmat A B => [A, B]
  | _ => []

/-- value of a stored attribute (`na` if the class does not have it) -/
def attr : Expr → Attr → AVal
  | const v, .value => .rat v
  | varref v _ _ _, .varName => .str v
  | varref _ I _ _, .I => .nats I
  | varref _ _ D _, .D => .nats D
  | varref _ _ _ p, .parametric => .bool p
  | builtin f _, .funcname => .str f
  | sop o _ _, .oper => .op o
  | top o _ _, .oper => .op o
  | pderiv b _ _, .bfName => .str b.name
  | pderiv b _ _, .bfNumcomp => .onat b.numcomp
  | pderiv b _ _, .bfComponent => .onat b.component
  | pderiv b _ _, .bfSpace => .nat b.space
  | pderiv _ D _, .D => .nats D
  | pderiv _ _ ph, .physical => .bool ph
  | gw a, .axis => .nat a
  | _, _ => .na

/-- The attributes each class *stores* besides `shape` and `children` — everything the
semantics, the rewriting passes and code generation can read from a node. -/
def semAttrs : Cls → List Attr
  | .Const => [.value]
  | .VarRef => [.varName, .I, .D, .parametric]
  | .Builtin => [.funcname]
  | .ScalarOper => [.oper]
  | .TensorOper => [.oper]
  | .PartialDeriv => [.bfName, .bfNumcomp, .bfComponent, .bfSpace, .D, .physical]
  | .GaussWeight => [.axis]
  | _ => []

def allCls : List Cls :=
  [.Const, .LitVec, .LitMat, .VarRef, .Neg, .Builtin, .ScalarOper, .TensorOper, .Cross, .Outer,
   .PartialDeriv, .MatVec, .MatMat, .GaussWeight, .VolumeMeasure, .SurfaceMeasure]

/-- class ↦ attributes entering `hash_key()` -/
abbrev KeyTable := List (Cls × List Attr)

def KeyTable.attrs (t : KeyTable) (c : Cls) : List Attr :=
  match t.find? (·.1 == c) with
  | some p => p.2
  | none => []

/-- every stored attribute of every class occurs in that class's `hash_key` -/
def KeyTableComplete (t : KeyTable) : Bool :=
  allCls.all fun c => (semAttrs c).all fun a => (t.attrs c).contains a

inductive KeyTree where
  | node (c : Cls) (shape : List Nat) (vals : List AVal) (kids : List KeyTree)
deriving Repr, Inhabited

/-- `Expr.hash(child_hashes)` with the tuple kept instead of hashed -/
def key (t : KeyTable) : Expr → KeyTree
  | const v => .node .Const [] ((t.attrs .Const).map (attr (const v))) []
  | litvec es => .node .LitVec [es.length] ((t.attrs .LitVec).map (attr (litvec es))) (es.map (key t))
  | litmat m n es => .node .LitMat [m, n] ((t.attrs .LitMat).map (attr (litmat m n es))) (es.map (key t))
  | varref v I D p => .node .VarRef [] ((t.attrs .VarRef).map (attr (varref v I D p))) []
  | neg x => .node .Neg [] ((t.attrs .Neg).map (attr (neg x))) [key t x]
  | builtin f x => .node .Builtin [] ((t.attrs .Builtin).map (attr (builtin f x))) [key t x]
  | sop o x y => .node .ScalarOper [] ((t.attrs .ScalarOper).map (attr (sop o x y))) [key t x, key t y]
  | top o x y => .node .TensorOper (shape (top o x y)) ((t.attrs .TensorOper).map (attr (top o x y))) [key t x, key t y]
  | cross x y => .node .Cross (shape (cross x y)) ((t.attrs .Cross).map (attr (cross x y))) [key t x, key t y]
  | outer x y => .node .Outer (shape (outer x y)) ((t.attrs .Outer).map (attr (outer x y))) [key t x, key t y]
  | pderiv b D ph => .node .PartialDeriv [] ((t.attrs .PartialDeriv).map (attr (pderiv b D ph))) []
  | matvec A x => .node .MatVec (shape (matvec A x)) ((t.attrs .MatVec).map (attr (matvec A x))) [key t A, key t x]
  | matmat A B => .node .MatMat (shape (matmat A B)) ((t.attrs .MatMat).map (attr (matmat A B))) [key t A, key t B]
  | gw a => .node .GaussWeight [] ((t.attrs .GaussWeight).map (attr (gw a))) []
  | dx => .node .VolumeMeasure [] ((t.attrs .VolumeMeasure).map (attr dx)) []
  | ds => .node .SurfaceMeasure [] ((t.attrs .SurfaceMeasure).map (attr ds)) []

mutual
def KeyTree.beq : KeyTree → KeyTree → Bool
  | .node c s v ks, .node c' s' v' ks' => decide (c = c') && decide (s = s') && decide (v = v') && KeyTree.beqL ks ks'
def KeyTree.beqL : List KeyTree → List KeyTree → Bool
  | [], [] => true
  | a :: as, b :: bs => KeyTree.beq a b && KeyTree.beqL as bs
  | _, _ => false
end

/-- `base_complexity` / the `complexity` of `extract_common_expressions` (vform.py:668, 916) -/
def complexity : Expr → Nat
  | const _ => 0
  | litvec es => (es.map complexity).foldl (· + ·) 0
  | litmat _ _ es => (es.map complexity).foldl (· + ·) 0
  | varref .. => 0
  | neg x => complexity x
  | builtin _ x => 1 + complexity x
  | sop _ x y => 1 + complexity x + complexity y
  | top _ x y => 1 + complexity x + complexity y
  | cross x y => 1 + complexity x + complexity y
  | outer x y => 1 + complexity x + complexity y
  | pderiv .. => 1
  | matvec A x => 1 + complexity A + complexity x
  | matmat A B => 1 + complexity A + complexity B
  | gw _ => 1
  | dx => 1
  | ds => 1

/-- all nodes of a tree in the order of `iterexprs(…, once=False)`: children first, then the node -/
def postorder : Expr → List Expr
  | litvec es => (es.map postorder).flatten ++ [litvec es]
  | litmat m n es => (es.map postorder).flatten ++ [litmat m n es]
  | neg x => postorder x ++ [neg x]
  | builtin f x => postorder x ++ [builtin f x]
  | sop o x y => postorder x ++ postorder y ++ [sop o x y]
  | top o x y => postorder x ++ postorder y ++ [top o x y]
  | cross x y => postorder x ++ postorder y ++ [cross x y]
  | outer x y => postorder x ++ postorder y ++ [outer x y]
  | matvec A x => postorder A ++ postorder x ++ [matvec A x]
  | matmat A B => postorder A ++ postorder B ++ [matmat A B]
  | e => [e]

/-- the grouping decision of `extract_common_expressions`: class index (by first occurrence) of
every node of the given roots, in traversal order. -/
def groupIds (t : KeyTable) (roots : List Expr) : List Nat :=
  let nodes := (roots.map postorder).flatten
  let step := fun (acc : List KeyTree × List Nat) (e : Expr) =>
    let k := key t e
    match acc.1.findIdx? (fun k' => KeyTree.beq k' k) with
    | some i => (acc.1, i :: acc.2)
    | none => (acc.1 ++ [k], acc.1.length :: acc.2)
  (nodes.foldl step ([], [])).2.reverse

/-- one extraction step of `extract_common_expressions` (vform.py:695-696): every node whose key is
the chosen one is replaced by the new variable's `as_expr` — decided on the *old* node, so a
replaced node's subtree is not visited. -/
def cseReplace (p : Expr → Bool) (x : Expr) : Expr → Expr
  | const v => if p (const v) then x else const v
  | litvec es => if p (litvec es) then x else litvec (es.map (cseReplace p x))
  | litmat m n es => if p (litmat m n es) then x else litmat m n (es.map (cseReplace p x))
  | varref v I D q => if p (varref v I D q) then x else varref v I D q
  | neg a => if p (neg a) then x else neg (cseReplace p x a)
  | builtin f a => if p (builtin f a) then x else builtin f (cseReplace p x a)
  | sop o a b => if p (sop o a b) then x else sop o (cseReplace p x a) (cseReplace p x b)
  | top o a b => if p (top o a b) then x else top o (cseReplace p x a) (cseReplace p x b)
  | cross a b => if p (cross a b) then x else cross (cseReplace p x a) (cseReplace p x b)
  | outer a b => if p (outer a b) then x else outer (cseReplace p x a) (cseReplace p x b)
  | pderiv b D ph => if p (pderiv b D ph) then x else pderiv b D ph
  | matvec a b => if p (matvec a b) then x else matvec (cseReplace p x a) (cseReplace p x b)
  | matmat a b => if p (matmat a b) then x else matmat (cseReplace p x a) (cseReplace p x b)
  | gw a => if p (gw a) then x else gw a
  | dx => if p dx then x else dx
  | ds => if p ds then x else ds

/-- Inline scalar variables: `defs` maps a variable name to its (scalar) defining expression.
Used to validate `extract_common_expressions` / `replace_trivial_vars` by translation validation:
inlining the introduced temporaries in "after" must give back "before".  One level; the driver
iterates (definitions are listed def-before-use, innermost first). -/
def inlineVars (defs : List (String × Expr)) : Expr → Expr
  | const v => const v
  | litvec es => litvec (es.map (inlineVars defs))
  | litmat m n es => litmat m n (es.map (inlineVars defs))
  | varref v I D q =>
      match defs.find? (·.1 == v) with
      | some d => underlying d.2 I
      | none => varref v I D q
  | neg a => neg (inlineVars defs a)
  | builtin f a => builtin f (inlineVars defs a)
  | sop o a b => sop o (inlineVars defs a) (inlineVars defs b)
  | top o a b => top o (inlineVars defs a) (inlineVars defs b)
  | cross a b => cross (inlineVars defs a) (inlineVars defs b)
  | outer a b => outer (inlineVars defs a) (inlineVars defs b)
  | pderiv b D ph => pderiv b D ph
  | matvec a b => matvec (inlineVars defs a) (inlineVars defs b)
  | matmat a b => matmat (inlineVars defs a) (inlineVars defs b)
  | gw a => gw a
  | dx => dx
  | ds => ds

/-! ### denotational semantics

`Ops α` are the operations of the value domain (a field in the theorems, `Rat` in exact runs);
`Env α` is the jet environment: the value of every variable entry and basis function *together
with all its partial derivatives* (`D` is the multi-index, the flag says physical/parametric),
the per-axis Gauss weights and the two measures.  `ev o ρ e i j` is entry `(i,j)` of `e`
(scalars ignore `i j`, vectors ignore `j`). -/

structure Ops (α : Type) where
  add : α → α → α
  sub : α → α → α
  mul : α → α → α
  div : α → α → α
  neg : α → α
  ofRat : Rat → α
  fn : String → α → α

def Ops.bin (o : Ops α) : Op → α → α → α
  | .add => o.add | .sub => o.sub | .mul => o.mul | .div => o.div

structure Env (α : Type) where
  var : String → List Nat → List Nat → Bool → α
  bf : BFun → List Nat → Bool → α
  gw : Nat → α
  dx : α
  ds : α

/-- `reduce(operator.add, values)` -/
def reduceAddV (o : Ops α) : List α → α
  | [] => o.ofRat 0
  | t :: ts => ts.foldl o.add t

mutual
def ev (o : Ops α) (ρ : Env α) : Expr → Nat → Nat → α
  | const v, _, _ => o.ofRat v
  | litvec es, i, _ => evL o ρ es i
  | litmat _ n es, i, j => evL o ρ es (i * n + j)
  | varref v I D p, _, _ => ρ.var v I D p
  | neg x, _, _ => o.neg (ev o ρ x 0 0)
  | builtin f x, _, _ => o.fn f (ev o ρ x 0 0)
  | sop op x y, _, _ => o.bin op (ev o ρ x 0 0) (ev o ρ y 0 0)
  | top op x y, i, j => o.bin op (ev o ρ x i j) (ev o ρ y i j)
  | cross x y, i, _ =>
      match i with
      | 0 => o.sub (o.mul (ev o ρ x 1 0) (ev o ρ y 2 0)) (o.mul (ev o ρ x 2 0) (ev o ρ y 1 0))
      | 1 => o.sub (o.mul (ev o ρ x 2 0) (ev o ρ y 0 0)) (o.mul (ev o ρ x 0 0) (ev o ρ y 2 0))
      | _ => o.sub (o.mul (ev o ρ x 0 0) (ev o ρ y 1 0)) (o.mul (ev o ρ x 1 0) (ev o ρ y 0 0))
  | outer x y, i, j => o.mul (ev o ρ x i 0) (ev o ρ y j 0)
  | pderiv b D ph, _, _ => ρ.bf b D ph
  | matvec A x, i, _ =>
      reduceAddV o ((List.range (len x)).map fun j => o.mul (ev o ρ A i j) (ev o ρ x j 0))
  | matmat A B, i, j =>
      reduceAddV o ((List.range (ncols A)).map fun k => o.mul (ev o ρ A i k) (ev o ρ B k j))
  | gw a, _, _ => ρ.gw a
  | dx, _, _ => ρ.dx
  | ds, _, _ => ρ.ds
def evL (o : Ops α) (ρ : Env α) : List Expr → Nat → α
  | [], _ => o.ofRat 0
  | e :: _, 0 => ev o ρ e 0 0
  | _ :: es, i + 1 => evL o ρ es i
end

/-- exact rational instance (division by zero is `0`, Lean's convention; the harness never
relies on it) -/
def ratOps : Ops Rat :=
  { add := (· + ·), sub := (· - ·), mul := (· * ·), div := (· / ·), neg := (- ·), ofRat := id,
    fn := fun f x => if f == "abs" then (if x < 0 then -x else x) else x }

/-! ### form-level keys: `BasisFun/InputField/Parameter.hash`, `AsmVar.hash`, `VForm.hash`,
and the cache key of `compile.compile_vform` -/

/-- the attributes of a `VForm` read by `finalize()` and code generation -/
structure Form where
  dim : Nat
  geoDim : Nat
  isBoundary : Bool
  arity : Nat
  vec : Nat            -- Python: False or the product of component counts; 0 encodes False
  spacetime : Bool
  basisFuns : List BFun
  inputs : List InputField
  vars : List AsmVar
  exprs : List Expr
deriving Repr, Inhabited

/-- `vf.params`: appended only by `VForm.parameter`, together with the sourced variable -/
def Form.params (f : Form) : List Parameter :=
  f.vars.filterMap fun v => match v.src with | .param p => some p | _ => none

inductive FAttr where
  | dim | geoDim | isBoundary | arity | vec | spacetime | basisFuns | inputs | vars | exprs
  | bfName | bfNumcomp | bfComponent | bfSpace
  | inName | inShape | inPhysical | inUpdatable
  | parName | parShape
  | varName | varSrc | varShape | varSymmetric | varDeriv
  | onDemand
deriving DecidableEq, Repr, Inhabited

/-- everything `generate(vf, on_demand)` reads (the codegen-relevant projection at form level) -/
def allFAttrs : List FAttr :=
  [.dim, .geoDim, .isBoundary, .arity, .vec, .spacetime, .basisFuns, .inputs, .vars, .exprs,
   .bfName, .bfNumcomp, .bfComponent, .bfSpace, .inName, .inShape, .inPhysical, .inUpdatable,
   .parName, .parShape, .varName, .varSrc, .varShape, .varSymmetric, .varDeriv, .onDemand]

/-- regenerated: which of them enter `VForm.hash` / `AsmVar.hash` / `*.hash` / the cache key -/
abbrev FKeyTable := List FAttr

def FKeyTableComplete (t : FKeyTable) : Bool := allFAttrs.all fun a => t.contains a

inductive FVal where
  | nat (n : Nat) | bool (b : Bool) | str (s : String) | nats (l : List Nat) | onat (o : Option Nat)
  | tree (k : KeyTree) | list (l : List FVal) | skip
deriving Repr, Inhabited

open FVal in
/-- a field enters the key iff the table lists it (otherwise a placeholder) -/
def fld (t : FKeyTable) (a : FAttr) (v : FVal) : FVal := if t.contains a then v else .skip

def bfKey (t : FKeyTable) (b : BFun) : FVal :=
  .list [fld t .bfName (.str b.name), fld t .bfNumcomp (.onat b.numcomp),
         fld t .bfComponent (.onat b.component), fld t .bfSpace (.nat b.space)]

def inKey (t : FKeyTable) (f : InputField) : FVal :=
  .list [fld t .inName (.str f.name), fld t .inShape (.nats f.shape),
         fld t .inPhysical (.bool f.physical), fld t .inUpdatable (.bool f.updatable)]

def parKey (t : FKeyTable) (p : Parameter) : FVal :=
  .list [fld t .parName (.str p.name), fld t .parShape (.nats p.shape)]

def srcKey (kt : KeyTable) (t : FKeyTable) : Src → FVal
  | .expr e => .list [.nat 0, .tree (key kt e)]
  | .input f => .list [.nat 1, inKey t f]
  | .param p => .list [.nat 2, parKey t p]

/-- `AsmVar.hash` (vform.py:99-110) -/
def varKey (kt : KeyTable) (t : FKeyTable) (v : AsmVar) : FVal :=
  .list [fld t .varName (.str v.name), fld t .varSrc (srcKey kt t v.src), fld t .varShape (.nats v.shape),
         fld t .varSymmetric (.bool v.symmetric), fld t .varDeriv (.onat v.deriv)]

/-- `VForm.hash` (vform.py:254-268) -/
def formKey (kt : KeyTable) (t : FKeyTable) (f : Form) : FVal :=
  .list [fld t .dim (.nat f.dim), fld t .geoDim (.nat f.geoDim), fld t .isBoundary (.bool f.isBoundary),
         fld t .arity (.nat f.arity), fld t .vec (.nat f.vec), fld t .spacetime (.bool f.spacetime),
         fld t .basisFuns (.list (f.basisFuns.map (bfKey t))),
         fld t .inputs (.list (f.inputs.map (inKey t))),
         fld t .vars (.list (f.vars.map (varKey kt t))),
         fld t .exprs (.list (f.exprs.map fun e => .tree (key kt e)))]

/-- `cache_key = (vf.hash(), (on_demand,))` (compile.py:101-125) -/
def cacheKey (kt : KeyTable) (t : FKeyTable) (r : Form × Bool) : FVal :=
  .list [formKey kt t r.1, fld t .onDemand (.bool r.2)]

mutual
def FVal.beq : FVal → FVal → Bool
  | .nat a, .nat b => a == b
  | .bool a, .bool b => a == b
  | .str a, .str b => a == b
  | .nats a, .nats b => a == b
  | .onat a, .onat b => a == b
  | .tree a, .tree b => KeyTree.beq a b
  | .list a, .list b => FVal.beqL a b
  | .skip, .skip => true
  | _, _ => false
def FVal.beqL : List FVal → List FVal → Bool
  | [], [] => true
  | a :: as, b :: bs => FVal.beq a b && FVal.beqL as bs
  | _, _ => false
end

def cacheKeyBeq (kt : KeyTable) (t : FKeyTable) (a b : Form × Bool) : Bool :=
  FVal.beq (cacheKey kt t a) (cacheKey kt t b)

/-! ### the in-process cache of `compile.compile_vform` (compile.py:99-132)

`__vform_asm_cache` is a dict `cache_key ↦ assembler class`; a request looks its key up and only
generates (`generate(vf, on_demand)` + compile) on a miss.  `gen` stands for that pipeline. -/

abbrev AsmCache (Asm : Type) := List (FVal × Asm)

def compileVform {Asm : Type} (gen : Form × Bool → Asm) (kt : KeyTable) (t : FKeyTable)
    (c : AsmCache Asm) (r : Form × Bool) : AsmCache Asm × Asm :=
  match c.find? (fun p => FVal.beq p.1 (cacheKey kt t r)) with
  | some p => (c, p.2)
  | none => ((cacheKey kt t r, gen r) :: c, gen r)

/-- a whole history of requests, starting from the pre-seeded cache -/
def compileAll {Asm : Type} (gen : Form × Bool → Asm) (kt : KeyTable) (t : FKeyTable) :
    AsmCache Asm → List (Form × Bool) → AsmCache Asm × List Asm
  | c, [] => (c, [])
  | c, r :: rs =>
      let (c1, a) := compileVform gen kt t c r
      let (c2, as) := compileAll gen kt t c1 rs
      (c2, a :: as)

end Pyiga.VForm
