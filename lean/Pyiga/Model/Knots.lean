/-
L-ord: knot vectors — constructor and order-theoretic queries, transliterated from
`pyiga/bspline_cy.pyx` (`pyx_findspan`, `pyx_findspans`) and `pyiga/bspline.py`
(`KnotVector.*`, `make_knots`) and `pyiga/spline.py` (`Spline.derivative`).  No Mathlib.

Everything is generic in the number type `α` (only the operations the code uses are
required as instances), so that
  * the drivers run the functions over core `Rat` (exact) and over `RE` (value + running
    forward error bound, see `Model/BSpline.lean`),
  * the theorems in `Proofs/Knots.lean` are proved about *these very functions* over an
    arbitrary `LinearOrder` / linearly ordered field.

A knot vector is a `List α` (`kv`) plus the degree `p`; indexed reads `kv[i]` are
`getK kv i` (`0` outside, never reached under the hypotheses of the theorems).
-/

namespace Pyiga.Knots

variable {α : Type}

/-- `kv[i]` -/
def getK [Zero α] (kv : List α) (i : Nat) : α := kv.getD i 0

/-! ## `pyx_findspan` (bspline_cy.pyx:13-27) -/

section Findspan
variable [LT α] [LE α] [DecidableLT α] [DecidableLE α]

/-- the `while b - a > 1` loop of `pyx_findspan`; structural fuel (the theorem shows `n`
is enough and the result does not depend on it). -/
def findspanLoop (t : Nat → α) (u : α) : Nat → Nat → Nat → Nat
  | 0, a, _ => a
  | fuel + 1, a, b =>
    if b - a > 1 then
      let c := a + (b - a) / 2
      if t c > u then findspanLoop t u fuel a c else findspanLoop t u fuel c b
    else a

/-- `pyx_findspan(kv, p, u)` with `t i = kv[i]`, `n = kv.shape[0]`:
```
if u >= kv[n - p - 1]: return n - p - 2
a = 0; b = n - 1
while b - a > 1: c = a + (b - a) // 2; if kv[c] > u: b = c else: a = c
return a
``` -/
def findspan (t : Nat → α) (n p : Nat) (u : α) : Nat :=
  if u ≥ t (n - p - 1) then n - p - 2 else findspanLoop t u n 0 (n - 1)

/-- `pyx_findspans` -/
def findspans (t : Nat → α) (n p : Nat) (us : List α) : List Nat := us.map (findspan t n p)

/-- `KnotVector.first_active(k) = k - p` (a Python int: may be negative for malformed input) -/
def firstActive (p : Nat) (k : Nat) : Int := (k : Int) - (p : Int)

/-- `KnotVector.first_active_at(u)` -/
def firstActiveAt (t : Nat → α) (n p : Nat) (u : α) : Int := firstActive p (findspan t n p u)

end Findspan

/-! ## mesh caches: `np.unique(kv, return_inverse=True)` on the non-decreasing `kv`
(`KnotVector.__init__` asserts `kv[1:] - kv[:-1] >= 0`, so `np.unique`'s sort is the
identity and its `aux[1:] != aux[:-1]` mask is the consecutive comparison below). -/

section Mesh
variable [DecidableEq α]

def meshAux : α → List α → List α
  | _, [] => []
  | prev, x :: xs => if x = prev then meshAux x xs else x :: meshAux x xs

/-- `KnotVector.mesh` -/
def mesh : List α → List α
  | [] => []
  | x :: xs => x :: meshAux x xs

def k2mAux : α → Nat → List α → List Nat
  | _, _, [] => []
  | prev, m, x :: xs => if x = prev then m :: k2mAux x m xs else (m + 1) :: k2mAux x (m + 1) xs

/-- `KnotVector._knots_to_mesh` (the `return_inverse` array) -/
def knotsToMesh : List α → List Nat
  | [] => []
  | x :: xs => 0 :: k2mAux x 0 xs

/-- `KnotVector.numspans = mesh.size - 1` -/
def numspans (kv : List α) : Nat := (mesh kv).length - 1

/-- multiplicities of the breakpoints (`np.unique(kv, return_counts=True)[1]`); used by the
constructor check, not by pyiga itself -/
def multsAux : α → Nat → List α → List Nat
  | _, c, [] => [c]
  | prev, c, x :: xs => if x = prev then multsAux x (c + 1) xs else c :: multsAux x 1 xs

def mults : List α → List Nat
  | [] => []
  | x :: xs => multsAux x 1 xs

end Mesh

/-- `KnotVector.numdofs = kv.size - p - 1` -/
def numdofs (kv : List α) (p : Nat) : Nat := kv.length - p - 1

/-- `KnotVector.support_idx(j) = (j, j+p+1)` -/
def supportIdx (p j : Nat) : Nat × Nat := (j, j + p + 1)

/-- `KnotVector.support(j) = (kv[j], kv[j+p+1])` -/
def support [Zero α] (kv : List α) (p j : Nat) : α × α := (getK kv j, getK kv (j + p + 1))

/-- `KnotVector.mesh_support_idx(j)` given the `_knots_to_mesh` array -/
def meshSupportIdx (k2m : List Nat) (p j : Nat) : Nat × Nat :=
  (k2m.getD (supportIdx p j).1 0, k2m.getD (supportIdx p j).2 0)

/-- `KnotVector.mesh_support_idx_all()`:
`startend = stack((arange(0,n), arange(p+1, n+p+1)), axis=1); return k2m[startend]` -/
def meshSupportIdxAll (k2m : List Nat) (p n : Nat) : List (Nat × Nat) :=
  (List.range n).map (fun j => (k2m.getD j 0, k2m.getD (p + 1 + j) 0))

/-- `KnotVector.mesh_span_indices()`: `np.where(k2m[1:] != k2m[:-1])[0]` -/
def meshSpanIndicesAux : Nat → List Nat → List Nat
  | i, a :: b :: rest => if b ≠ a then i :: meshSpanIndicesAux (i + 1) (b :: rest)
                         else meshSpanIndicesAux (i + 1) (b :: rest)
  | _, _ => []

def meshSpanIndices (k2m : List Nat) : List Nat := meshSpanIndicesAux 0 k2m

/-! ## `make_knots` (bspline.py:192-213, after the linspace repair of D3) -/

section Make
variable [Add α] [Sub α] [Mul α] [Div α] [NatCast α]

/-- `np.linspace(a, b, n+1)[1:-1]`: numpy computes `step = (b-a)/n`, `y = arange(n+1)*step + a`
and then overwrites `y[-1] = b`; the slice `[1:-1]` keeps `i = 1..n-1`. -/
def linspaceInterior (a b : α) (n : Nat) : List α :=
  (List.range (n - 1)).map (fun i => ((i + 1 : Nat) : α) * ((b - a) / (n : α)) + a)

/-- `np.repeat(xs, mult)` -/
def repeatEach (xs : List α) (mult : Nat) : List α := xs.flatMap (fun x => List.replicate mult x)

/-- `make_knots(p, a, b, n, mult)`:
`concatenate((repeat(a,p+1), repeat(linspace(a,b,n+1)[1:-1], mult), repeat(b,p+1)))` -/
def makeKnots (p : Nat) (a b : α) (n mult : Nat) : List α :=
  List.replicate (p + 1) a ++ (repeatEach (linspaceInterior a b n) mult ++ List.replicate (p + 1) b)

end Make

/-! ## `greville` (bspline.py:164-174) -/

section Greville
variable [Add α] [Mul α] [Div α] [Zero α] [One α] [NatCast α] [LT α] [DecidableLT α]

/-- `sum_{j=i+1..i+p} kv[j] * (1/p)`: entry `i+p` of `np.convolve(kv, ones(p)/p)`, summed in
the order of increasing `j`. -/
def runningAvg (kv : List α) (p i : Nat) : α :=
  (List.range p).foldl (fun acc j => acc + getK kv (i + 1 + j) * ((1 : α) / (p : α))) 0

/-- `np.clip(g, lo, hi)` = `minimum(maximum(g, lo), hi)` -/
def clip (g lo hi : α) : α :=
  let m := if g < lo then lo else g
  if hi < m then hi else m

/-- `KnotVector.greville()`.  `p = 0`: cell middle points `(kv[1:] + kv[:-1]) / 2`. -/
def greville (kv : List α) (p : Nat) : List α :=
  if p = 0 then
    (List.range (kv.length - 1)).map (fun i => (getK kv (i + 1) + getK kv i) / ((2 : Nat) : α))
  else
    (List.range (kv.length - p - 1)).map
      (fun i => clip (runningAvg kv p i) (getK kv 0) (getK kv (kv.length - 1)))

/-- the same without the final clip (what the clip is there to repair) -/
def grevilleRaw (kv : List α) (p : Nat) : List α :=
  (List.range (kv.length - p - 1)).map (fun i => runningAvg kv p i)

end Greville

/-! ## `refine` (bspline.py:176-183) -/

section Refine
variable [LE α] [DecidableLE α]

/-- insertion into a sorted list (`np.sort` is modelled by insertion sort: the result of a
sort is determined by the multiset, the algorithm is irrelevant) -/
def insertSorted (x : α) : List α → List α
  | [] => [x]
  | y :: ys => if x ≤ y then x :: y :: ys else y :: insertSorted x ys

def sortL : List α → List α
  | [] => []
  | x :: xs => insertSorted x (sortL xs)

/-- `KnotVector.refine(new_knots)`: `np.sort(np.concatenate((kv, new_knots)))` -/
def refineWith (kv new : List α) : List α := sortL (kv ++ new)

end Refine

section RefineUniform
variable [LE α] [DecidableLE α] [DecidableEq α] [Add α] [Div α] [NatCast α] [Zero α]

/-- `(mesh[1:] + mesh[:-1]) / 2` -/
def midpoints : List α → List α
  | a :: b :: rest => (b + a) / ((2 : Nat) : α) :: midpoints (b :: rest)
  | _ => []

/-- `KnotVector.refine()` (uniform) -/
def refineUniform (kv : List α) : List α := refineWith kv (midpoints (mesh kv))

end RefineUniform

/-! ## `__eq__` (bspline.py:77-83): since /repo commit 4e760ef `allclose(a,b) and allclose(b,a)` = `kvEqSym`;
`kvEq` is the former one-directional predicate (kept for the negation witness `eq_not_symm`) -/

section Eq
variable [Add α] [Sub α] [Mul α] [Neg α] [Zero α] [LT α] [LE α] [DecidableLT α] [DecidableLE α]

def absK (x : α) : α := if x < 0 then -x else x

/-- `np.allclose(a, b, atol, rtol)` for finite arrays of equal length:
`all(|a - b| <= atol + rtol * |b|)` -/
def allclose (atol rtol : α) : List α → List α → Bool
  | x :: xs, y :: ys => decide (absK (x - y) ≤ atol + rtol * absK y) && allclose atol rtol xs ys
  | _, _ => true

/-- the former `KnotVector.__eq__` (`allclose(self.kv, other.kv)` only) -/
def kvEq (atol rtol : α) (kv1 : List α) (p1 : Nat) (kv2 : List α) (p2 : Nat) : Bool :=
  if p1 = p2 ∧ kv1.length = kv2.length then allclose atol rtol kv1 kv2 else false

/-- `KnotVector.__eq__` as it is now: `allclose(a,b) and allclose(b,a)` -/
def kvEqSym (atol rtol : α) (kv1 : List α) (p1 : Nat) (kv2 : List α) (p2 : Nat) : Bool :=
  kvEq atol rtol kv1 p1 kv2 p2 && kvEq atol rtol kv2 p2 kv1 p1

end Eq

/-! ## `Spline.derivative` (spline.py:21-26) -/

section Deriv
variable [Sub α] [Mul α] [Div α] [Zero α] [NatCast α]

/-- `diffcoeffs = p / (kv[p+1:-1] - kv[1:-(p+1)]) * np.diff(coeffs)`; entry `i`:
`(p / (kv[p+1+i] - kv[1+i])) * (c[i+1] - c[i])`, `i = 0 .. len(kv)-p-3`. -/
def derivCoeffs (kv : List α) (p : Nat) (c : List α) : List α :=
  (List.range (kv.length - p - 2)).map
    (fun i => ((p : α) / (getK kv (p + 1 + i) - getK kv (1 + i))) * (getK c (i + 1) - getK c i))

/-- `kv[1:-1]` -/
def derivKnots (kv : List α) : List α := (kv.drop 1).dropLast

end Deriv

end Pyiga.Knots
