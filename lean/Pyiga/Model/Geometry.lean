/-
L-geo (C07): tensor-product spline / NURBS evaluation routes and coefficient-level geometry
constructors of pyiga, transliterated (no Mathlib; generic in the carrier `α`, executed over
core `Rat` and over the error-tracking carrier of the driver).

The 1-D B-spline values/derivatives at the evaluation points are INPUTS (`Info`, one row of
`bspline.collocation_derivs_info`); they are the subject of C02.  What is modelled here is what
pyiga does *with* them:

  * `BSplineFunc.grid_eval / grid_jacobian / grid_hessian`       (bspline.py:874-980)
  * `_BaseSplineFunc.eval`  (XYZ -> ZYX, singleton grid)          (bspline.py:800-818)
  * `tp_bsp_eval_pointwise / tp_bsp_jac_pointwise /
     tp_bsp_eval_with_jac_pointwise`  (axis map `XY[sdim-1-d]`, active window slices,
     Jacobian slot `sdim-i-1`)                                    (bspline.py:436-587)
  * `geometry._nurbs_jacobian`, `NurbsFunc.grid_eval/grid_jacobian/grid_hessian/
     pointwise_eval/pointwise_jacobian`                           (geometry.py:17-186)
  * `_parse_bdspec`, `boundary`, `_BoundaryFunction.eval/grid_eval/grid_jacobian`
  * coefficient-level constructors: `translate scale apply_matrix rotate_2d as_nurbs as_vector
     __getitem__ copy coeffs_weights NurbsFunc.__init__ _prepare_for_outer outer_sum
     outer_product tensor_product line_segment cylinderize circular_arc_3pt/5pt/7pt
     quarter_annulus unit_cube identity`

`apply_tprod(colloc, coeffs)` is modelled by what it denotes,
`out[g, j] = Σ_I (Π_k colloc[k][g_k, I_k]) coeffs[I, j]` (the mode-product loop itself is C16).

Conventions as coded: coefficient axes are in zyx order (axis `k` of the coefficient array
belongs to `kvs[k]`), scattered points / call arguments are in xyz order, Jacobian columns are
x first (column `m` is the derivative along coefficient axis `sdim-1-m`), Hessians are packed
in `np.triu_indices` order of that column numbering.
-/
import Pyiga.Model.Index
import Pyiga.Model.Jet

namespace Pyiga.Geo
open Pyiga.Index

variable {α : Type} [Zero α] [One α] [Add α] [Mul α] [Sub α] [Neg α] [Div α]

/-- `Σ_{i<n} f i`, accumulated in index order. -/
def sumTo : Nat → (Nat → α) → α
  | 0, _ => 0
  | n + 1, f => sumTo n f + f n

/-- One row of `collocation_derivs_info(kv, nodes, derivs)`: index of the first active
B-spline at the node and, per derivative order `ν`, the `p+1` coefficients. -/
structure Info (α : Type) where
  first : Nat
  vals : List (List α)
deriving Inhabited

/-- number of active functions `p+1` -/
def Info.width (r : Info α) : Nat := (r.vals.getD 0 []).length

/-- `coll[d][1][ν, k][l]` -/
def Info.win (r : Info α) (ν l : Nat) : α := (r.vals.getD ν []).getD l 0

/-- entry `i` of the corresponding row of the CSR matrix built by `collocation_derivs`
(`J = indices[:,None] + arange(p+1)`; everything else is a structural zero). -/
def Info.dense (r : Info α) (ν i : Nat) : α :=
  if r.first ≤ i ∧ i < r.first + r.width then r.win ν (i - r.first) else 0

/-! ### contractions -/

/-- `Σ_I (Π_k r_k[I_k]) c[(I, j)]` for a C-ordered flat coefficient array with `ncomp`
trailing components; `off` is the row-major (Horner) offset of the axes already consumed. -/
def contract (c : Nat → α) (ncomp j : Nat) : List (Nat × (Nat → α)) → Nat → α
  | [], off => c (off * ncomp + j)
  | (n, r) :: rest, off => sumTo n (fun i => r i * contract c ncomp j rest (off * n + i))

/-- the einsum over the active slice `coeffs[Is[0]:Is[0]+p0+1, …]` of the scattered route:
per axis `(n, first, width, w)`. -/
def contractWin (c : Nat → α) (ncomp j : Nat) : List (Nat × Nat × Nat × (Nat → α)) → Nat → α
  | [], off => c (off * ncomp + j)
  | (n, first, m, w) :: rest, off =>
      sumTo m (fun l => w l * contractWin c ncomp j rest (off * n + first + l))

/-- dense collocation rows used for coefficient axes `i, i+1, …`: axis `i` has `dims[i]`
functions, is evaluated at `ys[i]` with derivative order `D[i]`. -/
def rows {X : Type} (B : Nat → X → Info α) : Nat → List Nat → List X → List Nat → List (Nat × (Nat → α))
  | i, n :: dims, y :: ys, ν :: D => (n, (B i y).dense ν) :: rows B (i + 1) dims ys D
  | _, _, _, _ => []

/-- active windows for the same data -/
def wins {X : Type} (B : Nat → X → Info α) : Nat → List Nat → List X → List Nat →
    List (Nat × Nat × Nat × (Nat → α))
  | i, n :: dims, y :: ys, ν :: D =>
      (n, (B i y).first, (B i y).width, (B i y).win ν) :: wins B (i + 1) dims ys D
  | _, _, _, _ => []

/-- derivative multi-index `e_i` of length `n` -/
def unitD (n i : Nat) : List Nat := (List.range n).map (fun k => if k = i then 1 else 0)

/-- `D = sdim*[0]; D[i] += 1; D[j] += 1` -/
def unitD2 (n i j : Nat) : List Nat :=
  (List.range n).map (fun k => (if k = i then 1 else 0) + (if k = j then 1 else 0))

/-- A spline function as stored: `dims[k] = kvs[k].numdofs`, `ncomp` = product of the trailing
axes of `coeffs`, `c` the flat C-ordered coefficient array. -/
structure Spl (α : Type) where
  dims : List Nat
  ncomp : Nat
  c : Nat → α

def Spl.sdim (S : Spl α) : Nat := S.dims.length

/-! ### BSplineFunc: grid routes (per grid node; `ys[i]` = `gridaxes[i][g_i]`, zyx order) -/

/-- `apply_tprod([colloc[k][D[k]] …], coeffs)[g, j]` -/
def Spl.gridD {X : Type} (S : Spl α) (B : Nat → X → Info α) (ys : List X) (D : List Nat) (j : Nat) : α :=
  contract S.c S.ncomp j (rows B 0 S.dims ys D) 0

/-- `grid_eval` at one node, component `j` -/
def Spl.gridVal {X : Type} (S : Spl α) (B : Nat → X → Info α) (ys : List X) (j : Nat) : α :=
  S.gridD B ys (List.replicate S.sdim 0) j

/-- `grid_jacobian` at one node, component `j`: the row of the Jacobian.
```
for i in reversed(range(self.sdim)):  # x-component is the last one
    ops = [colloc[j][1 if j==i else 0] for j in range(self.sdim)]
    grad_components.append(apply_tprod(ops, self.coeffs))
return np.stack(grad_components, axis=-1)
``` -/
def Spl.gridJacRow {X : Type} (S : Spl α) (B : Nat → X → Info α) (ys : List X) (j : Nat) : List α :=
  (List.range S.sdim).reverse.map (fun i => S.gridD B ys (unitD S.sdim i) j)

/-- the `(i, j)` pairs in the order in which `grid_hessian` fills `hess[..., i_hess]`:
`for i in reversed(range(sdim)): for j in reversed(range(i+1))`. -/
def hessPairs (sdim : Nat) : List (Nat × Nat) :=
  (List.range sdim).reverse.flatMap (fun i => (List.range (i + 1)).reverse.map (fun j => (i, j)))

/-- `grid_hessian` at one node, component `j`: packed symmetric Hessian -/
def Spl.gridHessRow {X : Type} (S : Spl α) (B : Nat → X → Info α) (ys : List X) (j : Nat) : List α :=
  (hessPairs S.sdim).map (fun p => S.gridD B ys (unitD2 S.sdim p.1 p.2) j)

/-- `np.triu_indices(n)` as a list of pairs -/
def triu (n : Nat) : List (Nat × Nat) :=
  (List.range n).flatMap (fun a => (List.range (n - a)).map (fun b => (a, a + b)))

/-! ### `_BaseSplineFunc.eval(*x)`: xyz arguments, reversed, singleton grid -/

/-- `coords = tuple(reversed(x)); self.grid_eval(coords).squeeze(...)` -/
def Spl.call {X : Type} (S : Spl α) (B : Nat → X → Info α) (x : List X) (j : Nat) : α :=
  S.gridVal B x.reverse j

/-! ### scattered routes -/

/-- `coll = [collocation_info(kvs[d], XY[sdim-1-d]) for d in range(sdim)]`: the coordinate
handed to axis `d`. -/
def axisMap {X : Type} [Inhabited X] (pts : List X) : List X :=
  (List.range pts.length).map (fun d => pts.getD (pts.length - 1 - d) default)

/-- `tp_bsp_eval_pointwise` at one point (xyz coordinates `pts`), component `j` -/
def Spl.pwD {X : Type} [Inhabited X] (S : Spl α) (B : Nat → X → Info α) (pts : List X) (D : List Nat) (j : Nat) : α :=
  contractWin S.c S.ncomp j (wins B 0 S.dims (axisMap pts) D) 0

def Spl.pwVal {X : Type} [Inhabited X] (S : Spl α) (B : Nat → X → Info α) (pts : List X) (j : Nat) : α :=
  S.pwD B pts (List.replicate S.sdim 0) j

/-- slot assignment `result[k, ..., sdim - i - 1] = vals` for `i in range(sdim)` -/
def slotAssign (sdim : Nat) (v : Nat → α) : List α :=
  (List.range sdim).foldl (fun res i => res.set (sdim - i - 1) (v i)) (List.replicate sdim 0)

/-- `tp_bsp_jac_pointwise` at one point, component `j`: Jacobian row -/
def Spl.pwJacRow {X : Type} [Inhabited X] (S : Spl α) (B : Nat → X → Info α) (pts : List X) (j : Nat) : List α :=
  slotAssign S.sdim (fun i => S.pwD B pts (unitD S.sdim i) j)

/-! ### NURBS quotient formulas (per evaluation node) -/

/-- `_nurbs_jacobian(val, jac)`: `val` has `dim+1` entries (weight last), `jac` is
`(dim+1) × sdim`; result `dim × sdim`:  `(Vjac * W - V * Wjac) / (W**2)`. -/
def nurbsJacobian (val : List α) (jac : List (List α)) : List (List α) :=
  let W := val.getLastD 0
  let Wjac := jac.getLastD []
  (val.dropLast.zip jac.dropLast).map (fun (V, Vjac) =>
    (Vjac.zip Wjac).map (fun (vj, wj) => (vj * W - V * wj) / (W * W)))

/-- `vals[..., :-1] / vals[..., -1:]` -/
def nurbsValue (val : List α) : List α :=
  let W := val.getLastD 0
  val.dropLast.map (fun V => V / W)

/-- `NurbsFunc.grid_hessian` at one node.  `hess` is `(dim+1) × n_hess` in the B-spline
packing; `I,J = np.triu_indices(sdim)`.
```
Njac = (Vjac * W - V * Wjac) / (W**2)
Nhess1 = Vhess / W - (V * Whess) / (W**2)
mat = (Njac[..., None, :] * Wjac[..., :, None]) / W[..., None]   # mat[a][b] = Njac[b]*Wjac[a]/W
mat += mat.swapaxes(-1, -2)
H = Nhess1 - mat[..., I, J]
``` -/
def nurbsHessian (sdim : Nat) (val : List α) (jac hess : List (List α)) : List (List α) :=
  let W := val.getLastD 0
  let Wjac := jac.getLastD []
  let Whess := hess.getLastD []
  let Njac := nurbsJacobian val jac
  ((val.dropLast.zip Njac).zip hess.dropLast).map (fun ((V, Nj), Vhess) =>
    ((triu sdim).zip (Vhess.zip Whess)).map (fun ((a, b), (vh, wh)) =>
      let mat := fun (a b : Nat) => (Nj.getD b 0 * Wjac.getD a 0) / W
      (vh / W - (V * wh) / (W * W)) - (mat a b + mat b a)))

/-! ### `_parse_bdspec` and boundary restriction -/

inductive BdSpec where
  | left | right | bottom | top | front | back
  | pair (axis : Int) (side : Int)
deriving Repr, DecidableEq

/-- `_parse_bdspec(bdspec, dim)`; `none` = `ValueError`. -/
def parseBdspec (b : BdSpec) (dim : Nat) : Option (Nat × Nat) :=
  let bd : Int × Int := match b with
    | .left => ((dim : Int) - 1, 0)
    | .right => ((dim : Int) - 1, 1)
    | .bottom => ((dim : Int) - 2, 0)
    | .top => ((dim : Int) - 2, 1)
    | .front => ((dim : Int) - 3, 0)
    | .back => ((dim : Int) - 3, 1)
    | .pair a s => (a, s)
  if ¬ (bd.2 = 0 ∨ bd.2 = 1) then none
  else if bd.1 < 0 ∨ bd.1 ≥ (dim : Int) then none
  else some (bd.1.toNat, bd.2.toNat)

/-- `slices[axis] = (0 if side==0 else -1); coeffs[tuple(slices)]` on the flat array:
new flat index `k` (over `dims` with `axis` removed, `ncomp` trailing) ↦ old flat index. -/
def sliceIndex (dims : List Nat) (ncomp axis side k : Nat) : Nat :=
  let inner := prod (dims.drop (axis + 1)) * ncomp
  let n := dims.getD axis 1
  let fixed := if side = 0 then 0 else n - 1
  (k / inner) * (n * inner) + fixed * inner + k % inner

def Spl.boundary (S : Spl α) (axis side : Nat) : Spl α :=
  { dims := S.dims.eraseIdx axis, ncomp := S.ncomp,
    c := fun k => S.c (sliceIndex S.dims S.ncomp axis side k) }

/-- `_BoundaryFunction.eval`: `x.insert(len(x) - self.axis, self.fixed_coord)` (xyz order) -/
def bdEvalArgs {X : Type} (x : List X) (axis : Nat) (fixed : X) : List X :=
  x.insertIdx (x.length - axis) fixed

/-- `_BoundaryFunction.grid_eval`: `gridaxes.insert(self.axis, [fixed_coord])` (zyx order) -/
def bdGridArgs {X : Type} (ys : List X) (axis : Nat) (fixed : X) : List X :=
  ys.insertIdx axis fixed

/-- `_BoundaryFunction.grid_jacobian(keep_normal=False)`: drop column
`ax = jacs.shape[-1] - self.axis - 1`. -/
def bdDropColumn (row : List α) (axis : Nat) : List α :=
  let ax := row.length - axis - 1
  row.take ax ++ row.drop (ax + 1)

/-! ### coefficient-level constructors (flat C-ordered lists) -/

/-- A `BSplineFunc` / `NurbsFunc` as stored.  `vshape` = trailing axes of `coeffs` (for a
NURBS: `[dim+1]`, weights last, premultiplied); `isscalar` = `NurbsFunc._isscalar`. -/
structure Func (α : Type) where
  nurbs : Bool
  dims : List Nat
  vshape : List Nat
  isscalar : Bool
  c : List α
deriving Inhabited

def Func.ncomp (F : Func α) : Nat := prod F.vshape
def Func.at (F : Func α) (i : Nat) : α := F.c.getD i 0
def Func.toSpl (F : Func α) : Spl α := { dims := F.dims, ncomp := F.ncomp, c := F.at }
def Func.npts (F : Func α) : Nat := prod F.dims

/-- trailing-axis broadcast of a 1-D operand (`len` 1 or the last axis length) -/
def bcast (v : List α) (i : Nat) : α := v.getD (i % v.length) 0

/-- `BSplineFunc.translate`: `self.coeffs + offset` -/
def Func.bspTranslate (F : Func α) (off : List α) : Func α :=
  { F with c := (List.range F.c.length).map (fun i => F.at i + bcast off i) }

/-- `BSplineFunc.scale`: `self.coeffs * factor` -/
def Func.bspScale (F : Func α) (fac : List α) : Func α :=
  { F with c := (List.range F.c.length).map (fun i => F.at i * bcast fac i) }

/-- `np.matmul(A, C[..., None])` squeezed, `A` a single `r × m` matrix, `C` with `m` trailing
components per control point -/
def matApply (A : List (List α)) (m : Nat) (c : List α) : List α :=
  (List.range (c.length / m)).flatMap (fun I =>
    A.map (fun row => sumTo m (fun b => row.getD b 0 * c.getD (I * m + b) 0)))

/-- `BSplineFunc.apply_matrix` (single matrix) -/
def Func.bspApplyMatrix (F : Func α) (A : List (List α)) : Func α :=
  { F with vshape := [A.length], c := matApply A F.ncomp F.c }

/-- `R = [[c, -s], [s, c]]` -/
def rot2 (s c : α) : List (List α) := [[c, -s], [s, c]]

/-- `coeffs[..., I]` for an integer `I` (drops the last axis) -/
def Func.bspGetItem (F : Func α) (I : Nat) : Func α :=
  let m := F.vshape.getLastD 1
  { F with vshape := F.vshape.dropLast,
           c := (List.range (F.c.length / m)).map (fun k => F.at (k * m + I)) }

/-- `coeffs[..., [i1, i2, …]]` (index list: keeps an axis of that length) -/
def Func.bspGetItems (F : Func α) (Is : List Nat) : Func α :=
  let m := F.vshape.getLastD 1
  { F with vshape := F.vshape.dropLast ++ [Is.length],
           c := (List.range (F.c.length / m)).flatMap (fun k => Is.map (fun I => F.at (k * m + I))) }

/-- `BSplineFunc.as_vector` -/
def Func.bspAsVector (F : Func α) : Func α :=
  if F.vshape.length = 1 then F else { F with vshape := [1] }

/-- `NurbsFunc.__init__(kvs, coeffs, weights, premultiplied)` with explicit weights:
stack/concatenate the weights as last component, then `coeffs[..., :-1] *= coeffs[..., -1:]`
unless premultiplied.  `cshape` = trailing shape of `coeffs` (`[]` or `[dim]`). -/
def mkNurbs (dims cshape : List Nat) (C W : List α) (premult : Bool) : Func α :=
  let m := prod cshape
  { nurbs := true, dims := dims, vshape := [m + 1], isscalar := cshape.isEmpty,
    c := (List.range W.length).flatMap (fun I =>
      (List.range m).map (fun b => if premult then C.getD (I * m + b) 0 else C.getD (I * m + b) 0 * W.getD I 0)
        ++ [W.getD I 0]) }

/-- `NurbsFunc.coeffs_weights`: `(coeffs[..., :-1] / W[..., None], W)` -/
def Func.coeffsWeights (F : Func α) : List α × List α :=
  let m1 := F.ncomp
  let n := F.c.length / m1
  ((List.range n).flatMap (fun I => (List.range (m1 - 1)).map (fun b => F.at (I * m1 + b) / F.at (I * m1 + m1 - 1))),
   (List.range n).map (fun I => F.at (I * m1 + m1 - 1)))

/-- `BSplineFunc.as_nurbs`: `NurbsFunc(kvs, coeffs.copy(), ones(N))` -/
def Func.bspAsNurbs (F : Func α) : Func α :=
  mkNurbs F.dims F.vshape F.c (List.replicate F.npts 1) false

/-- `NurbsFunc.translate`: `C, W = coeffs_weights(); NurbsFunc(kvs, C + offset, W)` -/
def Func.nurbsTranslate (F : Func α) (off : List α) : Func α :=
  let (C, W) := F.coeffsWeights
  mkNurbs F.dims [F.ncomp - 1] ((List.range C.length).map (fun i => C.getD i 0 + bcast off i)) W false

def Func.nurbsScale (F : Func α) (fac : List α) : Func α :=
  let (C, W) := F.coeffsWeights
  mkNurbs F.dims [F.ncomp - 1] ((List.range C.length).map (fun i => C.getD i 0 * bcast fac i)) W false

def Func.nurbsApplyMatrix (F : Func α) (A : List (List α)) : Func α :=
  let (C, W) := F.coeffsWeights
  mkNurbs F.dims [A.length] (matApply A (F.ncomp - 1) C) W false

/-- `NurbsFunc.__getitem__(I)`: `NurbsFunc(kvs, C[..., I], coeffs[..., -1], premultiplied=True)`
with `C = coeffs[..., :-1]` -/
def Func.nurbsGetItem (F : Func α) (I : Nat) : Func α :=
  let m1 := F.ncomp
  let n := F.c.length / m1
  mkNurbs F.dims [] ((List.range n).map (fun k => F.at (k * m1 + I)))
    ((List.range n).map (fun k => F.at (k * m1 + m1 - 1))) true

def Func.nurbsGetItems (F : Func α) (Is : List Nat) : Func α :=
  let m1 := F.ncomp
  let n := F.c.length / m1
  mkNurbs F.dims [Is.length] ((List.range n).flatMap (fun k => Is.map (fun I => F.at (k * m1 + I))))
    ((List.range n).map (fun k => F.at (k * m1 + m1 - 1))) true

/-- `NurbsFunc.as_vector` -/
def Func.nurbsAsVector (F : Func α) : Func α := { F with isscalar := false }

/-- `boundary(bdspec)` of a BSplineFunc / NurbsFunc without support override -/
def Func.boundary (F : Func α) (axis side : Nat) : Func α :=
  let dims' := F.dims.eraseIdx axis
  { F with dims := dims',
           c := (List.range (prod dims' * F.ncomp)).map (fun k => F.at (sliceIndex F.dims F.ncomp axis side k)) }

/-- `copy()`: `BSplineFunc(kvs.copy(), coeffs.copy())` resp.
`NurbsFunc(kvs.copy(), coeffs.copy(), None, premultiplied=True)` followed (since 91ad8af / f22e87b)
by `g._isscalar = self._isscalar; g._support_override = self._support_override`: the identity on
the stored data.  `asPinned = true` is the earlier code, which re-derived `_isscalar` from the
trailing axis of the stored coefficients (always present): the copy of a scalar NURBS was a
`(1,)`-vector NURBS. -/
def Func.copy (F : Func α) (asPinned : Bool := false) : Func α :=
  if asPinned && F.nurbs then { F with isscalar := false } else F

/-- `boundary(bdspec)` including what the constructors do with the sliced array.  Current code
(bd2c016, 91ad8af): the slice is used as it is (a 1-D array is reshaped as a flat coefficient
vector only when `sdim > 0`), and a NURBS boundary keeps `_isscalar`.
`asPinned = true` is the earlier code:
* NURBS: `NurbsFunc(kvs, coeffs, weights=None, premultiplied=True)` lost the scalar flag;
* a 1-D coefficient array was always taken for a coefficient *vector*
  (`assert coeffs.shape[0] == np.prod(N)`, then `reshape(N)`): for a curve (`sdim = 1`, `N = ()`)
  this asserted unless the trailing axis had length 1, in which case the axis was dropped. -/
def Func.boundaryCoded (F : Func α) (axis side : Nat) (asPinned : Bool := false) : Except String (Func α) :=
  let R := F.boundary axis side
  if asPinned then
    if F.dims.length = 1 ∧ F.vshape.length = 1 then
      if F.vshape = [1] ∧ ¬ F.nurbs then .ok { R with vshape := [] }
      else .error "err-AssertionError"
    else .ok (if F.nurbs then { R with isscalar := false } else R)
  else .ok R

/-! #### outer operations.  `kvs = G1.kvs + G2.kvs`: G1's axes come first (slow), G2's last. -/

/-- `_prepare_for_outer` + a binary broadcasted operation on the trailing components:
`C1.reshape(SD1,1…,VD1) ∘ C2.reshape(1…,SD2,VD2)`; `m1`, `m2` trailing sizes (1 = scalar
operand broadcast against a vector operand, else equal). -/
def outerOp (op : α → α → α) (n1 m1 n2 m2 : Nat) (C1 C2 : List α) : List α :=
  let m := max m1 m2
  (List.range n1).flatMap (fun I1 => (List.range n2).flatMap (fun I2 => (List.range m).map (fun b =>
    op (C1.getD (I1 * m1 + b % m1) 0) (C2.getD (I2 * m2 + b % m2) 0))))

def outerVshape (v1 v2 : List Nat) : List Nat := if v1.length ≥ v2.length then v1 else v2

/-- `outer_sum` / `outer_product` of two BSplineFuncs -/
def bspOuter (op : α → α → α) (G1 G2 : Func α) : Func α :=
  { nurbs := false, dims := G1.dims ++ G2.dims, vshape := outerVshape G1.vshape G2.vshape, isscalar := false,
    c := outerOp op G1.npts G1.ncomp G2.npts G2.ncomp G1.c G2.c }

/-- numpy broadcasting of two trailing value shapes (right-aligned, the shorter one padded with
singleton axes at the FRONT, as `_prepare_for_outer` does since de9e585); `none` = the shapes
are not broadcastable (`ValueError`). -/
def broadcastShape (v1 v2 : List Nat) : Option (List Nat) :=
  let n := max v1.length v2.length
  let p1 := List.replicate (n - v1.length) 1 ++ v1
  let p2 := List.replicate (n - v2.length) 1 ++ v2
  if (p1.zip p2).all (fun (a, b) => a == b || a == 1 || b == 1) then
    some ((p1.zip p2).map (fun (a, b) => max a b))
  else none

/-- flat index into an operand of value shape `v` for the flat index `b` of the broadcast
result of shape `vres`: the operand sees the last `len v` digits of `b`, with digit `0` on its
singleton axes. -/
def bcastIndex (vres v : List Nat) (b : Nat) : Nat :=
  let digits := (fromSeq b vres).drop (vres.length - v.length)
  toSeq ((digits.zip v).map (fun (d, n) => if n = 1 then 0 else d)) v

/-- `outer_sum` / `outer_product` of two BSplineFuncs with value shapes of any rank
(`_prepare_for_outer` + numpy broadcasting of `C1.reshape(SD1,1…,VD1') ∘ C2.reshape(1…,SD2,VD2')`). -/
def bspOuterG (op : α → α → α) (G1 G2 : Func α) : Except String (Func α) :=
  match broadcastShape G1.vshape G2.vshape with
  | none => .error "err-ValueError"
  | some vres =>
    .ok { nurbs := false, dims := G1.dims ++ G2.dims, vshape := vres, isscalar := false,
          c := (List.range G1.npts).flatMap (fun I1 => (List.range G2.npts).flatMap (fun I2 =>
            (List.range (prod vres)).map (fun b =>
              op (G1.at (I1 * G1.ncomp + bcastIndex vres G1.vshape b))
                 (G2.at (I2 * G2.ncomp + bcastIndex vres G2.vshape b))))) }

/-- `outer_sum` / `outer_product` when either operand is a NURBS (`Gi` already `as_nurbs`):
`NurbsFunc(kvs, C1 ∘ C2, W1 * W2)` on the de-premultiplied coefficients -/
def nurbsOuter (op : α → α → α) (G1 G2 : Func α) : Func α :=
  let (C1, W1) := G1.coeffsWeights
  let (C2, W2) := G2.coeffsWeights
  let m1 := G1.ncomp - 1; let m2 := G2.ncomp - 1
  mkNurbs (G1.dims ++ G2.dims) [max m1 m2]
    (outerOp op G1.npts m1 G2.npts m2 C1 C2)
    (outerOp (· * ·) G1.npts 1 G2.npts 1 W1 W2) false

/-- `tensor_product(G1, G2)` coefficient array: `C = np.concatenate((C2, C1), axis=-1)` after
broadcasting both to the joint control grid -/
def tensorC (n1 m1 n2 m2 : Nat) (C1 C2 : List α) : List α :=
  (List.range n1).flatMap (fun I1 => (List.range n2).flatMap (fun I2 =>
    (List.range m2).map (fun b => C2.getD (I2 * m2 + b) 0) ++ (List.range m1).map (fun b => C1.getD (I1 * m1 + b) 0)))

/-- `tensor_product` of two BSplineFuncs (scalars first converted with `as_vector`) -/
def bspTensor (G1 G2 : Func α) : Func α :=
  { nurbs := false, dims := G1.dims ++ G2.dims, vshape := [G1.ncomp + G2.ncomp], isscalar := false,
    c := tensorC G1.npts G1.ncomp G2.npts G2.ncomp G1.c G2.c }

/-- `tensor_product` when either operand is a NURBS -/
def nurbsTensor (G1 G2 : Func α) : Func α :=
  let (C1, W1) := G1.coeffsWeights
  let (C2, W2) := G2.coeffsWeights
  let m1 := G1.ncomp - 1; let m2 := G2.ncomp - 1
  mkNurbs (G1.dims ++ G2.dims) [m1 + m2] (tensorC G1.npts m1 G2.npts m2 C1 C2)
    (outerOp (· * ·) G1.npts 1 G2.npts 1 W1 W2) false

/-! #### curves -/

/-- `line_segment(x0, x1, intervals)`: `S = linspace(0,1,intervals+1); coeffs = (1-S)*x0 + S*x1`;
`S` is an input (the doubles numpy produced). -/
def lineSegment (x0 x1 S : List α) : Func α :=
  { nurbs := false, dims := [S.length], vshape := [x0.length], isscalar := false,
    c := S.flatMap (fun s => (x0.zip x1).map (fun (a, b) => (1 - s) * a + s * b)) }

/-- `circular_arc_3pt/5pt/7pt`: `coeffs = [(cos a, sin a) for a in linspace(0, alpha, n)]`,
weights alternate `1, w, 1, w, …`; `NurbsFunc(kv, r * coeffs, weights=W, premultiplied=True)`.
`cs` = the (cos, sin) pairs, `w` = `cos(alpha/(n-1))` as computed by numpy (inputs). -/
def circularArc (cs : List (α × α)) (w r : α) : Func α :=
  let n := cs.length
  mkNurbs [n] [2] (cs.flatMap (fun p => [r * p.1, r * p.2]))
    ((List.range n).map (fun k => if k % 2 = 0 then (1 : α) else w)) true

/-- `quarter_annulus(r1, r2)`: coefficient table with weights in the last component,
`NurbsFunc((kvy,kvx), coeffs, weights=None)` (so the constructor premultiplies);
`w` = `1/sqrt(2)` (input). -/
def quarterAnnulus (r1 r2 w : α) : Func α :=
  mkNurbs [3, 2] [2] [r1, 0, r2, 0, r1, r1, r2, r2, 0, r1, 0, r2] [1, 1, w, w, 1, 1] false

/-! ### ComposedFunction  (`geo(x) = geo2(geo1(x))`, geometry.py:341-378) -/

/-- `ComposedFunction.grid_eval` at one grid node: `XY = geo1.grid_eval(grd)`, then
`geo2.pointwise_eval(np.rollaxis(XY, -1))` — component `e` of `geo1`'s value becomes the xyz
coordinate `e` handed to `geo2`'s scattered route.  `mid[e]` = that coordinate (an input: the
implementation's own double), `B2` the 1-D data of `geo2`'s knot vectors at it. -/
def composedVal {X : Type} [Inhabited X] (S2 : Spl α) (B2 : Nat → X → Info α) (mid : List X) (j : Nat) : α :=
  S2.pwVal B2 mid j

/-- `np.matmul(A, B)` for one pair of matrices given as lists of rows -/
def matMul (A B : List (List α)) : List (List α) :=
  A.map (fun row => (List.range (B.headD []).length).map (fun m =>
    sumTo row.length (fun e => row.getD e 0 * (B.getD e []).getD m 0)))

/-- `ComposedFunction.grid_jacobian` at one node: `np.matmul(jac2, jac1)` with
`jac1 = geo1.grid_jacobian(grd)` (`dim1 × sdim1`) and
`jac2 = geo2.pointwise_jacobian(np.rollaxis(XY, -1))` (`dim2 × sdim2`, `sdim2 = dim1`). -/
def composedJac (jac2 jac1 : List (List α)) : List (List α) := matMul jac2 jac1

/-! ### more constructors -/

/-- `functools.reduce(tensor_product, segs)`: `tp(tp(tp(L0, L1), L2), …)` -/
def reduceTensor : List (Func α) → Func α
  | [] => { nurbs := false, dims := [], vshape := [0], isscalar := false, c := [] }
  | L :: Ls => Ls.foldl bspTensor L

/-- `unit_cube(dim, num_intervals)`: `reduce(tensor_product, dim * (line_segment(0, 1, intervals=n),))`;
`S = linspace(0, 1, n+1)` is an input -/
def unitCube (dim : Nat) (S : List α) : Func α :=
  reduceTensor (List.replicate dim (lineSegment [0] [1] S))

/-- `identity(extents)`: `reduce(tensor_product, (line_segment(ex[0], ex[1], support=ex) for ex in extents))`
(`intervals = 1`, so `S = [0, 1]`) -/
def identityGeo (extents : List (α × α)) : Func α :=
  reduceTensor (extents.map (fun ex => lineSegment [ex.1] [ex.2] [0, 1]))

/-- `BSplineFunc.cylinderize(z0, z1, support)`: `tensor_product(line_segment(z0, z1, support=support), self)` -/
def Func.cylinderize (F : Func α) (z0 z1 : α) : Func α :=
  bspTensor (lineSegment [z0] [z1] [0, 1]) (F.bspAsVector)

/-- `np.flipud(coeffs)`: reverse the first coefficient axis -/
def Func.flipud (F : Func α) : Func α :=
  let n0 := F.dims.headD 1
  let inner := F.c.length / n0
  { F with c := (List.range n0).flatMap (fun i => (List.range inner).map (fun k => F.at ((n0 - 1 - i) * inner + k))) }

/-- `_combine_boundary_curves(bottom, top, left, right)` followed by the rest of `disk(r)`:
```
coeffs = np.full((3, 3, 3), nan); coeffs[:, 0] = left; coeffs[:, -1] = right
coeffs[0, :] = bottom; coeffs[-1, :] = top; coeffs[1, 1] = (0, 0, 0.5)
if r != 1.0: coeffs[:, :, :2] *= r
NurbsFunc(kvs, coeffs, None, premultiplied=True)
```
each curve is a list of 3 homogeneous control points `[x, y, w]` (flat, length 9); later
assignments overwrite earlier ones exactly as in the code (corners come from bottom/top). -/
def diskAssemble (bottom top left right : List α) (half r : α) (scaleR : Bool) : Func α :=
  let pt := fun (cv : List α) (i : Nat) => [cv.getD (3 * i) 0, cv.getD (3 * i + 1) 0, cv.getD (3 * i + 2) 0]
  let grid : List (List α) :=
    [pt bottom 0, pt bottom 1, pt bottom 2,
     pt left 1, [0, 0, half], pt right 1,
     pt top 0, pt top 1, pt top 2]
  let sc := fun (p : List α) => if scaleR then [r * p.getD 0 0, r * p.getD 1 0, p.getD 2 0] else p
  { nurbs := true, dims := [3, 3], vshape := [3], isscalar := false, c := (grid.map sc).flatten }

/-! ### apply_matrix with one matrix per control point -/

/-- `np.matmul(A, C[..., None])` squeezed, `A` an array of `r × m` matrices whose batch shape
`ab` broadcasts (numpy rules: right-aligned, singleton axes repeat) against the control grid
`dims`: control point `I` is multiplied by the matrix with flat batch index
`bcastIndex dims ab I`.  `As` = the matrices in C order of the batch shape. -/
def matApplyB (As : List (List (List α))) (ab dims : List Nat) (r m : Nat) (c : List α) : List α :=
  (List.range (prod dims)).flatMap (fun I =>
    let A := As.getD (bcastIndex dims ab I) []
    (List.range r).map (fun a => sumTo m (fun b => (A.getD a []).getD b 0 * c.getD (I * m + b) 0)))

/-- `BSplineFunc.apply_matrix(A)` with an array of matrices (documented: "an array of matrices,
one for each control point. Standard numpy broadcasting rules apply") -/
def Func.bspApplyMatrixB (F : Func α) (As : List (List (List α))) (ab : List Nat) (r : Nat) : Func α :=
  { F with vshape := [r], c := matApplyB As ab F.dims r F.ncomp F.c }

/-- `NurbsFunc.apply_matrix(A)` with an array of matrices -/
def Func.nurbsApplyMatrixB (F : Func α) (As : List (List (List α))) (ab : List Nat) (r : Nat) : Func α :=
  let (C, W) := F.coeffsWeights
  mkNurbs F.dims [r] (matApplyB As ab F.dims r (F.ncomp - 1) C) W false

end Pyiga.Geo
