/-
Property C14 — multipatch gluing is the equivalence closure of the joins, in any order.
Property theorems only (helper lemmas live in Proofs/Multipatch.lean, Proofs/MultipatchMat.lean).

All statements quantify over *every* number of patches, every patch size and every history of
joins (any order, repetitions, arbitrary identifications), with no bound.
-/
import Pyiga.Proofs.Multipatch
import Pyiga.Proofs.MultipatchMat
import Pyiga.Proofs.MultipatchSlice
import Pyiga.Proofs.MultipatchPhases
import Pyiga.Proofs.MultipatchSplit
import Mathlib.Logic.Equiv.Basic
import Mathlib.Data.Fin.Embedding

namespace Pyiga.Props.C14
open Pyiga.MP Relation

/-- the finalized multipatch object (`P` patches, `N p` dofs in patch `p`) after the history `L` of
elementary identifications `(p1,i1) ~ (p2,i2)` processed by `join_dofs`, variant `cfg` -/
def globOf (cfg : Cfg) (P : Nat) (N : Nat → Nat) (L : List (Dof × Dof)) : Glob :=
  ⟨P, N, finalize cfg (runPairs cfg State.init L)⟩

/-- every joined dof exists -/
def ValidPairs (P : Nat) (N : Nat → Nat) (L : List (Dof × Dof)) : Prop :=
  ∀ ab ∈ L, ValidDof P N ab.1 ∧ ValidDof P N ab.2

/-- what C14 demands of a finalized object `G` for the declared identifications `L`:
(1) two existing dofs get the same global index iff they are connected by a chain of declared
    identifications; (2) every global index is below `numdofs`; (3) every number below `numdofs` is
    the global index of some dof.  (1)-(3) say that `global` induces a bijection between the classes
    of the equivalence closure and `range numdofs`, i.e. `numdofs` = number of classes. -/
def Glued (G : Glob) (L : List (Dof × Dof)) : Prop :=
  (∀ x y, ValidDof G.P G.N x → ValidDof G.P G.N y →
      (G.globalIdx x.1 x.2 = G.globalIdx y.1 y.2 ↔ EqvGen (Declared L) x y)) ∧
  (∀ x, ValidDof G.P G.N x → G.globalIdx x.1 x.2 < G.numdofs) ∧
  (∀ g, g < G.numdofs → ∃ x, ValidDof G.P G.N x ∧ G.globalIdx x.1 x.2 = g)

/-- the full statement of the property for a variant of the algorithm -/
def GlueSpec (cfg : Cfg) : Prop :=
  ∀ (P : Nat) (N : Nat → Nat) (L : List (Dof × Dof)), ValidPairs P N L → Glued (globOf cfg P N L) L

/-- a state that satisfies the invariants is glued correctly -/
theorem glued_of_invariants {G : Glob} {L : List (Dof × Dof)} (hI : Inv G.st) (hS : Sound G.st L)
    (hC : ∀ ab ∈ L, Cls G.st ab.1 ab.2) (hne : AllNonempty G.st) (hV : ValidSt G.P G.N G.st) :
    Glued G L :=
  ⟨fun x y hx hy => (G.globalIdx_eq_iff hI hx hy).trans (cls_iff_eqvGen hI hS hC x y),
   fun _ hx => G.globalIdx_lt hI hx.1 hx.2,
   fun _ hg => G.globalIdx_surj hI hne hV hg⟩

/-- **glue_spec** (repaired algorithm, fixes/C14-join-merge.patch): for every number of patches,
every patch size and *every* history of joins — any order, any repetition, any identification of
existing dofs — `global(p,i) = global(q,j)` iff `(p,i)` and `(q,j)` are related by the equivalence
closure of the declared identifications, and the numbering is gap-free onto `range numdofs`. -/
theorem glue_spec : GlueSpec Cfg.repaired := by
  intro P N L hval
  obtain ⟨hI, hS, hV, hC⟩ := runPairs_ok (P := P) (N := N) Cfg.repaired rfl L State.init []
    Inv.init (fun s x y hx _ => by simp [State.init] at hx) (fun s x hx => by simp [State.init] at hx)
    (fun _ h => by simp at h) hval
  simp only [List.nil_append] at hS hC
  refine glued_of_invariants (G := globOf Cfg.repaired P N L) hI.compact ?_ ?_ (allNonempty_compact _) hV.compact
  · intro k x y hx hy
    have := (cls_compact hI x y).1 (Or.inr ⟨k, hx, hy⟩)
    exact (cls_iff_eqvGen hI hS hC x y).1 this
  · intro ab hab
    exact (cls_compact hI _ _).2 (hC ab hab)

/-- the numbering clause alone, in the words of the property: `global` maps the existing dofs onto
`range numdofs` -/
theorem glue_numbering (P : Nat) (N : Nat → Nat) (L : List (Dof × Dof)) (hval : ValidPairs P N L) (g : Nat) :
    g < (globOf Cfg.repaired P N L).numdofs ↔
      ∃ x, ValidDof P N x ∧ (globOf Cfg.repaired P N L).globalIdx x.1 x.2 = g := by
  obtain ⟨_, h2, h3⟩ := glue_spec P N L hval
  exact ⟨h3 g, fun ⟨x, hx, hg⟩ => hg ▸ h2 x hx⟩

/-- the equivalence closure of the declared identifications, on the dofs that exist -/
def dofSetoid (P : Nat) (N : Nat → Nat) (L : List (Dof × Dof)) : Setoid {x : Dof // ValidDof P N x} :=
  ⟨fun x y => EqvGen (Declared L) x.1 y.1,
   ⟨fun _ => EqvGen.refl _, fun h => EqvGen.symm _ _ h, fun h1 h2 => EqvGen.trans _ _ _ h1 h2⟩⟩

/-- **numdofs = number of classes**: `global` induces a bijection between the classes of the
equivalence closure (quotient of the existing dofs) and `Fin numdofs`. -/
theorem glue_numdofs_eq_classes (P : Nat) (N : Nat → Nat) (L : List (Dof × Dof)) (hval : ValidPairs P N L) :
    Nonempty (Quotient (dofSetoid P N L) ≃ Fin (globOf Cfg.repaired P N L).numdofs) := by
  obtain ⟨h1, h2, h3⟩ := glue_spec P N L hval
  let f : Quotient (dofSetoid P N L) → Fin (globOf Cfg.repaired P N L).numdofs :=
    Quotient.lift (fun x => ⟨(globOf Cfg.repaired P N L).globalIdx x.1.1 x.1.2, h2 x.1 x.2⟩)
      (fun a b hab => Fin.ext ((h1 a.1 b.1 a.2 b.2).2 hab))
  refine ⟨Equiv.ofBijective f ⟨?_, ?_⟩⟩
  · intro q1 q2
    induction q1 using Quotient.inductionOn with | _ a =>
    induction q2 using Quotient.inductionOn with | _ b =>
    intro h
    apply Quotient.sound
    exact (h1 a.1 b.1 a.2 b.2).1 (Fin.ext_iff.1 h)
  · rintro ⟨g, hg⟩
    obtain ⟨x, hx, hgx⟩ := h3 g hg
    exact ⟨Quotient.mk _ ⟨x, hx⟩, Fin.ext hgx⟩

theorem eqvGen_congr {L L' : List (Dof × Dof)} (h : ∀ ab, ab ∈ L ↔ ab ∈ L') (x y : Dof) :
    EqvGen (Declared L) x y ↔ EqvGen (Declared L') x y :=
  ⟨eqvGen_mono (fun ab hab => (h ab).1 hab), eqvGen_mono (fun ab hab => (h ab).2 hab)⟩

/-- **order independence**: two histories that declare the same identifications — in any order, with any
repetitions — glue the same dofs together and produce the same number of global dofs. -/
theorem glue_order_independent (P : Nat) (N : Nat → Nat) (L L' : List (Dof × Dof)) (hval : ValidPairs P N L)
    (hsame : ∀ ab, ab ∈ L ↔ ab ∈ L') :
    (∀ x y, ValidDof P N x → ValidDof P N y →
      ((globOf Cfg.repaired P N L).globalIdx x.1 x.2 = (globOf Cfg.repaired P N L).globalIdx y.1 y.2 ↔
       (globOf Cfg.repaired P N L').globalIdx x.1 x.2 = (globOf Cfg.repaired P N L').globalIdx y.1 y.2)) ∧
    (globOf Cfg.repaired P N L).numdofs = (globOf Cfg.repaired P N L').numdofs := by
  have hval' : ValidPairs P N L' := fun ab hab => hval ab ((hsame ab).2 hab)
  obtain ⟨h1, _, _⟩ := glue_spec P N L hval
  obtain ⟨h1', _, _⟩ := glue_spec P N L' hval'
  refine ⟨fun x y hx hy => (h1 x y hx hy).trans ((eqvGen_congr hsame x y).trans (h1' x y hx hy).symm), ?_⟩
  obtain ⟨e⟩ := glue_numdofs_eq_classes P N L hval
  obtain ⟨e'⟩ := glue_numdofs_eq_classes P N L' hval'
  have q : Quotient (dofSetoid P N L) ≃ Quotient (dofSetoid P N L') :=
    Quotient.congr (Equiv.refl _) (fun a b => eqvGen_congr hsame a.1 b.1)
  exact Fin.equiv_iff_eq.1 ⟨e.symm.trans (q.trans e')⟩

/-- **glue_spec for histories of API calls** (`join_dofs` with its assertions, `join_boundaries`
through `boundary_dofs` with flips; a call that raises changes nothing): the finalized object is
glued along the identifications declared by the accepted calls.  Only `join_dofs` calls carry a
hypothesis (their dofs must exist); the dofs enumerated by `join_boundaries` always exist
(`boundaryDofs_lt`), so histories of `join_boundaries` calls need no hypothesis at all. -/
theorem glue_spec_calls (shapes : List (List Nat)) (calls : List Call) (hval : ∀ c ∈ calls, CallValid shapes c) :
    Glued ⟨shapes.length, fun p => Index.prod (shapes.getD p []),
      finalize Cfg.repaired (runCalls Cfg.repaired shapes State.init calls)⟩ (declaredOf shapes calls) := by
  rw [runCalls_eq]
  exact glue_spec _ _ _ (declaredOf_valid shapes calls hval)

/-- every history of `join_boundaries` calls (any patches, faces, flips, order, repetition, also
calls that raise) glues exactly the equivalence closure of the face pairings -/
theorem glue_spec_boundaries (shapes : List (List Nat)) (calls : List Call)
    (hjb : ∀ c ∈ calls, ∃ p1 ax1 s1 p2 ax2 s2 fl, c = Call.jb p1 ax1 s1 p2 ax2 s2 fl) :
    Glued ⟨shapes.length, fun p => Index.prod (shapes.getD p []),
      finalize Cfg.repaired (runCalls Cfg.repaired shapes State.init calls)⟩ (declaredOf shapes calls) := by
  apply glue_spec_calls
  intro c hc
  obtain ⟨p1, ax1, s1, p2, ax2, s2, fl, rfl⟩ := hjb c hc
  trivial

/-- non-vacuity: the cross-point history as `join_boundaries` calls declares `witnessD10`'s pairs -/
example : declaredOf [[2,2],[2,2],[2,2],[2,2]]
    [.jb 0 1 1 1 1 0 none, .jb 2 1 1 3 1 0 none, .jb 0 0 1 2 0 0 none, .jb 1 0 1 3 0 0 (some [false])] =
    [((0,1),(1,0)), ((0,3),(1,2)),  ((2,1),(3,0)), ((2,3),(3,2)),
     ((0,2),(2,0)), ((0,3),(2,1)),  ((1,2),(3,0)), ((1,3),(3,1))] := by decide

/-- **glue_spec_phases**: one object through any number of phases (joins, `finalize()`, more joins — also
identifications that merge classes formed before an earlier `finalize()` — `finalize()` again, …): after every
phase the numbering recomputed from the current tables glues exactly the equivalence closure of *all*
identifications declared so far, gap-free.  (Anything a query caches across `finalize()` therefore goes stale:
the harness diffs `compute_dirichlet_bcs`, `patch_to_global_idx`, `assemble_system` after every phase.) -/
theorem glue_spec_phases (P : Nat) (N : Nat → Nat) (phases : List (List (Dof × Dof)))
    (hval : ∀ L ∈ phases, ValidPairs P N L) :
    Glued ⟨P, N, runPhases Cfg.repaired State.init phases⟩ phases.flatten := by
  have g := runPhases_good (P := P) (N := N) phases State.init [] (Good.init P N) hval
  simp only [List.nil_append] at g
  exact glued_of_invariants (G := ⟨P, N, runPhases Cfg.repaired State.init phases⟩) g.inv g.sound g.cls g.nonempty g.valid

/-- the same for phases of API calls (`join_boundaries` calls need no hypothesis) -/
theorem glue_spec_call_phases (shapes : List (List Nat)) (phases : List (List Call))
    (hval : ∀ cs ∈ phases, ∀ c ∈ cs, CallValid shapes c) :
    Glued ⟨shapes.length, fun p => Index.prod (shapes.getD p []),
      runCallPhases Cfg.repaired shapes State.init phases⟩ (phases.map (declaredOf shapes)).flatten := by
  rw [runCallPhases_eq]
  apply glue_spec_phases
  intro L hL
  obtain ⟨cs, hcs, rfl⟩ := List.mem_map.1 hL
  exact declaredOf_valid shapes cs (hval cs hcs)

example : (⟨4, fun _ => 4, runPhases Cfg.repaired State.init
      [[((0,1),(1,0)), ((0,3),(1,2)), ((2,1),(3,0)), ((2,3),(3,2))],
       [((0,2),(2,0)), ((0,3),(2,1)), ((1,2),(3,0)), ((1,3),(3,1))]]⟩ : Glob).numdofs = 9 := by decide

/-- on histories without a join that meets two existing classes the original source and the repaired
algorithm compute the same tables -/
theorem asCoded_eq_repaired_of_noMeet (L : List (Dof × Dof)) (h : noMeet State.init L = true) :
    runPairs Cfg.asCoded State.init L = runPairs Cfg.repaired State.init L :=
  (runPairs_noMeet L State.init h (fun _ hk => by simp [State.init] at hk)).1

/-- **glue_spec_partial** (original source, before ddfa3af): the property holds for every history in which no join
meets two already-shared dofs with different shared ids (e.g. the order produced by
`detect_interfaces` for grid-like complexes). -/
theorem glue_spec_partial (P : Nat) (N : Nat → Nat) (L : List (Dof × Dof)) (hval : ValidPairs P N L)
    (hno : noMeet State.init L = true) : Glued (globOf Cfg.asCoded P N L) L := by
  obtain ⟨heq, hne⟩ := runPairs_noMeet L State.init hno (fun _ hk => by simp [State.init] at hk)
  obtain ⟨hI, hS, hV, hC⟩ := runPairs_ok (P := P) (N := N) Cfg.repaired rfl L State.init []
    Inv.init (fun s x y hx _ => by simp [State.init] at hx) (fun s x hx => by simp [State.init] at hx)
    (fun _ h => by simp at h) hval
  simp only [List.nil_append] at hS hC
  have e : globOf Cfg.asCoded P N L = ⟨P, N, runPairs Cfg.repaired State.init L⟩ := by
    show (⟨P, N, finalize Cfg.asCoded (runPairs Cfg.asCoded State.init L)⟩ : Glob) = _
    rw [heq]; rfl
  rw [e]
  exact glued_of_invariants (G := ⟨P, N, runPairs Cfg.repaired State.init L⟩) hI hS hC hne hV

/-! ### the original source does not satisfy the full statement (defect D10) -/

/-- 2×2 patches with 2×2 dofs each; `join_boundaries` in the order (0,1), (2,3), (0,2), (1,3):
right/left faces are dofs `[1,3]`/`[0,2]`, top/bottom faces `[2,3]`/`[0,1]`. -/
def witnessD10 : List (Dof × Dof) :=
  [((0,1),(1,0)), ((0,3),(1,2)),  ((2,1),(3,0)), ((2,3),(3,2)),
   ((0,2),(2,0)), ((0,3),(2,1)),  ((1,2),(3,0)), ((1,3),(3,1))]

theorem witnessD10_valid : ValidPairs 4 (fun _ => 4) witnessD10 := by
  intro ab hab
  simp only [witnessD10, List.mem_cons, List.not_mem_nil, or_false] at hab
  rcases hab with rfl | rfl | rfl | rfl | rfl | rfl | rfl | rfl <;> simp [ValidDof]

/-- the third join meets the classes of `(0,3)` and `(2,1)` -/
example : noMeet State.init witnessD10 = false := by decide

example : (globOf Cfg.asCoded 4 (fun _ => 4) witnessD10).numdofs = 10 := by decide
example : (globOf Cfg.repaired 4 (fun _ => 4) witnessD10).numdofs = 9 := by decide

/-- **¬ glue_spec for the original source**: on the cross-point history the numbering has a gap
(global index 6 — the phantom class `{(2,1),(3,0)}` — is taken by no dof; `numdofs = 10` for 9
classes).  The repaired code (ddfa3af) is checked against `Cfg.repaired`; a regression is recognised by the harness as this defect. -/
theorem glue_spec_asCoded_false : ¬ GlueSpec Cfg.asCoded := by
  intro H
  obtain ⟨_, _, hs⟩ := H 4 (fun _ => 4) witnessD10 witnessD10_valid
  obtain ⟨⟨p, i⟩, ⟨hp, hi⟩, hg⟩ := hs 6 (by decide)
  have hall : ∀ p, p < 4 → ∀ i, i < 4 → (globOf Cfg.asCoded 4 (fun _ => 4) witnessD10).globalIdx p i ≠ 6 := by
    decide
  exact hall p hp i hi hg

/-- the same history in an order that works today (as produced by `detect_interfaces`):
non-vacuity of `glue_spec_partial` -/
def orderOK : List (Dof × Dof) :=
  [((0,1),(1,0)), ((0,3),(1,2)),  ((0,2),(2,0)), ((0,3),(2,1)),
   ((1,2),(3,0)), ((1,3),(3,1)),  ((2,1),(3,0)), ((2,3),(3,2))]

example : noMeet State.init orderOK = true := by decide
example : (globOf Cfg.asCoded 4 (fun _ => 4) orderOK).numdofs = 9 := by decide
example : (List.range 4).map (fun p => (List.range 4).map ((globOf Cfg.repaired 4 (fun _ => 4) witnessD10).globalIdx p)) =
    [[0, 4, 7, 5], [4, 1, 5, 8], [7, 5, 2, 6], [5, 8, 6, 3]] := by decide

/-! ### a patch without shared dofs -/

/-- the original `patch_to_global_idx` (before 4c8c872) raised for a patch that takes part in no join (also for a
single-patch `Multipatch`); with fixes/C14-unshared-patch.patch it returns the numbering that
`glue_spec` is about. -/
theorem unshared_patch_asCoded_raises :
    (globOf Cfg.asCoded 1 (fun _ => 4) []).p2gIdx Cfg.asCoded 0 = .error .index ∧
    (globOf Cfg.repaired 1 (fun _ => 4) []).p2gIdx Cfg.repaired 0 = .ok [0, 1, 2, 3] := by
  constructor <;> decide

/-- whenever `p2gIdx` returns, it returns the numbering of `glue_spec` -/
theorem p2gIdx_ok (G : Glob) (cfg : Cfg) (p : Nat) (l : List Nat) (h : G.p2gIdx cfg p = .ok l) :
    l = (List.range (G.N p)).map (G.globalIdx p) := by
  unfold Glob.p2gIdx at h
  split at h
  · cases h
  · split at h
    · cases h
    · exact (Except.ok.inj h).symm


/-! ### flips -/

/-- **flip_pairs**: when `boundary_dofs(..., flip)` (that is `slice_indices(ax, idx, shape, ravel=True, flip)`)
returns, the unflipped call returns too and the `k`-th dof of the flipped enumeration is the raveled `k`-th
multi-index of the unflipped face with its coordinates reversed (`n-1-c`) on the flipped axes — so
`join_boundaries` pairs the `k`-th dof of face 1 with the dof of face 2 that has reversed coordinates on
the flipped axes (faces of any dimension). -/
theorem flip_pairs (ax : Nat) (idx : Int) (shape : List Nat) (fl : List Bool) (l : List Nat)
    (h : Slice.sliceIndices ax idx shape (some fl) = .ok l) :
    ∃ i, Slice.sliceIndices ax idx shape none = .ok ((Slice.sliceMulti ax i shape none).map (fun I => Index.toSeq I shape)) ∧
      l = (Slice.sliceMulti ax i shape none).map
        (fun I => Index.toSeq (flipIdx shape (Slice.insertFalse ax fl) I) shape) := by
  obtain ⟨hax, i, hw, rfl⟩ := sliceIndices_ok h
  refine ⟨i, sliceIndices_none_of_ok hax hw, ?_⟩
  simp only [Slice.sliceRavel, sliceMulti_flip, List.map_map]
  rfl

example : Slice.sliceIndices 1 (-1) [3, 2, 2] (some [true, false]) = .ok [10, 11, 6, 7, 2, 3] ∧
    Slice.sliceIndices 1 (-1) [3, 2, 2] none = .ok [2, 3, 6, 7, 10, 11] ∧
    (Slice.sliceMulti 1 1 [3, 2, 2] none).map (flipIdx [3, 2, 2] (Slice.insertFalse 1 [true, false])) =
      [[2,1,0],[2,1,1],[1,1,0],[1,1,1],[0,1,0],[0,1,1]] := by decide

/-! ### `patch_to_global` and `assemble_system` (any semiring of coefficients) -/

section Matrices
variable {α : Type} [Semiring α]

/-- the tables of the finalized repaired object are consistent (hypothesis of the matrix theorems) -/
theorem globOf_inv (P : Nat) (N : Nat → Nat) (L : List (Dof × Dof)) (hval : ValidPairs P N L) :
    Inv (globOf Cfg.repaired P N L).st := by
  obtain ⟨hI, _, _, _⟩ := runPairs_ok (P := P) (N := N) Cfg.repaired rfl L State.init []
    Inv.init (fun s x y hx _ => by simp [State.init] at hx) (fun s x hx => by simp [State.init] at hx)
    (fun _ h => by simp at h) hval
  exact hI.compact

/-- no shared dof contains two dofs of patch `p` (true for conforming complexes; checked by the harness) -/
def NoTwoInPatch (st : State) (p : Nat) : Prop :=
  ∀ s i j, ((p, i) : Dof) ∈ st.sd s → ((p, j) : Dof) ∈ st.sd s → i = j

/-- **p2g_matrix (columns)**: `patch_to_global(p)` has exactly one entry 1 per column `j`, in row
`global(p,j) < numdofs`; all other entries of the column are 0. -/
theorem p2g_matrix_column (G : Glob) (hI : Inv G.st) (p j : Nat) (hp : p < G.P) (hj : j < G.N p) :
    (∀ g, (G.patchToGlobal p : Mat α).e g j = if g = G.globalIdx p j then 1 else 0) ∧
    G.globalIdx p j < G.numdofs ∧
    ((List.range G.numdofs).map (fun g => (G.patchToGlobal p : Mat α).e g j)).sum = 1 := by
  have hlt := G.globalIdx_lt hI (x := (p, j)) hp hj
  exact ⟨G.patchToGlobal_col p j hj, hlt, G.patchToGlobal_col_sum p j hj hlt⟩

/-- **p2g_matrix (left inverse)**: if no shared dof contains two dofs of patch `p` then
`patch_to_global(p)ᵀ · patch_to_global(p) = I`. -/
theorem p2g_matrix_orthonormal (G : Glob) (hI : Inv G.st) (p : Nat) (hp : p < G.P) (h2 : NoTwoInPatch G.st p)
    (i j : Nat) (hi : i < G.N p) (hj : j < G.N p) :
    (((G.patchToGlobal p : Mat α).transpose).mul (G.patchToGlobal p)).e i j = if i = j then 1 else 0 := by
  apply G.patchToGlobal_gram p _ (fun i hi => G.globalIdx_lt hI (x := (p, i)) hp hi) i j hi hj
  intro a b ha hb hab
  rcases (G.globalIdx_eq_iff hI (x := (p, a)) (y := (p, b)) ⟨hp, ha⟩ ⟨hp, hb⟩).1 hab with h | ⟨s, hx, hy⟩
  · exact (Prod.mk.inj h).2
  · exact h2 s a b hx hy

/-- **assemble_accumulate**: the matrix accumulated by `assemble_system` is `Σ_p X_p A_p X_pᵀ`, i.e.
`A[g,h] = Σ_p Σ_{i,j : global(p,i)=g, global(p,j)=h} A_p[i,j]`. -/
theorem assemble_accumulate (G : Glob) (Ap : Nat → Mat α) (hn : ∀ p, p < G.P → (Ap p).n = G.N p) (g h : Nat) :
    (G.assembleA Ap).e g h =
      ((List.range G.P).map (fun p => ((List.range (G.N p)).map (fun j => ((List.range (G.N p)).map (fun i =>
        if G.globalIdx p i = g ∧ G.globalIdx p j = h then (Ap p).e i j else 0)).sum)).sum)).sum := by
  unfold Glob.assembleA
  have := Glob.foldl_add_e (fun p => ((G.patchToGlobal p : Mat α).mul (Ap p)).mul (G.patchToGlobal p : Mat α).transpose)
    (List.range G.P) (Mat.zero G.numdofs G.numdofs) g h
  refine this.trans ?_
  simp only [Mat.zero, zero_add]
  apply sum_map_congr
  intro p hp
  exact G.sandwich_e p (Ap p) (hn p (List.mem_range.1 hp)) g h

/-- the right-hand side likewise: `b[g] = Σ_p Σ_{i : global(p,i)=g} b_p[i]` -/
theorem assemble_accumulate_rhs (G : Glob) (bp : Nat → Nat → α) (g : Nat) :
    (G.assembleB bp) g =
      ((List.range G.P).map (fun p => ((List.range (G.N p)).map (fun i =>
        if G.globalIdx p i = g then bp p i else 0)).sum)).sum := by
  unfold Glob.assembleB
  have := Glob.foldl_addVec (fun p => (G.patchToGlobal p : Mat α).mulVec (bp p)) (List.range G.P) (fun _ => 0) g
  refine this.trans ?_
  simp only [zero_add]
  apply sum_map_congr
  intro p _
  show Mat.sumList ((List.range (G.N p)).map (fun k => (G.patchToGlobal p : Mat α).e g k * bp p k)) = _
  rw [sumList_eq_sum]
  apply sum_map_congr
  intro i hi
  have hi' : i < G.N p := List.mem_range.1 hi
  rw [Glob.patchToGlobal_e]
  by_cases h1 : G.globalIdx p i = g <;> simp [h1, hi']

/-! ### conforming decomposition = undivided domain -/

/-- the restriction of global basis function `g` to patch `p` is the sum of the local functions glued to it
(`ψ p i` = local basis function `i` of patch `p`, an element of any additive monoid of functions) -/
def restrictTo {V : Type} [AddCommMonoid V] (G : Glob) (ψ : Nat → Nat → V) (p g : Nat) : V :=
  ((List.range (G.N p)).map (fun i => if G.globalIdx p i = g then ψ p i else 0)).sum

/-- **split_assembly** ("assembling over a conforming decomposition gives, up to the renumbering, the system of the
undivided domain"), at the algebraic level: let `ψ p i` be the local basis functions, let the patch forms `a_p` be
bi-additive, let the patch matrices be `A_p[i,j] = a_p(ψ_i, ψ_j)`.  Then the matrix accumulated by `assemble_system`
has the entries `Σ_p a_p(φ_g|_p, φ_h|_p)` where `φ_g|_p = Σ_{global(p,i)=g} ψ_{p,i}` is the restriction to patch `p` of
the global function made of the glued pieces (classes = global functions, `glue_spec`; one 1 per column of `X_p`,
`p2g_matrix_column`). -/
theorem split_assembly_entry {V : Type} [AddCommMonoid V] (G : Glob) (ψ : Nat → Nat → V) (a : Nat → V → V → α)
    (h0l : ∀ p v, a p 0 v = 0) (h0r : ∀ p u, a p u 0 = 0)
    (hl : ∀ p u u' v, a p (u + u') v = a p u v + a p u' v) (hr : ∀ p u v v', a p u (v + v') = a p u v + a p u v')
    (Ap : Nat → Mat α) (hn : ∀ p, p < G.P → (Ap p).n = G.N p)
    (hA : ∀ p i j, (Ap p).e i j = a p (ψ p i) (ψ p j)) (g h : Nat) :
    (G.assembleA Ap).e g h = ((List.range G.P).map (fun p => a p (restrictTo G ψ p g) (restrictTo G ψ p h))).sum := by
  rw [assemble_accumulate G Ap hn g h]
  apply sum_map_congr
  intro p _
  unfold restrictTo
  rw [map_list_sum (fun v => a p _ v) (h0r p _) (fun v v' => hr p _ v v'), List.map_map]
  apply sum_map_congr
  intro j _
  simp only [Function.comp]
  rw [map_list_sum (fun u => a p u _) (h0l p _) (fun u u' => hl p u u' _), List.map_map]
  apply sum_map_congr
  intro i _
  simp only [Function.comp, hA]
  by_cases h1 : G.globalIdx p i = g <;> by_cases h2 : G.globalIdx p j = h <;> simp [h1, h2, h0l, h0r]

/-- … hence, if the form of the undivided domain is additive over the decomposition,
`a(φ_g, φ_h) = Σ_p a_p(φ_g|_p, φ_h|_p)` (hypothesis: the patches partition the domain and the form is an integral),
the accumulated multipatch matrix **is** the matrix of the undivided domain in the glued numbering. -/
theorem split_assembly {V : Type} [AddCommMonoid V] (G : Glob) (ψ : Nat → Nat → V) (a : Nat → V → V → α)
    (h0l : ∀ p v, a p 0 v = 0) (h0r : ∀ p u, a p u 0 = 0)
    (hl : ∀ p u u' v, a p (u + u') v = a p u v + a p u' v) (hr : ∀ p u v v', a p u (v + v') = a p u v + a p u v')
    (Ap : Nat → Mat α) (hn : ∀ p, p < G.P → (Ap p).n = G.N p)
    (hA : ∀ p i j, (Ap p).e i j = a p (ψ p i) (ψ p j))
    (afull : Nat → Nat → α)
    (hadd : ∀ g h, afull g h = ((List.range G.P).map (fun p => a p (restrictTo G ψ p g) (restrictTo G ψ p h))).sum)
    (g h : Nat) : (G.assembleA Ap).e g h = afull g h := by
  rw [hadd, split_assembly_entry G ψ a h0l h0r hl hr Ap hn hA]

/-- the load vector likewise: `b[g] = Σ_p ℓ_p(φ_g|_p)` for additive functionals `ℓ_p` -/
theorem split_assembly_rhs {V : Type} [AddCommMonoid V] (G : Glob) (ψ : Nat → Nat → V) (l : Nat → V → α)
    (h0 : ∀ p, l p 0 = 0) (hadd : ∀ p u u', l p (u + u') = l p u + l p u')
    (bp : Nat → Nat → α) (hb : ∀ p i, bp p i = l p (ψ p i)) (g : Nat) :
    (G.assembleB bp) g = ((List.range G.P).map (fun p => l p (restrictTo G ψ p g))).sum := by
  rw [assemble_accumulate_rhs G bp g]
  apply sum_map_congr
  intro p _
  unfold restrictTo
  rw [map_list_sum (l p) (h0 p) (hadd p), List.map_map]
  apply sum_map_congr
  intro i _
  simp only [Function.comp, hb]
  by_cases h1 : G.globalIdx p i = g <;> simp [h1, h0]

/-- non-vacuity: functions = integer vectors on 3 sample points, `a_p(u,v) = Σ_x u(x) v(x)` restricted to the points of
patch `p`; the hypotheses hold and the accumulated matrix of two glued 2-dof patches is the 3×3 "undivided" Gram matrix -/
example :
    let G : Glob := globOf Cfg.repaired 2 (fun _ => 2) [((0,1),(1,0))]
    let Ap : Nat → Mat Int := fun _ => ⟨2, 2, fun i j => if i = j then 2 else 1⟩
    (G.assembleA Ap).toLists = [[2, 0, 1], [0, 2, 1], [1, 1, 4]] := by decide

/-- non-vacuity / sanity on the 2×2 complex (repaired object, patch 2, integer coefficients): the
column sums are 1, `Xᵀ X` is the identity, rows of `X` are unit vectors or zero -/
example :
    let G := globOf Cfg.repaired 4 (fun _ => 4) witnessD10
    let X : Mat Int := G.patchToGlobal 2
    (X.toLists.map (·.sum)) = [0, 0, 1, 0, 0, 1, 1, 1, 0] ∧
    (X.transpose.mul X).toLists = [[1,0,0,0],[0,1,0,0],[0,0,1,0],[0,0,0,1]] := by
  decide

end Matrices

end Pyiga.Props.C14
