import Pyiga.Model.Geometry
namespace Pyiga.Props.C07
end Pyiga.Props.C07
